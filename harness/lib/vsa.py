"""Shared machinery of the VSA family (C21..C25): strided-interval enumeration, the concretisation
(member set) of an interval defined independently of claripy, the concrete semantics of every
operation, the table of operations on the REAL code, and the soundness oracle.

Conventions
* an interval is the tuple (bits, stride, lb, ub) or the string 'bottom:<bits>';
* gamma((w,s,lb,ub)) = { (lb + k*s) mod 2^w : k*s <= (ub-lb) mod 2^w }   (s = 0: {lb}); this is what
  claripy's own `eval` enumerates (checked by C22), written here without using claripy;
* a result is *well formed* when lb,ub < 2^w and (stride = 0 <-> lb = ub).  A stride-0 non-singleton makes
  `cardinality` divide by zero, so closure under well-formedness is part of the properties.
"""
import itertools

M = lambda w: (1 << w) - 1  # noqa: E731


# ---------------------------------------------------------------------------------------------- intervals
def wf(t):
    if isinstance(t, str):
        return True
    w, s, lb, ub = t
    return w > 0 and 0 <= lb <= M(w) and 0 <= ub <= M(w) and s >= 0 and ((s == 0) == (lb == ub))


def norm(w, s, lb, ub):
    """what StridedInterval.normalize does to constructor arguments (used only to enumerate distinct inputs)"""
    lb &= M(w); ub &= M(w)
    if lb == ub:
        s = 0
    if s == 1 and lb == (ub + 1) & M(w):
        lb, ub = 0, M(w)
    return (w, s, lb, ub)


def all_sis(w, aligned_only=False):
    """every distinct normalised interval of width w: singletons + all (lb != ub, 1 <= stride <= 2^w - 1)"""
    out = []
    seen = set()
    for lb in range(1 << w):
        for ub in range(1 << w):
            for s in range(0, 1 << w):
                if (s == 0) != (lb == ub):
                    continue
                t = norm(w, s, lb, ub)
                if aligned_only and s and ((ub - lb) & M(w)) % s:
                    continue
                if t not in seen:
                    seen.add(t); out.append(t)
    return out


def span(t):
    w, s, lb, ub = t
    return (ub - lb) & M(w)


def aligned(t):
    if isinstance(t, str):
        return True
    w, s, lb, ub = t
    return s == 0 or span(t) % s == 0


def wraps(t):
    return (not isinstance(t, str)) and t[2] > t[3]


def is_top(t):
    return (not isinstance(t, str)) and t[1] == 1 and t[2] == (t[3] + 1) & M(t[0])


def card(t):
    if isinstance(t, str):
        return 0
    w, s, lb, ub = t
    return 1 if s == 0 else span(t) // s + 1


def member(t, x):
    if isinstance(t, str):
        return False
    w, s, lb, ub = t
    if not 0 <= x <= M(w):
        return False
    d = (x - lb) & M(w)
    if s == 0:
        return d == 0
    return d <= span(t) and d % s == 0


def gamma(t, limit=None):
    """member list in claripy's eval order (from lb upwards, wrapping)"""
    if isinstance(t, str):
        return []
    w, s, lb, ub = t
    if s == 0:
        return [lb]
    n = span(t) // s + 1
    if limit is not None:
        n = min(n, limit)
    return [(lb + k * s) & M(w) for k in range(n)]


def sample_members(t, rng, k):
    """boundary + random members for wide intervals"""
    if isinstance(t, str):
        return []
    n = card(t)
    if n <= k:
        return gamma(t)
    w, s, lb, ub = t
    idx = {0, 1, n - 1, n - 2, n // 2}
    # members next to the poles
    if s:
        for pole in (0, 1 << (w - 1)):
            d = (pole - lb) & M(w)
            for j in (d // s, d // s + 1, d // s - 1):
                if 0 <= j < n:
                    idx.add(j)
    while len(idx) < k:
        idx.add(rng.randrange(n))
    return [(lb + j * s) & M(w) for j in sorted(idx)]


def show(t):
    if isinstance(t, str):
        return t
    return "<%d>%d[%d,%d]" % t


# ---------------------------------------------------------------------------------------------- real code
def SI():
    from claripy.backends.backend_vsa.strided_interval import StridedInterval
    return StridedInterval


def mk(t, name=None):
    S = SI()
    if isinstance(t, str):
        return S.empty(int(t.split(":")[1]))
    w, s, lb, ub = t
    return S(bits=w, stride=s, lower_bound=lb, upper_bound=ub, name=name)


def tup(si):
    """canonical tuple of a result object of the real code"""
    S = SI()
    if isinstance(si, S):
        if si.is_empty:
            return "bottom:%d" % si.bits
        return (si.bits, si.stride, si.lower_bound, si.upper_bound)
    from claripy.backends.backend_vsa.bool_result import BoolResult
    if isinstance(si, BoolResult):
        return "bool:" + "".join(sorted("T" if v else "F" for v in set(si.value)))
    if si is NotImplemented:
        return "notimpl"
    if isinstance(si, (list, tuple)):
        return [tup(x) for x in si]
    if si is None:
        return "none"
    if isinstance(si, (bool, int)):
        return si
    return "other:" + type(si).__name__


def call(fn, *a):
    """run the real code; exceptions become 'err:<Type>'"""
    import logging
    try:
        return tup(fn(*a))
    except RecursionError:
        return "err:RecursionError"
    except Exception as e:  # noqa
        return "err:" + type(e).__name__


# ---------------------------------------------------------------------------------------------- concrete semantics
def sgn(x, w):
    return x - (1 << w) if x >> (w - 1) else x


def c_sdiv(x, y, w):
    if y == 0:
        return None
    a, b = sgn(x, w), sgn(y, w)
    q = abs(a) // abs(b)
    if (a < 0) != (b < 0):
        q = -q
    return q & M(w)


def c_shl(x, y, w):
    return (x << y) & M(w) if y < w else 0


def c_lshr(x, y, w):
    return x >> y if y < w else 0


def c_ashr(x, y, w):
    return (sgn(x, w) >> min(y, w)) & M(w)


# binary operations whose operands have the same width: name -> (real callable on two SIs, concrete fn)
BIN = {
    "add": (lambda a, b: a.add(b), lambda x, y, w: (x + y) & M(w)),
    "sub": (lambda a, b: a.sub(b), lambda x, y, w: (x - y) & M(w)),
    "mul": (lambda a, b: a.mul(b), lambda x, y, w: (x * y) & M(w)),
    "udiv": (lambda a, b: a.udiv(b), lambda x, y, w: None if y == 0 else x // y),
    "sdiv": (lambda a, b: a.sdiv(b), c_sdiv),
    "mod": (lambda a, b: a % b, lambda x, y, w: None if y == 0 else x % y),
    "and": (lambda a, b: a.bitwise_and(b), lambda x, y, w: x & y),
    "or": (lambda a, b: a.bitwise_or(b), lambda x, y, w: x | y),
    "xor": (lambda a, b: a.bitwise_xor(b), lambda x, y, w: x ^ y),
    "shl": (lambda a, b: a.lshift(b), c_shl),
    "lshr": (lambda a, b: a.rshift_logical(b), c_lshr),
    "ashr": (lambda a, b: a.rshift_arithmetic(b), c_ashr),
}
CMP = {
    "ULT": (lambda a, b: a.ULT(b), lambda x, y, w: x < y),
    "ULE": (lambda a, b: a.ULE(b), lambda x, y, w: x <= y),
    "UGT": (lambda a, b: a.UGT(b), lambda x, y, w: x > y),
    "UGE": (lambda a, b: a.UGE(b), lambda x, y, w: x >= y),
    "SLT": (lambda a, b: a.SLT(b), lambda x, y, w: sgn(x, w) < sgn(y, w)),
    "SLE": (lambda a, b: a.SLE(b), lambda x, y, w: sgn(x, w) <= sgn(y, w)),
    "SGT": (lambda a, b: a.SGT(b), lambda x, y, w: sgn(x, w) > sgn(y, w)),
    "SGE": (lambda a, b: a.SGE(b), lambda x, y, w: sgn(x, w) >= sgn(y, w)),
    "eq": (lambda a, b: a.eq(b), lambda x, y, w: x == y),
    "ne": (lambda a, b: a != b, lambda x, y, w: x != y),
}
UN = {
    "neg": (lambda a: a.neg(), lambda x, w: (-x) & M(w)),
    "opneg": (lambda a: -a, lambda x, w: (-x) & M(w)),
    "not": (lambda a: a.bitwise_not(), lambda x, w: x ^ M(w)),
}
# joins/meets (C22)
JOIN = {
    "union": (lambda a, b: a.union(b)),
    "lub": (lambda a, b: SI().least_upper_bound(a, b)),
    "widen": (lambda a, b: a.widen(b)),
}


# ---------------------------------------------------------------------------------------------- uniform op table
# A *case* is (op, args) where args is a list of interval tuples and plain ints, e.g. ("extract", [a, 5, 2]).
# OPS[op] = dict(real=callable on real objects, conc=callable on member values (returns None when exempt),
#                kind = "si" | "bool", prop = "C21" | "C22")
def _ext_conc_z(x, w, nl):
    return x


def _ext_conc_s(x, w, nl):
    return sgn(x, w) & M(nl)


OPS = {}
for _n, (_f, _c) in BIN.items():
    OPS[_n] = dict(real=_f, conc=_c, kind="si", prop="C21", shape="bin")
for _n, (_f, _c) in CMP.items():
    OPS[_n] = dict(real=_f, conc=_c, kind="bool", prop="C21", shape="bin")
for _n, (_f, _c) in UN.items():
    OPS[_n] = dict(real=_f, conc=_c, kind="si", prop="C21", shape="un")
OPS["zext"] = dict(real=lambda a, nl: a.zero_extend(nl), conc=_ext_conc_z, kind="si", prop="C21", shape="ext")
OPS["sext"] = dict(real=lambda a, nl: a.sign_extend(nl), conc=_ext_conc_s, kind="si", prop="C21", shape="ext")
OPS["extract"] = dict(real=lambda a, hi, lo: a.extract(hi, lo), conc=lambda x, w, hi, lo: (x >> lo) & M(hi - lo + 1),
                      kind="si", prop="C21", shape="extract")
OPS["concat"] = dict(real=lambda a, b: a.concat(b), conc=None, kind="si", prop="C21", shape="concat")
for _n, _f in JOIN.items():
    OPS[_n] = dict(real=_f, conc=None, kind="si", prop="C22", shape="join")
OPS["intersection"] = dict(real=lambda a, b: a.intersection(b), conc=None, kind="si", prop="C22", shape="meet")
OPS["lub3"] = dict(real=lambda a, b, c: SI().least_upper_bound(a, b, c), conc=None, kind="si", prop="C22", shape="join3")


def out_width(op, args):
    sh = OPS[op]["shape"]
    a = args[0]
    w = a[0] if not isinstance(a, str) else int(a.split(":")[1])
    if sh == "ext":
        return args[1]
    if sh == "extract":
        return args[1] - args[2] + 1
    if sh == "concat":
        return w + args[1][0]
    return w


def run_real(op, args):
    objs = [mk(x) if isinstance(x, (tuple, str)) else x for x in args]
    return call(OPS[op]["real"], *objs)


def members_for(t, rng, limit):
    """all members when there are at most `limit`, else a boundary-biased sample; -> (list, exhaustive?)"""
    n = card(t)
    if n <= limit:
        return gamma(t), True
    return sample_members(t, rng, min(limit, 14)), False


def oracle(op, args, r, rng, limit=64):
    """The property on one case of the REAL code's result `r` (canonical).  -> None | (kind, detail).
    kinds: 'err:<Type>' (the operation raised), 'malformed' (result is not a well-formed interval),
    'width' (wrong result width), 'unsound' (a concrete result / operand member / truth value is missing)."""
    spec = OPS[op]
    sh = spec["shape"]
    if isinstance(r, str) and r.startswith("err:"):
        return (r, r)
    if spec["kind"] == "bool":
        if not (isinstance(r, str) and r.startswith("bool:")):
            return ("malformed", "not a BoolResult: %r" % (r,))
        a, b = args
        w = a[0]
        ga, _ = members_for(a, rng, limit)
        gb, _ = members_for(b, rng, limit)
        for x in ga:
            for y in gb:
                v = "T" if spec["conc"](x, y, w) else "F"
                if v not in r[5:]:
                    return ("unsound", "x=%d y=%d gives %s, result is {%s}" % (x, y, v, r[5:]))
        return None
    if isinstance(r, str) and not r.startswith("bottom"):
        return ("malformed", "not an interval: %r" % (r,))
    if not wf(r):
        return ("malformed", "result %s is not well formed" % (r,))
    wout = out_width(op, args)
    rw = int(r.split(":")[1]) if isinstance(r, str) else r[0]
    if rw != wout:
        return ("width", "result has %d bits, expected %d" % (rw, wout))
    if sh == "bin":
        a, b = args
        ga, _ = members_for(a, rng, limit)
        gb, _ = members_for(b, rng, limit)
        for x in ga:
            for y in gb:
                z = spec["conc"](x, y, a[0])
                if z is not None and not member(r, z):
                    return ("unsound", "x=%d y=%d: %d is not in %s" % (x, y, z, show(r)))
    elif sh in ("un", "ext", "extract"):
        a = args[0]
        ga, _ = members_for(a, rng, limit * 4)
        for x in ga:
            z = spec["conc"](x, a[0], *args[1:])
            if not member(r, z):
                return ("unsound", "x=%d: %d is not in %s" % (x, z, show(r)))
    elif sh == "concat":
        a, b = args
        ga, _ = members_for(a, rng, limit)
        gb, _ = members_for(b, rng, limit)
        for x in ga:
            for y in gb:
                z = (x << b[0]) | y
                if not member(r, z):
                    return ("unsound", "x=%d y=%d: %d is not in %s" % (x, y, z, show(r)))
    elif sh in ("join", "join3"):
        for t in args:
            g, _ = members_for(t, rng, limit * 4)
            for x in g:
                if not member(r, x):
                    return ("unsound", "member %d of %s is not in %s" % (x, show(t), show(r)))
    elif sh == "meet":
        a, b = args
        ga, ex = members_for(a, rng, limit * 64)
        for x in ga:
            if member(b, x) and not member(r, x):
                return ("unsound", "common member %d is not in %s" % (x, show(r)))
    return None


# ---------------------------------------------------------------------------------------------- classifier (finding signatures)
def has_member_in(t, lo, hi):
    """is there a member x with lo <= x <= hi (plain integer range inside [0, 2^w))?  exact, no enumeration"""
    if isinstance(t, str) or lo > hi:
        return False
    w, s, lb, ub = t
    if s == 0:
        return lo <= lb <= hi
    n = span(t) // s + 1          # members lb + k*s mod 2^w, k < n
    # piece before the wrap: k <= k1 where lb + k*s <= M(w)
    k1 = min(n - 1, (M(w) - lb) // s)
    def lin(p0, kmax):
        if kmax < 0:
            return False
        j = 0 if lo <= p0 else -((p0 - lo) // s)
        return j <= kmax and p0 + j * s <= hi
    if lin(lb, k1):
        return True
    k = k1 + 1
    rounds = 0
    while k < n and rounds < 4:     # after each wrap a new linear piece starts (stride < 2^w: few wraps matter)
        p0 = (lb + k * s) & M(w)
        kmax = min(n - 1 - k, (M(w) - p0) // s)
        if lin(p0, kmax):
            return True
        k += kmax + 1
        rounds += 1
    if k < n:                       # many wraps (stride >= 2^(w-2)...): fall back to enumeration of the rest, bounded
        for kk in range(k, min(n, k + 4096)):
            if lo <= (lb + kk * s) & M(w) <= hi:
                return True
    return False


def has_neg(t):
    return has_member_in(t, 1 << (t[0] - 1), M(t[0]))


def has_pos(t):   # strictly positive
    return has_member_in(t, 1, (1 << (t[0] - 1)) - 1)


def opclass(t):
    if isinstance(t, int):
        return str(t)
    if isinstance(t, str):
        return "bot"
    if t[1] == 0:
        return "int"
    if is_top(t):
        return "top"
    s = t[1]
    return ("wrap" if wraps(t) else "nowrap") + ("" if aligned(t) else "-unaligned") + ("" if s & (s - 1) == 0 else "-stride-npow2")


def classify(op, kind, args):
    """finding signature = property / operation / kind / predicate class of the operands (a pure function of the case)"""
    prop = OPS[op]["prop"] if op in OPS else "C22"
    sis = [x for x in args if isinstance(x, tuple)]
    head = "%s/%s/%s/" % (prop, op, kind)
    if op == "sdiv" and kind == "unsound":
        a, b = args
        if (has_neg(a) and has_pos(b)) or (has_pos(a) and has_neg(b)):
            return head + "operands-of-opposite-sign"
    if any(not aligned(x) for x in sis):
        return head + "unaligned-operand"
    if op == "widen" and kind == "unsound":
        a, b = args
        if wraps(a) or wraps(b):
            return head + "wrapping-operand"
        if b[2] < a[2]:
            return head + "lower-bound-extrapolated"
        return head + "upper-bound-extrapolated-or-kept"
    return head + "aligned:" + ",".join(opclass(x) for x in args)


# ---------------------------------------------------------------------------------------------- generators
WIDE_WIDTHS = [5, 6, 7, 8, 8, 9, 12, 16, 16, 31, 32, 32, 33, 64, 64]


def rand_si(rng, w, p_unaligned=0.15):
    lb = rng.choice([0, 1, M(w), 1 << (w - 1), (1 << (w - 1)) - 1, rng.randrange(1 << w), rng.randrange(1 << w)]) & M(w)
    k = rng.random()
    if k < 0.12:
        return (w, 0, lb, lb)
    if k < 0.17:
        return (w, 1, 0, M(w))
    s = rng.choice([1, 1, 1, 2, 3, 4, 5, 7, 8, 12, 16, 1 << rng.randrange(w), rng.randrange(1, 1 << w), rng.randrange(1, 1 << max(1, w // 2))])
    if s > M(w):
        s = rng.randrange(1, 1 << w)
    nmax = M(w) // s
    n = rng.choice([1, 2, 3, 4, rng.randrange(1, nmax + 1), rng.randrange(1, nmax + 1), nmax, max(1, nmax - 1)])
    n = max(1, min(n, nmax))
    ub = lb + n * s
    if s > 1 and rng.random() < p_unaligned:
        ub += rng.randrange(1, s)
        if ub - lb > M(w):
            ub = lb + n * s
    return norm(w, s, lb, ub)


# ---------------------------------------------------------------------------------------------- queries (C22)
def linear_pieces(t):
    """members as maximal runs without wrap: list of (first, count) with values first + j*stride, j < count"""
    w, s, lb, ub = t
    if s == 0:
        return [(lb, 1)]
    n = span(t) // s + 1
    out = []
    k = 0
    while k < n:
        p0 = (lb + k * s) & M(w)
        cnt = min(n - k, (M(w) - p0) // s + 1)
        out.append((p0, cnt))
        k += cnt
        if len(out) > 100000:
            raise ValueError("too many pieces")
    return out


def extremes(t, signed):
    """exact (min, max) of the members in the requested signedness, without enumerating wide intervals"""
    w, s, lb, ub = t
    cand = []
    half = 1 << (w - 1)
    for p0, cnt in linear_pieces(t):
        last = p0 + (cnt - 1) * s
        cand += [p0, last]
        if s and p0 < half <= last:          # members next to the north pole
            j = (half - 1 - p0) // s
            cand += [p0 + j * s, p0 + (j + 1) * s]
    vals = [sgn(x, w) for x in cand] if signed else cand
    return min(vals), max(vals)


QUERIES = {
    "cardinality": lambda a: a.cardinality,
    "eval": lambda a, n, signed: a.eval(n, signed=bool(signed)),
    "max": lambda a, signed: a.max(signed=bool(signed)),
    "min": lambda a, signed: a.min(signed=bool(signed)),
    "solution": lambda a, v: a.solution(v),
}


def run_query(op, args):
    objs = [mk(x) if isinstance(x, (tuple, str)) else x for x in args]
    return call(QUERIES[op], *objs)


def query_oracle(op, args, r):
    """exactness of a query of the real code -> None | (kind, detail)"""
    t = args[0]
    if isinstance(r, str) and r.startswith("err:"):
        return (r, r)
    w = t[0]
    if op == "cardinality":
        if r != card(t):
            return ("wrong", "cardinality %r, the interval has %d members" % (r, card(t)))
    elif op == "eval":
        n, signed = args[1], args[2]
        if not isinstance(r, list):
            return ("wrong", "eval returned %r" % (r,))
        want = min(n, card(t))
        back = [(x & M(w)) if signed else x for x in r]
        if signed and any(not (-(1 << (w - 1)) <= x < (1 << (w - 1))) for x in r):
            return ("wrong", "eval(signed) returned a value outside the signed range: %r" % (r[:6],))
        if any(not member(t, x) for x in back):
            return ("wrong", "eval lists a non-member: %r" % ([x for x in back if not member(t, x)][:4],))
        if len(set(r)) != len(r):
            return ("wrong", "eval lists a member twice")
        if len(r) != want:
            return ("wrong", "eval(%d) lists %d values, the interval has %d members" % (n, len(r), card(t)))
    elif op in ("max", "min"):
        lo, hi = extremes(t, args[1])
        want = hi if op == "max" else lo
        if r != want:
            return ("wrong", "%s(signed=%s) = %r, the %s member is %d" % (op, bool(args[1]), r, "greatest" if op == "max" else "least", want))
    elif op == "solution":
        if r is not member(t, args[1] & M(w)):
            return ("wrong", "solution(%d) = %r but membership is %s" % (args[1], r, member(t, args[1] & M(w))))
    return None
