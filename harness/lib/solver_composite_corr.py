"""Correspondence of the Lean model of class CompositeFrontend (lean/Claripy/Solver/Composite.lean) with the real class.

The model transcribes `claripy.frontend.CompositeFrontend` (composite_frontend.py, no mixin on top) over children of class
`claripy.solvers.SolverCompositeChild` (the C11 model).  Here histories of public calls are run on
`CompositeFrontend(SolverCompositeChild(track=t), track=t)` under the recorder of the solver family (solverrec: what Z3
answered, simplifier output, cheap is_false verdicts, ... are recorded and replayed by the model), the same calls are sent to
`driver_solver` (`newc <track>` / `cop <call> ;; <events>`), and after EVERY call the answer and a canonical observation of the
bookkeeping are compared exactly.

Observation (one line per call, identical text on both sides):
    <answer> ;; unsat=<_unsat>;own=[composite.constraints, ids in list order];keys=[sorted keys of _solvers];
                groups=[sorted variables of every child of _solver_list, children sorted by that list, '|' separated];
                un=[positions (in that sorted child list) of the children in _unchecked_solvers];ow=[... in _owned_solvers]
             ;; fe0{...} fe1{...} A{...}      the complete state dump of solverrec.dump_world for the sorted children (constraint
                list in order, constraints_wo_annotations, variables, finalized, Z3 object, _to_add, hashes, _simplified, cached
                satisfiability / core, cached models, exhausted flags; assertion stack of every Z3 object they refer to)
             ;; <diagnostics of the driver: '-' unless events were left over / an oracle answer is inexact / the model's answer
                fails the property (judged against ALL constraints added so far)>

Set iteration.  CPython's iteration order of sets (addresses, string hashes) is an input of the model (Composite.lean,
`orderOracle`): the recorder observes it and passes it on as `P:` events —
  * the groups `_split_constraints` returns (named by their least variable), when there are two or more;
  * `list(solvers)` in `_solver_for_names`, seen as `self` + `others` of the child's `combine` (children are named by their serial
    number = order of creation by `blank_copy`, which is the model's index in its world), followed by the iteration order of
    the set `_models` of each of them (what `itertools.product` walks);
  * every iteration of `_unchecked_solvers`.
All of it is observation only: wrapped functions are called and their result passed through; `_unchecked_solvers` /
`_owned_solvers` are instances of a WeakSet subclass whose `__iter__` notes the order it yields.
`min(iter(s.variables))` is the minimum of NAMES: the universe numbers the variables in the lexicographic order of their names
(b, x, y, z), so that it is the model's minimum of indices.
"""
import contextlib
import json
import logging
import types
import weakref

import claripy

from . import solverlib as L, solverrec as R

# calls the model covers and the correspondence compares (simplify: the children need not stay variable-disjoint afterwards and
# the order of _solver_list becomes visible — not compared; branch / pickle of the composite: single-composite model)
COVERED = ("add", "satisfiable", "eval", "batch_eval", "min", "max", "solution", "is_true", "is_false", "downsize")
VARS = [("b", "bool", 1), ("x", "bv", 4), ("y", "bv", 3), ("z", "bv", 3)]
EXPRS = [e for e in L.EXPRS if not e.startswith("BVV(")]


class _ObservedWeakSet(weakref.WeakSet):
    """the WeakSet of the composite; iterating it notes the order"""
    _observer = None

    def __iter__(self):
        items = list(weakref.WeakSet.__iter__(self))
        ob = _ObservedWeakSet._observer
        if ob is not None and not ob.quiet:
            ob.event_children(items)
        return iter(items)


class Observer:
    def __init__(self, rec, reg):
        self.rec, self.reg = rec, reg
        self.serial = 0
        self.quiet = False
        self.merges = 0
        self.model_products = 0

    def reset(self):
        self.serial = 0

    def event_children(self, kids):
        self.rec.events.append("P:%s" % ("|".join(str(getattr(k, "_verif_serial", 9999)) for k in kids) or "-"))

    def model_key(self, m):
        items = sorted((self.reg.var_index.get(k, 999), int(v)) for k, v in m.model.items())
        return ".".join("%d.%d" % kv for kv in items)

    @contextlib.contextmanager
    def installed(self):
        import claripy.frontend.composite_frontend as cfm
        from claripy.frontend.constrained_frontend import ConstrainedFrontend
        from claripy.frontend.frontend import Frontend
        from claripy.solvers import SolverCompositeChild
        ob = self
        saved_weakref = cfm.weakref
        saved_blank = Frontend.blank_copy
        saved_split = ConstrainedFrontend.__dict__["_split_constraints"]
        orig_split = ConstrainedFrontend._split_constraints
        orig_combine = SolverCompositeChild.combine

        def blank_copy(self_):
            c = saved_blank(self_)
            if isinstance(c, SolverCompositeChild):
                c._verif_serial = ob.serial
                ob.serial += 1
            return c

        def split_constraints(constraints, concrete=True):
            r = orig_split(constraints, concrete=concrete)
            groups = [names for names, _ in r if names != {"CONCRETE"}]
            if len(groups) >= 2 and not ob.quiet:
                ob.rec.events.append("P:%s" % "|".join(str(min(ob.reg.var_index[v] for v in names)) for names in groups))
            return r

        def combine(self_, others):
            if not ob.quiet:
                ob.merges += 1
                ob.event_children([self_, *others])
                for s in [self_, *others]:
                    ob.rec.events.append("P:%s" % ("|".join(ob.model_key(m) for m in s._models) or "-"))
                if len(self_._models) and all(len(o._models) for o in others):
                    ob.model_products += 1
            return orig_combine(self_, others)

        cfm.weakref = types.SimpleNamespace(WeakSet=_ObservedWeakSet, ref=weakref.ref)
        _ObservedWeakSet._observer = self
        Frontend.blank_copy = blank_copy
        ConstrainedFrontend._split_constraints = staticmethod(split_constraints)
        SolverCompositeChild.combine = combine
        try:
            yield self
        finally:
            cfm.weakref = saved_weakref
            _ObservedWeakSet._observer = None
            Frontend.blank_copy = saved_blank
            ConstrainedFrontend._split_constraints = saved_split
            del SolverCompositeChild.combine


def observe(reg, comp):
    """the canonical observation of the real object (see the module docstring)"""
    kids = comp._solver_list
    key = lambda s: sorted(reg.var_index.get(v, 999) for v in s.variables)  # noqa: E731
    kids = sorted(kids, key=key)
    un = {id(s) for s in weakref.WeakSet.__iter__(comp._unchecked_solvers)}
    ow = {id(s) for s in weakref.WeakSet.__iter__(comp._owned_solvers)}
    head = "unsat=%d;own=[%s];keys=[%s];groups=[%s];un=[%s];ow=[%s]" % (
        1 if comp._unsat else 0, ",".join(str(reg.con(c)) for c in comp.constraints),
        ",".join(str(i) for i in sorted(reg.var_index.get(v, 999) for v in comp._solvers)),
        "|".join(",".join(map(str, key(s))) for s in kids),
        ",".join(str(i) for i, s in enumerate(kids) if id(s) in un), ",".join(str(i) for i, s in enumerate(kids) if id(s) in ow))
    return head + " ;; " + R.dump_world(reg, kids)


def run_recorded(uni, reg, track, hist):
    """one history on the real class; returns (driver request lines, [(line index, expected answer, call index)], stats)"""
    import claripy.backends
    from claripy.frontend import CompositeFrontend
    from claripy.solvers import SolverCompositeChild
    bz = claripy.backends.z3
    saved = bz.reuse_z3_solver
    bz.reuse_z3_solver = False
    rec = R.Recorder(uni, reg)
    ob = Observer(rec, reg)
    lines, expect = [], []
    if not getattr(reg, "_uni_sent", False):
        lines += reg.lines_uni
        reg._uni_sent = True
    stats = {"merges": 0, "model_products": 0, "concrete": 0, "fresh_group": 0, "l0": []}
    try:
        if hasattr(bz._tls, "solver"):
            bz._tls.solver = None
        with rec.installed(), ob.installed():
            comp = CompositeFrontend(SolverCompositeChild(track=track), track=track)
            lines += reg.flush()
            lines.append("newc %d" % (1 if track else 0))
            for k, d in enumerate(hist):
                rec.events = []
                rec.check_index = 0
                if d["op"] == "add":
                    asts = [uni.parse(c) for c in d["cs"]]
                    stats["concrete"] += sum(1 for c in asts if not c.variables)
                    stats["fresh_group"] += any(c.variables and not (c.variables & set(comp._solvers)) for c in asts)
                out = R.apply_op_ext(uni, [comp], d)
                ob.quiet = True
                try:
                    oline = R.op_line(reg, uni, d)
                    exp = "%s ;; %s ;; -" % (R.render_out(reg, d, out), observe(reg, comp))
                finally:
                    ob.quiet = False
                lines += reg.flush()
                lines.append("cop %s ;; %s" % (oline, " ".join(rec.events)))
                expect.append((len(lines) - 1, exp, k))
        stats["merges"], stats["model_products"] = ob.merges, ob.model_products
        stats["l0"] = rec.exact_failures
        return lines, expect, stats
    finally:
        bz.reuse_z3_solver = saved
        if hasattr(bz._tls, "solver"):
            bz._tls.solver = None


# ------------------------------------------------------------------------------------------------ histories
def _A(*cs):
    return {"s": 0, "op": "add", "cs": list(cs)}


def _SAT(*extra):
    return {"s": 0, "op": "satisfiable", "extra": list(extra)}


def _E(e, n=20, *extra):
    return {"s": 0, "op": "eval", "e": e, "n": n, "extra": list(extra)}


def directed(rng):
    """openings that exercise the bookkeeping: children merged by a connecting constraint (with and without cached models on
    both sides), constraints without variables (true / false, alone or next to others), constraints over variables no child
    knows, several independent groups in one call, an unsatisfiable child among unchecked ones"""
    one = {"x": ["ULT(x, 3)", "Or(x == 1, x == 2)", "x == 5", "UGE(x, 8)", "(x & 1) == 0", "ULE(x, 11)", "x != 5", "x * x == 3"],
           "y": ["SLT(y, 0)", "y == 6", "y * y == 4"], "z": ["ULT(z, 2)", "z * z == 1", "z == 3"], "b": ["b", "Not(b)"]}
    link = {("x", "y"): L.LINKS[("x", "y")] + L.WEAK[("x", "y")], ("x", "z"): L.LINKS[("x", "z")] + L.WEAK[("x", "z")],
            ("y", "z"): L.LINKS[("y", "z")] + L.WEAK[("y", "z")], ("b", "x"): ["Or(b, x == 7)"], ("b", "y"): ["Or(b, y == 0)"],
            ("b", "z"): ["Or(Not(b), z == 1)"]}
    shape = rng.choice(["connect", "connect-cached", "connect3", "concrete", "fresh", "multi", "unsat-child", "extras"])
    vs = rng.sample(["x", "y", "z"], 3)
    a, b_, c = vs
    pair = lambda p, q: link[tuple(sorted((p, q)))]  # noqa: E731
    h = []
    if shape == "connect":
        h = [_A(rng.choice(one[a])), _A(rng.choice(one[b_])), _A(rng.choice(pair(a, b_))), _SAT()]
    elif shape == "connect-cached":
        h = [_A(rng.choice(one[a])), _A(rng.choice(one[b_])), rng.choice([_SAT(), _E(a, rng.choice([1, 2, 20]))]),
             _E(b_, rng.choice([1, 2, 20])), _E(a, rng.choice([1, 3])), _A(rng.choice(pair(a, b_) + L.WEAK3)), _SAT(), _E(a)]
    elif shape == "connect3":
        h = [_A(rng.choice(one[a]), rng.choice(one[b_])), _A(rng.choice(one[c])), _E(a, 2), _E(b_, 2), _E(c, 2),
             _A(rng.choice(L.WEAK3)), _SAT(), _E(c)]
    elif shape == "concrete":
        h = [_A(rng.choice(one[a])), _A(rng.choice(["true", "false"])), _SAT(), _A(rng.choice(one[b_]), rng.choice(["true", "false"])),
             _SAT(), _A("true", "false"), _SAT()]
        rng.shuffle(h)
    elif shape == "fresh":
        h = [_A(rng.choice(one[a])), _SAT(), _A(rng.choice(one[b_])), _A(rng.choice(one["b"])), _SAT(), _A(rng.choice(one[c])), _SAT()]
    elif shape == "multi":
        h = [_A(rng.choice(one[a]), rng.choice(one[b_]), rng.choice(one[c])), _SAT(), _A(rng.choice(one[a]), rng.choice(pair(b_, c))),
             _SAT(), _A(rng.choice(one["b"]), rng.choice(pair(a, b_)), "true"), _SAT()]
    elif shape == "unsat-child":
        h = [_A(rng.choice(one[a])), _A(rng.choice(one[b_]), rng.choice(one[c])), _A(rng.choice(["x * x == 3", "UGE(x, 8)"]), "ULT(x, 3)"),
             _SAT(), _SAT(), _A(rng.choice(one[c])), _SAT()]
    else:
        h = [_A(rng.choice(one[a])), _A(rng.choice(one[b_])), _SAT(rng.choice(pair(a, b_))), _SAT(rng.choice(one[c])), _SAT(),
             _SAT(rng.choice(one[a]), rng.choice(one[b_])), _A(rng.choice(one[c])), _SAT(rng.choice(L.WEAK3))]
    return h


def _ne_shape(uni, c):
    """`BVS != BVV`: the second shape FullFrontend.check_satisfiability answers without a solver.  The constraint records of the
    Lean models (Claripy/Solver/Basic.lean, shared with C11) carry the `BVS == BVV` shape only (`Con.trivNe` of the composite
    model is constantly `none`): such constraints are outside the model's scope and are not added in the compared histories
    (a child's constraint list only ever holds constraints that were added: `simplify` is not among the compared calls)."""
    a = uni.parse(c)
    return a.op == "__ne__" and a.args[0].op == "BVS" and a.args[1].op == "BVV"


def in_scope(uni, hist, covered):
    out = []
    for d in hist:
        if d["op"] not in covered:
            continue
        if d["op"] == "add":
            cs = [c for c in d["cs"] if not _ne_shape(uni, c)]
            if not cs:
                continue
            d = dict(d, cs=cs)
        out.append(d)
    return out


def gen(rng, n, length, covered=COVERED, uni=None):
    """n histories: directed openings followed by a random tail over the covered calls"""
    uni = uni or L.Universe(VARS)
    w = {"add": 30, "satisfiable": 14, "eval": 12, "batch_eval": 4, "min": 6, "max": 6, "solution": 5, "is_true": 2, "is_false": 2,
         "downsize": 1}
    w = {k: v for k, v in w.items() if k in covered}
    calpha = L.CONSTRAINTS + [c for v in L.OPAQUE.values() for c in v[:2]] + [c for v in L.WEAK.values() for c in v[:2]] + L.WEAK3[:3]
    hists = []
    for i in range(n):
        prefix = in_scope(uni, directed(rng), covered) if i % 3 != 2 else []
        h = L.gen_history(rng, length if not prefix else max(2, length - len(prefix)), calpha=calpha, ealpha=EXPRS, weights=w, max_solvers=1,
                          prefix=prefix, first_eq=0.3, contra=0.1)
        hists.append(in_scope(uni, h, covered))
    return hists


# ------------------------------------------------------------------------------------------------ the check
def _new_dist():
    return {"histories": 0, "steps": 0, "merges": 0, "merges_with_model_product": 0, "concrete_constraints": 0,
            "adds_creating_a_group": 0, "tracked": 0, "by_op": {}}


def run_chunk(args):
    """one worker: generate `n` histories, run them on the real class, run the model on the recorded traces, compare line by
    line.  Returns {"dist", "broken": [(name, detail)], "l0", "distinct", "sample"}"""
    import os
    import random
    import subprocess
    from . import common
    seed, chunk, n, length = args
    logging.getLogger("claripy.backends.backend_vsa").setLevel(logging.ERROR)
    rng = random.Random(seed * 1000003 + chunk * 7919 + 12)
    uni = L.Universe(VARS)
    reg = R.Registry(uni)
    lines, expect, metas = [], [], []
    res = {"dist": _new_dist(), "broken": [], "l0": [], "distinct": [], "sample": None}
    dist = res["dist"]
    for i, hist in enumerate(gen(rng, n, length, uni=uni)):
        track = (chunk + i) % 4 == 3
        try:
            ls, ex, st = run_recorded(uni, reg, track, hist)
        except Exception as e:  # noqa: BLE001   the recorder could not make sense of what it saw: a broken tie
            res["broken"].append(("corr:composite", "recorder failed on track=%s %s: %s: %s" % (
                track, json.dumps(hist)[:600], type(e).__name__, str(e)[:300])))
            return res
        base = len(lines)
        lines += ls
        expect += [(base + li, e, len(metas), k) for li, e, k in ex]
        metas.append((track, hist))
        dist["histories"] += 1
        dist["tracked"] += track
        dist["merges"] += st["merges"]
        dist["merges_with_model_product"] += st["model_products"]
        dist["concrete_constraints"] += st["concrete"]
        dist["adds_creating_a_group"] += st["fresh_group"]
        res["l0"] += st["l0"][:2]
        for d in hist:
            dist["by_op"][d["op"]] = dist["by_op"].get(d["op"], 0) + 1
        if len(hist) >= 3:
            res["distinct"].append(common.digest(["composite-corr", track, hist]))
    if not lines:
        return res
    exe = os.path.join(common.LEAN, ".lake", "build", "bin", "driver_solver")
    try:
        p = subprocess.run([exe], input="\n".join(lines) + "\n", capture_output=True, text=True, timeout=3000)
    except Exception as e:  # noqa: BLE001
        res["broken"].append(("driver", "%s: %s" % (type(e).__name__, str(e)[:300])))
        return res
    if p.returncode != 0:
        res["broken"].append(("driver", "driver crashed: " + p.stderr[-500:]))
        return res
    out = p.stdout.split("\n")
    bad_decl = [(l, o) for l, o in zip(lines, out) if o != "ok" and " ;; " not in o]
    if bad_decl:
        res["broken"].append(("corr:composite", "request rejected: %s -> %s" % (bad_decl[0][0][:200], bad_decl[0][1][:200])))
    for idx, e, mi, k in expect:
        got = out[idx] if idx < len(out) else "<missing>"
        dist["steps"] += 1
        if got != e:
            track, hist = metas[mi]
            ge, ee = got.split(" ;; "), e.split(" ;; ")
            which = [nm for nm, a, b in zip(("answer", "bookkeeping", "children", "diagnostics"), ge + [""] * 4, ee) if a != b]
            res["broken"].append(("corr:composite", "track=%s %s step %d (%s differs): model=%s real=%s" % (
                track, json.dumps(hist[:k + 1]), k, "/".join(which), got[:1500], e[:1500])))
            break
    if expect:
        res["sample"] = {"composite_correspondence": {"request": lines[expect[-1][0]][:300], "expected": expect[-1][1][:400]}}
    return res


def run(ctx, n=None, length=None, workers=1):
    """called from props/C12.py: histories on the real class and on the model, compared after every call; on the first
    disagreement (per worker) the tie is reported broken"""
    import concurrent.futures as cf
    n = n if n is not None else ctx.pick(200, 1200)
    length = length if length is not None else ctx.pick(12, 30)
    per = ctx.pick(20, 50)
    args = [(ctx.seed, 500 + i, min(per, n - i * per), length) for i in range((n + per - 1) // per)]
    if workers <= 1:
        results = [run_chunk(a) for a in args]
    else:
        with cf.ProcessPoolExecutor(max_workers=workers) as ex:
            results = list(ex.map(run_chunk, args))
    dist = _new_dist()
    l0 = []
    reported = 0
    for r in results:
        for k, v in r["dist"].items():
            if k == "by_op":
                for a, b in v.items():
                    dist["by_op"][a] = dist["by_op"].get(a, 0) + b
            else:
                dist[k] += v
        for name, detail in r["broken"]:
            if reported < 3:
                ctx.tie_broken(name, detail)
                reported += 1
        l0 += r["l0"]
        for dg in r["distinct"]:
            ctx.distinct(dg)
        if r["sample"]:
            ctx.sample(r["sample"], cap=6)
    ctx.count(dist["steps"])
    # what the tie of the composite model rests on (replaces the statement that the bookkeeping is not modelled)
    tb = ctx.cov.get("trusted_base")
    if isinstance(tb, list):
        tb[:] = [t for t in tb if not ("composite bookkeeping" in t and "not modelled" in t)]
        tb.append("composite model (Composite.lean) tied by correspondence on add / satisfiable / eval / batch_eval / min / max / solution / "
                  "is_true / is_false / downsize of one CompositeFrontend: CPython's set iteration orders and Z3's answers are recorded "
                  "inputs of the model; constraints of the shape `BVS != BVV` are not added (the constraint record has no field for the "
                  "second shortcut of FullFrontend.check_satisfiability); simplify / branch / pickling of the composite and the mixins of "
                  "SolverComposite above CompositeFrontend: oracle only")
    ctx.cov["traces_validated_against_impl"] += dist["steps"]
    ctx.cov.setdefault("input_distribution", {})["composite_correspondence"] = dist
    if l0:
        ctx.notes.append("L0 (composite correspondence): Z3 answer failed the exactness validation: %s" % json.dumps(l0[:2]))
    return dist
