"""Solver family (C10-solver, C11..C18): universe, independent brute-force semantics, history generator,
runner on the REAL claripy frontends, per-answer oracle (the property statements themselves), shrinker.

Nothing here imports the Lean side.  The reference semantics is an evaluator written from the SMT-LIB meaning
of each operator (it never calls a claripy backend), tabulated over every assignment of the universe.
Tables of Booleans are Python ints used as bit sets (bit i = assignment i)."""
import itertools, random

import claripy

# ----------------------------------------------------------------------------------------------- universe
VARS = [("x", "bv", 4), ("y", "bv", 3), ("z", "bv", 3), ("b", "bool", 1)]


class Origin(claripy.Annotation):
    """what clients of unsat_core() put on the constraints they add: says where a constraint came from.  Not eliminatable,
    relocatable; equal by `where` (hash stable across processes)."""

    def __init__(self, where):
        self.where = where

    @property
    def eliminatable(self):
        return False

    @property
    def relocatable(self):
        return True

    def __hash__(self):
        return claripy.annotation._exact_hash("Origin", self.where) if hasattr(claripy.annotation, "_exact_hash") else hash(("Origin", self.where))

    def __eq__(self, other):
        return isinstance(other, Origin) and other.where == self.where

    def __repr__(self):
        return "Origin(%d)" % self.where


def _ann(c, k=1):
    """expression language: Ann(c, k) = the Bool c carrying an annotation (k = 0: the built-in, eliminatable
    UninitializedAnnotation, which every backend accepts; k > 0: Origin(k))"""
    return c.annotate(claripy.annotation.UninitializedAnnotation() if k == 0 else Origin(k))


class Universe:
    def __init__(self, vars_=VARS, tag="v"):
        self.vars = list(vars_)
        self.names = [n for n, _, _ in self.vars]
        self.real_names = {n: "%s_%s" % (tag, n) for n in self.names}   # names inside claripy / z3
        self.by_real = {v: k for k, v in self.real_names.items()}
        self.bits = {n: w for n, _, w in self.vars}
        self.kind = {n: k for n, k, _ in self.vars}
        self.stride, s = {}, 1
        for n, _, w in self.vars:
            self.stride[n] = s
            s <<= w
        self.D = s
        self.full = (1 << self.D) - 1
        self.sym = {}
        for n, k, w in self.vars:
            self.sym[n] = claripy.BVS(self.real_names[n], w, explicit_name=True) if k == "bv" else \
                claripy.BoolS(self.real_names[n], explicit_name=True)
        self._parsed = {}
        self._vals = {}      # ast hash -> list of values (ints; bools as 0/1), one per assignment
        self._mask = {}      # ast hash -> bitset of assignments where the Bool ast is true
        self._vmask = {}     # ast hash -> {value: bitset}
        self.ns = dict(self.sym)
        self.ns.update({k: getattr(claripy, k) for k in
                        ("ULT", "ULE", "UGT", "UGE", "SLT", "SLE", "SGT", "SGE", "And", "Or", "Not", "If", "BVV", "BoolV",
                         "Extract", "Concat", "ZeroExt", "SignExt", "LShR")})
        self.ns["true"], self.ns["false"] = claripy.true(), claripy.false()
        # the variable x carrying an annotation: same meaning, but an AST whose hash differs from process to process
        self.ns["xa"] = self.sym["x"].annotate(claripy.annotation.UninitializedAnnotation())
        self.ns["xs"] = self.sym["x"].annotate(claripy.annotation.SimplificationAvoidanceAnnotation())
        self.ns["fa"] = claripy.FPS("%s_fa" % tag, claripy.FSORT_DOUBLE, explicit_name=True)   # identity checks only (no value tables)
        self.ns["FPV"], self.ns["FSORT_DOUBLE"] = claripy.FPV, claripy.FSORT_DOUBLE
        self.ns["Ann"] = _ann

    def parse(self, s):
        """expression language of replays: a Python expression over the variables and claripy constructors.
        Memoised: the ASTs stay alive, so entries of the frontends' WeakValueDictionaries (exhausted flags) do not
        vanish at the whim of the garbage collector (deleting them is always safe; the model keeps them)."""
        r = self._parsed.get(s)
        if r is None:
            r = self._parsed[s] = eval(s, {"__builtins__": {}}, self.ns)  # noqa: S307  (our own strings only)
        return r

    def var_value(self, name, i):
        return (i // self.stride[name]) & ((1 << self.bits[name]) - 1)

    def assignment(self, i):
        return {n: self.var_value(n, i) for n in self.names}

    def index(self, asg):
        return sum((asg.get(n, 0) & ((1 << self.bits[n]) - 1)) * self.stride[n] for n in self.names)

    # ------------------------------------------------------------------ independent evaluator
    def values(self, ast):
        h = ast.hash() if hasattr(ast, "hash") else None
        if h is not None and h in self._vals:
            return self._vals[h]
        r = self._eval(ast)
        if h is not None:
            self._vals[h] = r
        return r

    def _eval(self, a):
        D = self.D
        if isinstance(a, bool):
            return [int(a)] * D
        if isinstance(a, int):
            return [a] * D
        op, args = a.op, a.args
        if op == "BVS" or op == "BoolS":
            n = self.by_real.get(args[0])
            if n is None:
                raise ValueError("variable outside the universe: %r" % (args[0],))
            st, m = self.stride[n], (1 << self.bits[n]) - 1
            return [(i // st) & m for i in range(D)]
        if op == "BVV":
            return [args[0]] * D
        if op == "BoolV":
            return [int(bool(args[0]))] * D
        V = self.values
        if op in ("And", "Or"):
            cols = [V(x) for x in args]
            f = all if op == "And" else any
            return [int(f(c[i] for c in cols)) for i in range(D)]
        if op == "Not":
            return [1 - v for v in V(args[0])]
        if op == "If":
            c, t, e = V(args[0]), V(args[1]), V(args[2])
            return [t[i] if c[i] else e[i] for i in range(D)]
        if op in ("__eq__", "__ne__"):
            x, y = V(args[0]), V(args[1])
            return [int(p == q) for p, q in zip(x, y)] if op == "__eq__" else [int(p != q) for p, q in zip(x, y)]
        if op in ("ULT", "ULE", "UGT", "UGE", "SLT", "SLE", "SGT", "SGE", "__lt__", "__le__", "__gt__", "__ge__"):
            w = args[0].size()
            x, y = V(args[0]), V(args[1])
            core = {"__lt__": "ULT", "__le__": "ULE", "__gt__": "UGT", "__ge__": "UGE"}.get(op, op)
            if core[0] == "S":
                sg = lambda v: v - (1 << w) if v >> (w - 1) else v  # noqa: E731
                x, y = [sg(v) for v in x], [sg(v) for v in y]
            cmp = {"LT": lambda p, q: p < q, "LE": lambda p, q: p <= q, "GT": lambda p, q: p > q, "GE": lambda p, q: p >= q}[core[1:]]
            return [int(cmp(p, q)) for p, q in zip(x, y)]
        if op in ("__add__", "__sub__", "__mul__", "__and__", "__or__", "__xor__"):
            w = a.size()
            m = (1 << w) - 1
            f = {"__add__": lambda p, q: p + q, "__sub__": lambda p, q: p - q, "__mul__": lambda p, q: p * q,
                 "__and__": lambda p, q: p & q, "__or__": lambda p, q: p | q, "__xor__": lambda p, q: p ^ q}[op]
            acc = V(args[0])
            for nxt in args[1:]:
                acc = [f(p, q) & m for p, q in zip(acc, V(nxt))]
            return acc
        if op == "__invert__":
            m = (1 << a.size()) - 1
            return [~v & m for v in V(args[0])]
        if op == "__neg__":
            m = (1 << a.size()) - 1
            return [-v & m for v in V(args[0])]
        if op == "Extract":
            hi, lo, x = args
            m = (1 << (hi - lo + 1)) - 1
            return [(v >> lo) & m for v in V(x)]
        if op == "Concat":
            acc = [0] * D
            for x in args:
                w = x.size()
                acc = [(p << w) | q for p, q in zip(acc, V(x))]
            return acc
        if op == "ZeroExt":
            return V(args[1])
        if op == "SignExt":
            n, x = args
            w = x.size()
            ext = ((1 << n) - 1) << w
            return [v | ext if v >> (w - 1) else v for v in V(x)]
        if op in ("__lshift__", "LShR", "__rshift__"):
            w = a.size()
            m = (1 << w) - 1
            x, s = V(args[0]), V(args[1])
            if op == "__lshift__":
                return [(p << q) & m if q < w else 0 for p, q in zip(x, s)]
            if op == "LShR":
                return [(p >> q) if q < w else 0 for p, q in zip(x, s)]
            sg = lambda v: v - (1 << w) if v >> (w - 1) else v  # noqa: E731
            return [(sg(p) >> min(q, w)) & m for p, q in zip(x, s)]
        raise ValueError("operator outside the reference evaluator: %s" % op)

    def mask(self, ast):
        """bitset of assignments satisfying a Bool ast (or python bool)"""
        if ast is True:
            return self.full
        if ast is False:
            return 0
        h = ast.hash()
        m = self._mask.get(h)
        if m is None:
            vals = self.values(ast)
            m = int("".join("1" if v else "0" for v in reversed(vals)), 2)
            self._mask[h] = m
        return m

    def vmask(self, ast):
        """value -> bitset of assignments on which the ast takes that value"""
        h = ast.hash()
        d = self._vmask.get(h)
        if d is None:
            d = {}
            for i, v in enumerate(self.values(ast)):
                d[v] = d.get(v, 0) | (1 << i)
            self._vmask[h] = d
        return d

    def conj(self, asts):
        m = self.full
        for a in asts:
            m &= self.mask(a)
        return m

    def value_set(self, e, satmask):
        return {v for v, m in self.vmask(e).items() if m & satmask}

    def tuple_set(self, exprs, satmask):
        cols = [self.values(e) if not isinstance(e, (int, bool)) else [int(e)] * self.D for e in exprs]
        out, i, m = set(), 0, satmask
        while m:
            low = m & -m
            i = low.bit_length() - 1
            out.add(tuple(c[i] for c in cols))
            m ^= low
        return out


def bits_of(mask):
    while mask:
        low = mask & -mask
        yield low.bit_length() - 1
        mask ^= low


# ----------------------------------------------------------------------------------------------- alphabets
CONSTRAINTS = [
    "ULT(x, 3)", "SGT(x, BVV(13, 4))", "Or(x == 1, x == 2)", "x == 5", "x != 5", "ZeroExt(1, y) == x + 1",
    "SLT(y, 0)", "z == y", "Or(And(x == 1, y == 5), And(x == 2, y == 0))", "b", "Not(b)", "If(b, x, ZeroExt(1, y)) == 3",
    "UGE(x, 8)", "(x & 1) == 0", "ULT(z, 2)", "SGE(y ^ z, 0)", "y + z == 7", "false", "true", "x + ZeroExt(1, y) == 9",
    "y == 6", "ULE(x, 11)", "SLE(x, 2)", "Or(b, x == 7)", "Or(b, y == 0)", "Or(Not(b), z == 1)",
]
SMALL_CONSTRAINTS = ["ULT(x, 3)", "Or(x == 1, x == 2)", "x == 5", "SLT(y, 0)", "ZeroExt(1, y) == x + 1", "UGE(x, 8)"]
EXPRS = ["x", "y", "z", "x + ZeroExt(1, y)", "x & 3", "If(b, x, ZeroExt(1, y))", "y ^ z", "x - 1", "BVV(3, 4)", "If(b, y, y + 1)",
         "If(ULT(x, 8), z, y)"]
SMALL_EXPRS = ["x", "y", "x + ZeroExt(1, y)"]
BOOLS = ["b", "ULT(x, 3)", "x == 5", "Or(x == 1, x == 2)", "SLT(y, 0)", "ULE(x, 15)", "Not(b)", "And(ULT(x, 3), UGE(x, 8))"]
# constraints whose (un)satisfiability only a solver sees (squares mod 16 are 0, 1, 4, 9; x*x + x is even): nothing the
# simplifier turns into `false`, so whoever holds them has to CHECK them
OPAQUE = {"x": ["x * x == 3", "x * x + x == 1", "x * x * x == 5", "x * x == 4", "(x * x) & 2 == 2", "x * x == 9"],
          "y": ["y * y == 3", "y * y + y == 1", "y * y == 4", "y * y * y == 5"],
          "z": ["z * z == 5", "z * z + z == 3", "z * z == 1"]}
# constraints tying two variables together until one of them is known
LINKS = {("x", "y"): ["UGT(x, ZeroExt(1, y))", "ULT(x, ZeroExt(1, y))", "x != ZeroExt(1, y)", "ZeroExt(1, y) == x + 1", "x + ZeroExt(1, y) == 9"],
         ("x", "z"): ["UGT(x, ZeroExt(1, z))", "ULT(x, ZeroExt(1, z))", "x != ZeroExt(1, z)"],
         ("y", "z"): ["z == y", "UGT(z, y)", "ULT(z, y)", "y + z == 7", "SGE(y ^ z, 0)", "z != y"]}
# WEAK connections: constraints over two variables (or all three) that exclude few assignments - added to a solver that already
# knows models of both sides they mostly falsify NONE of them, and no simplifier can drop them
WEAK = {("x", "y"): ["x != ZeroExt(1, y)", "x + ZeroExt(1, y) != 3", "x ^ ZeroExt(1, y) != 0", "UGE(x | ZeroExt(1, y), 1)"],
        ("x", "z"): ["x != ZeroExt(1, z)", "x + ZeroExt(1, z) != 3", "x ^ ZeroExt(1, z) != 0", "UGE(x | ZeroExt(1, z), 1)"],
        ("y", "z"): ["z != y", "y + z != 3", "y ^ z != 0", "UGE(y | z, 1)"]}
WEAK3 = ["x + ZeroExt(1, y) != ZeroExt(1, z)", "x ^ ZeroExt(1, y) != ZeroExt(1, z)", "ZeroExt(1, y + z) != x", "ZeroExt(1, y ^ z) != x + 1",
         "UGE(x + ZeroExt(1, y), ZeroExt(1, z))", "ULE(ZeroExt(1, z), x | ZeroExt(1, y))", "Or(x != ZeroExt(1, y), z == 1)",
         "If(b, x, ZeroExt(1, y)) != ZeroExt(1, z)"]


# ----------------------------------------------------------------------------------------------- histories
# op dicts (JSON-able):  {"s": solver index, "op": name, ...}
#  add{cs:[str]}  satisfiable{extra:[str]}  eval{e,n,extra}  batch_eval{es:[str],n,extra}  min/max{e,signed,extra}
#  solution{e,v,extra}  is_true/is_false{e,extra}  simplify  downsize  branch (creates solver index len(solvers))

def gen_history(rng, length, calpha=CONSTRAINTS, ealpha=EXPRS, balpha=BOOLS, uni=None, max_solvers=4,
                weights=None, threads=0, replace=0.0, replace_any=False, symv=0.0, first_eq=0.0, contra=0.0, prefix=None, pickle_all=0.0,
                core_extra=0.0, annotate=0.0, ann_kinds=(1, 2, 3), repl_noinval=0.0, after_downsize=0.0):
    """after_downsize: share of downsize() calls that come as a burst - [everything about an expression e (all values / an
    extremum), mostly one the solver was asked about before] downsize(), ONE small question (a single value, solution(),
    satisfiable() under an extra constraint), everything about e again;
    repl_noinval: share of the user-level replacements (`replace`) made with invalidate_cache=False - of any variable; the
    solver that makes one (and its later branches) is no longer judged by run_history, all the others are;
    core_extra: share of unsat_core() calls that pass extra constraints (what-if cores), a part of them contradicting
    a constraint the solver holds;  annotate: share of added constraints that carry an annotation (`Ann(c, k)`, k from ann_kinds;
    the generator's own bookkeeping keeps the plain text);
    pickle_all: share of pickle calls that send ALL solvers of the history through one dump (what they share stays shared);
    symv: share of solution() calls whose value is itself a symbolic expression (of the width of `e`);
    first_eq: share of FIRST constraints of a solver (none added to it or its ancestors yet) that are `variable == constant`;
    contra: share of add() calls that contradict a constraint the solver already holds SYNTACTICALLY (v == c against
    v == c' / v != c, c against Not(c)), alone or - more often - in one call together with a constraint over other variables;
    prefix: calls made before (absolute addressing; may create solvers by branch / blank_copy / combine / merge, not split):
    the random calls are appended to it."""
    if threads:
        # thread hand-off: the same history, each call tagged with the thread that makes it (runs of calls per thread)
        hist, t = gen_history(rng, length, calpha, ealpha, balpha, uni, max_solvers, weights, replace=replace, replace_any=replace_any,
                              symv=symv, first_eq=first_eq, contra=contra, prefix=prefix, pickle_all=pickle_all,
                              core_extra=core_extra, annotate=annotate, ann_kinds=ann_kinds, repl_noinval=repl_noinval,
                              after_downsize=after_downsize), 0
        for d in hist[len(prefix or []):]:      # a directed opening keeps the threads it names
            if rng.random() < 0.3:
                t = rng.randrange(threads + 1)
            if t:
                d["t"] = t
        return hist
    hist, nsolv = [dict(d) for d in (prefix or [])], 1
    w = weights or {"add": 22, "satisfiable": 8, "eval": 14, "batch_eval": 6, "min": 11, "max": 11, "solution": 8,
                    "is_true": 2, "is_false": 2, "simplify": 4, "downsize": 2, "branch": 5}
    names, ws = list(w), list(w.values())

    def extra():
        r = rng.random()
        if r < 0.6:
            return []
        return [rng.choice(calpha) for _ in range(1 if r < 0.9 else 2)]

    bv_exprs = ealpha
    # cache-directed follow-ups: what was queried on a solver comes back later (the caches are keyed by it) —
    # batch_eval over several expressions each enumerated before, with n beyond what exists; equalities whose
    # symbolic side is a compound expression queried before (ReplacementFrontend keys its cache by such sides)
    queried = {0: []}
    used = {0: set()}      # variables the solver's constraints mention (for `replace`)
    held = {0: []}         # the constraints added to the solver, as written (for `contra` / `first_eq`)
    for d in hist:
        s = d["s"]
        if d["op"] == "add" and s in held:
            held[s] += d["cs"]
            for c in d["cs"]:
                used[s] |= _vars_of(c)
        elif d["op"] in ("eval", "min", "max") and s in queried and d["e"] != "b" and d["e"] not in queried[s]:
            queried[s].append(d["e"])
        elif d["op"] in ("branch", "blank_copy", "combine", "merge"):
            src = s if d["op"] == "branch" and s in held else None
            queried[nsolv] = list(queried[src]) if src is not None else []
            used[nsolv] = set(used[src]) if src is not None else set()
            held[nsolv] = list(held[src]) if src is not None else []
            nsolv += 1
    max_solvers = max(max_solvers, nsolv)
    for _ in range(length):
        op = rng.choices(names, ws)[0]
        s = rng.randrange(nsolv)
        d = {"s": s, "op": op}
        q = queried[s]
        if "batch_eval" in w and "eval" in w and rng.random() < 0.04:
            # burst: enumerate two or three expressions one by one, then jointly (no add in between)
            es = rng.sample(bv_exprs, rng.choice([2, 2, 3]))
            for e in es:
                hist.append({"s": s, "op": "eval", "e": e, "n": 20, "extra": []})
                if e not in q:
                    q.append(e)
            hist.append({"s": s, "op": "batch_eval", "es": es, "n": 20, "extra": []})
            continue
        if op == "add":
            # replace_any (twin runs only, where no reference reading is needed): also variables already constrained or
            # replaced before — a replacement that changes makes everything rewritten with the old one stale
            fresh = [v for v in ("x", "y", "z") if replace_any or v not in used[s]]
            if replace and repl_noinval and rng.random() < replace * repl_noinval:
                v, c = rng.choice(["x", "y", "z"]), rng.randrange(8)
                d.update(cs=["(%s) == %d" % (v, c)], repl=[v, c], inval=False)
            elif replace and fresh and rng.random() < replace:
                # SolverReplacement.add_replacement(variable, constant) for a variable no constraint mentions yet: from
                # then on the solver answers as if `variable == constant` had been added (which is how the reference
                # takes it); run_history calls add_replacement when the solver has it
                v, c = rng.choice(fresh), rng.randrange(8)
                d["cs"] = ["(%s) == %d" % (v, c)]
                d["repl"] = [v, c]
            elif first_eq and not held[s] and rng.random() < first_eq:
                v = rng.choice(["x", "x", "y", "z"])
                d["cs"] = ["%s == %d" % (v, rng.randrange(8))]
            elif contra and held[s] and rng.random() < contra:
                d["cs"] = contradicting_add(rng, held[s], calpha)
            elif q and rng.random() < 0.15:
                d["cs"] = ["(%s) == %d" % (rng.choice(q), rng.randrange(8))]
            else:
                d["cs"] = [rng.choice(calpha) for _ in range(1 if rng.random() < 0.8 else 2)]
            for c in d["cs"]:
                used[s] |= _vars_of(c)
            held[s] += d["cs"]
            if annotate and not d.get("repl"):
                d["cs"] = ["Ann(%s, %d)" % (c, rng.choice(ann_kinds)) if rng.random() < annotate else c for c in d["cs"]]
        elif op == "satisfiable":
            d["extra"] = extra()
        elif op == "eval":
            d.update(e=rng.choice(bv_exprs + ["b"]), n=rng.choice([1, 2, 5, 5, 20]), extra=extra())
            if d["e"] != "b" and d["e"] not in q:
                q.append(d["e"])
        elif op == "batch_eval":
            if len(q) >= 2 and rng.random() < 0.5:
                d.update(es=rng.sample(q, rng.choice([2, 2, 3]) if len(q) >= 3 else 2), n=rng.choice([20, 40]),
                         extra=[] if rng.random() < 0.8 else extra())
            else:
                d.update(es=[rng.choice(bv_exprs) for _ in range(rng.choice([1, 2, 2, 3]))], n=rng.choice([1, 2, 5, 20]), extra=extra())
        elif op in ("min", "max"):
            d.update(e=rng.choice(bv_exprs), signed=rng.random() < 0.5, extra=extra())
            if d["e"] not in q:
                q.append(d["e"])
        elif op == "solution":
            d.update(e=rng.choice(bv_exprs), v=rng.randrange(16), extra=extra())
            if symv and rng.random() < symv:
                # the value asked about is itself symbolic (often over other variables than e)
                same = [t for t in bv_exprs if t != d["e"] and _size_of(t) == _size_of(d["e"])]
                if same:
                    d["v"] = rng.choice(same)
        elif op in ("is_true", "is_false"):
            d.update(e=rng.choice(balpha), extra=extra())
        elif op == "unsat_core":
            d["extra"] = []
            if core_extra and rng.random() < core_extra:
                # a what-if core: the extra constraints contradict something the solver holds (2 of 3) or are just any
                if held[s] and rng.random() < 0.67:
                    d["extra"] = [contradicting_add(rng, held[s], calpha)[-1]]
                else:
                    d["extra"] = [rng.choice(calpha) for _ in range(rng.choice([1, 1, 2]))]
        elif op == "pickle":
            if pickle_all and rng.random() < pickle_all:
                d["all"] = True       # all solvers of the history in one dump (oracle-only streams)
            # what a restored solver says first is often the plain satisfiability question
            if rng.random() < 0.5:
                hist.append(d)
                d = {"s": s, "op": "satisfiable", "extra": []}
        elif op in ("split", "combine", "merge", "blank_copy"):
            pass
        elif op == "downsize" and after_downsize and rng.random() < after_downsize:
            e = rng.choice(q) if q and rng.random() < 0.7 else rng.choice(bv_exprs)

            def everything():
                return {"s": s, "op": "eval", "e": e, "n": rng.choice([20, 40]), "extra": []} if rng.random() < 0.5 else \
                    {"s": s, "op": rng.choice(["min", "max"]), "e": e, "signed": rng.random() < 0.5, "extra": []}
            if rng.random() < 0.6:
                hist.append(everything())
            if e not in q:
                q.append(e)
            hist.append(d)
            k = rng.random()
            hist.append({"s": s, "op": "eval", "e": rng.choice(bv_exprs), "n": 1, "extra": []} if k < 0.5 else
                        {"s": s, "op": "solution", "e": rng.choice(bv_exprs), "v": rng.randrange(16), "extra": []} if k < 0.75 else
                        {"s": s, "op": "satisfiable", "extra": [rng.choice(calpha)]})
            for _ in range(rng.choice([1, 2])):
                hist.append(everything())
            continue
        elif op == "branch":
            if nsolv >= max_solvers:
                continue
            queried[nsolv] = list(q)
            used[nsolv] = set(used[s])
            held[nsolv] = list(held[s])
            nsolv += 1
        hist.append(d)
    return hist


def _size_of(e):
    if not _UNI:
        _UNI.append(Universe())
    a = _UNI[0].parse(e)
    return a.size() if hasattr(a, "size") else 0


def contradicting_add(rng, held, calpha):
    """an add() that syntactically contradicts a constraint written in `held`: the contradicting constraint alone, or
    (2 of 3) in one call with a constraint over other variables (the order within the call is random)"""
    import re
    c = rng.choice(held)
    m = re.fullmatch(r"(.+) == (\d+)", c)
    if m and m.group(1).count("(") == m.group(1).count(")") and rng.random() < 0.8:
        lhs, k = m.group(1), int(m.group(2))
        lhs = lhs if re.fullmatch(r"\w+|\([^()]*\)", lhs) else "(%s)" % lhs
        bad = "%s == %d" % (lhs, (k + rng.randrange(1, 7)) % 8) if rng.random() < 0.6 else "%s != %d" % (lhs, k)
    else:
        bad = {"b": "Not(b)", "Not(b)": "b", "true": "false"}.get(c, "Not(%s)" % c)
    if rng.random() < 0.34:
        return [bad]
    other = [t for t in calpha if _vars_of(t) and not _vars_of(t) & _vars_of(bad)]
    if not other:
        return [bad]
    cs = [rng.choice(other), bad]
    rng.shuffle(cs)
    return cs


_VARS_OF = {}


def _vars_of(c):
    """variable names of an alphabet constraint / expression (syntactic: the names x, y, z, b as words)"""
    if c not in _VARS_OF:
        import re
        _VARS_OF[c] = frozenset(re.findall(r"\b([xyzb])\b", c))
    return _VARS_OF[c]


def gen_combine_history(rng, length=0, calpha=None, ealpha=None):
    """combine of three or four solvers that each have their own constraints and query history (so the caching
    classes carry models): the solvers start as branches of an empty one; often the first is variable-disjoint from
    the others while two of the others constrain the same variable"""
    calpha = [c for c in (calpha or CONSTRAINTS) if _vars_of(c)]
    ealpha = ealpha or EXPRS
    k = rng.choice([3, 3, 4])
    hist = [{"s": 0, "op": "branch"} for _ in range(k - 1)]
    focus = [rng.choice(calpha) for _ in range(k)]
    if rng.random() < 0.6:
        # solver 0 disjoint from the rest, solvers 1 and 2 overlapping
        for _ in range(40):
            c0, c1 = rng.choice(calpha), rng.choice(calpha)
            c2s = [c for c in calpha if _vars_of(c) & _vars_of(c1) and not _vars_of(c) & _vars_of(c0)]
            if not _vars_of(c0) & _vars_of(c1) and c2s:
                focus[0], focus[1], focus[2] = c0, c1, rng.choice(c2s)
                for j in range(3, k):
                    rest = [c for c in calpha if not _vars_of(c) & _vars_of(c0)]
                    focus[j] = rng.choice(rest)
                break
    for i in range(k):
        cs = [focus[i]]
        sub = [c for c in calpha if _vars_of(c) <= _vars_of(focus[i])]
        if rng.random() < 0.4:
            cs.append(rng.choice(sub))
        hist.append({"s": i, "op": "add", "cs": cs})
    order = list(range(k))
    rng.shuffle(order)
    for i in order:
        if rng.random() < 0.85:
            es = [e for e in ealpha if _vars_of(e) and _vars_of(e) <= _vars_of(focus[i])] or ["x"]
            r = rng.random()
            if r < 0.5:
                hist.append({"s": i, "op": "eval", "e": rng.choice(es), "n": rng.choice([1, 2, 20]), "extra": []})
            elif r < 0.8:
                hist.append({"s": i, "op": "satisfiable", "extra": []})
            else:
                hist.append({"s": i, "op": rng.choice(["min", "max"]), "e": rng.choice(es), "signed": rng.random() < 0.5, "extra": []})
    me = 0 if rng.random() < 0.7 else rng.randrange(k)
    others = [j for j in range(k) if j != me]
    rng.shuffle(others)
    hist.append({"s": me, "op": "combine", "others": others})
    hist.append({"s": k, "op": "satisfiable", "extra": []})
    for _ in range(rng.choice([1, 2, 3])):
        r = rng.random()
        if r < 0.5:
            hist.append({"s": k, "op": "eval", "e": rng.choice(ealpha), "n": 20, "extra": []})
        elif r < 0.75:
            hist.append({"s": k, "op": "batch_eval", "es": rng.sample(["x", "y", "z"], 2), "n": 40, "extra": []})
        else:
            hist.append({"s": k, "op": rng.choice(["min", "max"]), "e": rng.choice(ealpha), "signed": rng.random() < 0.5, "extra": []})
    return hist


def gen_struct_history(rng, length, calpha=None, ealpha=None, weights=None, span=6, prefix=None, keep_s=0.0, **gen):
    """histories with split / combine / merge / blank_copy (relative solver addressing, see run_history: indices are taken
    modulo the number of solvers alive, so -1 is the solver created last).  `prefix`: calls made before, kept as they are;
    keep_s: share of calls that stay on the solver the underlying generator chose (it tracks per solver what was added and
    queried, which is what its directed follow-ups - `contra`, cache-directed queries - go by); **gen goes to gen_history."""
    calpha = calpha or CONSTRAINTS
    base = gen_history(rng, length, calpha=calpha, ealpha=ealpha or EXPRS, max_solvers=99,
                       weights=weights or {"add": 30, "satisfiable": 8, "eval": 12, "batch_eval": 3, "min": 6, "max": 6, "solution": 5,
                                           "simplify": 4, "downsize": 1, "branch": 8, "split": 5, "combine": 6, "merge": 7}, **gen)
    out = [dict(d) for d in (prefix or [])]
    for d in base:
        d = dict(d)
        d["rel"] = True
        if not (keep_s and rng.random() < keep_s):
            d["s"] = rng.randrange(span)
        if d["op"] == "combine":
            d["others"] = [rng.randrange(span) for _ in range(rng.choice([1, 1, 2]))]
        elif d["op"] == "merge":
            d["others"] = [rng.randrange(span) for _ in range(rng.choice([1, 1, 2]))]
            d["conds"] = [rng.choice(calpha + ["true", "true"]) for _ in range(1 + len(d["others"]))]
            d["anc"] = rng.randrange(span) if rng.random() < 0.3 else None
        out.append(d)
    return out


# ----------------------------------------------------------------------------------------------- directed shapes
# Each returns the opening calls of a history (random within the shape); gen_directed appends random calls to it.

def _add(cs, s=0):
    return {"s": s, "op": "add", "cs": list(cs)}


def _query(rng, s, exprs, big=True):
    r = rng.random()
    if r < 0.3:
        return {"s": s, "op": "satisfiable", "extra": []}
    if r < 0.65:
        return {"s": s, "op": "eval", "e": rng.choice(exprs), "n": 20 if big else rng.choice([1, 2, 3]), "extra": []}
    if r < 0.9:
        return {"s": s, "op": rng.choice(["min", "max"]), "e": rng.choice(exprs), "signed": rng.random() < 0.3, "extra": []}
    return {"s": s, "op": "batch_eval", "es": [rng.choice(exprs), rng.choice(["x", "y", "z"])], "n": 40, "extra": []}


def prefix_unchecked_simplify(rng):
    """Constraints are added WITHOUT any question in between: `p == c`, a constraint tying q to p, one or two constraints on q
    alone whose (un)satisfiability only a solver sees, often something about a third variable; then a call that
    simplifies (simplify() itself, or min / max / eval(n > 1), which simplify first) - on the solver or on a branch of it.
    Once p is known the tie no longer mentions it: what was one connected set falls apart, and what the parts say has never
    been checked.  Then questions about satisfiability and about the OTHER variables."""
    vs = ["x", "y", "z"]
    rng.shuffle(vs)
    p, q, r = vs
    adds = [["%s == %d" % (p, rng.randrange(8))], [rng.choice(LINKS[tuple(sorted((p, q)))])]]
    body = [rng.choice(OPAQUE[q]) for _ in range(rng.choice([1, 1, 2]))]
    plain = [c for c in CONSTRAINTS if _vars_of(c) == {q}]
    if plain and rng.random() < 0.4:
        body.append(rng.choice(plain))
    adds += [[c] for c in body]
    free = [c for c in CONSTRAINTS if _vars_of(c) and _vars_of(c) <= {r, "b"}]
    if rng.random() < 0.7:
        adds.append([rng.choice(free)])
    if rng.random() < 0.5:
        rng.shuffle(adds)
    if len(adds) > 2 and rng.random() < 0.3:     # two of the add() calls as one
        i = rng.randrange(len(adds) - 1)
        adds[i:i + 2] = [adds[i] + adds[i + 1]]
    hist = [_add(cs) for cs in adds]
    t, other = 0, None
    if rng.random() < 0.35:
        hist.append({"s": 0, "op": "branch"})
        t = rng.choice([0, 1])
        other = 1 - t
    rex = [e for e in EXPRS if _vars_of(e) and _vars_of(e) <= {r, "b"}] or [r]
    k = rng.random()
    if k < 0.5:
        hist.append({"s": t, "op": "simplify"})
    elif k < 0.75:
        hist.append({"s": t, "op": rng.choice(["min", "max"]), "e": rng.choice(rex), "signed": rng.random() < 0.3, "extra": []})
    elif k < 0.9:
        hist.append({"s": t, "op": "eval", "e": rng.choice(rex), "n": rng.choice([2, 5, 20]), "extra": []})
    else:
        hist.append({"s": t, "op": "batch_eval", "es": [rng.choice(rex), r], "n": 5, "extra": []})
    for _ in range(rng.choice([1, 2, 3])):
        hist.append(_query(rng, t, rex + [r]))
    if other is not None:
        hist.append(_query(rng, other, rex + [r]))
    if rng.random() < 0.5:
        hist.append(_query(rng, t, [q, p]))
    return hist


def prefix_empty_branch(rng):
    """A solver that holds nothing yet is branched (once or twice); the FIRST constraint of one of the solvers is
    `v == c`, the others get a constraint over the same v, are asked something small (so that they know a model or two) and
    then for everything: all values, the extrema."""
    hist, n = [], 1
    for _ in range(rng.choice([1, 1, 2])):
        hist.append({"s": rng.randrange(n), "op": "branch"})
        n += 1
    v = rng.choice(["x", "x", "y", "z"])
    narrowed = rng.randrange(n)
    others = [i for i in range(n) if i != narrowed]
    rng.shuffle(others)
    rng_c = [c for c in CONSTRAINTS if _vars_of(c) == {v} and " == " not in c] or ["ULE(x, 11)"]
    steps = [[_add(["%s == %d" % (v, rng.randrange(8))], narrowed)]]
    if rng.random() < 0.5:
        steps[0].append(_query(rng, narrowed, [v]))
    for o in others:
        st = [_add([rng.choice(rng_c)], o)]
        if rng.random() < 0.8:
            st.append({"s": o, "op": "satisfiable", "extra": []} if rng.random() < 0.5 else
                      {"s": o, "op": "eval", "e": v, "n": rng.choice([1, 2, 3]), "extra": []})
        for _ in range(rng.choice([1, 2])):
            st.append({"s": o, "op": "eval", "e": v, "n": 20, "extra": []} if rng.random() < 0.5 else
                      {"s": o, "op": rng.choice(["min", "max"]), "e": v, "signed": False, "extra": []})
        steps.append(st)
    rng.shuffle(steps)
    if rng.random() < 0.5:
        # interleave: the narrowing add first / last does not matter for what each solver may answer
        flat = [d for st in steps for d in st]
    else:
        flat = [d for d in steps[0]] + [d for st in steps[1:] for d in st]
    return hist + flat


def prefix_early_pickle(rng):
    """A solver is given constraints (several in one add() call; some contradicting syntactically what it already holds)
    and goes through pickle BEFORE it was ever asked anything; the first question comes afterwards."""
    hist, held = [], []
    for i in range(rng.choice([1, 2, 2, 3, 4])):
        if held and rng.random() < 0.5:
            cs = contradicting_add(rng, held, CONSTRAINTS)
        elif not held and rng.random() < 0.5:
            cs = ["%s == %d" % (rng.choice(["x", "y", "z"]), rng.randrange(8))]
        else:
            cs = [rng.choice(CONSTRAINTS) for _ in range(rng.choice([1, 1, 2, 3]))]
        held += cs
        hist.append(_add(cs))
    t = 0
    if rng.random() < 0.25:
        hist.append({"s": 0, "op": "branch"})
        t = rng.choice([0, 1])
        if rng.random() < 0.5:
            hist.append(_add(contradicting_add(rng, held, CONSTRAINTS) if rng.random() < 0.5 else [rng.choice(CONSTRAINTS)], t))
    hist.append({"s": t, "op": "pickle"})
    if rng.random() < 0.15:
        hist.append({"s": t, "op": "pickle"})
    hist.append({"s": t, "op": "satisfiable", "extra": []} if rng.random() < 0.5 else _query(rng, t, ["x", "y", "z", "x + ZeroExt(1, y)"]))
    return hist


def prefix_unsat_then_structure(rng, calpha, ealpha):
    """A solver holds a syntactic contradiction next to independent constraints, is asked once (typically: satisfiable?, in
    whatever mode the caller marks the queries with) and is then split / merged with another solver without a common
    ancestor / combined / blank-copied; the solvers that come out are asked."""
    hist = [{"s": 0, "op": "branch"}]                      # solver 1: the partner of merge / combine, created while all is empty
    c1 = rng.choice([c for c in calpha if _vars_of(c)])
    ind = [c for c in calpha if _vars_of(c) and not _vars_of(c) & _vars_of(c1)] or [c1]
    adds = [[c1], contradicting_add(rng, [c1], calpha)]
    if rng.random() < 0.7:
        adds.insert(rng.randrange(3), [rng.choice(ind)])
    hist += [_add(cs) for cs in adds]
    hist.append(_add([rng.choice(ind)], 1))
    hist.append({"s": 0, "op": "satisfiable", "extra": []} if rng.random() < 0.8 else _query(rng, 0, ealpha))
    k = rng.random()
    if k < 0.4:
        hist.append({"s": 0, "op": "split"})
    elif k < 0.65:
        hist.append({"s": 0, "op": "merge", "others": [1], "conds": rng.choice([["b", "Not(b)"], ["true", "true"]]), "anc": None})
    elif k < 0.85:
        hist.append({"s": 0, "op": "blank_copy"})
        if rng.random() < 0.5:
            hist.append({"s": -1, "rel": True, "op": "add", "cs": [rng.choice(ind)]})
    else:
        hist.append({"s": 1, "op": "combine", "others": [0]})
    for s in (-1, -2, -1):
        q = _query(rng, s, ealpha)
        q["rel"] = True
        hist.append(q)
    return hist


def _ranges(v):
    """satisfiable constraints over the single variable v (alphabet entries + generated bounds)"""
    w = 4 if v == "x" else 3
    return [c for c in CONSTRAINTS if _vars_of(c) == {v}] + ["ULE(%s, %d)" % (v, k) for k in (1, 2, 4, 5)] + \
        ["UGE(%s, %d)" % (v, (1 << w) - k) for k in (2, 3, 5)] + ["%s != %d" % (v, k) for k in (0, 1)] + ["UGE(%s, 1)" % v]


def prefix_exhaust_then_connect(rng):
    """Two (sometimes three) variables get range constraints of their own and are each ENUMERATED completely (eval with n beyond
    the number of values; extrema): whoever caches models now knows all of them per variable.  Then ONE constraint connects the
    variables - mostly a weak one (a disequality, possibly over a third, fresh variable) that falsifies none of the models known
    and that no simplifier drops; sometimes on a branch.  Then everything is asked again: all values of each variable and of
    expressions over both, extrema, satisfiability under `v == k`."""
    vs = ["x", "y", "z"]
    rng.shuffle(vs)
    p, q, r = vs
    pair = tuple(sorted((p, q)))
    hist = []
    side = []
    for v in (p, q) + ((r,) if rng.random() < 0.25 else ()):
        st = [_add([rng.choice(_ranges(v))])]
        if rng.random() < 0.4:
            st.append(_add([rng.choice(_ranges(v))]))
        ex = [e for e in EXPRS if _vars_of(e) == {v}]
        for _ in range(rng.choice([1, 1, 2])):
            k = rng.random()
            if k < 0.7:
                st.append({"s": 0, "op": "eval", "e": v if rng.random() < 0.8 else rng.choice(ex), "n": rng.choice([20, 20, 40]), "extra": []})
            elif k < 0.9:
                st.append({"s": 0, "op": rng.choice(["min", "max"]), "e": v, "signed": rng.random() < 0.3, "extra": []})
            else:
                st.append({"s": 0, "op": "batch_eval", "es": [v], "n": 20, "extra": []})
        side.append(st)
    if rng.random() < 0.5:
        hist = [d for st in side for d in st]
    else:      # all the adds first, then the questions
        hist = [d for st in side for d in st if d["op"] == "add"] + [d for st in side for d in st if d["op"] != "add"]
    t = 0
    if rng.random() < 0.25:
        hist.append({"s": 0, "op": "branch"})
        t = rng.choice([0, 1])
    k = rng.random()
    link = rng.choice(WEAK3) if k < 0.45 else rng.choice(WEAK[pair]) if k < 0.85 else rng.choice(LINKS[pair])
    hist.append(_add([link], t))
    both = [e for e in EXPRS if {p, q} <= _vars_of(e)] or [p]
    for _ in range(rng.choice([2, 3, 4])):
        k = rng.random()
        v = rng.choice([p, q])
        if k < 0.55:
            hist.append({"s": t, "op": "eval", "e": v if rng.random() < 0.8 else rng.choice(both), "n": rng.choice([20, 40]), "extra": []})
        elif k < 0.7:
            hist.append({"s": t, "op": rng.choice(["min", "max"]), "e": v, "signed": rng.random() < 0.3, "extra": []})
        elif k < 0.85:
            hist.append({"s": t, "op": "satisfiable", "extra": ["%s == %d" % (v, rng.randrange(8))]})
        else:
            hist.append({"s": t, "op": "batch_eval", "es": [p, q], "n": 200, "extra": []})
    if t != 0 or rng.random() < 0.2:
        hist.append({"s": 1 - t if t else 0, "op": "eval", "e": rng.choice([p, q]), "n": 20, "extra": []})
    return hist


def prefix_branch_rebuild(rng, calpha=None, ealpha=None, repl=0.0, rebuild=("downsize", "pickle", "simplify", "add", "none")):
    """A solver is given constraints on a variable v, maybe asked, and branched (sometimes twice: nested).  ONE of the solvers -
    the actor: child, parent or grand-child - then learns more: further constraints narrowing v and, with probability `repl`,
    a user-level replacement add_replacement(u, constant) (2 of 3 with invalidate_cache=False, then of any variable; else of a
    variable nothing mentions yet).  Each OTHER solver then rebuilds what it remembers - downsize(), a pickle round trip,
    simplify(), one more constraint on another variable - and is asked everything about v (and u): all values, the extrema,
    single values by solution() and by satisfiable(extra_constraints=[v == k])."""
    calpha = calpha or CONSTRAINTS
    ealpha = ealpha or EXPRS
    by_var = {v: [c for c in calpha if _vars_of(c) == {v}] for v in ("x", "y", "z")}
    v = rng.choice([u for u in ("x", "x", "y", "z") if len(by_var[u]) >= 2])
    mentioned = {v}
    hist = [_add([rng.choice(by_var[v])])]
    if rng.random() < 0.4:
        hist.append(_add([rng.choice(by_var[v])]))
    if rng.random() < 0.3:
        c = rng.choice([c for c in calpha if _vars_of(c) and v not in _vars_of(c)] or by_var[v])
        mentioned |= _vars_of(c)
        hist.append(_add([c]))
    ex = [e for e in ealpha if _vars_of(e) == {v}] or [v]
    if rng.random() < 0.5:
        hist.append(_query(rng, 0, ex, big=rng.random() < 0.5))
    hist.append({"s": 0, "op": "branch"})
    n = 2
    if rng.random() < 0.3:
        hist.append({"s": rng.choice([0, 1]), "op": "branch"})
        n = 3
    actor = rng.randrange(n)
    about = [v]
    acts = []
    for _ in range(rng.choice([1, 1, 2])):
        if repl and rng.random() < repl:
            if rng.random() < 0.67:
                u = rng.choice(["x", "y", "z", v])
                acts.append({"s": actor, "op": "add", "cs": ["(%s) == %d" % (u, rng.randrange(8))], "repl": [u, rng.randrange(8)], "inval": False})
                acts[-1]["cs"] = ["(%s) == %d" % (u, acts[-1]["repl"][1])]
                about.append(u)
            else:
                fresh = [u for u in ("x", "y", "z") if u not in mentioned]
                if fresh:
                    u, c = rng.choice(fresh), rng.randrange(8)
                    acts.append({"s": actor, "op": "add", "cs": ["(%s) == %d" % (u, c)], "repl": [u, c]})
                    mentioned.add(u)
                    about.append(u)
        else:
            acts.append(_add([rng.choice(by_var[v])], actor))
    hist += acts
    if rng.random() < 0.5:
        hist.append(_query(rng, actor, ex + about[1:], big=rng.random() < 0.5))
    others = [i for i in range(n) if i != actor]
    rng.shuffle(others)
    for o in others:
        rb = rng.choice(rebuild)
        if rb == "add":
            c = rng.choice([c for c in calpha if _vars_of(c) and not _vars_of(c) & set(about)] or ["true"])
            hist.append(_add([c], o))
        elif rb != "none":
            hist.append({"s": o, "op": rb})
        for _ in range(rng.choice([2, 3])):
            k, u = rng.random(), rng.choice(about)
            if k < 0.4:
                hist.append({"s": o, "op": "eval", "e": u if rng.random() < 0.7 else rng.choice([e for e in ealpha if u in _vars_of(e)] or [u]),
                             "n": 20, "extra": []})
            elif k < 0.6:
                hist.append({"s": o, "op": rng.choice(["min", "max"]), "e": u, "signed": False, "extra": []})
            elif k < 0.8:
                hist.append({"s": o, "op": "solution", "e": u, "v": rng.randrange(16), "extra": []})
            else:
                hist.append({"s": o, "op": "satisfiable", "extra": ["%s == %d" % (u, rng.randrange(8))]})
    if rng.random() < 0.3:
        hist.append(_query(rng, actor, ex, big=True))
    return hist


_CONFLICTS = []


def solver_only_conflicts():
    """constraint sets without a model that no simplifier turns into `false`: a tie of two variables and an opposite tie,
    or one solver-only constraint that nothing satisfies (brute force over the universe, once)"""
    if not _CONFLICTS:
        _size_of("x")
        uni = _UNI[0]
        for pair, links in LINKS.items():
            for i, a in enumerate(links):
                for b in links[i + 1:]:
                    if uni.conj([uni.parse(a), uni.parse(b)]) == 0:
                        _CONFLICTS.append((frozenset(pair), [a, b]))
        for v, cs in OPAQUE.items():
            _CONFLICTS.extend((frozenset([v]), [c]) for c in cs if uni.mask(uni.parse(c)) == 0)
    return _CONFLICTS


def _maybe_ann(rng, c, p, kinds=(1, 2, 3)):
    return "Ann(%s, %d)" % (c, rng.choice(kinds)) if rng.random() < p else c


def prefix_core_whatif(rng, annotate=0.0, ann_kinds=(1, 2, 3)):
    """The solver's OWN constraints have no model, in a way only a solver sees (a tie and its opposite; a constraint on one
    variable that nothing satisfies), next to a harmless constraint on another variable r - often added last.  Mostly the
    verdict is learnt by a question.  Then a core is asked for under an extra constraint that contradicts the constraint
    on r (a what-if core may rely on the extras), and then the core of the solver itself: at once, again, on a branch."""
    _size_of("x")
    uni = _UNI[0]
    vs, body = rng.choice(solver_only_conflicts())
    rest = [v for v in ("x", "y", "z") if v not in vs]
    r = rng.choice(rest)
    pool = [c for c in CONSTRAINTS if _vars_of(c) == {r}] + ["%s == %d" % (r, k) for k in range(8)] + ["%s != %d" % (r, k) for k in range(3)]
    rc = rng.choice([c for c in pool if uni.mask(uni.parse(c))])
    against = [c for c in pool if uni.conj([uni.parse(c), uni.parse(rc)]) == 0 and uni.mask(uni.parse(c))] or ["Not(%s)" % rc]
    adds = [[c] for c in body]
    if rng.random() < 0.5:
        adds.append([rc])
    else:
        adds.insert(rng.randrange(len(adds) + 1), [rc])
    if len(rest) > 1 and rng.random() < 0.3:
        other = [c for c in CONSTRAINTS if _vars_of(c) and _vars_of(c) <= set(rest) - {r} | {"b"}]
        adds.insert(rng.randrange(len(adds) + 1), [rng.choice(other)])
    hist = [_add([_maybe_ann(rng, c, annotate, ann_kinds) for c in cs]) for cs in adds]
    k = rng.random()
    if k < 0.6:
        hist.append({"s": 0, "op": "satisfiable", "extra": []})
    elif k < 0.8:
        hist.append({"s": 0, "op": "eval", "e": rng.choice(["x", "y", "z"]), "n": rng.choice([1, 5]), "extra": []})
    t = 0
    if rng.random() < 0.2:
        hist.append({"s": 0, "op": "branch"})
        t = 1
    hist.append({"s": t, "op": "unsat_core", "extra": [rng.choice(against)] + ([rng.choice(CONSTRAINTS)] if rng.random() < 0.15 else [])})
    hist.append({"s": t, "op": "unsat_core", "extra": []})
    if rng.random() < 0.5:
        if t == 0 and rng.random() < 0.6:
            hist.append({"s": 0, "op": "branch"})
            hist.append({"s": 1, "op": "unsat_core", "extra": []})
        else:
            hist.append({"s": t, "op": "unsat_core", "extra": [rng.choice(against)] if rng.random() < 0.3 else []})
    return hist


def prefix_annotated_core(rng, annotate=0.7, ann_kinds=(1, 2, 3)):
    """Constraints that say where they came from (annotations): a few harmless ones, a constraint c and - added on its own,
    while the solver still holds few constraints - one that contradicts c syntactically (v == k against v == k' / v != k,
    c against Not(c)) or through a solver-only conflict; either, both or none annotated.  Then the core is asked for: on the
    solver, after a branch, after further adds.  Every element of a core must be one of the ASTs that was added."""
    _size_of("x")
    hist, held = [], []
    for _ in range(rng.choice([0, 0, 1, 2, 3])):
        c = rng.choice([c for c in CONSTRAINTS if _vars_of(c) and c not in ("false",)])
        held.append(c)
        hist.append(_add([_maybe_ann(rng, c, annotate / 2, ann_kinds)]))
    if rng.random() < 0.75:
        v = rng.choice(["x", "x", "y", "z"])
        c = "%s == %d" % (v, rng.randrange(8)) if rng.random() < 0.7 else rng.choice([c for c in CONSTRAINTS if _vars_of(c) == {v}])
        hist.append(_add([_maybe_ann(rng, c, annotate, ann_kinds)]))
        if rng.random() < 0.3:
            c2 = rng.choice([c for c in CONSTRAINTS if _vars_of(c)])
            hist.append(_add([_maybe_ann(rng, c2, annotate / 2, ann_kinds)]))
        if rng.random() < 0.25:
            hist.append(_query(rng, 0, ["x", "y", "z"], big=False))
        bad = contradicting_add(rng, [c], CONSTRAINTS)
        if rng.random() < 0.7:
            bad = bad[-1:] if _vars_of(bad[-1]) & _vars_of(c) else bad[:1]
        hist.append(_add([_maybe_ann(rng, b, annotate, ann_kinds) for b in bad]))
    else:
        vs, body = rng.choice(solver_only_conflicts())
        for c in body:
            hist.append(_add([_maybe_ann(rng, c, annotate, ann_kinds)]))
    t = 0
    if rng.random() < 0.25:
        hist.append({"s": 0, "op": "branch"})
        t = rng.choice([0, 1])
    hist.append({"s": t, "op": "unsat_core", "extra": []})
    if rng.random() < 0.4:
        hist.append(_add([_maybe_ann(rng, rng.choice(CONSTRAINTS), annotate, ann_kinds)], t))
        hist.append({"s": t, "op": "unsat_core", "extra": []})
    return hist


def _ask_all(rng, s, v, exprs=None, core=False, light=False, k=None):
    """questions that say everything about the variable v of solver s: all values, the extrema, single values by solution() and by
    satisfiable(extra_constraints=[v == k]); light: only calls that neither simplify nor enumerate (they keep the Z3 solver the
    frontend has); core: unsat_core() too"""
    out = []
    exprs = exprs or [v]
    for _ in range(k or rng.choice([2, 3, 4])):
        r = rng.random()
        if core and r < 0.3:
            out.append({"s": s, "op": "unsat_core", "extra": []})
        elif r < 0.45:
            out.append({"s": s, "op": "solution", "e": v, "v": rng.randrange(16), "extra": []})
        elif r < 0.6:
            out.append({"s": s, "op": "satisfiable", "extra": ["%s == %d" % (v, rng.randrange(8))]})
        elif r < 0.7 or light:
            out.append({"s": s, "op": "eval", "e": rng.choice(exprs), "n": 1, "extra": []})
        elif r < 0.9:
            out.append({"s": s, "op": "eval", "e": rng.choice(exprs), "n": rng.choice([20, 40]), "extra": []})
        else:
            out.append({"s": s, "op": rng.choice(["min", "max"]), "e": rng.choice(exprs), "signed": rng.random() < 0.3, "extra": []})
    return out


def prefix_look_then_branch(rng, calpha=None, ealpha=None, balpha=None):
    """A solver holds constraints on some variables and is ASKED about a variable v it holds nothing on (one value, a
    truth value, solution(), satisfiable() under an extra constraint on v, the extrema): whatever it sets up to answer
    belongs to it alone.  Then it is branched (sometimes twice: nested), ONE of the solvers adds a constraint on v (another one
    sometimes a different one), and every solver is asked everything about v."""
    calpha = calpha or CONSTRAINTS
    ealpha = ealpha or EXPRS
    balpha = balpha or BOOLS
    v = rng.choice(["x", "y", "z"])
    others = [c for c in calpha if _vars_of(c) and v not in _vars_of(c)]
    hist = [_add([rng.choice(others)]) for _ in range(rng.choice([0, 1, 1, 2]))]
    ex = [e for e in ealpha if _vars_of(e) == {v}] or [v]
    bs = [c for c in balpha + calpha if _vars_of(c) == {v}]
    for _ in range(rng.choice([1, 1, 2])):
        r = rng.random()
        if r < 0.3:
            hist.append({"s": 0, "op": "eval", "e": rng.choice(ex), "n": rng.choice([1, 1, 2, 20]), "extra": []})
        elif r < 0.5:
            hist.append({"s": 0, "op": rng.choice(["is_true", "is_false"]), "e": rng.choice(bs), "extra": []})
        elif r < 0.7:
            hist.append({"s": 0, "op": "solution", "e": rng.choice(ex), "v": rng.randrange(8), "extra": []})
        elif r < 0.9:
            hist.append({"s": 0, "op": "satisfiable", "extra": [rng.choice(bs)]})
        else:
            hist.append({"s": 0, "op": rng.choice(["min", "max"]), "e": rng.choice(ex), "signed": False, "extra": []})
    hist.append({"s": 0, "op": "branch"})
    n = 2
    if rng.random() < 0.3:
        hist.append({"s": rng.choice([0, 1]), "op": "branch"})
        n = 3
    order = list(range(n))
    rng.shuffle(order)
    own = [c for c in _ranges(v) + ["%s == %d" % (v, rng.randrange(8))] if _vars_of(c) == {v}]
    hist.append(_add([rng.choice(own)], order[0]))
    if rng.random() < 0.3:
        hist.append(_add([rng.choice(own)], order[1]))
    if rng.random() < 0.5:
        hist += _ask_all(rng, order[0], v, ex, k=1)
    for o in order[1:] + order[:1]:
        hist += _ask_all(rng, o, v, ex)
    return hist


def prefix_worker_between(rng, core=False):
    """Thread hand-off around a branch (the calls still run strictly one after the other): the main thread gives a solver
    constraints on v and asks it (it now has a Z3 solver in the main thread), then branches it.  ONE side - the actor - then learns
    more, and is used by a WORKER thread in between: [main: add] worker: ask / ask, add, ask / add, ask; back in the main
    thread the actor may get one more constraint and is asked with calls that keep its Z3 solver (solution, one value,
    satisfiable under an extra constraint; unsat_core() when `core`), then the OTHER side is asked everything about v."""
    v = rng.choice(["x", "x", "y", "z"])
    own = _ranges(v)
    narrow = own + ["%s == %d" % (v, rng.randrange(8))]
    hist = [_add([rng.choice(own)])]
    if rng.random() < 0.3:
        hist.append(_add([rng.choice([c for c in CONSTRAINTS if _vars_of(c) and v not in _vars_of(c)])]))
    hist.append({"s": 0, "op": "satisfiable", "extra": []} if rng.random() < 0.6 else {"s": 0, "op": "eval", "e": v, "n": 1, "extra": []})
    hist.append({"s": 0, "op": "branch"})
    a = rng.choice([0, 1])
    o = 1 - a
    if rng.random() < 0.5:
        hist.append(_add([rng.choice(narrow)], a))
    w = []
    k = rng.random()
    if k < 0.35:
        w += _ask_all(rng, a, v, light=True, k=1)
    elif k < 0.7:
        w += [{"s": a, "op": "satisfiable", "extra": []}, _add([rng.choice(narrow + [c for c in CONSTRAINTS if _vars_of(c) and v not in _vars_of(c)])], a),
              {"s": a, "op": "satisfiable", "extra": []} if rng.random() < 0.6 else _ask_all(rng, a, v, light=True, k=1)[0]]
    else:
        w += [_add([rng.choice(narrow)], a)] + _ask_all(rng, a, v, light=True, k=1)
    hist += [dict(d, t=1) for d in w]
    if rng.random() < 0.5:
        # often contradicting what both sides hold: the other side must stay satisfiable
        hist.append(_add(["Not(%s)" % hist[0]["cs"][0]] if rng.random() < 0.6 else [rng.choice(narrow)], a))
    hist += _ask_all(rng, a, v, core=core, light=True, k=rng.choice([1, 2]))
    hist += _ask_all(rng, o, v, core=core, light=True, k=rng.choice([2, 3]))
    hist += _ask_all(rng, o, v, core=core, k=rng.choice([1, 2]))
    if rng.random() < 0.4:
        hist += _ask_all(rng, a, v, core=core, k=1)
    return hist


def _spanning(p, q):
    """expressions / constraints whose variables are exactly {p, q}"""
    P, Q = ("ZeroExt(1, %s)" % p if p != "x" else p), ("ZeroExt(1, %s)" % q if q != "x" else q)
    if "x" not in (p, q):
        P, Q = p, q
    exprs = ["%s + %s" % (P, Q), "%s ^ %s" % (P, Q), "%s - %s" % (P, Q)]
    return exprs, P, Q


def prefix_span_then_branch(rng, core=False):
    """Two variables p and q get range constraints of their own (nothing connects them) and ONE question is asked that spans
    exactly {p, q} (an expression over both: a value, the extrema, solution(); satisfiable() under an extra constraint over
    both): whoever answers by combining what it holds about p and about q may remember the combination.  Then the solver is
    branched (once or twice), one or two of the solvers each add a constraint over exactly {p, q} - mostly `e == k` with
    different k, each satisfiable on its own -, and every solver is asked about expressions over {p, q} (and, `core`, for its
    unsat core)."""
    _size_of("x")
    uni = _UNI[0]
    vs = ["x", "y", "z"]
    rng.shuffle(vs)
    p, q = vs[:2]
    exprs, P, Q = _spanning(p, q)
    cp, cq = rng.choice(_ranges(p)), rng.choice(_ranges(q))
    hist = [_add([cp]), _add([cq])]
    if rng.random() < 0.3:
        hist.append(_add([rng.choice(_ranges(vs[2]))]))
    if rng.random() < 0.3:
        hist.insert(rng.randrange(1, len(hist) + 1), {"s": 0, "op": "satisfiable", "extra": []})
    e = rng.choice(exprs)
    w = uni.parse(e).size()
    base = uni.conj([uni.parse(cp), uni.parse(cq)])
    vals = sorted(uni.value_set(uni.parse(e), base)) or [0]
    r = rng.random()
    if r < 0.35:
        hist.append({"s": 0, "op": "eval", "e": e, "n": rng.choice([1, 1, 2, 40]), "extra": []})
    elif r < 0.5:
        hist.append({"s": 0, "op": rng.choice(["min", "max"]), "e": e, "signed": False, "extra": []})
    elif r < 0.7:
        hist.append({"s": 0, "op": "solution", "e": e, "v": rng.choice(vals), "extra": []})
    else:
        hist.append({"s": 0, "op": "satisfiable", "extra": ["%s == %d" % (e, rng.choice(vals))]})
    hist.append({"s": 0, "op": "branch"})
    n = 2
    if rng.random() < 0.6:
        hist.append({"s": rng.choice([0, 0, 1]), "op": "branch"})
        n = 3
    order = list(range(n))
    rng.shuffle(order)
    links = []
    for _ in range(3):
        e2 = rng.choice(exprs)
        links.append("%s == %d" % (e2, rng.choice(sorted(uni.value_set(uni.parse(e2), base)) or [0])))
    links.append(rng.choice(WEAK[tuple(sorted((p, q)))]))
    adders = order[:rng.choice([1, 2, 2])]
    for s in adders:
        hist.append(_add([rng.choice(links[:3]) if rng.random() < 0.8 else links[3]], s))
    for s in adders[::-1] + [o for o in order if o not in adders]:
        for j in range(rng.choice([1, 2])):
            k = rng.random()
            if core and (k < 0.4 or (j == 0 and k < 0.8)):
                hist.append({"s": s, "op": "unsat_core", "extra": []})
            elif k < 0.7:
                hist.append({"s": s, "op": "eval", "e": rng.choice(exprs), "n": 40, "extra": []})
            elif k < 0.85:
                hist.append({"s": s, "op": rng.choice(["min", "max"]), "e": rng.choice(exprs), "signed": False, "extra": []})
            else:
                hist.append({"s": s, "op": "satisfiable", "extra": []})
    return hist


def prefix_exhaust_downsize(rng):
    """A solver with range constraints on a variable (or two) is asked for EVERYTHING about an expression - all its values (n
    beyond what exists), its extrema - so that whoever caches knows the complete answer; then downsize(); then ONE small question
    (one value of some expression, solution(), satisfiable() under an extra constraint: at most one model is learnt); then
    everything is asked again, without extra constraints."""
    v = rng.choice(["x", "x", "y", "z"])
    hist = [_add([rng.choice(_ranges(v))])]
    if rng.random() < 0.4:
        hist.append(_add([rng.choice(_ranges(v))]))
    if rng.random() < 0.3:
        hist.append(_add([rng.choice([c for c in CONSTRAINTS if _vars_of(c) and v not in _vars_of(c)])]))
    ex = [e for e in EXPRS if _vars_of(e) == {v}] or [v]
    asked = []
    for _ in range(rng.choice([1, 2, 3])):
        e = v if rng.random() < 0.6 else rng.choice(ex)
        asked.append(e)
        hist.append({"s": 0, "op": "eval", "e": e, "n": rng.choice([20, 40]), "extra": []} if rng.random() < 0.6 else
                    {"s": 0, "op": rng.choice(["min", "max"]), "e": e, "signed": rng.random() < 0.3, "extra": []})
    t = 0
    if rng.random() < 0.2:
        hist.append({"s": 0, "op": "branch"})
        t = rng.choice([0, 1])
    hist.append({"s": t, "op": "downsize"})
    r = rng.random()
    if r < 0.5:
        hist.append({"s": t, "op": "eval", "e": rng.choice(ex + [v, v]), "n": 1, "extra": []})
    elif r < 0.75:
        hist.append({"s": t, "op": "solution", "e": v, "v": rng.randrange(16), "extra": []})
    else:
        hist.append({"s": t, "op": "satisfiable", "extra": [rng.choice(_ranges(v))]})
    for e in asked + [rng.choice(asked)]:
        r = rng.random()
        hist.append({"s": t, "op": "eval", "e": e, "n": rng.choice([20, 40]), "extra": []} if r < 0.5 else
                    {"s": t, "op": rng.choice(["min", "max"]), "e": e, "signed": rng.random() < 0.3, "extra": []} if r < 0.9 else
                    {"s": t, "op": "batch_eval", "es": [e], "n": 40, "extra": []})
    return hist


def prefix_lifetimes(rng, rounds=None):
    """Solver LIFETIMES: two or three UNRELATED solvers (each created blank) get constraints of their own on the same variable -
    mostly the same number of add() calls - and are asked.  Then, round after round: a branch of one of them is made, asked at
    once (before anything is added to it) and DROPPED (the history never mentions it again; the garbage collector may take it,
    sometimes it is told to); at once a branch of ANOTHER one is made and asked at once.  Some branches are kept.  Whatever a
    frontend, a backend or a shared Z3 solver remembers about `who asked last` must not outlive the solver it was about."""
    v = rng.choice(["x", "x", "y", "z"])
    k = rng.choice([2, 2, 3])
    hist = [{"s": 0, "op": "blank_copy"} for _ in range(k - 1)]
    nadds = rng.choice([1, 1, 2])
    pools = _ranges(v)
    for i in range(k):
        for _ in range(nadds if rng.random() < 0.8 else rng.choice([1, 2, 3])):
            hist.append(_add([rng.choice(pools)], i))
    for i in range(k):
        hist += _ask_all(rng, i, v, k=rng.choice([1, 2]))
    nxt = k
    last = None
    for _ in range(rounds or rng.choice([6, 8, 10])):
        i = rng.choice([j for j in range(k) if j != last])
        last = i
        hist.append({"s": i, "op": "branch"})
        b, nxt = nxt, nxt + 1
        if rng.random() < 0.9:
            hist += _ask_all(rng, b, v, k=rng.choice([1, 1, 2, 3]))
        if rng.random() < 0.8:
            hist.append({"s": b, "op": "drop", "gc": rng.random() < 0.3})
        elif rng.random() < 0.5:
            hist.append(_add([rng.choice(pools)], b))
            hist += _ask_all(rng, b, v, k=1)
    for i in range(k):
        hist += _ask_all(rng, i, v, k=1)
    return hist


ORDERINGS = ("ULT", "ULE", "UGT", "UGE", "SLT", "SLE", "SGT", "SGE")


def boundary_constants(w):
    """0, 1, INT_MAX, INT_MIN, all-ones and their neighbours at width w"""
    top, mid = (1 << w) - 1, 1 << (w - 1)
    return sorted({0, 1, 2, mid - 2, mid - 1, mid, mid + 1, top - 2, top - 1, top})


def _ask_bound(rng, s, v, i=None):
    """satisfiable() / all values / the extrema of v (both readings), in an order picked by i (or at random)"""
    qs = [{"s": s, "op": "satisfiable", "extra": []}, {"s": s, "op": "eval", "e": v, "n": 20, "extra": []},
          {"s": s, "op": "min", "e": v, "signed": False, "extra": []}, {"s": s, "op": "max", "e": v, "signed": True, "extra": []},
          {"s": s, "op": "max", "e": v, "signed": False, "extra": []}, {"s": s, "op": "min", "e": v, "signed": True, "extra": []}]
    if i is None:
        k = rng.choice([2, 3, 4])
        head = [qs[0]] if rng.random() < 0.6 else []
        rest = [q for q in qs if q not in head]
        rng.shuffle(rest)
        return head + rest[:k]
    rot = i % 4
    qs = [qs[0], qs[1], qs[2 + 3 * (i // 4 % 2)], qs[3 + i // 4 % 2]]      # min and max: one signed, one unsigned
    return qs[rot:] + qs[:rot]


def single_bound_histories(variables=("x", "y"), flipped=True):
    """bounded-exhaustive: for every ordering OP (unsigned and signed) and EVERY constant c of the width, the history whose first
    and only constraint is `v OP c` (and, `flipped`, `c OP v` for the boundary constants), followed at once by satisfiable(),
    all values, min, max (the order rotates); the empty bounds (`v <u 0`, `v >u all-ones`, `v <s INT_MIN`, `v >s INT_MAX`)
    are among them.  Yields (edge, history): edge = the constant is 0 / INT_MAX / INT_MIN / all-ones, written the usual way"""
    i = 0
    for v in variables:
        w = 4 if v == "x" else 3
        for op in ORDERINGS:
            for c in range(1 << w):
                edge = c in (0, (1 << (w - 1)) - 1, 1 << (w - 1), (1 << w) - 1)
                yield edge, [_add(["%s(%s, %d)" % (op, v, c)])] + _ask_bound(None, 0, v, i)
                i += 1
                if flipped and edge:
                    yield False, [_add(["%s(BVV(%d, %d), %s)" % (op, c, w, v)])] + _ask_bound(None, 0, v, i)
                    i += 1


def prefix_single_bound(rng):
    """The FIRST and only constraint of a solver is a bound of a bare variable against a BOUNDARY constant (0, 1, INT_MAX,
    INT_MIN, all-ones and their neighbours) under one of the eight orderings - sometimes written the other way round, sometimes
    added to a branch of a blank solver -, followed AT ONCE by satisfiable() / all values / extrema (on the solver, sometimes
    on a fresh branch of it too).  Among them are the empty bounds (`v <u 0`, `v >u all-ones`, `v <s INT_MIN`, `v >s INT_MAX`)
    and the bounds that exclude nothing: whoever answers such a set without asking the solver must get the signedness right."""
    v = rng.choice(["x", "x", "y", "z"])
    w = 4 if v == "x" else 3
    op, c = rng.choice(ORDERINGS), rng.choice(boundary_constants(w))
    if rng.random() < 0.4:      # one of the bounds that leave no room / all the room, either reading
        op = rng.choice(ORDERINGS)
        c = rng.choice([0, (1 << w) - 1] if rng.random() < 0.5 else [(1 << (w - 1)) - 1, 1 << (w - 1)])
    con = "%s(%s, %d)" % (op, v, c) if rng.random() < 0.85 else "%s(BVV(%d, %d), %s)" % (op, c, w, v)
    hist, t, n = [], 0, 1
    if rng.random() < 0.15:
        hist.append({"s": 0, "op": "branch"})
        t, n = rng.choice([0, 1]), 2
    hist.append(_add([con], t))
    hist += _ask_bound(rng, t, v)
    if rng.random() < 0.25:
        hist.append({"s": t, "op": "branch"})
        hist += _ask_bound(rng, n, v)[:2]
    return hist


def prefix_span_free(rng):
    """A variable p is constrained, a variable q is FREE (no constraint mentions it).  ONE question is asked whose names are
    exactly {p, q} (a value / an extremum of an expression over both, solution(), satisfiable() under an extra constraint over
    both).  Then q ALONE is constrained (`q == k`, a range) - on the solver, or on a branch taken after the question - which
    touches nothing that knows p; then the same is asked again (all values of the expressions over both, extrema, solution()):
    whatever was remembered for {p, q} while q was free must not answer now.  The other side of a branch keeps q free."""
    _size_of("x")
    uni = _UNI[0]
    vs = ["x", "y", "z"]
    rng.shuffle(vs)
    p, q, r = vs
    exprs, P, Q = _spanning(p, q)
    hist = [_add([rng.choice(_ranges(p))])]
    if rng.random() < 0.3:
        hist.append(_add([rng.choice(_ranges(r))]))
    if rng.random() < 0.4:
        hist.insert(rng.randrange(1, len(hist) + 1), {"s": 0, "op": "satisfiable", "extra": []})
    held = [c for d in hist if d["op"] == "add" for c in d["cs"]]
    e = rng.choice(exprs)

    def span_query(s, cons, small):
        vals = sorted(uni.value_set(uni.parse(e), uni.conj([uni.parse(c) for c in cons]))) or [0]
        k = rng.random()
        if k < 0.4:
            return {"s": s, "op": "eval", "e": e, "n": rng.choice([1, 2, 2]) if small else 40, "extra": []}
        if k < 0.55:
            return {"s": s, "op": rng.choice(["min", "max"]), "e": e, "signed": False, "extra": []}
        if k < 0.8:
            return {"s": s, "op": "solution", "e": e, "v": rng.choice(vals) if rng.random() < 0.7 else rng.randrange(16), "extra": []}
        return {"s": s, "op": "satisfiable", "extra": ["%s == %d" % (e, rng.choice(vals) if rng.random() < 0.7 else rng.randrange(16))]}

    hist.append(span_query(0, held, True))
    t, other = 0, None
    if rng.random() < 0.4:
        hist.append({"s": 0, "op": "branch"})
        t = rng.choice([0, 1])
        other = 1 - t
    wq = 4 if q == "x" else 3
    cq = "%s == %d" % (q, rng.randrange(1 << wq)) if rng.random() < 0.6 else rng.choice(_ranges(q))
    hist.append(_add([cq], t))
    for j in range(rng.choice([2, 3])):
        if j == 0 and rng.random() < 0.5:
            hist.append({"s": t, "op": "eval", "e": e, "n": 40, "extra": []})
        else:
            d = span_query(t, held + [cq], False)
            if "e" in d and rng.random() < 0.3:
                d["e"] = rng.choice(exprs)
            hist.append(d)
    if other is not None:
        hist.append({"s": other, "op": "eval", "e": e, "n": 40, "extra": []} if rng.random() < 0.6 else span_query(other, held, False))
    return hist


PREFIXES = {"single-bound": prefix_single_bound, "span-free": prefix_span_free,
            "unchecked-simplify": prefix_unchecked_simplify, "empty-branch": prefix_empty_branch, "early-pickle": prefix_early_pickle,
            "core-whatif": prefix_core_whatif, "annotated-core": prefix_annotated_core, "exhaust-then-connect": prefix_exhaust_then_connect,
            "branch-rebuild": prefix_branch_rebuild, "look-then-branch": prefix_look_then_branch, "worker-between": prefix_worker_between,
            "span-then-branch": prefix_span_then_branch, "exhaust-downsize": prefix_exhaust_downsize, "lifetimes": prefix_lifetimes}


def gen_directed(rng, length, shape=None, prefix_args=None, **gen):
    """a directed opening (PREFIXES; `prefix_args` are its keyword arguments) followed by `length` random calls"""
    pk = {k: gen[k] for k in ("annotate", "ann_kinds") if k in gen} if shape in ("core-whatif", "annotated-core") else {}
    pk.update(prefix_args or {})
    return gen_history(rng, length, prefix=PREFIXES[shape](rng, **pk), **gen)


def all_short_histories(maxlen, calpha=SMALL_CONSTRAINTS, ealpha=SMALL_EXPRS):
    """every history of length <= maxlen over a small alphabet on one solver (no branch): the op menu"""
    menu = [{"s": 0, "op": "add", "cs": [c]} for c in calpha]
    menu.append({"s": 0, "op": "satisfiable", "extra": []})
    for e in ealpha:
        menu.append({"s": 0, "op": "eval", "e": e, "n": 5, "extra": []})
        for sg in (False, True):
            menu.append({"s": 0, "op": "min", "e": e, "signed": sg, "extra": []})
            menu.append({"s": 0, "op": "max", "e": e, "signed": sg, "extra": []})
    menu.append({"s": 0, "op": "min", "e": "x", "signed": False, "extra": ["UGE(x, 8)"]})
    menu.append({"s": 0, "op": "max", "e": "x", "signed": True, "extra": ["SLT(y, 0)"]})
    menu.append({"s": 0, "op": "eval", "e": "x", "n": 2, "extra": ["SLT(y, 0)"]})
    menu.append({"s": 0, "op": "solution", "e": "x", "v": 2, "extra": []})
    menu.append({"s": 0, "op": "simplify"})
    for L in range(1, maxlen + 1):
        for combo in itertools.product(menu, repeat=L):
            yield [dict(o) for o in combo]


# ----------------------------------------------------------------------------------------------- running on the real code
SOLVER_CLASSES = {
    "Solver": lambda **kw: claripy.Solver(**kw),
    "SolverCacheless": lambda **kw: claripy.SolverCacheless(**kw),
    "SolverStrings": lambda **kw: claripy.SolverStrings(**kw),
    "SolverComposite": lambda **kw: claripy.SolverComposite(**kw),
    "SolverReplacement": lambda **kw: claripy.SolverReplacement(**{k: v for k, v in kw.items() if k != "track"}),
    "SolverHybrid": lambda **kw: claripy.SolverHybrid(**kw),
    "SolverVSA": lambda **kw: claripy.SolverVSA(),
    "SolverReplacement:noauto": lambda **kw: claripy.SolverReplacement(auto_replace=False),
    # the hybrid plumbing with an approximate side that is sound by construction (a second exact solver)
    "SolverHybrid:stub": lambda **kw: claripy.SolverHybrid(approximate_frontend=claripy.Solver(), **kw),
    "SolverCompositeChild": lambda **kw: __import__("claripy.solvers").solvers.SolverCompositeChild(**kw),
}


class Ref:
    """stateless reference: per solver the list of constraints ADDED so far (as ASTs), nothing else"""

    def __init__(self, uni):
        self.uni = uni
        self.lists = [[]]

    def branch(self, s):
        self.lists.append(list(self.lists[s]))
        return len(self.lists) - 1

    def add(self, s, asts):
        self.lists[s].extend(asts)

    def satmask(self, s, extra=()):
        return self.uni.conj(self.lists[s]) & self.uni.conj(extra)

    def new(self, asts):
        self.lists.append(list(asts))
        return len(self.lists) - 1


def signed_val(v, w):
    v &= (1 << w) - 1
    return v - (1 << w) if v >> (w - 1) else v


def solution_feasible(uni, d, sm):
    """solution(e, v) with a symbolic v: is there a model (of the constraints and the extra constraints) in which both
    have the same value"""
    ve, vv = uni.values(uni.parse(d["e"])), uni.values(uni.parse(d["v"]))
    return any(ve[i] == vv[i] for i in bits_of(sm))


def judge_approx(uni, ref, d, outcome):
    """C13, second half: an approximate answer (exact=False, or SolverVSA) never excludes a value or a model that
    exists and never reports a satisfiable constraint set as unsatisfiable."""
    op, s = d["op"], d["s"]
    if op in ("add", "simplify", "downsize", "branch", "blank_copy", "pickle", "drop"):
        return None if outcome[0] == "ok" else ("crash:" + str(outcome[1]), "%s raised %s" % (op, outcome[1:]))
    extra = [uni.parse(c) for c in d.get("extra", [])]
    sm = ref.satmask(s, extra)
    if outcome[0] == "err":
        if outcome[1] == "ClaripyFrontendError":
            return None          # the light frontend declines (the hybrid then falls back to the exact side): no claim made
        return ("crash:" + outcome[1], "%s raised %s: %s" % (op, outcome[1], outcome[2]))
    if outcome[0] == "unsat":
        return ("approx-claims-unsat", "UnsatError although %d assignment(s) satisfy the constraints" % bin(sm).count("1")) if sm else None
    val = outcome[1]
    if sm == 0:
        return None              # anything goes on an unsatisfiable set
    if op == "satisfiable":
        return None if val else ("approx-claims-unsat", "satisfiable(exact=False) = False on satisfiable constraints")
    if op in ("eval", "batch_eval"):
        exprs = [uni.parse(d["e"])] if op == "eval" else [uni.parse(e) for e in d["es"]]
        res = set((int(v),) for v in val) if op == "eval" else set(tuple(int(x) for x in t) for t in val)
        V = uni.tuple_set(exprs, sm)
        if len(res) < d["n"] and not V <= res:
            # fewer than n returned means "these are all": then none that exists may be missing
            return ("approx-excludes-value", "returned all of %s but %s exist" % (sorted(res)[:20], sorted(V - res)[:10]))
        if len(res) == 0:
            return ("approx-claims-unsat", "no value returned on satisfiable constraints")
        return None
    if op in ("min", "max"):
        e = uni.parse(d["e"])
        w = e.size()
        if e.op == "BVV":
            return None
        if val is None:
            return ("approx-none-answer", "%s(exact=False) returned None" % op)
        V = uni.value_set(e, sm)
        key = (lambda v: signed_val(v, w)) if d["signed"] else (lambda v: v)
        opt = key((min if op == "min" else max)(V, key=key))
        got = signed_val(int(val), w) if d["signed"] else int(val) % (1 << w)
        if (op == "min" and got > opt) or (op == "max" and got < opt):
            return ("approx-excludes-value", "%s = %s excludes the attainable %d" % (op, val, opt))
        return None
    if op == "solution":
        e = uni.parse(d["e"])
        feas = solution_feasible(uni, d, sm) if isinstance(d["v"], str) else bool(uni.vmask(e).get(d["v"] % (1 << e.size()), 0) & sm)
        return ("approx-excludes-value", "solution(%s, %s) = False but it is attainable" % (d["e"], d["v"])) if feas and not val else None
    if op in ("is_true", "is_false"):
        e = uni.parse(d["e"])
        if val:
            m = uni.mask(e)
            holds = (sm & ~m) == 0 if op == "is_true" else (sm & m) == 0
            if not holds:
                return ("unsound-" + op, "%s(%s) = True but it does not hold in every model" % (op, d["e"]))
        return None
    return None


def judge(uni, ref, d, outcome):
    """The property statement (C11 / C10-solver) evaluated on one answer.
    outcome = ("ok", value) | ("unsat", msg) | ("err", ExcTypeName, msg).   Returns None or (kind, explanation)."""
    op, s = d["op"], d["s"]
    if op in ("add", "simplify", "downsize", "branch", "pickle", "blank_copy", "drop"):
        if outcome[0] != "ok":
            return ("crash:" + (outcome[1] if outcome[0] == "err" else "UnsatError"), "%s raised %s" % (op, outcome[1:]))
        return None
    extra = [uni.parse(c) for c in d.get("extra", [])]
    sm = ref.satmask(s, extra)
    if outcome[0] == "err":
        return ("crash:" + outcome[1], "%s raised %s: %s" % (op, outcome[1], outcome[2]))
    if outcome[0] == "unsat":
        if sm != 0 and op != "solution":
            return ("spurious-unsat", "UnsatError although %d assignment(s) satisfy the constraints" % bin(sm).count("1"))
        if sm != 0 and op == "solution":
            return ("spurious-unsat", "solution() raised UnsatError on satisfiable constraints")
        return None
    val = outcome[1]
    if op == "satisfiable":
        if bool(val) != (sm != 0):
            return ("wrong-sat", "satisfiable() = %s, brute force says %s" % (val, sm != 0))
        return None
    if op in ("eval", "batch_eval"):
        exprs = [uni.parse(d["e"])] if op == "eval" else [uni.parse(e) for e in d["es"]]
        res = [(v,) for v in val] if op == "eval" else [tuple(t) for t in val]
        allconc = all(getattr(e, "op", "") in ("BVV", "BoolV") for e in exprs)
        if allconc:
            want = tuple(e.args[0] for e in exprs)
            if any(tuple(int(x) for x in t) != tuple(int(x) for x in want) for t in res) or len(res) != 1:
                return ("wrong-constant", "constant expression evaluated to %s" % (res,))
            return None
        if sm == 0:
            # the statement does not demand UnsatError; an empty result claims nothing
            return ("value-on-unsat", "returned %s on unsatisfiable constraints" % (res,)) if res else None
        V = uni.tuple_set(exprs, sm)
        res_i = [tuple(int(x) for x in t) for t in res]
        bad = [t for t in res_i if t not in V]
        if bad:
            return ("infeasible", "returned %s, not attainable (attainable: %s)" % (bad, sorted(V)[:20]))
        if len(set(res_i)) != len(res_i):
            return ("duplicate", "results not pairwise distinct: %s" % (res_i,))
        if len(res_i) > d["n"]:
            return ("too-many", "%d results for n=%d" % (len(res_i), d["n"]))
        if len(res_i) < min(d["n"], len(V)):
            return ("incomplete", "returned %s but %d values exist (n=%d): %s" % (res_i, len(V), d["n"], sorted(V)[:20]))
        return None
    if op in ("min", "max"):
        e = uni.parse(d["e"])
        w = e.size()
        if e.op == "BVV":
            return None if int(val) == e.args[0] else ("wrong-constant", "constant %s gave %s" % (e, val))
        if sm == 0:
            return ("value-on-unsat", "%s returned %s on unsatisfiable constraints" % (op, val))
        V = uni.value_set(e, sm)
        key = (lambda v: signed_val(v, w)) if d["signed"] else (lambda v: v)
        opt = (min if op == "min" else max)(V, key=key)
        if int(val) % (1 << w) != opt:
            return ("wrong-optimum", "%s(%s, signed=%s) = %s, true optimum %d (values %s)" % (op, d["e"], d["signed"], val, opt, sorted(V)))
        return None
    if op == "solution" and isinstance(d["v"], str):
        feas = solution_feasible(uni, d, sm)
        if bool(val) != feas:
            return ("wrong-solution", "solution(%s, %s) = %s, brute force says %s" % (d["e"], d["v"], val, feas))
        return None
    if op == "solution":
        e = uni.parse(d["e"])
        w = e.size()
        if e.op == "BVV":   # constants are answered without looking at the constraints (ConcreteHandlerMixin), by design;
            # a solver without that mixin (the children a SolverComposite hands out) asks Z3, which says False when the
            # constraints have no model — also what the statement says (no model has e == v)
            if sm == 0 and not val:
                return None
            return None if bool(val) == (e.args[0] == d["v"] % (1 << w)) else ("wrong-constant", "solution(%s, %d) = %s" % (d["e"], d["v"], val))
        feas = bool(uni.vmask(e).get(d["v"] % (1 << w), 0) & sm)
        if bool(val) != feas:
            return ("wrong-solution", "solution(%s, %d) = %s, brute force says %s" % (d["e"], d["v"], val, feas))
        return None
    if op in ("is_true", "is_false"):
        e = uni.parse(d["e"])
        if val:
            m = uni.mask(e)
            holds = (sm & ~m) == 0 if op == "is_true" else (sm & m) == 0
            if not holds:
                return ("unsound-" + op, "%s(%s) = True but it does not hold in every model" % (op, d["e"]))
        return None
    raise ValueError(op)


def conjuncts(asts):
    out = []
    for c in asts:
        out.extend(list(c.args) if c.op == "And" else [c])
    return out


def judge_structure(uni, ref, solvers, d, outcome, pre):
    """C15 on the result of split / combine / merge; `pre` = (reference lists, constraint lists of the operands) taken
    BEFORE the call.  Also extends `ref` with the reference constraint lists of the new solvers."""
    op = d["op"]
    if outcome[0] != "ok":
        # keep indices aligned for the rest of the history: nothing was created
        return ("crash:" + (outcome[1] if outcome[0] == "err" else "UnsatError"), "%s raised %s" % (op, outcome[1:]))
    i = d["s"]
    if op == "split":
        parts = outcome[1]
        want = uni.conj(pre["ref"][i])
        got = uni.full
        groups = []
        for p in parts:
            cs = list(p.constraints)
            ref.new(cs)
            got &= uni.conj(cs)
            groups.append((set().union(*[c.variables for c in cs]) if cs else set(), cs))
        if got != want:
            return ("split-not-equivalent", "the parts together have %d models, the solver has %d" % (bin(got).count("1"), bin(want).count("1")))
        for a in range(len(groups)):
            for b in range(a + 1, len(groups)):
                if groups[a][0] & groups[b][0]:
                    return ("split-shares-variables", "parts %d and %d share %s" % (a, b, sorted(groups[a][0] & groups[b][0])))
        have = [c.hash() for g in groups for c in conjuncts(g[1]) if len(c.variables) > 0]   # a literal `true` is no conjunct
        if len(have) != len(set(have)):
            return ("split-duplicates-conjunct", "a conjunct occurs in more than one part / twice")
        # every conjunct of a part is one the solver implies (children may hold simplified forms of the conjuncts)
        for g in groups:
            for c in conjuncts(g[1]):
                if want & ~uni.mask(c) & uni.full:
                    return ("split-foreign-conjunct", "part holds %s, which the solver does not imply" % c)
        return None
    if op == "combine":
        want = uni.conj(pre["ref"][i])
        allc = list(pre["ref"][i])
        for j in d["others"]:
            want &= uni.conj(pre["ref"][j])
            allc += pre["ref"][j]
        ref.new(allc)
        got = uni.conj(list(outcome[1].constraints))
        if got != want:
            return ("combine-wrong-models", "combined solver has %d models, expected %d" % (bin(got).count("1"), bin(want).count("1")))
        return None
    if op == "merge":
        conds = [uni.parse(c) for c in d["conds"]]
        if d.get("anc") is not None:
            want = uni.conj(pre["ref"][d["anc"]])
            cm = 0
            for c in conds:
                cm |= uni.mask(c)
            want &= cm
            ref.new(list(pre["ref"][d["anc"]]) + [claripy.Or(*conds)])
        else:
            want = 0
            opts = []
            for j, c in zip([i] + list(d["others"]), conds):
                want |= uni.mask(c) & uni.conj(pre["ref"][j])
                opts.append(claripy.And(c, *pre["ref"][j]))
            ref.new([claripy.Or(*opts)] if len(opts) > 1 else [opts[0]])
        got = uni.conj(list(outcome[1].constraints))
        if got != want:
            return ("merge-wrong-models", "merged solver has %d models, expected %d" % (bin(got).count("1"), bin(want).count("1")))
        return None
    raise ValueError(op)


def replaced_predicate(uni, solver, d):
    """classifier: a replacement frontend answers a query whose expression it replaced by a constant without
    consulting the constraints (so also when they are unsatisfiable)"""
    rf = solver
    if not hasattr(rf, "_replacement"):
        return ""
    exprs = [d["e"]] if "e" in d else d.get("es", [])
    if isinstance(d.get("v"), str):
        exprs = exprs + [d["v"]]          # solution(e, v) with a symbolic v: both sides
    try:
        if exprs and all((not rf._replacement(uni.parse(e)).symbolic) for e in exprs) and any(uni.parse(e).symbolic for e in exprs):
            return ":replaced-to-constant"
    except Exception:  # noqa: BLE001
        pass
    return ""


def classify_replaced(uni, ref, solver, d, out, j):
    """the `replaced-to-constant` predicate on a judged answer: value-on-unsat of eval / batch_eval / min / max, and its
    solution() form - True on constraints (with the extra ones) that have no model, both sides constants after replacement
    (ConcreteHandlerMixin then compares two numbers and never looks at the constraints)"""
    if j and j[0] == "value-on-unsat":
        return (j[0] + replaced_predicate(uni, solver, d), j[1])
    if j and j[0] == "wrong-solution" and out[0] == "ok" and out[1] and \
            ref.satmask(d["s"], [uni.parse(c) for c in d.get("extra", [])]) == 0:
        pred = replaced_predicate(uni, solver, d)
        if pred:
            return ("value-on-unsat" + pred, j[1])
    return j


def structure_predicate(solver, d):
    """classifier for findings about split(): names the state predicate that explains overlapping parts"""
    if d["op"] == "split" and hasattr(solver, "_solvers"):
        for c in solver._solver_list:
            if any(solver._solvers.get(v) is not c for v in c.variables):
                return ":stale-child-owns-variable"
    return ""


def judge_core(uni, ref, solver, d, outcome):
    """C16 on one unsat_core() answer.  `Added to the solver` is read as: a constraint the user added or one the
    solver currently holds (its own simplified / expansion constraints; for a composite: held by one of its children) -
    see design_notes/C16.md.  Elements are compared by AST identity (hash): the un-annotated twin of an annotated
    constraint is NOT that constraint.  A core asked for WITH extra constraints may rely on them: it has to be
    unsatisfiable together with them (so it may be empty when they alone have no model)."""
    if outcome[0] == "err":
        return ("crash:" + outcome[1], "unsat_core raised %s: %s" % (outcome[1], outcome[2]))
    if outcome[0] == "unsat":
        return ("crash:UnsatError", "unsat_core raised UnsatError")
    core = outcome[1]
    extra = [uni.parse(c) for c in d.get("extra", [])]
    tag = ":with-extra" if extra else ""
    sm = ref.satmask(d["s"], extra)
    if sm != 0:
        return None if len(core) == 0 else ("nonempty-on-sat" + tag, "core %s although the constraints are satisfiable" % (core,))
    if not all(isinstance(c, claripy.ast.Base) for c in core):
        return ("nested-element" + tag, "core contains a non-constraint element: %r" % (core,))
    known = {c.hash() for c in ref.lists[d["s"]]} | {c.hash() for c in solver.constraints}
    for child in getattr(solver, "_solver_list", ()):
        known |= {c.hash() for c in child.constraints}
    if not all(c.hash() in known for c in core):
        twins = {c.clear_annotations().hash() for c in ref.lists[d["s"]] if c.annotations}
        pred = ":unannotated-twin" if any(c.hash() not in known and c.hash() in twins for c in core) else ""
        return ("foreign-element" + pred + tag, "core element was never added to / is not held by the solver: %s (added: %s)" % (
            ["%s %s" % (c, list(c.annotations)) for c in core], ["%s %s" % (c, list(c.annotations)) for c in ref.lists[d["s"]]][:12]))
    if uni.conj(list(core)) & uni.conj(extra) != 0:
        pred = ""
        if len(core) == 0:
            pred = ":empty"
            if any(len(c.variables) == 0 and uni.mask(c) == 0 for c in ref.lists[d["s"]]):
                pred = ":empty-with-concrete-false"
        return ("satisfiable-or-empty-core" + pred + tag, "the conjunction of the core %s%s is satisfiable" % (
            [str(c) for c in core], " and the extra constraints" if extra else ""))
    return None


def apply_op(uni, solvers, d):
    """execute one op on the real solver objects; returns outcome tuple"""
    from claripy.errors import UnsatError
    op = d["op"]
    s = solvers[d["s"]]
    ex = tuple(uni.parse(c) for c in d.get("extra", []))
    kw = {"exact": False} if d.get("approx") else {}
    try:
        if op == "add":
            if d.get("repl") and hasattr(s, "add_replacement"):
                import claripy
                old = uni.parse(d["repl"][0])
                s.add_replacement(old, claripy.BVV(d["repl"][1] % (1 << old.size()), old.size()), invalidate_cache=d.get("inval", True))
                return ("ok", None)
            r = s.add([uni.parse(c) for c in d["cs"]])
            return ("ok", None if r is None else len(r))
        if op == "satisfiable":
            return ("ok", s.satisfiable(extra_constraints=ex, **kw))
        if op == "eval":
            return ("ok", tuple(s.eval(uni.parse(d["e"]), d["n"], extra_constraints=ex, **kw)))
        if op == "batch_eval":
            return ("ok", [tuple(t) for t in s.batch_eval([uni.parse(e) for e in d["es"]], d["n"], extra_constraints=ex, **kw)])
        if op == "min":
            return ("ok", s.min(uni.parse(d["e"]), extra_constraints=ex, signed=d["signed"], **kw))
        if op == "max":
            return ("ok", s.max(uni.parse(d["e"]), extra_constraints=ex, signed=d["signed"], **kw))
        if op == "solution":
            e = uni.parse(d["e"])
            v = uni.parse(d["v"]) if isinstance(d["v"], str) else d["v"] % (1 << e.size())
            return ("ok", s.solution(e, v, extra_constraints=ex, **kw))
        if op == "is_true":
            return ("ok", s.is_true(uni.parse(d["e"]), extra_constraints=ex, **kw))
        if op == "is_false":
            return ("ok", s.is_false(uni.parse(d["e"]), extra_constraints=ex, **kw))
        if op == "simplify":
            s.simplify()
            return ("ok", None)
        if op == "downsize":
            s.downsize()
            return ("ok", None)
        if op == "branch":
            solvers.append(s.branch())
            return ("ok", len(solvers) - 1)
        if op == "blank_copy":
            solvers.append(s.blank_copy())
            return ("ok", len(solvers) - 1)
        if op == "drop":
            # the end of a solver's life: nothing refers to it any more (its index stays taken; later calls on it are skipped)
            solvers[d["s"]] = None
            del s
            if d.get("gc"):
                import gc
                gc.collect()
            return ("ok", None)
        if op == "unsat_core":
            return ("ok", tuple(s.unsat_core(extra_constraints=ex)))
        if op == "pickle":
            import pickle
            if d.get("all"):
                # the whole tuple in ONE dump: solvers that share parts (branches of a composite share children) come back sharing them
                solvers[:] = pickle.loads(pickle.dumps(list(solvers), -1))
            else:
                solvers[d["s"]] = pickle.loads(pickle.dumps(s, -1))
            return ("ok", None)
        if op == "split":
            parts = s.split()
            solvers.extend(parts)
            return ("ok", parts)
        if op == "combine":
            r = s.combine([solvers[j] for j in d["others"]])
            solvers.append(r)
            return ("ok", r)
        if op == "merge":
            conds = [uni.parse(c) for c in d["conds"]]
            anc = solvers[d["anc"]] if d.get("anc") is not None else None
            r = s.merge([solvers[j] for j in d["others"]], conds, common_ancestor=anc)
            solvers.append(r[1])
            return ("ok", r[1])
        raise ValueError(op)
    except UnsatError as e:
        return ("unsat", str(e))
    except Exception as e:  # noqa: BLE001
        return ("err", type(e).__name__, str(e)[:200])


def ref_step(uni, ref, d):
    if d["op"] == "add":
        ref.add(d["s"], [uni.parse(c) for c in d["cs"]])
    elif d["op"] == "branch":
        ref.branch(d["s"])
    elif d["op"] == "blank_copy":
        ref.new([])


class FaultInjector:
    """C17: makes the j-th solver check of the armed call give up (what z3_solver_sat raises on a timeout)"""

    def __init__(self):
        self.at, self.idx, self.fired, self.saved = None, 0, False, None

    def arm(self, j):
        self.at, self.idx, self.fired = j, 0, False

    def install(self):
        import claripy.backends.backend_z3 as bz
        self.saved = bz.z3_solver_sat
        inj = self

        def z3_solver_sat(solver, extra_constraints, occasion):
            k = inj.idx
            inj.idx += 1
            if inj.at is not None and k == inj.at:
                inj.fired = True
                from claripy.errors import ClaripySolverInterruptError
                raise ClaripySolverInterruptError("timeout")
            return inj.saved(solver, extra_constraints, occasion)
        bz.z3_solver_sat = z3_solver_sat

    def remove(self):
        import claripy.backends.backend_z3 as bz
        bz.z3_solver_sat = self.saved


def judge_fault(d, outcome, fired):
    """C17, first half: a call during which the backend gave up must raise a claripy error"""
    if not fired:
        return "not-fired"
    if outcome[0] == "err":
        import claripy.errors as ce
        if isinstance(getattr(ce, outcome[1], None), type) and issubclass(getattr(ce, outcome[1]), ce.ClaripyError):
            return None
        return ("non-claripy-error", "the backend gave up during %s and %s was raised: %s" % (d["op"], outcome[1], outcome[2]))
    if outcome[0] == "unsat":
        return ("unsat-after-giveup", "the backend gave up during %s and UnsatError was raised (an answer, not an error report)" % d["op"])
    return ("answer-after-giveup", "the backend gave up during %s but the call returned %r" % (d["op"], outcome[1]))


class _Worker:
    """a second thread that runs closures one at a time; call() waits for the result (strict hand-off, no race)"""
    def __init__(self):
        import queue, threading
        self._q = queue.Queue()
        self._t = threading.Thread(target=self._loop, daemon=True)
        self._t.start()

    def _loop(self):
        while True:
            fn, box, done = self._q.get()
            if fn is None:
                return
            try:
                box.append((True, fn()))
            except BaseException as e:  # noqa: BLE001
                box.append((False, e))
            done.set()

    def call(self, fn):
        import threading
        box, done = [], threading.Event()
        self._q.put((fn, box, done))
        done.wait()
        ok, val = box[0]
        if not ok:
            raise val
        return val

    def stop(self):
        self._q.put((None, None, None))
        self._t.join(5)


def approx_stateless(uni, cls, kw, constraints, d, kind):
    """does a fresh solver of class `cls` holding `constraints` (added in one call) fail the approximate call d the same way"""
    try:
        fresh = [SOLVER_CLASSES[cls](**kw)]
        if constraints:
            fresh[0].add(list(constraints))
        d0 = dict(d, s=0)
        d0.pop("rel", None)
        ref = Ref(uni)
        ref.add(0, list(constraints))
        j = judge_approx(uni, ref, d0, apply_op(uni, fresh, d0))
        return bool(j) and j[0] == kind
    except Exception:  # noqa: BLE001
        return False


def run_history(uni, cls, cfg, hist, on_step=None, checks=None):
    """Run on the real code with the per-answer oracle.  Returns (failures, outcomes);
    failures = [(index, kind, explanation)].  History entries that reference a missing solver are skipped.
    `checks` (a list) receives, per call, how many solver checks the call made (the positions a give-up can be injected at)."""
    import claripy.backends
    bz = claripy.backends.z3
    saved = bz.reuse_z3_solver
    bz.reuse_z3_solver = bool(cfg.get("reuse", False))
    inj = None
    _pools = []
    try:
        if hasattr(bz._tls, "solver"):
            bz._tls.solver = None
        kw = {}
        if cfg.get("track"):
            kw["track"] = True
        solvers = [SOLVER_CLASSES[cls](**kw)]
        ref = Ref(uni)
        fails, outs = [], []
        pool = {}
        origin = ["new"]      # per solver: the call that created it
        # solvers that were given a user-level replacement with invalidate_cache=False (and their later branches): the caller
        # vouches for what the frontend already derived, so their answers have no reading by the constraints alone - only
        # crashes are looked at.  Everybody else is judged as ever (that is the point: the OTHER solvers must not notice).
        unjudged = set()

        def run_op(d):
            # ops tagged "t": k run in worker thread k, strictly after everything before them (claripy frontends keep
            # their Z3 solver in thread-local storage, so a solver handed to another thread starts without one)
            t = d.get("t")
            if not t:
                return apply_op(uni, solvers, d)
            if t not in pool:
                pool[t] = _Worker()
            return pool[t].call(lambda: apply_op(uni, solvers, d))
        _pools.append(pool)
        if checks is not None or any(d.get("fault") is not None for d in hist):
            inj = FaultInjector()
            inj.install()
        for k, d in enumerate(hist):
            if checks is not None and inj and k > 0:
                checks.append(inj.idx)
            if d.get("rel"):
                # relative addressing (histories with split/combine/merge, where the number of solvers is not known
                # to the generator): indices are taken modulo the number of solvers alive
                d = dict(d)
                d["s"] %= len(solvers)
                if "others" in d:
                    d["others"] = [j % len(solvers) for j in d["others"]]
                if d.get("anc") is not None:
                    d["anc"] %= len(solvers)
                hist[k] = d
            if d["s"] >= len(solvers) or any(j >= len(solvers) for j in list(d.get("others", [])) + [d.get("anc") or 0]) or \
                    any(solvers[j] is None for j in [d["s"]] + list(d.get("others", [])) + [d.get("anc") or 0]):
                outs.append(("skip",))
                continue
            if inj:
                inj.arm(d.get("fault"))
            if d["op"] in ("combine", "merge"):
                # the API combines / merges solvers of one class; split() of a composite hands out its children
                ops_ = [solvers[j] for j in d["others"]] + ([solvers[d["anc"]]] if d.get("anc") is not None else [])
                if any(type(o) is not type(solvers[d["s"]]) for o in ops_):
                    outs.append(("skip",))
                    continue
            if d["op"] in ("split", "combine", "merge"):
                pre = {"ref": [list(l) for l in ref.lists], "cons": [list(sv.constraints) for sv in solvers]}
                out = run_op(d)
                outs.append(out if out[0] != "ok" else ("ok", "<%s>" % d["op"]))
                origin += [d["op"]] * (len(solvers) - len(origin))
                j = judge_structure(uni, ref, solvers, d, out, pre)
                if j:
                    fails.append((k, j[0] + structure_predicate(solvers[d["s"]], d), j[1]))
                if on_step:
                    on_step(k, d, out, solvers, ref)
                continue
            out = run_op(d)
            if inj and d.get("fault") is not None:
                jf = judge_fault(d, out, inj.fired)
                if jf != "not-fired":
                    outs.append(out)
                    if d["op"] == "add":
                        ref.add(d["s"], [uni.parse(c) for c in d["cs"]])
                    if jf:
                        fails.append((k, jf[0], jf[1]))
                    continue
            if d["op"] == "add":
                ref.add(d["s"], [uni.parse(c) for c in d["cs"]])
                if d.get("repl") and d.get("inval") is False and hasattr(solvers[d["s"]], "add_replacement"):
                    unjudged.add(d["s"])
            elif d["op"] == "branch" and out[0] == "ok":
                ref.branch(d["s"])
                if d["s"] in unjudged:
                    unjudged.add(len(solvers) - 1)
            elif d["op"] == "blank_copy" and out[0] == "ok":
                ref.new([])           # a solver of the same kind that holds no constraints
            origin += [d["op"]] * (len(solvers) - len(origin))
            outs.append(out)
            if d["s"] in unjudged:
                if out[0] == "err":
                    fails.append((k, "crash:" + out[1], "%s raised %s: %s" % (d["op"], out[1], out[2])))
                if on_step:
                    on_step(k, d, out, solvers, ref)
                continue
            if d["op"] == "unsat_core":
                j = judge_core(uni, ref, solvers[d["s"]], d, out)
            elif d.get("approx") or cls == "SolverVSA":  # approximate answers: over-approximation is all that is asked
                j = judge_approx(uni, ref, d, out)
                if j and not j[0].startswith("crash:"):
                    # whose answer is it?  A solver of the same class that is given the same constraints from scratch and asked
                    # the same question: if it answers alike, the approximate backend says so about these constraints
                    # (":stateless"; C21-C25 own that); if not, the frontend's history made the difference - and for a
                    # solver that split / combine / merge / blank_copy handed out, the predicate says so
                    if approx_stateless(uni, cls, kw, ref.lists[d["s"]], d, j[0]):
                        j = (j[0] + ":stateless", j[1])
                    elif origin[d["s"]] in ("split", "combine", "merge", "blank_copy"):
                        j = (j[0] + ":on-%s-result" % origin[d["s"]], j[1])
            else:
                j = classify_replaced(uni, ref, solvers[d["s"]], d, out, judge(uni, ref, d, out))
            if j:
                fails.append((k, j[0], j[1]))
            if on_step:
                on_step(k, d, out, solvers, ref)
        if checks is not None and inj and hist:
            checks.append(inj.idx)
        return fails, outs
    finally:
        for pool in _pools:
            for wk in pool.values():
                wk.stop()
        if inj:
            inj.remove()
        bz.reuse_z3_solver = saved
        if hasattr(bz._tls, "solver"):
            bz._tls.solver = None


# ----------------------------------------------------------------------------------------------- twin runs
# SolverReplacement.add_replacement(variable, constant) is not a constraint (the actual frontend never hears of it), so
# histories that use it have no brute-force reading.  What the properties still say about them is relative: a solver
# restored from a pickle answers like the original (C18); downsize() changes no answer (C11 / C13).  Both are decided by
# running two solver tuples side by side and comparing every answer (eval / batch_eval with n beyond the number of
# values that exist, so that both must return the complete set).

_UNI = []


def _norm_out(d, out):
    if not _UNI:
        _UNI.append(Universe())
    if out[0] != "ok":
        return (out[0],) + tuple(out[1:2] if out[0] == "err" else ())
    if d["op"] in ("eval", "batch_eval"):
        if len(out[1]) >= d["n"]:
            return ("ok", "n values")        # more exist than were asked for: which ones come back is free
        return ("ok", tuple(sorted(tuple(t) if isinstance(t, (list, tuple)) else (t,) for t in out[1])))
    if d["op"] in ("add", "simplify", "downsize", "branch", "pickle", "blank_copy", "drop"):
        return ("ok",)
    if d["op"] in ("min", "max"):
        # an optimum is a bit pattern: the caches hand back the unsigned reading, the solver path the signed one
        if not isinstance(out[1], int):
            return ("ok", out[1])
        return ("ok", out[1] % (1 << _UNI[0].parse(d["e"]).size()))
    return ("ok", out[1])


def run_twin(uni, cls, cfg, hist, mode, cut=0):
    """mode "restored": run hist[:cut], copy the solver tuple through pickle, run hist[cut:] on both.
    mode "no-downsize": run hist on one tuple and hist without its downsize calls on another.
    Returns [(index, kind, explanation)] for the calls whose answers differ."""
    import pickle
    import claripy.backends
    bz = claripy.backends.z3
    saved = bz.reuse_z3_solver
    bz.reuse_z3_solver = bool(cfg.get("reuse", False))
    try:
        if hasattr(bz._tls, "solver"):
            bz._tls.solver = None
        a = [SOLVER_CLASSES[cls]()]
        b = None if mode == "restored" else [SOLVER_CLASSES[cls]()]
        fails = []
        for k, d in enumerate(hist):
            if mode == "restored" and k == cut:
                b = pickle.loads(pickle.dumps(a, -1))
            d = dict(d)
            if "n" in d:
                d["n"] = 40
            if d["s"] >= len(a):
                continue
            oa = apply_op(uni, a, d)
            if b is None:
                continue
            if mode == "no-downsize" and d["op"] == "downsize":
                continue
            ob = apply_op(uni, b, d)
            na, nb = _norm_out(d, oa), _norm_out(d, ob)
            if na != nb:
                kind = "restored-differs" if mode == "restored" else "downsize-changes-answer"
                fails.append((k, kind, "%s: %s, %s: %s" % ("original" if mode == "restored" else "with downsize()", str(na)[:160],
                                                           "restored" if mode == "restored" else "without", str(nb)[:160])))
                break
        return fails
    finally:
        bz.reuse_z3_solver = saved
        if hasattr(bz._tls, "solver"):
            bz._tls.solver = None


def gen_twin_rereplace(rng, tail=6, weights=None):
    """(history, cut) for run_twin(mode "restored"): add_replacement(v, c1) - sometimes a second variable too, sometimes a
    constraint next to it -, then questions about COMPOUND expressions over v (what they become under the replacement is worked
    out and remembered); the copy through pickle is taken HERE; afterwards the replacement CHANGES on both (add_replacement(v, c2);
    sometimes first a branch, sometimes downsize()) and the same expressions are asked about again, then a random tail."""
    v = rng.choice(["x", "x", "y", "z"])
    ex = [e for e in EXPRS if v in _vars_of(e) and e != v]
    own = [e for e in ex if _vars_of(e) == {v}] or ex
    c1 = rng.randrange(8)
    c2 = (c1 + rng.randrange(1, 8)) % 8
    rp = lambda u, c, s=0: {"s": s, "op": "add", "cs": ["(%s) == %d" % (u, c)], "repl": [u, c]}  # noqa: E731
    ev = lambda e, s=0: {"s": s, "op": "eval", "e": e, "n": 40, "extra": []}  # noqa: E731
    hist = [rp(v, c1)]
    if rng.random() < 0.3:
        u = rng.choice([t for t in ("x", "y", "z") if t != v])
        hist.append(rp(u, rng.randrange(8)) if rng.random() < 0.5 else _add([rng.choice(_ranges(u))]))
    asked = [rng.choice(own)] + [rng.choice(ex) for _ in range(rng.choice([0, 1, 2]))]
    for e in asked:
        hist.append(ev(e) if rng.random() < 0.7 else {"s": 0, "op": rng.choice(["min", "max"]), "e": e, "signed": False, "extra": []})
    cut = len(hist)
    if rng.random() < 0.3:
        hist.append(ev(rng.choice(asked)))
    t = 0
    k = rng.random()
    if k < 0.2:
        hist.append({"s": 0, "op": "branch"})
        t = rng.choice([0, 1])
    elif k < 0.3:
        hist.append({"s": 0, "op": "downsize"})
    hist.append(rp(v, c2, t))
    for e in asked + [rng.choice(ex)]:
        hist.append(ev(e, t))
    if t:
        hist.append(ev(rng.choice(asked), 0))
    w = weights or {"add": 24, "satisfiable": 8, "eval": 14, "batch_eval": 5, "min": 8, "max": 8, "solution": 8, "simplify": 3,
                    "downsize": 8, "branch": 4}
    return gen_history(rng, tail, weights=w, replace=0.3, replace_any=True, prefix=hist), cut


def twin_search(uni, rng, cls, mode, n, length, weights=None, approx=0.0, directed=0.0):
    """random histories with user-level replacements; returns the shrunk failing ones (each reproduced twice);
    directed: share of the histories (mode "restored") that open as gen_twin_rereplace says"""
    w = weights or {"add": 24, "satisfiable": 8, "eval": 14, "batch_eval": 5, "min": 8, "max": 8, "solution": 8, "simplify": 3,
                    "downsize": 8, "branch": 4}
    found, ran = [], 0
    for _ in range(n):
        dcut = None
        if directed and mode == "restored" and rng.random() < directed:
            hist, dcut = gen_twin_rereplace(rng, tail=length // 2, weights=w)
        else:
            hist = gen_history(rng, length, weights=w, replace=0.3, replace_any=rng.random() < 0.6)
        if approx:
            # hybrid solvers: some of the queries in approximate mode (the approximate side keeps replacements of its own)
            for d in hist:
                if d["op"] in ("satisfiable", "eval", "batch_eval", "min", "max", "solution") and rng.random() < approx:
                    d["approx"] = True
        cut = rng.randrange(1, max(2, len(hist) - 2)) if mode == "restored" else 0
        if dcut is not None:
            cut = dcut
        ran += len(hist)
        cfg = {"track": False, "reuse": False}
        f = run_twin(uni, cls, cfg, hist, mode, cut)
        if not f or not run_twin(uni, cls, cfg, hist, mode, cut):
            continue
        k = f[0][0]
        hist = hist[:k + 1]
        # shrink: drop calls (not the failing one) while the two runs still differ at the last call
        i = 0
        while i < len(hist) - 1:
            if hist[i]["op"] == "branch":
                i += 1
                continue
            cand = hist[:i] + hist[i + 1:]
            c2 = cut - 1 if (mode == "restored" and i < cut) else cut
            if mode == "restored" and c2 < 1:
                i += 1
                continue
            f2 = run_twin(uni, cls, cfg, cand, mode, c2)
            if f2 and f2[0][0] == len(cand) - 1 and run_twin(uni, cls, cfg, cand, mode, c2):
                hist, cut = cand, c2
            else:
                i += 1
        f = run_twin(uni, cls, cfg, hist, mode, cut)
        if f:
            found.append({"cls": cls, "cfg": cfg, "hist": hist, "cut": cut, "mode": mode, "fails": [list(f[0])]})
    return found, ran


def normalise(hist):
    """drop ops on solvers that no longer exist after removals, renumber solver indices"""
    out, alive, nxt = [], {0: 0}, 1
    created = 1
    for d in hist:
        if d["s"] not in alive:
            if d["op"] == "branch":
                created += 1
            continue
        d2 = dict(d)
        d2["s"] = alive[d["s"]]
        if d["op"] == "branch":
            alive[created] = nxt
            nxt += 1
            created += 1
        out.append(d2)
    return out


def shrink(uni, cls, cfg, hist, kind, tries=2):
    """delta-debug: remove ops while a failure of the same kind persists (required on `tries` consecutive runs)"""
    def fails(h):
        for _ in range(tries):
            f, _o = run_history(uni, cls, cfg, h)
            if not any(k == kind for _, k, _ in f):
                return False
        return True

    def renumber(h, drop):
        # removing op `drop`; if it is a branch, ops on the created solver (and later ones) must shift
        d = h[drop]
        if d["op"] not in ("branch", "blank_copy") or d.get("rel") or any(q["op"] == "split" for q in h[:drop]):
            return [dict(q) for q in h[:drop] + h[drop + 1:]]
        # index of the solver this call created
        idx = 1 + sum(1 for q in h[:drop] if q["op"] in ("branch", "blank_copy", "combine", "merge"))
        out = []
        for q in h[:drop] + h[drop + 1:]:
            q2 = dict(q)
            if q.get("rel"):
                out.append(q2)
                continue
            refs = list(q.get("others", [])) + ([q["anc"]] if q.get("anc") is not None else [])
            if q["s"] == idx or idx in refs:
                continue
            if q["s"] > idx:
                q2["s"] -= 1
            if "others" in q:
                q2["others"] = [j - 1 if j > idx else j for j in q["others"]]
            if q.get("anc") is not None and q["anc"] > idx:
                q2["anc"] -= 1
            out.append(q2)
        return out

    cur = list(hist)
    f, _o = run_history(uni, cls, cfg, cur)
    idxs = [i for i, k, _ in f if k == kind]
    if idxs:
        cur = cur[:idxs[0] + 1]
    changed = True
    while changed and len(cur) > 1:
        changed = False
        for k in range(len(cur) - 1, -1, -1):
            cand = renumber(cur, k)
            if cand and fails(cand):
                cur, changed = cand, True
                break
    # simplify arguments: drop extras, reduce n
    for k in range(len(cur)):
        d = cur[k]
        if d.get("extra"):
            cand = [dict(q) for q in cur]
            cand[k]["extra"] = []
            if fails(cand):
                cur = cand
    f, _o = run_history(uni, cls, cfg, cur)
    idxs = [i for i, k, _ in f if k == kind]
    if idxs:
        cur = cur[:idxs[0] + 1]
    return cur


def signature(prop, cls, cfg, hist, idx, kind):
    """finding signature: property / class / failing call / failure kind + predicate class of the input"""
    d = hist[idx]
    if d["op"] in ("split", "combine", "merge") or ":" in kind.replace("crash:", ""):
        return "%s/%s/%s/%s" % (prop, cls, d["op"], kind)
    preds = []
    if "signed" in d:
        preds.append("signed" if d["signed"] else "unsigned")
    if d.get("extra"):
        preds.append("extra")
    if isinstance(d.get("v"), str):
        preds.append("symbolic-v")
    prior = set(q["op"] for q in hist[:idx] if q["s"] == d["s"] or q["op"] == "branch" or q.get("all"))
    for p in ("eval", "batch_eval", "min", "max", "solution", "simplify", "branch", "downsize", "pickle"):
        if p in prior:
            preds.append("after-" + p)
    if d["op"] == "unsat_core":
        if any(q["op"] == "unsat_core" and q.get("extra") for q in hist[:idx]):
            preds.append("after-core-with-extra")
        if any(q["op"] == "add" and any("Ann(" in c for c in q["cs"]) for q in hist[:idx]):
            preds.append("annotated")
    for q in hist[:idx + 1]:
        if q.get("fault") is not None and (q["s"] == d["s"] or True):
            preds.append("giveup-in-" + q["op"])
            break
    if any(q.get("t") for q in hist[:idx + 1]):
        preds.append("threads")
    if any(q["op"] == "drop" for q in hist[:idx]):
        preds.append("after-drop")
    if cfg.get("track"):
        preds.append("track")
    if cfg.get("reuse"):
        preds.append("reuse")
    return "%s/%s/%s/%s[%s]" % (prop, cls, d["op"], kind, ",".join(preds))


# ----------------------------------------------------------------------------------------------- C14: projection
def lineage(hist):
    """solver index -> (parent index or None, index of the branch call that created it)"""
    par, nxt = {0: (None, -1)}, 1
    for k, d in enumerate(hist):
        if d["op"] == "branch" and d["s"] in par:
            par[nxt] = (d["s"], k)
            nxt += 1
    return par


def project(hist, k):
    """The history as solver `hist[k]['s']` would see it if it ran alone: calls on its ancestors up to the branch
    that leads to it, the branches of that chain, its own calls up to k.  Returns (projected history, index of call k)."""
    par = lineage(hist)
    i = hist[k]["s"]
    chain, cut = [], {}
    j, limit = i, k
    while j is not None:
        chain.append(j)
        cut[j] = limit            # calls on j count only up to index `limit`
        p, at = par[j]
        j, limit = p, at
    chain = chain[::-1]           # root ... i
    newidx = {j: n for n, j in enumerate(chain)}
    out, pos = [], None
    for q, d in enumerate(hist[:k + 1]):
        j = d["s"]
        if j not in cut or q > cut[j]:
            continue
        if d["op"] == "branch":
            # keep only the branch that creates the next solver of the chain
            child = next((c for c in chain if par[c] == (j, q)), None)
            if child is None:
                continue
        d2 = dict(d)
        d2["s"] = newidx[j]
        out.append(d2)
        if q == k:
            pos = len(out) - 1
    return out, pos


# ----------------------------------------------------------------------------------------------- floats (C13)
# A second, small universe: two double variables f, g.  The reference is brute force over CANDIDATE values (the IEEE corner
# cases) with Python floats - the same expression string is evaluated once with claripy constructors (the AST) and once with
# Python functions on floats / ints (the meaning).  Candidates only give LOWER bounds (a candidate assignment that satisfies the
# constraints is a model: satisfiable() is True, its values are attainable, complete enumerations contain them, the extrema
# bracket them, is_true / is_false must hold in it); upper bounds come from a plain claripy.Solver (the class C11 is about) run
# side by side on the same history: "SolverReplacement answers exactly as a plain solver".
import math, re, struct

FCAND = [0.0, -0.0, 1.0, -1.0, 2.5, -2.5, math.inf, -math.inf, math.nan, 5e-324]


def f2b(v):
    return struct.unpack("<Q", struct.pack("<d", v))[0]


def b2f(b):
    return struct.unpack("<d", struct.pack("<Q", b & ((1 << 64) - 1)))[0]


class Unspecified(Exception):
    """the meaning is not fixed by IEEE / SMT-LIB (the bit pattern of a NaN)"""


def _py_bits(a):
    if a != a:
        raise Unspecified("fpToIEEEBV(NaN)")
    return f2b(a)


FCONS = [
    # pins up to IEEE equality (+0.0 and -0.0 are equal, NaN equals nothing)
    "fpEQ(f, FPV(0.0))", "f == FPV(-0.0)", "fpEQ(FPV(0.0), f)", "fpEQ(f, FPV(2.5))", "g == FPV(1.0)", "fpEQ(g, FPV(-0.0))", "fpEQ(FPV(-0.0), g)",
    "fpEQ(f, f)", "fpEQ(f, g)", "fpEQ(fpNeg(f), g)", "fpEQ(fpAbs(f), FPV(0.0))", "Or(fpEQ(f, FPV(1.0)), fpEQ(f, FPV(0.0)))", "f != FPV(0.0)",
    # orderings
    "fpLEQ(f, FPV(0.0))", "fpGEQ(f, FPV(-0.0))", "fpLT(f, FPV(1.0))", "fpGT(g, FPV(-1.0))", "fpLEQ(g, f)", "fpLT(f, g)", "fpGEQ(g, FPV(0.0))",
    # classes
    "Not(fpIsNaN(g))", "Not(fpIsNaN(f))", "fpIsNaN(f)", "fpIsInf(g)", "Not(fpIsInf(f))",
    # pins of the bit pattern (identity)
    "fpToIEEEBV(f) == 0", "fpToIEEEBV(f) == 0x8000000000000000", "Bits(fpToIEEEBV(g), 63, 63) == 1", "fpToIEEEBV(f) != 0",
    "Bits(fpToIEEEBV(f), 62, 0) == 0", "fpToIEEEBV(g) == 0x3ff0000000000000",
]
FEXPRS = ["fpToIEEEBV(f)", "fpToIEEEBV(g)", "Bits(fpToIEEEBV(f), 63, 63)", "Bits(fpToIEEEBV(f), 63, 52)", "fpToIEEEBV(fpNeg(f))",
          "fpToIEEEBV(fpAbs(g))", "If(fpLT(f, g), BVV(1, 2), BVV(2, 2))", "If(fpIsNaN(f), BVV(1, 1), BVV(0, 1))", "Bits(fpToIEEEBV(g), 63, 63)",
          "If(fpEQ(f, g), fpToIEEEBV(f), fpToIEEEBV(g))"]
FBOOLS = ["fpIsNaN(f)", "fpEQ(f, f)", "fpEQ(f, FPV(0.0))", "Bits(fpToIEEEBV(f), 63, 63) == 0", "fpToIEEEBV(f) == 0", "fpLEQ(f, g)", "fpEQ(f, g)",
          "Not(fpIsInf(g))", "fpToIEEEBV(f) == fpToIEEEBV(g)"]
FVALUES = [0, 1 << 63, 1, 0x3ff0000000000000, 0xbff0000000000000, 0x4004000000000000, 0x7ff0000000000000, 0xfff0000000000000, 2, 3]


class FloatUniverse:
    names = ["f", "g"]

    def __init__(self, tag="v"):
        c, D = claripy, claripy.FSORT_DOUBLE
        self.sym = {n: c.FPS("%s_%s" % (tag, n), D, explicit_name=True) for n in self.names}
        self.ns = dict(self.sym)
        self.ns.update(FPV=lambda v: c.FPV(float(v), D), fpEQ=c.fpEQ, fpNEQ=c.fpNEQ, fpLT=c.fpLT, fpLEQ=c.fpLEQ, fpGT=c.fpGT, fpGEQ=c.fpGEQ,
                       fpIsNaN=c.fpIsNaN, fpIsInf=c.fpIsInf, fpNeg=c.fpNeg, fpAbs=c.fpAbs, fpToIEEEBV=c.fpToIEEEBV, Not=c.Not, Or=c.Or,
                       And=c.And, If=c.If, BVV=c.BVV, Bits=lambda e, hi, lo: e[hi:lo], true=c.true(), false=c.false())
        self.pyns = dict(FPV=float, fpEQ=lambda a, b: a == b, fpNEQ=lambda a, b: a != b, fpLT=lambda a, b: a < b, fpLEQ=lambda a, b: a <= b,
                         fpGT=lambda a, b: a > b, fpGEQ=lambda a, b: a >= b, fpIsNaN=lambda a: a != a,
                         fpIsInf=lambda a: a in (math.inf, -math.inf), fpNeg=lambda a: -a, fpAbs=abs, fpToIEEEBV=_py_bits,
                         Not=lambda a: not a, Or=lambda *a: any(a), And=lambda *a: all(a), If=lambda c_, t, e: t if c_ else e,
                         BVV=lambda v, n: v, Bits=lambda v, hi, lo: (v >> lo) & ((1 << (hi - lo + 1)) - 1), true=True, false=False)
        self.assignments = [{"f": a, "g": b} for a in FCAND for b in FCAND]
        self._parsed, self._val = {}, {}

    def parse(self, s):
        r = self._parsed.get(s)
        if r is None:
            r = self._parsed[s] = eval(s, {"__builtins__": {}}, self.ns)  # noqa: S307  (our own strings only)
        return r

    def value(self, s, i):
        """meaning of the expression string under candidate assignment number i; raises Unspecified"""
        k = (s, i)
        if k not in self._val:
            try:
                self._val[k] = (True, eval(s, {"__builtins__": {}}, dict(self.pyns, **self.assignments[i])))  # noqa: S307
            except Unspecified as e:
                self._val[k] = (False, e)
        ok, v = self._val[k]
        if not ok:
            raise v
        return int(v) if isinstance(v, bool) else v

    def models(self, cons):
        """numbers of the candidate assignments that surely satisfy every constraint string"""
        out = []
        for i in range(len(self.assignments)):
            try:
                if all(self.value(c, i) for c in cons):
                    out.append(i)
            except Unspecified:
                pass
        return out


def gen_float_history(rng, length, max_n=6):
    w = {"add": 30, "satisfiable": 10, "eval": 22, "min": 5, "max": 5, "solution": 14, "is_true": 3, "is_false": 3, "simplify": 2, "downsize": 2,
         "branch": 6}
    hist = gen_history(rng, length, calpha=FCONS, ealpha=FEXPRS, balpha=FBOOLS, weights=w, max_solvers=3)
    for d in hist:
        if "n" in d:
            d["n"] = min(d["n"], max_n)
        if d["op"] == "eval" and d["e"] == "b":
            d["e"] = rng.choice(FEXPRS)
        if d["op"] == "solution" and rng.random() < 0.85:
            d["v"] = rng.choice(FVALUES)
        if d["op"] in ("min", "max"):
            d["signed"] = False
    return hist


def _fmodel_pred(funi, i):
    vals = list(funi.assignments[i].values())
    return ":signed-zero-model" if any(v == 0 for v in vals) else ":nan-model" if any(v != v for v in vals) else ""


def judge_float(funi, held, d, out, pout, psat=True, nan_free=True):
    """one answer of a float history: `held` = constraint strings of the solver, `pout` = the plain Solver's outcome, psat = the
    plain Solver finds the constraints (with the extra ones) satisfiable, nan_free = it finds that no variable of the queried
    expression can be NaN"""
    op = d["op"]
    if op in ("add", "simplify", "downsize", "branch"):
        return None if out[0] == "ok" else ("crash:" + str(out[1]), "%s raised %s" % (op, out[1:]))
    if out[0] == "err":
        if pout[0] == "err" and pout[1] == out[1]:
            return None           # what the backend cannot do, it cannot do for either
        return ("crash:" + out[1], "%s raised %s: %s (plain Solver: %s)" % (op, out[1], out[2], pout[:2]))
    ms = funi.models(held + list(d.get("extra", [])))

    def known(e, i):
        try:
            return funi.value(e, i)
        except Unspecified:
            return None
    if out[0] == "unsat":
        if ms and op != "solution":
            return ("spurious-unsat" + _fmodel_pred(funi, ms[0]), "UnsatError although %s satisfies the constraints" % (funi.assignments[ms[0]],))
    else:
        val = out[1]
        if op == "satisfiable" and ms and not val:
            return ("wrong-sat" + _fmodel_pred(funi, ms[0]), "satisfiable() = False although %s satisfies the constraints" % (funi.assignments[ms[0]],))
        if op == "eval" and len(val) < d["n"]:
            got = set(int(v) for v in val)
            for i in ms:
                v = known(d["e"], i)
                if v is not None and v not in got:
                    return ("incomplete" + _fmodel_pred(funi, i), "returned all of %s, but %s is a model and gives %#x" % (
                        [hex(x) for x in sorted(got)], funi.assignments[i], v))
        if op == "solution" and not isinstance(d["v"], str) and not val:
            w = funi.parse(d["e"]).size()
            for i in ms:
                if known(d["e"], i) == d["v"] % (1 << w):
                    return ("wrong-solution" + _fmodel_pred(funi, i), "solution(%s, %#x) = False, but %s is a model" % (d["e"], d["v"], funi.assignments[i]))
        if op in ("min", "max") and val is not None:
            w = funi.parse(d["e"]).size()
            got = int(val) % (1 << w)
            for i in ms:
                v = known(d["e"], i)
                if v is not None and ((op == "min" and got > v) or (op == "max" and got < v)):
                    return ("wrong-optimum" + _fmodel_pred(funi, i), "%s(%s) = %#x, but %s is a model and gives %#x" % (op, d["e"], got, funi.assignments[i], v))
        if op in ("is_true", "is_false") and val:
            for i in ms:
                v = known(d["e"], i)
                if v is not None and bool(v) != (op == "is_true"):
                    return ("unsound-" + op + _fmodel_pred(funi, i), "%s(%s) = True, but it does not hold in the model %s" % (op, d["e"], funi.assignments[i]))
    # exactness: the same answer as a plain Solver - where an answer is determined: on constraints without a model anything goes
    # (except for satisfiable() itself), and the bit pattern of a NaN is nobody's to fix
    if pout[0] == "err":
        return None
    if op == "satisfiable":
        if out[0] == "ok" and pout[0] == "ok" and bool(out[1]) != bool(pout[1]):
            return ("wrong-sat:differs-from-plain-solver", "satisfiable() = %s, plain Solver: %s" % (out[1], pout[1]))
        return None
    if not psat:
        return None
    if out[0] == "unsat":
        return ("spurious-unsat:differs-from-plain-solver", "UnsatError, but the plain Solver finds the constraints satisfiable and answers %s" % (str(pout[1:])[:120],))
    if pout[0] != "ok" or not nan_free:
        return None
    a, b = out[1], pout[1]
    if op == "eval" and len(a) < d["n"] and len(b) < d["n"] and set(map(int, a)) != set(map(int, b)):
        return ("wrong-values:differs-from-plain-solver", "eval = %s, plain Solver: %s" % ([hex(int(x)) for x in a], [hex(int(x)) for x in b]))
    if op == "eval" and (len(a) < d["n"]) != (len(b) < d["n"]):
        return ("wrong-values:differs-from-plain-solver", "eval returned %d value(s), the plain Solver %d (n = %d)" % (len(a), len(b), d["n"]))
    if op in ("min", "max", "solution") and a != b and a is not None and b is not None:
        return ("wrong-%s:differs-from-plain-solver" % ("optimum" if op != "solution" else "solution"), "%s = %s, plain Solver: %s" % (op, a, b))
    return None


def run_float_history(funi, cls, cfg, hist):
    """the history on the class under test and on plain claripy.Solver objects side by side; returns (failures, outcomes)"""
    import claripy.backends
    bz = claripy.backends.z3
    saved = bz.reuse_z3_solver
    bz.reuse_z3_solver = bool(cfg.get("reuse", False))
    try:
        if hasattr(bz._tls, "solver"):
            bz._tls.solver = None
        solvers, plain, held = [SOLVER_CLASSES[cls]()], [claripy.Solver()], [[]]
        fails, outs = [], []
        # the bit pattern of a NaN is unspecified (SMT-LIB), and Z3 is not even consistent with itself about it: with f forced
        # to be NaN every range check on fp.to_ieee_bv(f) answers unsat while the constraints are sat - max() then returns 0
        # and ConstraintExpansionMixin asserts `bits <= 0`.  A solver that was asked for values of fpToIEEEBV(v) while v
        # MUST be NaN (says the plain twin) has been fed garbage by the backend: it and its later branches are not judged.
        tainted = set()
        for k, d in enumerate(hist):
            if d["s"] >= len(solvers):
                outs.append(("skip",))
                continue
            if d["s"] not in tainted and d["op"] in ("eval", "min", "max", "solution") and "fpToIEEEBV" in d["e"]:
                try:
                    ex = [funi.parse(c) for c in d.get("extra", [])]
                    if plain[d["s"]].satisfiable(extra_constraints=ex) and any(
                            not plain[d["s"]].satisfiable(extra_constraints=ex + [claripy.Not(claripy.fpIsNaN(funi.sym[v]))])
                            for v in funi.names if re.search(r"\b%s\b" % v, d["e"])):
                        tainted.add(d["s"])
                except Exception:  # noqa: BLE001
                    tainted.add(d["s"])
            out = apply_op(funi, solvers, d)
            pout = apply_op(funi, plain, d)
            outs.append(out)
            if d["s"] in tainted:
                if d["op"] == "add":
                    held[d["s"]] += d["cs"]
                elif d["op"] == "branch" and out[0] == "ok":
                    held.append(list(held[d["s"]]))
                    tainted.add(len(solvers) - 1)
                continue
            psat, nan_free = True, True
            if d["op"] in ("eval", "min", "max", "solution", "is_true", "is_false"):
                try:
                    ex = [funi.parse(c) for c in d.get("extra", [])]
                    psat = plain[d["s"]].satisfiable(extra_constraints=ex)
                    if psat and d["op"] in ("eval", "min", "max", "solution") and out != pout:
                        nan_free = not any(plain[d["s"]].satisfiable(extra_constraints=ex + [claripy.fpIsNaN(funi.sym[v])])
                                           for v in funi.names if re.search(r"\b%s\b" % v, d["e"]))
                except Exception:  # noqa: BLE001
                    psat = False
            j = judge_float(funi, held[d["s"]], d, out, pout, psat, nan_free)
            # the plain solver is judged too: a failure it shares is not this class's (C11 owns it) - reported with a predicate
            if j and not j[0].endswith(":differs-from-plain-solver"):
                jp = judge_float(funi, held[d["s"]], d, pout, pout)
                if jp and jp[0] == j[0]:
                    j = (j[0] + ":plain-solver-too", j[1])
            if d["op"] == "add":
                held[d["s"]] += d["cs"]
            elif d["op"] == "branch" and out[0] == "ok":
                held.append(list(held[d["s"]]))
            if j:
                fails.append((k, j[0], j[1]))
        return fails, outs
    finally:
        bz.reuse_z3_solver = saved
        if hasattr(bz._tls, "solver"):
            bz._tls.solver = None


def shrink_float(funi, cls, cfg, hist, kind):
    def fails(h):
        return all(any(k == kind for _, k, _ in run_float_history(funi, cls, cfg, h)[0]) for _ in range(2))
    f, _o = run_float_history(funi, cls, cfg, hist)
    idx = [i for i, k, _ in f if k == kind]
    cur = [dict(d) for d in (hist[:idx[0] + 1] if idx else hist)]
    changed = True
    while changed and len(cur) > 1:
        changed = False
        for k in range(len(cur) - 2, -1, -1):
            if cur[k]["op"] == "branch":
                continue
            cand = cur[:k] + cur[k + 1:]
            if fails(cand):
                cur, changed = cand, True
                break
    for k in range(len(cur)):
        if cur[k].get("extra"):
            cand = [dict(q) for q in cur]
            cand[k]["extra"] = []
            if fails(cand):
                cur = cand
    return cur
