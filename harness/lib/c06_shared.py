"""C06, shared between the check and its fresh-process child: a user annotation class and a deterministic list of
constructions (same list for the same seed in every process, whatever PYTHONHASHSEED is).

Run as   PYTHONHASHSEED=<n> python c06_shared.py <seed> <count>   -> hex pickle of the list on stdout."""
import os, pickle, random, sys

sys.path.insert(0, os.path.dirname(os.path.dirname(os.path.abspath(__file__))))


import claripy


class UA(claripy.Annotation):
    """a user annotation class that hashes its integer payload with hash() (as angr-style annotations do)"""
    eliminatable = False
    relocatable = False

    def __init__(self, v):
        self.v = v

    def __hash__(self):
        return hash((type(self).__name__, self.v))

    def __eq__(self, o):
        return type(o) is type(self) and o.v == self.v

    def __repr__(self):
        return "%s(%d)" % (type(self).__name__, self.v)


class UR(UA):
    """relocatable user annotation"""
    relocatable = True


def anno_pool():
    import claripy
    A = claripy.annotation
    return [UA(1), UA(2), UA(3), UA(4), UR(1), UR(7), A.StridedIntervalAnnotation(1, 0, 5), A.StridedIntervalAnnotation(2, 0, 8),
            A.RegionAnnotation("r", 1), A.RegionAnnotation("s", 1), A.SimplificationAvoidanceAnnotation(), A.UninitializedAnnotation()]


def build_all(seed, count):
    """deterministic constructions: BV, Bool, FP (sorts, rounding modes, special values), strings, annotated variants"""
    import claripy
    rng = random.Random(seed)
    D, F = claripy.FSORT_DOUBLE, claripy.FSORT_FLOAT
    rms = [claripy.fp.RM.RM_NearestTiesEven, claripy.fp.RM.RM_TowardsZero, claripy.fp.RM.RM_TowardsPositiveInf, claripy.fp.RM.RM_TowardsNegativeInf,
           claripy.fp.RM.RM_NearestTiesAwayFromZero]
    x, y = claripy.BVS("c6x", 32, explicit_name=True), claripy.BVS("c6y", 32, explicit_name=True)
    f, g = claripy.FPS("c6f", D, explicit_name=True), claripy.FPS("c6g", D, explicit_name=True)
    h = claripy.FPS("c6h", F, explicit_name=True)
    s = claripy.StringS("c6s", explicit_name=True)
    fvals = [0.0, -0.0, 1.5, -2.25, float("inf"), float("-inf"), float("nan"), 1e300, 5e-324, 3.0]
    pool = [a for a in anno_pool() if type(a).__eq__ is not object.__eq__]      # value-comparable ones: identity survives pickling
    out = []
    for i in range(count):
        k = rng.randrange(12)
        c = rng.randrange(1, 1 << 16)
        if k == 0:
            e = x + c
        elif k == 1:
            e = claripy.If(claripy.ULT(x, c), y, x ^ c)
        elif k == 2:
            e = claripy.FPV(rng.choice(fvals), rng.choice([D, F]))
        elif k == 3:
            e = claripy.fpAdd(rng.choice(rms), f, claripy.FPV(rng.choice(fvals), D))
        elif k == 4:
            e = rng.choice([claripy.fpLT, claripy.fpEQ, claripy.fpGEQ])(f, rng.choice([g, claripy.FPV(rng.choice(fvals), D)]))
        elif k == 5:
            e = claripy.fpToFP(rng.choice(rms), h, D)
        elif k == 6:
            e = claripy.fpToSBV(rng.choice(rms), f * g, rng.choice([32, 64]))
        elif k == 7:
            e = claripy.StrConcat(s, claripy.StringV(rng.choice(["", "a", "<>", "é中", "\\x", "a b"])))
        elif k == 8:
            e = claripy.fpToIEEEBV(rng.choice([f, g])) + c
        elif k == 9:
            e = claripy.Concat(x, y)[rng.randrange(32, 64):rng.randrange(0, 32)]
        elif k == 10:
            e = claripy.fpIsNaN(rng.choice([f, g, h]))
        else:
            e = claripy.BVV(c, rng.choice([8, 16, 32, 64]))
        if rng.random() < 0.5:
            na = rng.choice([1, 2, 3])
            e = e.annotate(*rng.sample(pool, na))
            if na == 1 and rng.random() < 0.6 and isinstance(e, claripy.ast.BV):
                # a relocatable annotation moves up, others stay below.  (Only one: the order in which SEVERAL relocated
                # annotations are collected is a set iteration order, which claripy does not promise and which differs
                # between processes.)
                e = e + 1
        out.append(e)
    return out


if __name__ == "__main__":
    from lib import c06_shared as M          # so that the classes pickle under their importable name
    asts = M.build_all(int(sys.argv[1]), int(sys.argv[2]))
    sys.stdout.write(pickle.dumps(asts, -1).hex())
