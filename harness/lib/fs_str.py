"""Strings (C03 / C26): alphabet and pools, an independent SMT-LIB 2.6 reference for the string functions,
evaluation of the REAL claripy folding, evaluation of the REAL claripy->Z3 translation on Z3 literals built
from code points, and the literal codec probes.  Strings travel as tuples of code points everywhere."""
import ctypes

M64 = 1 << 64
Z3_MAX_CHAR = 0x2FFFF   # SMT-LIB 2.6: characters are the code points 0 .. 0x2FFFF

ALPHABET = [ord("a"), ord("b"), ord("."), ord("("), ord("\\"), 0, ord("\n"), 0xE9, 0x1F600, 0x2FFFF, 0x10FFFF,
            0x665, ord("-"), ord("A")] + [ord(c) for c in "0123456789"]
# characters that matter for the escape grammar `\u{...}` / `\ud800`; used by the codec pools
CODEC_ALPHABET = [ord(c) for c in "\\u{}48dDfFgx0"] + [0, 0x7F, 0x80, 0xFF, 0x100, 0xD800, 0x1F600, 0x2FFFF, 0x30000, 0x10FFFF,
                                                         ord("a"), ord(" "), ord("~"), 0x1F, ord('"'), ord("U")]

OPS = ["StrConcat", "StrConcat3", "StrSubstr", "StrReplace", "StrLen", "StrContains", "StrPrefixOf", "StrSuffixOf", "StrIndexOf",
       "StrToInt", "IntToStr", "__eq__", "__ne__"]
# argument kinds: s = string, i = 64-bit unsigned
SIG = {"StrConcat": "ss", "StrConcat3": "sss", "StrSubstr": "iis", "StrReplace": "sss", "StrLen": "s", "StrContains": "ss", "StrPrefixOf": "ss",
       "StrSuffixOf": "ss", "StrIndexOf": "ssi", "StrToInt": "s", "IntToStr": "i", "__eq__": "ss", "__ne__": "ss"}


def cps(s):
    return tuple(ord(c) for c in s)


def to_str(t):
    return "".join(chr(c) for c in t)


# ------------------------------------------------------------------ SMT-LIB reference (independent of claripy and Z3)
def _find(s, t, start=0):
    """smallest j >= start with s[j:j+len(t)] == t, or None"""
    n, m = len(s), len(t)
    j = start
    while j + m <= n:
        if s[j:j + m] == t:
            return j
        j += 1
    return None


def spec(op, a):
    """-> ('s', tuple) | ('i', int mod 2^64) | ('b', bool).  Int results are taken modulo 2^64 because claripy's string
    theory interface is BV64 (the translation wraps Int terms in int2bv 64 and reads indices with bv2nat)."""
    if op == "StrConcat":
        return ("s", a[0] + a[1])
    if op == "StrConcat3":     # the n-ary form claripy.StrConcat(a, b, c)
        return ("s", a[0] + a[1] + a[2])
    if op == "StrSubstr":
        i, n, s = a
        if 0 <= i < len(s) and n > 0:
            return ("s", s[i:i + min(n, len(s) - i)])
        return ("s", ())
    if op == "StrReplace":
        s, t, r = a
        j = _find(s, t)
        if j is None:
            return ("s", s)
        return ("s", s[:j] + r + s[j + len(t):])
    if op == "StrLen":
        return ("i", len(a[0]) % M64)
    if op == "StrContains":
        return ("b", _find(a[0], a[1]) is not None)
    if op == "StrPrefixOf":
        p, s = a
        return ("b", s[:len(p)] == p)
    if op == "StrSuffixOf":
        p, s = a
        return ("b", len(p) <= len(s) and s[len(s) - len(p):] == p)
    if op == "StrIndexOf":
        s, t, i = a
        if i > len(s):
            return ("i", M64 - 1)
        j = _find(s, t, i)
        return ("i", (M64 - 1) if j is None else j)
    if op == "StrToInt":
        s = a[0]
        if len(s) == 0 or any(not (48 <= c <= 57) for c in s):
            return ("i", M64 - 1)
        v = 0
        for c in s:
            v = v * 10 + (c - 48)
        return ("i", v % M64)
    if op == "IntToStr":
        n = a[0]
        ds = []
        if n == 0:
            ds = [48]
        while n > 0:
            ds.append(48 + n % 10)
            n //= 10
        return ("s", tuple(reversed(ds)))
    if op == "__eq__":
        return ("b", a[0] == a[1])
    if op == "__ne__":
        return ("b", a[0] != a[1])
    raise KeyError(op)


# ------------------------------------------------------------------ REAL claripy: folding
def real_fold(op, a, annotate=None):
    """Build the operation through claripy's public constructors on literal operands and read the folded AST.
    -> same shape as spec(), or ('err', ExceptionName) / ('unfolded', opname)"""
    import claripy
    args = []
    for k, v in zip(SIG[op], a):
        if k == "s":
            x = claripy.StringV(to_str(v))
            if annotate is not None and len(args) == 0:
                x = x.annotate(annotate)
            args.append(x)
        else:
            args.append(claripy.BVV(v, 64))
    try:
        if op in ("__eq__", "__ne__"):
            r = getattr(claripy.ast.String, op)(*args)
        else:
            r = getattr(claripy, "StrConcat" if op == "StrConcat3" else op)(*args)
    except Exception as e:  # noqa
        return ("err", type(e).__name__)
    if r.op == "StringV":
        return ("s", cps(r.args[0]))
    if r.op == "BVV":
        return ("i", r.args[0])
    if r.op == "BoolV":
        return ("b", bool(r.args[0]))
    return ("unfolded", r.op)


def real_concrete(op, a):
    """the concrete backend function itself (backend_concrete/strings.py) — what the Lean model transcribes"""
    from claripy.backends.backend_concrete import strings as S
    from claripy.backends.backend_concrete.bv import BVV
    args = [S.StringV(to_str(v)) if k == "s" else BVV(v, 64) for k, v in zip(SIG[op], a)]
    try:
        if op == "__eq__":
            r = args[0] == args[1]
        elif op == "__ne__":
            r = args[0] != args[1]
        else:
            r = getattr(S, "StrConcat" if op == "StrConcat3" else op)(*args)
    except Exception as e:  # noqa
        return ("err", type(e).__name__)
    if isinstance(r, S.StringV):
        return ("s", cps(r.value))
    if isinstance(r, BVV):
        return ("i", r.value)
    if isinstance(r, bool):
        return ("b", r)
    return ("err", "type:" + type(r).__name__)


# ------------------------------------------------------------------ Z3 helpers (literals from code points, contents as code points)
class Z:
    def __init__(self):
        import z3, claripy
        self.z3 = z3
        self.bz = claripy.backends.z3
        self.ctx = self.bz._context
        self.ref = self.ctx.ref()

    def lit(self, t):
        z3 = self.z3
        arr = (ctypes.c_uint * max(1, len(t)))(*t)
        return z3.SeqRef(z3.Z3_mk_u32string(self.ref, len(t), arr), self.ctx)

    def contents(self, e):
        z3 = self.z3
        if not z3.Z3_is_string(self.ref, e.as_ast()):
            return None
        n = z3.Z3_get_string_length(self.ref, e.as_ast())
        arr = (ctypes.c_uint * max(1, n))()
        z3.Z3_get_string_contents(self.ref, e.as_ast(), n, arr)
        return tuple(arr[i] for i in range(n))

    def value(self, e):
        """fully evaluate a ground term -> ('s',..)|('i',..)|('b',..)|('?', sexpr)"""
        z3 = self.z3
        r = z3.simplify(e)
        for _ in range(2):
            if z3.is_string_value(r):
                return ("s", self.contents(r))
            if z3.is_bv_value(r):
                return ("i", r.as_long())
            if z3.is_int_value(r):
                return ("i", r.as_long() % M64)
            if z3.is_true(r):
                return ("b", True)
            if z3.is_false(r):
                return ("b", False)
            s = z3.Solver(ctx=self.ctx)
            v = z3.Const("fs_probe_v", r.sort())
            s.add(v == r)
            if s.check() != z3.sat:
                break
            r = s.model().eval(v, model_completion=True)
        return ("?", r.sexpr())

    def solver_side(self, op, a):
        """claripy's own translation functions (_op_raw_*) applied to Z3 literals, then evaluated by Z3"""
        z3 = self.z3
        args = [self.lit(v) if k == "s" else z3.BitVecVal(v, 64, self.ctx) for k, v in zip(SIG[op], a)]
        if op == "__eq__":
            e = args[0] == args[1]
        elif op == "__ne__":
            e = args[0] != args[1]
        else:
            e = getattr(self.bz, "_op_raw_" + ("StrConcat" if op == "StrConcat3" else op))(*args)
        return self.value(e)

    # ---- literal codec, real side
    def literal_in(self, t):
        """code points that reach Z3 when the caller writes claripy.StringV(<t>)"""
        import claripy
        try:
            e = self.bz.convert(claripy.StringV(to_str(t)))
        except Exception as ex:  # noqa
            return ("err", type(ex).__name__)
        return self.contents(e)

    def literal_in_raw(self, t):
        """code points that reach Z3 when the caller passes the plain Python str <t> (solution(x, "..."), blocking clauses)"""
        try:
            e = self.bz._convert(to_str(t))
        except Exception as ex:  # noqa
            return ("err", type(ex).__name__)
        if isinstance(e, str):     # handed on raw: z3py's own coercion (StringVal) is what Z3 will see
            e = self.z3.StringVal(e, ctx=self.ctx)
        return self.contents(e)

    def literal_out(self, t):
        """python str claripy extracts from a Z3 string value holding exactly <t>"""
        e = self.lit(t)
        return cps(self.bz._abstract_to_primitive(self.ref, e.as_ast()))

    def literal_out_ast(self, t):
        e = self.lit(t)
        a = self.bz._abstract_internal(self.ref, e.as_ast())
        return cps(a.args[0])

    def z3_parse(self, t):
        """Z3_mk_string on the text <t> (must be chars < 256: it is a C string; NUL excluded)"""
        z3 = self.z3
        e = z3.SeqRef(z3.Z3_mk_string(self.ref, to_str(t)), self.ctx)
        return self.contents(e)

    def z3_print(self, t):
        """Z3_get_lstring of the value <t>, bytes decoded as latin-1 (what z3py's as_string returns)"""
        return cps(self.lit(t).as_string())

    def z3py_encode(self, t):
        """the text z3py's StringVal hands to Z3_mk_string for python string <t> (captured, not re-implemented)"""
        z3 = self.z3
        seen = []
        orig = z3.z3.Z3_mk_string

        def spy(c, s):
            seen.append(s)
            return orig(c, s)
        z3.z3.Z3_mk_string = spy
        try:
            z3.StringVal(to_str(t), ctx=self.ctx)
        finally:
            z3.z3.Z3_mk_string = orig
        return cps(seen[0])

    def claripy_literal_text(self, t):
        """the text that claripy's BackendZ3.StringV finally hands to Z3_mk_string (or None if it does not use it)"""
        import claripy
        z3 = self.z3
        seen = []
        orig = z3.z3.Z3_mk_string

        def spy(c, s):
            seen.append(s)
            return orig(c, s)
        z3.z3.Z3_mk_string = spy
        try:
            self.bz.StringV(claripy.StringV(to_str(t)))
        finally:
            z3.z3.Z3_mk_string = orig
        return cps(seen[0]) if seen else None


# ------------------------------------------------------------------ pools
def strings_upto(alphabet, n):
    out = [()]
    layer = [()]
    for _ in range(n):
        layer = [s + (c,) for s in layer for c in alphabet]
        out += layer
    return out


def index_pool(*lens):
    s = {0, 1, 2, M64 // 2, M64 - 1, M64 // 2 - 1, M64 - 2}
    for n in lens:
        for d in (-1, 0, 1):
            if n + d >= 0:
                s.add(n + d)
    return sorted(s)


def fmt_s(t):
    return ",".join(str(c) for c in t) if t else "-"


def fmt_case(op, a):
    return "str " + op + " " + " ".join(fmt_s(v) if k == "s" else str(v) for k, v in zip(SIG[op], a))


def fmt_res(r):
    if r[0] == "s":
        return "s:" + fmt_s(r[1])
    if r[0] == "i":
        return "i:%d" % r[1]
    if r[0] == "b":
        return "b:%d" % (1 if r[1] else 0)
    return "!" + str(r[1])
