"""Regenerate every lean/Claripy/Gen/*.lean from /repo's current source (best effort: a translator that
refuses leaves the previous file in place; the per-property check reports the broken tie)."""
import os, sys
sys.path.insert(0, os.path.dirname(os.path.abspath(__file__)))
from lib.common import LEAN, write_if_changed


def main():
    import translate_gcguard as tg
    try:
        write_if_changed(os.path.join(LEAN, "Claripy", "Gen", "GcGuard.lean"), tg.render(tg.translate()))
    except tg.TranslateError as e:
        print("translate_gcguard refused:", e)


if __name__ == "__main__":
    main()
