"""Regenerate every lean/Claripy/Gen/*.lean from /repo's current source (best effort: a translator that
refuses leaves the previous file in place; the per-property check reports the broken tie)."""
import os, sys
sys.path.insert(0, os.path.dirname(os.path.abspath(__file__)))
from lib.common import LEAN, write_if_changed


def main():
    import translate_gcguard as tg
    try:
        write_if_changed(os.path.join(LEAN, "Claripy", "Gen", "GcGuard.lean"), tg.render(tg.translate()))
    except tg.TranslateError as e:
        print("translate_gcguard refused:", e)
    # solver family: __mro__ of the classes in solvers.py, __getstate__/__setstate__ plans
    try:
        import translate_solver as tsol
        write_if_changed(os.path.join(LEAN, "Claripy", "Gen", "SolverMro.lean"), tsol.render(tsol.translate()))
    except Exception as e:  # noqa: BLE001
        print("translate_solver refused:", e)
    try:
        import translate_pickle as tpk
        write_if_changed(os.path.join(LEAN, "Claripy", "Gen", "SolverPickle.lean"), tpk.render(tpk.translate()))
    except Exception as e:  # noqa: BLE001
        print("translate_pickle refused:", e)
    # FP/strings family, Z3 tables, shared-state inventory
    try:
        import translate_fptables as tf
        write_if_changed(os.path.join(LEAN, "Claripy", "Gen", "FpTables.lean"), tf.render(tf.translate()))
    except Exception as e:  # noqa: BLE001
        print("translate_fptables refused:", e)
    try:
        import translate_z3tables as tz
        write_if_changed(os.path.join(LEAN, "Claripy", "Gen", "Z3Tables.lean"), tz.render(tz.translate()))
    except Exception as e:  # noqa: BLE001
        print("translate_z3tables refused:", e)
    try:
        import translate_simptables as tst
        write_if_changed(os.path.join(LEAN, "Claripy", "Gen", "SimpTables.lean"), tst.render(tst.translate()))
    except Exception as e:  # noqa: BLE001
        print("translate_simptables refused:", e)
    try:
        import translate_shared as ts
        write_if_changed(os.path.join(LEAN, "Claripy", "Gen", "SharedState.lean"), ts.render(ts.translate(), ts.load_classes()))
    except Exception as e:  # noqa: BLE001
        print("translate_shared refused:", e)


if __name__ == "__main__":
    main()
