"""Translator for C20: inventory of process-wide mutable state in claripy (module-level and class-level bindings
whose value is a mutable container, a counter, a lock, an lru_cache or a threading.local), from the source AST of
every file under claripy/.  Rendered as lean/Claripy/Gen/SharedState.lean together with the hand-written
classification in harness/shared_state_classes.json; an unclassified cell breaks `C20_all_classified`."""
import ast, json, os

import claripy

MUTABLE_CALLS = {"dict", "set", "list", "WeakValueDictionary", "WeakKeyDictionary", "WeakSet", "defaultdict", "OrderedDict", "Counter",
                 "deque", "count", "local", "Lock", "RLock", "LRUCache"}


class TranslateError(Exception):
    pass


def _callee(n):
    f = n.func
    if isinstance(f, ast.Name):
        return f.id
    if isinstance(f, ast.Attribute):
        return f.attr
    return None


def _mutable(v):
    if isinstance(v, (ast.Dict, ast.Set, ast.List, ast.DictComp, ast.SetComp, ast.ListComp)):
        return type(v).__name__.lower()
    if isinstance(v, ast.Call) and _callee(v) in MUTABLE_CALLS:
        return _callee(v)
    return None


def scan_file(path, rel):
    tree = ast.parse(open(path).read())
    cells = []

    def targets(st):
        if isinstance(st, ast.Assign):
            return [t for t in st.targets if isinstance(t, ast.Name)], st.value
        if isinstance(st, ast.AnnAssign) and st.value is not None and isinstance(st.target, ast.Name):
            return [st.target], st.value
        return [], None
    for st in tree.body:
        ts, v = targets(st)
        kind = _mutable(v) if v is not None else None
        if kind:
            for t in ts:
                if t.id.isupper() or t.id.startswith("__"):
                    # ALL_CAPS module constants are read-only tables by convention; still listed, tagged const
                    cells.append((rel, t.id, kind + ":CONST"))
                else:
                    cells.append((rel, t.id, kind))
        if isinstance(st, ast.ClassDef):
            # the backend objects are process-wide singletons (claripy.backends.*): their instance containers are shared
            if rel.startswith("backends") and st.name.startswith("Backend"):
                for n in ast.walk(st):
                    if isinstance(n, ast.Assign) and len(n.targets) == 1 and isinstance(n.targets[0], ast.Attribute):
                        t = n.targets[0]
                        kind = _mutable(n.value)
                        if kind and isinstance(t.value, ast.Name) and t.value.id == "self":
                            cells.append((rel, st.name + "().%s" % t.attr, kind))
                        elif (kind and isinstance(t.value, ast.Attribute) and t.value.attr == "_tls"
                              and isinstance(t.value.value, ast.Name) and t.value.value.id == "self"):
                            cells.append((rel, st.name + "()._tls.%s" % t.attr, kind + ":TLS"))
            for s2 in st.body:
                ts, v = targets(s2)
                kind = _mutable(v) if v is not None else None
                if kind:
                    for t in ts:
                        if t.id != "__slots__":
                            cells.append((rel, st.name + "." + t.id, kind))
                if isinstance(s2, (ast.FunctionDef,)):
                    for d in s2.decorator_list:
                        dn = d.func if isinstance(d, ast.Call) else d
                        name = dn.id if isinstance(dn, ast.Name) else getattr(dn, "attr", None)
                        if name in ("lru_cache", "cache"):
                            cells.append((rel, st.name + "." + s2.name, "lru_cache"))
        if isinstance(st, ast.FunctionDef):
            for d in st.decorator_list:
                dn = d.func if isinstance(d, ast.Call) else d
                name = dn.id if isinstance(dn, ast.Name) else getattr(dn, "attr", None)
                if name in ("lru_cache", "cache"):
                    cells.append((rel, st.name, "lru_cache"))
            # `global` rebinding of module scalars (e.g. counters)
            for n in ast.walk(st):
                if isinstance(n, ast.Global):
                    for g in n.names:
                        cells.append((rel, g, "global-scalar"))
    return cells


def translate():
    root = os.path.dirname(claripy.__file__)
    cells = []
    for dp, _, fns in os.walk(root):
        for fn in sorted(fns):
            if fn.endswith(".py"):
                p = os.path.join(dp, fn)
                cells += scan_file(p, os.path.relpath(p, root))
    cells = sorted(set(cells))
    return cells


def load_classes():
    p = os.path.join(os.path.dirname(os.path.abspath(__file__)), "shared_state_classes.json")
    return json.load(open(p))


def render(cells, classes):
    rows = []
    for rel, name, kind in cells:
        key = "%s:%s" % (rel, name)
        c = classes.get(key, {}).get("class", "unclassified")
        rows.append('("%s", "%s", .%s)' % (key, kind, c))
    return """/- GENERATED by harness/translate_shared.py from the source of every file under claripy/. Do not edit. -/
import Claripy.Conc.Shared
namespace Claripy.Gen.SharedState
open Claripy.Conc

/-- (file:binding, kind of mutable object, classification from harness/shared_state_classes.json) -/
def cells : List (String × String × CellClass) := [
  %s]

end Claripy.Gen.SharedState
""" % ",\n  ".join(rows)


if __name__ == "__main__":
    for c in translate():
        print(c)
