"""Locked read-modify-write of /verif/known_findings.json (several builders edit it concurrently).
usage: kf.py add '<json object>'     fields: property, id, signature, witness, what, theorem, status("open"|"fixed: <commit>")
       kf.py set-status <id> '<status>'
       kf.py list [property]
The checks only READ this file; it is never written at check time."""
import fcntl, json, os, sys
P = os.path.join(os.path.dirname(os.path.dirname(os.path.abspath(__file__))), "known_findings.json")


def main(a):
    with open(P + ".lock", "w") as lk:
        fcntl.flock(lk, fcntl.LOCK_EX)
        d = json.load(open(P))
        if a[0] == "add":
            e = json.loads(a[1])
            for k in ("property", "id", "signature", "witness", "what", "status"):
                assert k in e, "missing " + k
            d["findings"] = [f for f in d["findings"] if f["id"] != e["id"]] + [e]
        elif a[0] == "set-status":
            for f in d["findings"]:
                if f["id"] == a[1]:
                    f["status"] = a[2]
        elif a[0] == "list":
            for f in d["findings"]:
                if len(a) < 2 or f["property"] == a[1]:
                    print(f["property"], f["id"], f["status"], "|", f["signature"], "|", f["what"])
            return
        d["findings"].sort(key=lambda f: (f["property"], f["id"]))
        tmp = P + ".tmp"
        json.dump(d, open(tmp, "w"), indent=1)
        os.replace(tmp, P)


if __name__ == "__main__":
    main(sys.argv[1:])
