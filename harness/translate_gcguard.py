"""Translator: claripy/backends/backend_z3.py:_enter_z3/_exit_z3  ->  lean/Claripy/Gen/GcGuard.lean

Small grammar; anything outside it raises TranslateError (the check then reports the tie as broken
and falls back to searching the real code for a failing schedule).  One instruction per traced
source line (Python 3.12 line events), plus `release` for the second visit of the `with` line and
`ret` for the return event.
"""
import ast, inspect, textwrap


class TranslateError(Exception):
    pass


def _name(n):
    return n.id if isinstance(n, ast.Name) else None


def _is_call(n, mod, attr):
    return (isinstance(n, ast.Call) and isinstance(n.func, ast.Attribute) and n.func.attr == attr
            and _name(n.func.value) == mod and not n.args and not n.keywords)


class _T:
    def __init__(self):
        self.ins = []      # list of [opcode, target-or-None, lineno]
        self.in_lock = False

    def emit(self, op, line, tgt=None):
        self.ins.append([op, tgt, line])
        return len(self.ins) - 1

    def stmts(self, body, with_line):
        for st in body:
            self.stmt(st, with_line)

    def stmt(self, st, with_line):
        ln = st.lineno
        if isinstance(st, ast.Global):
            return
        if isinstance(st, ast.Expr) and isinstance(st.value, ast.Constant) and isinstance(st.value.value, str):
            return  # docstring
        if isinstance(st, ast.With):
            if len(st.items) != 1 or _name(st.items[0].context_expr) != "_gc_lock" or st.items[0].optional_vars:
                raise TranslateError(f"line {ln}: unsupported with-statement")
            if self.in_lock:
                raise TranslateError(f"line {ln}: nested lock")
            self.emit("acquire", ln)
            self.in_lock = True
            self.stmts(st.body, ln)
            self.in_lock = False
            self.emit("release", ln)
            return
        if isinstance(st, ast.If):
            if st.orelse:
                raise TranslateError(f"line {ln}: else-branches are outside the translator's grammar")
            t = st.test
            if (isinstance(t, ast.Compare) and len(t.ops) == 1 and isinstance(t.ops[0], ast.Eq)
                    and _name(t.left) == "_active_z3_calls" and isinstance(t.comparators[0], ast.Constant)
                    and t.comparators[0].value == 0 and type(t.comparators[0].value) is int):
                k = self.emit("brActiveNZ", ln)
            elif _name(t) == "_gc_was_enabled":
                k = self.emit("brNotSaved", ln)
            else:
                raise TranslateError(f"line {ln}: unsupported condition {ast.unparse(t)}")
            self.stmts(st.body, with_line)
            self.ins[k][1] = len(self.ins)
            return
        if isinstance(st, ast.Assign) and len(st.targets) == 1:
            tgt = _name(st.targets[0])
            if tgt == "_gc_was_enabled" and _is_call(st.value, "gc", "isenabled"):
                self.emit("saveGc", ln); return
            if tgt == "_gc_was_enabled" and isinstance(st.value, ast.Constant) and st.value.value is False:
                self.emit("clearSaved", ln); return
            raise TranslateError(f"line {ln}: unsupported assignment {ast.unparse(st)}")
        if isinstance(st, ast.AugAssign) and _name(st.target) == "_active_z3_calls" \
                and isinstance(st.value, ast.Constant) and st.value.value == 1 and type(st.value.value) is int:
            if isinstance(st.op, ast.Add):
                self.emit("inc", ln); return
            if isinstance(st.op, ast.Sub):
                self.emit("dec", ln); return
        if isinstance(st, ast.Expr):
            v = st.value
            if _is_call(v, "gc", "disable"):
                self.emit("gcDisable", ln); return
            if _is_call(v, "gc", "enable"):
                self.emit("gcEnable", ln); return
            if isinstance(v, ast.Call) and isinstance(v.func, ast.Attribute) and _name(v.func.value) == "log":
                self.emit("nop", ln); return
        if isinstance(st, ast.Return) and st.value is None:
            self.emit("nop", ln)           # the `return` line itself
            if self.in_lock:
                self.emit("release", with_line)
            self.emit("ret", ln)
            return
        raise TranslateError(f"line {ln}: unsupported statement {ast.unparse(st)}")


def translate_function(fn):
    src = textwrap.dedent(inspect.getsource(fn))
    first = inspect.getsourcelines(fn)[1]
    tree = ast.parse(src)
    fd = tree.body[0]
    if not isinstance(fd, ast.FunctionDef) or fd.args.args or fd.decorator_list:
        raise TranslateError("unexpected function signature")
    ast.increment_lineno(tree, first - 1)
    t = _T()
    t.stmts(fd.body, None)
    t.emit("ret", fd.body[-1].lineno)
    return t.ins


def check_condom(bz):
    """The model's premise: every wrapped call is bracketed by exactly one `_enter_z3()` (first thing done) and one `_exit_z3()`
    (in a `finally`, so on every way out), and every Z3-facing method of BackendZ3 carries the wrapper.  Shape accepted:

        def condom(f):
            def z3_condom(*args, **kwargs):
                [docstring] ; <name> = <constant> ...
                try:  _enter_z3(); ...   finally: ...; _exit_z3()
            return z3_condom
    """
    src = textwrap.dedent(inspect.getsource(bz.condom))
    fd = ast.parse(src).body[0]
    inner = [st for st in fd.body if isinstance(st, ast.FunctionDef)]
    if len(inner) != 1 or not isinstance(fd.body[-1], ast.Return) or _name(fd.body[-1].value) != inner[0].name:
        raise TranslateError("condom: expected one inner function that is returned")
    body = list(inner[0].body)
    while body and (isinstance(body[0], ast.Expr) and isinstance(body[0].value, ast.Constant)
                    or isinstance(body[0], ast.Assign) and isinstance(body[0].value, ast.Constant)):
        body.pop(0)
    if len(body) != 1 or not isinstance(body[0], ast.Try):
        raise TranslateError("condom: the wrapper does something other than one try statement: " + (ast.unparse(body[0])[:80] if body else "empty"))
    tr = body[0]

    def is_call0(st, name):
        return isinstance(st, ast.Expr) and isinstance(st.value, ast.Call) and _name(st.value.func) == name and not st.value.args

    if not tr.body or not is_call0(tr.body[0], "_enter_z3"):
        raise TranslateError("condom: the try block does not start with _enter_z3()")
    if not tr.finalbody or not is_call0(tr.finalbody[-1], "_exit_z3"):
        raise TranslateError("condom: the finally block does not end with _exit_z3()")
    calls = [n for n in ast.walk(inner[0]) if isinstance(n, ast.Call) and _name(n.func) in ("_enter_z3", "_exit_z3")]
    if len(calls) != 2:
        raise TranslateError("condom: _enter_z3/_exit_z3 called %d times in the wrapper" % len(calls))
    for st in tr.finalbody[:-1]:
        for n in ast.walk(st):
            if isinstance(n, (ast.Return, ast.Raise, ast.Break, ast.Continue)):
                raise TranslateError("condom: the finally block can leave before _exit_z3()")
    return True


def translate():
    """Returns dict {enter: [[op,tgt,line],...], exit: [...], file: path}"""
    import claripy.backends.backend_z3 as bz
    check_condom(bz)
    return {"enter": translate_function(bz._enter_z3), "exit": translate_function(bz._exit_z3),
            "file": inspect.getsourcefile(bz)}


def lean_prog(ins):
    def one(i):
        op, tgt, _ = i
        return f".{op} {tgt}" if tgt is not None else f".{op}"
    return "[" + ", ".join(one(i) for i in ins) + "]"


def render(tr):
    return f"""/- GENERATED by harness/translate_gcguard.py from claripy/backends/backend_z3.py. Do not edit. -/
import Claripy.Conc.GcGuard
namespace Claripy.Gen.GcGuard
open Claripy.GcGuard

def enterProg : Prog := {lean_prog(tr['enter'])}

def exitProg : Prog := {lean_prog(tr['exit'])}

def progs : Progs := ⟨enterProg, exitProg⟩

end Claripy.Gen.GcGuard
"""

if __name__ == "__main__":
    print(render(translate()))
