"""Single source for MANIFEST.json: which properties are claimed, at what level, and why not otherwise."""
CLAIMS = {
    "C19": dict(
        text="Lean 4 theorem C19_gc_guard: for ANY number of threads, any line-granular interleaving, any nesting depth and either "
             "initial collector state, every reachable state of the _enter_z3/_exit_z3 programs keeps gc disabled while a call is "
             "in progress, restores the initial state at quiescence, and never drives the counter negative (inductive invariant with "
             "per-pc assertions, proved by induction over Reachable). The programs are regenerated from backend_z3.py on every run "
             "by a translator and the theorem is re-checked against them; a line scheduler runs the real functions on every "
             "reachable transition of the model (2-3 threads) and on random walks and compares the shared state line by line.",
        note="Trusted: Lean kernel + propext/Classical.choice/Quot.sound; the 150-line translator; line granularity = atomic step; "
             "gc module and lock replaced by instrumented objects at run time. Not exhibited: asynchronous exceptions inside the "
             "critical section, foreign code toggling gc mid-call.",
        technique="Lean 4 inductive invariant over a translator-generated interleaving model + line-schedule correspondence",
        design="4/C19"),
}

PENDING = "check not built yet in this session (work in progress; see DESIGN.md section 7)"
ALL = ["C%02d" % i for i in range(1, 27)]
