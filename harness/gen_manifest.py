import json, os, sys
sys.path.insert(0, os.path.dirname(os.path.abspath(__file__)))
from lib.common import VERIF
ALL = ["C%02d" % i for i in range(1, 27)]
CLAIMS, NA = {}, {}
for fn in sorted(os.listdir(os.path.join(VERIF, "harness", "claims"))):
    if fn.endswith(".json"):
        d = json.load(open(os.path.join(VERIF, "harness", "claims", fn)))
        (NA if d.get("not_applicable") else CLAIMS)[fn[:-5]] = d
PENDING = "check not built yet (work in progress; see DESIGN.md section 7)"

m = {
    "version": 1,
    "setup_cmd": "./setup.sh",
    "hooks": {"guard": "CLARIPY_VERIF", "enable": "export CLARIPY_VERIF=1 (set by ./check; no source hooks are needed so far: "
              "instrumentation is run-time substitution of module attributes from the harness)",
              "baseline_off_cmd": "cd /repo && /venv/bin/python -m pytest -ra -q -p no:cacheprovider --timeout=900 --continue-on-collection-errors",
              "source_commits": [], "add_only": True},
    "engines": [{"name": "lean-proof+correspondence", "path": "lean/ , harness/", "serves_properties": sorted(CLAIMS),
                 "kind_free_text": "Lean 4 models and theorems (lake build + #print axioms audit), translator-generated tables/programs, "
                                   "line-protocol driver for model/implementation correspondence, failing-input search on the real code"}],
    "checks": [],
    "not_applicable": [],
    "notes": "Every check: (1) regenerate lean/Claripy/Gen from /repo, (2) lake build + axiom audit of the property's theorems, "
             "(3) correspondence of the Lean model with the real code, (4) replay of known findings, (5) verdict. See DESIGN.md.",
}
for p in ALL:
    if p in CLAIMS:
        c = CLAIMS[p]
        m["checks"].append({
            "property_id": p, "quick_cmd": "./check %s quick" % p, "thorough_cmd": "./check %s thorough" % p,
            "evidence_file": "evidence/%s.json" % p, "replay_cmd_template": "./check %s --replay {path}" % p,
            "engine": "lean-proof+correspondence",
            "level_claimed": {"category": "proof", "text": c["text"], "design_ref": c["design"]},
            "level_note": c["note"], "technique": c["technique"]})
    else:
        m["not_applicable"].append({"property_id": p, "reason": NA.get(p, {}).get("reason", PENDING)})
json.dump(m, open(os.path.join(VERIF, "MANIFEST.json"), "w"), indent=1)
print("MANIFEST.json: %d checks, %d not claimed" % (len(m["checks"]), len(m["not_applicable"])))
