"""Entry point: ./check <Cxx> [quick|thorough] [--replay <file>]   exit 0 ok / 1 violation / 2 infrastructure."""
import importlib, json, os, sys, traceback

sys.path.insert(0, os.path.dirname(os.path.abspath(__file__)))
from lib.common import Ctx, VERIF  # noqa: E402


def main(argv):
    if not argv:
        print("usage: ./check <Cxx> [quick|thorough] [--replay <file>]"); return 2
    prop = argv[0]
    tier = os.environ.get("VERIF_TIER", "quick")
    replay = None
    rest = argv[1:]
    while rest:
        a = rest.pop(0)
        if a in ("quick", "thorough"):
            tier = a
        elif a == "--replay":
            replay = rest.pop(0)
    seed = int(os.environ.get("VERIF_SEED", "0") or 0)
    try:
        mod = importlib.import_module("props." + prop)
    except ModuleNotFoundError:
        print("no check for property %s" % prop); return 2
    ctx = Ctx(prop, tier, seed)
    try:
        if replay:
            obj = json.load(open(replay if os.path.isabs(replay) else os.path.join(VERIF, replay)))
            return mod.replay(ctx, obj)
        mod.run(ctx)
        return ctx.finish()
    except Exception:
        traceback.print_exc()
        print("infrastructure error in check %s" % prop)
        return 2


if __name__ == "__main__":
    sys.exit(main(sys.argv[1:]))
