import Claripy.Str.Spec
/-!
# Model of claripy/backends/backend_concrete/strings.py (as written at the current commit)

Python `str` primitives are modelled by their documented meaning on code-point lists (`Py.*`); they are part of the
trusted base and validated by the correspondence on every run.  The claripy functions are transcribed line by line
on top of them.  `BVV(v, 64)` masks its value with `2^64 - 1`.
-/
namespace Claripy.Str

namespace Py

/-- `s[a:b]` for non-negative `a`, `b` (indices beyond the end are clamped by Python; `drop`/`take` clamp too) -/
def slice (s : S) (a b : Nat) : S := (s.drop a).take (b - a)

/-- `s[a:]` -/
def sliceFrom (s : S) (a : Nat) : S := s.drop a

/-- the scanning loop of `s.find(t)`: candidate positions `j, j+1, ...` (`fuel` of them), first match wins -/
def findLoop (s t : S) : Nat → Nat → Option Nat
  | _, 0 => none
  | j, fuel + 1 => if slice s j (j + t.length) == t then some j else findLoop s t (j + 1) fuel

/-- `s.find(t)`: the lowest index `j` with `s[j:j+len(t)] == t`, `None` (Python: -1) if there is none.
CPython scans the candidate positions `0 .. len(s)-len(t)` in increasing order. -/
def find (s t : S) : Option Nat :=
  if t.length ≤ s.length then findLoop s t 0 (s.length - t.length + 1) else none

/-- `t in s` -/
def isIn (t s : S) : Bool := (find s t).isSome

/-- `s.index(t)`: like `find` but raises ValueError (here: `none`) when absent -/
def index (s t : S) : Option Nat := find s t

/-- `s.startswith(p)` -/
def startswith (s p : S) : Bool := slice s 0 p.length == p

/-- `s.endswith(p)` -/
def endswith (s p : S) : Bool := p.length ≤ s.length && s.drop (s.length - p.length) == p

/-- `s.replace(old, new, 1)`: replace the first occurrence (the empty `old` occurs at position 0) -/
def replace1 (s old new : S) : S :=
  match find s old with
  | none => s
  | some j => slice s 0 j ++ new ++ sliceFrom s (j + old.length)

/-- `"".join(parts)` -/
def join (parts : List S) : S := parts.flatten

/-- `str(n)` for a non-negative int: decimal digits, most significant first, "0" for 0 -/
def str (n : Nat) : S := (Nat.toDigits 10 n).map Char.toNat

end Py

/-- result of a folded string operation -/
inductive Res where
  | str (s : S)
  | bv (v : Nat)        -- a BVV of 64 bits
  | bool (b : Bool)
  | err (kind : String) -- Python would raise
  deriving DecidableEq, Repr, Inhabited

namespace Model

/-- `BVV(v, 64).value` for a non-negative Python int -/
def bvv64 (v : Nat) : Nat := v % M64

/-- `BVV(-1, 64).value` -/
def bvvMinusOne : Nat := M64 - 1

def StrConcat (args : List S) : S := Py.join args

def StrSubstr (start count : Nat) (s : S) : S := Py.slice s start (start + count)

def StrReplace (s pat rep : S) : S := Py.replace1 s pat rep

def StrLen (s : S) : Nat := bvv64 s.length

def StrContains (s sub : S) : Bool := Py.isIn sub s

def StrPrefixOf (p s : S) : Bool := Py.startswith s p

def StrSuffixOf (p s : S) : Bool := Py.endswith s p

/-- ```
    s, t, i = ...; if i > len(s): return BVV(-1, 64)
    return BVV(i + s[i:].index(t), 64)     except ValueError: return BVV(-1, 64)
``` -/
def StrIndexOf (s t : S) (i : Nat) : Nat :=
  if i > s.length then bvvMinusOne
  else match Py.index (Py.sliceFrom s i) t with
    | some k => bvv64 (i + k)
    | none => bvvMinusOne

def isAsciiDigit (c : Nat) : Bool := 48 ≤ c && c ≤ 57   -- `c in "0123456789"`

/-- ```
    if not s or any(c not in "0123456789" for c in s): return BVV(-1, 64)
    value = 0
    for c in s: value = (value * 10 + ord(c) - 48) & 0xFFFFFFFFFFFFFFFF
    return BVV(value, 64)
``` -/
def StrToInt (s : S) : Nat :=
  if s.isEmpty || s.any (fun c => !isAsciiDigit c) then bvvMinusOne
  else bvv64 (s.foldl (fun v c => (v * 10 + c - 48) % M64) 0)

def IntToStr (v : Nat) : S := Py.str v

/-- `StringV.__eq__` / `__ne__` (compare `.value`) -/
def eq (a b : S) : Bool := a == b
def ne (a b : S) : Bool := a != b

end Model
end Claripy.Str
