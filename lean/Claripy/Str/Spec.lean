/-!
# SMT-LIB 2.6 string functions (reference meaning for C03)

Strings are lists of code points (`Nat`).  claripy's string interface is BV64: the translation to Z3 reads index
arguments with `bv2nat` (so they are naturals below 2^64) and wraps integer results in `int2bv 64`, so integer
results are given here modulo 2^64 and `-1` is `2^64 - 1`.

The definitions follow the wording of the SMT-LIB "Strings" theory:
* `str.substr w m n`  = the longest prefix of length ≤ n of the suffix of w starting at m, if 0 ≤ m < |w| and 0 < n; ε otherwise
* `str.replace w w1 w2` = w if w1 does not occur in w; otherwise u1 w2 u2 where w = u1 w1 u2 and u1 is the shortest such word
* `str.indexof w w2 i` = the smallest n ≥ i such that w2 occurs in w at n, if 0 ≤ i ≤ |w| and there is one; -1 otherwise
* `str.to_int w` = the number denoted by w in base 10 if w is a non-empty word of digits 0-9; -1 otherwise
* `str.from_int n` = the shortest digit word denoting n, for n ≥ 0
-/
namespace Claripy.Str

abbrev S := List Nat

def M64 : Nat := 2 ^ 64

/-- -1 as a 64-bit vector -/
def minusOne : Nat := M64 - 1

namespace Spec

/-- `findAt t s k`: the smallest position `j ≥ k` (positions counted from `k` for the head of `s`) at which `t`
occurs in `s` — "the shortest u1 such that s = u1 t u2". -/
def findAt (t : S) : S → Nat → Option Nat
  | [], k => if t = [] then some k else none
  | c :: s, k => if t.isPrefixOf (c :: s) then some k else findAt t s (k + 1)

def concat (a b : S) : S := a ++ b

def len (s : S) : Nat := s.length % M64

def substr (s : S) (m n : Nat) : S :=
  if m < s.length ∧ 0 < n then (s.drop m).take (min n (s.length - m)) else []

def replace (s t r : S) : S :=
  match findAt t s 0 with
  | none => s
  | some j => s.take j ++ r ++ s.drop (j + t.length)

def contains (s t : S) : Bool := (findAt t s 0).isSome

def prefixof (p s : S) : Bool := p.isPrefixOf s

def suffixof (p s : S) : Bool := p.isSuffixOf s

def indexof (s t : S) (i : Nat) : Nat :=
  if i ≤ s.length then
    match findAt t (s.drop i) i with
    | some j => j % M64
    | none => minusOne
  else minusOne

def isDigit (c : Nat) : Bool := 48 ≤ c && c ≤ 57

/-- value of a digit word in base 10 (most significant digit first) -/
def decVal (s : S) : Nat := s.foldl (fun a c => a * 10 + (c - 48)) 0

def toInt (s : S) : Nat :=
  if s ≠ [] ∧ s.all isDigit then decVal s % M64 else minusOne

/-- the shortest digit word denoting `n` -/
def fromInt (n : Nat) : S :=
  if _h : n < 10 then [48 + n] else fromInt (n / 10) ++ [48 + n % 10]
termination_by n
decreasing_by omega

def eq (a b : S) : Bool := decide (a = b)

end Spec
end Claripy.Str
