import Claripy.Str.Spec
/-!
# String literal codec between claripy, z3py and Z3

* `z3pyEncode`   — z3py `StringVal`: characters outside 32..126 become `\u{%x}`; the result is the C string handed to `Z3_mk_string`
* `z3Parse`      — Z3's reading of that C string (`zstring::zstring(char const*)` / `is_escape_char`): `\u{d1..d5}` and
                   `\ud1d2d3d4` (hex digits, value ≤ 0x2FFFF) denote one character, everything else is literal
* `z3Print`      — `Z3_get_lstring`, bytes read as latin-1 (z3py `as_string`): NUL, code points > 255 and a backslash that is
                   followed by `u` are printed as `\u{h..h}` (lower-case hex, no leading zeros)
* `claripyEncode` — `backend_z3.string_to_z3_literal` (refuses code points > 0x2FFFF, escapes every backslash as `\u{5c}`)
* `claripyDecode` — `backend_z3.z3_string_to_python`

The Z3 functions are transcriptions of Z3 4.13 behaviour, validated against the real library by the correspondence
check on every run (they are not derived from Z3's source by a translator).
-/
namespace Claripy.Str
namespace Codec

def bslash : Nat := 92
def chU : Nat := 117
def lbrace : Nat := 123
def rbrace : Nat := 125
def z3MaxChar : Nat := 0x2FFFF
def pyMaxChar : Nat := 0x10FFFF

/-- value of a hex digit character, `none` if it is not one -/
def hexVal (c : Nat) : Option Nat :=
  if 48 ≤ c ∧ c ≤ 57 then some (c - 48)
  else if 97 ≤ c ∧ c ≤ 102 then some (c - 87)
  else if 65 ≤ c ∧ c ≤ 70 then some (c - 55)
  else none

def isHex (c : Nat) : Bool := (hexVal c).isSome

/-- lower-case hex digit character of `d < 16` -/
def hexChar (d : Nat) : Nat := if d < 10 then 48 + d else 87 + d

/-- `"%x" % n` -/
def toHex (n : Nat) : S :=
  if _h : n < 16 then [hexChar n] else toHex (n / 16) ++ [hexChar (n % 16)]
termination_by n
decreasing_by omega

/-- `\u{` ++ hex ++ `}` -/
def braceEscape (c : Nat) : S := [bslash, chU, lbrace] ++ toHex c ++ [rbrace]

-- ---------------------------------------------------------------------------------------------- z3py
def z3pyEncodeChar (c : Nat) : S := if 32 ≤ c ∧ c < 127 then [c] else braceEscape c

def z3pyEncode (s : S) : S := s.flatMap z3pyEncodeChar

-- ---------------------------------------------------------------------------------------------- claripy, way in
def claripyEncodeChar (c : Nat) : S := if c = bslash then braceEscape bslash else [c]

/-- `string_to_z3_literal`: `none` = raises BackendError -/
def claripyEncode (s : S) : Option S :=
  if s.any (fun c => decide (c > z3MaxChar)) then none else some (s.flatMap claripyEncodeChar)

-- ---------------------------------------------------------------------------------------------- Z3 parse
/-- the loop `for i in 0..5` of `is_escape_char` after `\u{`: `fuel` iterations left, `acc` the value so far.
Returns the character and the rest of the input after `}`. -/
def braceLoop : Nat → Nat → S → Option (Nat × S)
  | 0, _, _ => none
  | fuel + 1, acc, c :: rest =>
    match hexVal c with
    | some d => braceLoop fuel (16 * acc + d) rest
    | none => if c = rbrace then (if acc ≤ z3MaxChar then some (acc, rest) else none) else none
  | _ + 1, _, [] => none

/-- input after a leading `\u`, if it starts with one -/
def afterBU : S → Option S
  | a :: b :: tl => if a = bslash ∧ b = chU then some tl else none
  | _ => none

/-- the `\ud1d2d3d4` form: exactly four hex digits -/
def fourHex : S → Option (Nat × S)
  | a :: b :: c :: d :: rest =>
    match hexVal a, hexVal b, hexVal c, hexVal d with
    | some a, some b, some c, some d =>
      let v := ((a * 16 + b) * 16 + c) * 16 + d
      if v ≤ z3MaxChar then some (v, rest) else none
    | _, _, _, _ => none
  | _ => none

/-- `is_escape_char`: recognise one escape sequence at the head of the input.
`\u{` followed by anything but `}` commits to the brace form (and fails if it is malformed); otherwise the
four-digit form is tried. -/
def escapeAt (s : S) : Option (Nat × S) :=
  match afterBU s with
  | none => none
  | some tl =>
    match tl with
    | c :: rest =>
      if c = lbrace then
        match rest with
        | d :: _ => if d = rbrace then none else braceLoop 6 0 rest
        | [] => none
      else fourHex tl
    | [] => none

def z3ParseFuel : Nat → S → S
  | 0, _ => []
  | _ + 1, [] => []
  | fuel + 1, c :: rest =>
    match escapeAt (c :: rest) with
    | some (v, rest') => v :: z3ParseFuel fuel rest'
    | none => c :: z3ParseFuel fuel rest

def z3Parse (s : S) : S := z3ParseFuel s.length s

-- ---------------------------------------------------------------------------------------------- Z3 print
def z3Print : S → S
  | [] => []
  | c :: rest =>
    (if c = 0 ∨ c ≥ 256 ∨ (c = bslash ∧ rest.head? = some chU) then braceEscape c else [c]) ++ z3Print rest

-- ---------------------------------------------------------------------------------------------- claripy, way out
/-- the inner `while j < n and s[j] in HEX: j += 1`: splits off the maximal run of hex digits -/
def spanHex : S → S × S
  | [] => ([], [])
  | c :: rest => if isHex c then let (a, b) := spanHex rest; (c :: a, b) else ([], c :: rest)

/-- `int(digits, 16)` -/
def parseHex (ds : S) : Nat := ds.foldl (fun a c => 16 * a + (hexVal c).getD 0) 0

/-- input after a leading `\u{`, if it starts with one (`s.startswith("\\u{", i)`) -/
def afterBUBrace (s : S) : Option S :=
  match afterBU s with
  | some (c :: more) => if c = lbrace then some more else none
  | _ => none

/-- `z3_string_to_python` -/
def claripyDecodeFuel : Nat → S → S
  | 0, _ => []
  | _ + 1, [] => []
  | fuel + 1, c :: rest =>
    match afterBUBrace (c :: rest) with
    | some more =>
      let ds := (spanHex more).1
      let after := (spanHex more).2
      match after with
      | d :: after' =>
        if d = rbrace ∧ ds ≠ [] ∧ parseHex ds ≤ pyMaxChar then parseHex ds :: claripyDecodeFuel fuel after'
        else c :: claripyDecodeFuel fuel rest
      | [] => c :: claripyDecodeFuel fuel rest
    | none => c :: claripyDecodeFuel fuel rest

def claripyDecode (s : S) : S := claripyDecodeFuel s.length s

end Codec
end Claripy.Str
