import Claripy.Str.Spec
/-!
# Bit-vector numerals coming out of Z3 (backend_z3.py: `_abstract_bv_val`, `str_to_int_unlimited`, the `Concat` quirk)

Z3 hands a bit-vector numeral either as a `uint64` (when it fits) or as its decimal string.  CPython limits `int(str)` to
4300 digits, so claripy converts long strings in chunks.
-/
namespace Claripy.Str
namespace Numeral

/-- `Z3_get_numeral_uint64`: succeeds iff the value fits -/
def z3Uint64 (v : Nat) : Option Nat := if v < 2 ^ 64 then some v else none

/-- `Z3_get_numeral_string` of a bit-vector numeral: unsigned decimal -/
def z3NumeralString (v : Nat) : S := Spec.fromInt v

/-- the `for i in range(0, len(s), CHUNK)` loop: `v *= 10 ** len(chunk); v += int(chunk, 10)` -/
def chunkLoop (chunk : Nat) : Nat → S → Nat → Nat
  | 0, _, v => v
  | fuel + 1, s, v =>
    if s = [] then v
    else
      let c := s.take chunk
      chunkLoop chunk fuel (s.drop chunk) (v * 10 ^ c.length + Spec.decVal c)

/-- `str_to_int_unlimited(s)` for a non-empty digit string (the sign branch is not used for bit-vector numerals) -/
def strToIntUnlimited (chunk : Nat) (s : S) : Nat := chunkLoop chunk s.length s 0

/-- `_abstract_bv_val` -/
def abstractBvVal (chunk : Nat) (v : Nat) : Nat :=
  match z3Uint64 v with
  | some u => u
  | none => strToIntUnlimited chunk (z3NumeralString v)

/-- one argument of the `Concat` quirk: width, numeral, and whether it was wrapped in `bvneg` -/
structure Part where
  size : Nat
  val : Nat
  neg : Bool
  deriving Repr, DecidableEq

/-- `res <<= arg_size; res |= arg_int` with `arg_int = (1 << arg_size) - arg_int` under `bvneg` -/
def concatQuirk (parts : List Part) : Nat :=
  parts.foldl (fun res p => (res <<< p.size) ||| (if p.neg then 2 ^ p.size - p.val else p.val)) 0

/-- the value the parts denote: big-endian concatenation of the (two's-complement negated where marked) fields -/
def concatVal (parts : List Part) : Nat :=
  parts.foldl (fun res p => res * 2 ^ p.size + (if p.neg then (2 ^ p.size - p.val) % 2 ^ p.size else p.val)) 0

end Numeral
end Claripy.Str
