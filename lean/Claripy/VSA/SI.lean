/-
Model of `claripy/backends/backend_vsa/strided_interval.py` (class `StridedInterval`), part 1:
representation, `normalize`, membership, pole splits, signed/unsigned bounds, queries.

Transcribed from the Python as written (function by function, same case splits).  Python integers that can
be negative are `Int`; everything stored in an interval is a `Nat`.  Where Python raises, the model returns
`Except.error`.  Not modelled (never exercised by the checks): the `reversed` flag, `uninitialized` (a flag
that is only copied around), names (only `eq` consults them; the checks use distinct names).
Core Lean only (this file is linked into the driver executable).
-/
namespace Claripy.VSA

inductive Err where
  | zeroDiv        -- ZeroDivisionError
  | vsaError       -- ClaripyVSAError
  | recursion      -- RecursionError
  | typeError      -- TypeError
  | opError        -- ClaripyOperationError
  | assertion      -- AssertionError
  deriving DecidableEq, Repr, Inhabited

def Err.name : Err → String
  | .zeroDiv => "ZeroDivisionError" | .vsaError => "ClaripyVSAError" | .recursion => "RecursionError"
  | .typeError => "TypeError" | .opError => "ClaripyOperationError" | .assertion => "AssertionError"

abbrev R := Except Err

deriving instance DecidableEq for Except

structure SI where
  bits : Nat
  stride : Nat
  lb : Nat
  ub : Nat
  bottom : Bool := false
  deriving DecidableEq, Repr, Inhabited

/-- `x % 2**bits` for a Python integer `x` (also what `x & (2**bits - 1)` computes). -/
def imod (x : Int) (bits : Nat) : Nat := (x % ((2 ^ bits : Nat) : Int)).toNat

/-- `_modular_add`, `_modular_sub`, `_modular_mul` -/
def modAdd (a b : Int) (bits : Nat) : Nat := imod (a + b) bits
def modSub (a b : Int) (bits : Nat) : Nat := imod (a - b) bits
def modMul (a b : Int) (bits : Nat) : Nat := imod (a * b) bits

/-- `max_int(k) = highbit(k + 1) - 1 = 2**k - 1` -/
def maxInt (k : Nat) : Nat := 2 ^ k - 1

/-- The constructor followed by `normalize` (arguments may be any Python integers; stride is never negative
in the callers). -/
def SI.new (bits : Nat) (stride : Nat) (lb ub : Int) : SI :=
  let lb' := imod lb bits
  let ub' := imod ub bits
  let stride' := if lb' = ub' then 0 else stride
  if lb' = modAdd ub' 1 bits ∧ stride' = 1 then
    { bits := bits, stride := stride', lb := 0, ub := maxInt bits }
  else
    { bits := bits, stride := stride', lb := lb', ub := ub' }

def SI.empty (bits : Nat) : SI := { bits := bits, stride := 1, lb := 0, ub := maxInt bits, bottom := true }

def SI.top (bits : Nat) : SI := SI.new bits 1 0 (maxInt bits)

/-- `normalize()` on an existing object (also what `copy()` amounts to). -/
def SI.renorm (s : SI) : SI := if s.bottom then s else SI.new s.bits s.stride s.lb s.ub

def SI.isInteger (s : SI) : Bool := s.lb == s.ub
def SI.isTop (s : SI) : Bool := s.stride == 1 && s.lb == modAdd s.ub 1 s.bits

/-- distance from the lower to the upper bound walking upwards on the circle -/
def SI.span (s : SI) : Nat := modSub s.ub s.lb s.bits

/-- Membership (the concretisation): `x = lb + k*stride (mod 2^bits)` with `k*stride ≤ span`.
This is what `eval` enumerates (`C22_eval_exact`), stated without the pole split. -/
def SI.mem (s : SI) (x : Nat) : Prop :=
  s.bottom = false ∧ x < 2 ^ s.bits ∧ modSub x s.lb s.bits ≤ s.span ∧
    (if s.stride = 0 then modSub x s.lb s.bits = 0 else modSub x s.lb s.bits % s.stride = 0)

instance (s : SI) (x : Nat) : Decidable (s.mem x) := by unfold SI.mem; infer_instance

/-- well-formedness: what `normalize` establishes -/
def SI.WF (s : SI) : Prop :=
  0 < s.bits ∧ s.lb < 2 ^ s.bits ∧ s.ub < 2 ^ s.bits ∧ (s.stride = 0 ↔ s.lb = s.ub)

instance (s : SI) : Decidable s.WF := by unfold SI.WF; infer_instance

/-- the upper bound is a member -/
def SI.Aligned (s : SI) : Prop := s.stride = 0 ∨ s.span % s.stride = 0

instance (s : SI) : Decidable s.Aligned := by unfold SI.Aligned; infer_instance

/-- `_last_member`: the last member reached when stepping from the lower bound -/
def SI.lastMember (s : SI) : Nat :=
  if s.stride = 0 then s.lb else modAdd s.lb ((modSub s.ub s.lb s.bits / s.stride * s.stride : Nat) : Int) s.bits

/-- `cardinality` (raises ZeroDivisionError on a stride-0 non-singleton) -/
def SI.cardinality (s : SI) : R Nat :=
  if s.bottom then pure 0
  else if s.isInteger then pure 1
  else if s.stride = 0 then throw .zeroDiv
  else pure ((modSub s.ub s.lb s.bits + s.stride) / s.stride)

/-- `_wrapped_cardinality(x, y, bits)` -/
def wrappedCard (x y : Int) (bits : Nat) : Nat :=
  if x = ((y + 1) % ((2 ^ bits : Nat) : Int)) then 2 ^ bits else imod (y - x + 1) bits

/-- `n_values` -/
def SI.nValues (s : SI) : Nat :=
  if s.stride = 0 then 1 else wrappedCard s.lb s.ub s.bits / s.stride + 1

/-- `_is_msb_zero`, `_get_msb`, `_unsigned_to_signed` -/
def isMsbZero (v : Int) (bits : Nat) : Bool := imod v bits / 2 ^ (bits - 1) % 2 == 0
def getMsb (v : Int) (bits : Nat) : Nat := if isMsbZero v bits then 0 else 1
def toSigned (v : Int) (bits : Nat) : Int := if isMsbZero v bits then v else -(((2 ^ bits : Nat) : Int) - v)

/-- `_ssplit`: split at the south pole (between 2^bits - 1 and 0). -/
def SI.ssplit (s : SI) : R (List SI) :=
  if s.ub < s.lb then
    if s.stride = 0 then throw .zeroDiv else
    let spr := maxInt s.bits
    let aUpper : Int := (spr : Int) - (((spr : Int) - s.lb) % (s.stride : Int))
    let a := SI.new s.bits s.stride s.lb aUpper
    if modSub aUpper s.lb s.bits + s.stride > modSub s.ub s.lb s.bits then pure [a]
    else pure [a, SI.new s.bits s.stride (modAdd aUpper s.stride s.bits) s.ub]
  else pure [s.renorm]

/-- `_nsplit`: split at the north pole (between 2^(bits-1) - 1 and 2^(bits-1)). -/
def SI.nsplit (s : SI) : R (List SI) :=
  let npl := maxInt (s.bits - 1)
  let npr := 2 ^ (s.bits - 1)
  let straddling : Bool :=
    if s.ub ≥ npr then (decide (s.lb > s.ub) || decide (s.lb ≤ npl))
    else (decide (s.lb > s.ub) && decide (s.lb ≤ npl))
  if straddling then
    if s.stride = 0 then throw .zeroDiv else
    let aUpper : Int := (npl : Int) - ((((npl : Int) - s.lb) % ((2 ^ s.bits : Nat) : Int)) % (s.stride : Int))
    let a := SI.new s.bits s.stride s.lb aUpper
    if modSub aUpper s.lb s.bits + s.stride > modSub s.ub s.lb s.bits then pure [a]
    else pure [a, SI.new s.bits s.stride (aUpper + s.stride) s.ub]
  else pure [s.renorm]

/-- `_psplit` -/
def SI.psplit (s : SI) : R (List SI) := do
  let ns ← s.nsplit
  let mut out : List SI := []
  for si in ns do
    out := out ++ (← si.ssplit)
  return out

/-- `_unsigned_bounds` -/
def SI.unsignedBounds (s : SI) : R (List (Int × Int)) := do
  let l ← s.ssplit
  return l.map fun p => ((p.lb : Int), (p.ub : Int))

/-- `_signed_bounds` -/
def SI.signedBounds (s : SI) : R (List (Int × Int)) := do
  let l ← s.nsplit
  return l.map fun p => (toSigned p.lb s.bits, toSigned p.ub s.bits)

/-- the `while len(results) < n and lb <= ub` loop of `eval` -/
def evalLoop (stride : Nat) (n : Nat) (ub : Int) : Nat → Int → List Int → List Int
  | 0, _, acc => acc
  | fuel + 1, lb, acc =>
    if acc.length < n ∧ lb ≤ ub then evalLoop stride n ub fuel (lb + stride) (acc ++ [lb]) else acc

/-- `eval(n, signed)` -/
def SI.eval (s : SI) (n : Nat) (signed : Bool) : R (List Int) :=
  if s.bottom then pure []
  else if s.stride = 0 ∧ n > 0 then pure [if signed then toSigned s.lb s.bits else (s.lb : Int)]
  else
    match (if signed then s.signedBounds else s.unsignedBounds) with
    | .error e => .error e
    | .ok bounds => .ok (bounds.foldl (fun results p => evalLoop s.stride n p.2 n p.1 results) [])

/-- `max(signed)` / `min(signed)`; `none` for the empty interval -/
def SI.max (s : SI) (signed : Bool) : R (Option Int) :=
  if s.bottom then pure none else do
    let bounds ← if signed then s.signedBounds else s.unsignedBounds
    match bounds with
    | [] => throw .typeError
    | (_, u) :: rest => return some (rest.foldl (fun m p => if p.2 > m then p.2 else m) u)

def SI.min (s : SI) (signed : Bool) : R (Option Int) :=
  if s.bottom then pure none else do
    let bounds ← if signed then s.signedBounds else s.unsignedBounds
    match bounds with
    | [] => throw .typeError
    | (l, _) :: rest => return some (rest.foldl (fun m p => if p.1 < m then p.1 else m) l)

/-- `_lex_lte`, `_surrounds_member`, `_is_surrounded` -/
def lexLte (x y : Int) (bits : Nat) : Bool := imod x bits ≤ imod y bits
def lexLt (x y : Int) (bits : Nat) : Bool := imod x bits < imod y bits

def SI.surroundsMember (s : SI) (v : Int) : Bool :=
  lexLte (v - s.lb) ((s.ub : Int) - s.lb) s.bits

def SI.isSurrounded (a b : SI) : Bool :=
  if a.bottom then true
  else if a.isTop && b.isTop then true
  else if a.isTop then false
  else if b.isTop then true
  else b.surroundsMember a.lb && b.surroundsMember a.ub &&
    ((b.lb == a.lb && b.ub == a.ub) || !a.surroundsMember b.lb || !a.surroundsMember b.ub)

end Claripy.VSA
