import Claripy.VSA.Backend
/-! Concrete meaning of the ASTs of `Backend.lean` (specification side of C24): widths, typing, evaluation under an
assignment of the variables.  `none` = a division or remainder by zero occurs (exempt by the property). -/
namespace Claripy.VSA

def concBin (op : BinOp) (w x y : Nat) : Option Nat :=
  match op with
  | .add => some (Conc.add w x y)
  | .sub => some (Conc.sub w x y)
  | .mul => some (Conc.mul w x y)
  | .udiv => if y = 0 then none else some (Conc.udiv w x y)
  | .urem => if y = 0 then none else some (Conc.urem w x y)
  | .and => some (Conc.and w x y)
  | .or => some (Conc.or w x y)
  | .xor => some (Conc.xor w x y)
  | .shl => some (Conc.shl w x y)
  | .lshr => some (Conc.lshr w x y)
  | .ashr => some (Conc.ashr w x y)

def concCmp (op : CmpOp) (w x y : Nat) : Bool :=
  match op with
  | .ult => decide (x < y) | .ule => decide (x ≤ y) | .ugt => decide (x > y) | .uge => decide (x ≥ y)
  | .slt => decide (Conc.toInt w x < Conc.toInt w y) | .sle => decide (Conc.toInt w x ≤ Conc.toInt w y)
  | .sgt => decide (Conc.toInt w x > Conc.toInt w y) | .sge => decide (Conc.toInt w x ≥ Conc.toInt w y)
  | .eq => decide (x = y) | .ne => decide (x ≠ y)

def wd : BV → Nat
  | .var _ w => w
  | .free _ w => w
  | .const _ w => w
  | .bin _ a _ => wd a
  | .neg a => wd a
  | .not a => wd a
  | .zext k a => k + wd a
  | .sext k a => k + wd a
  | .extract hi lo _ => hi + 1 - lo
  | .concat a b => wd a + wd b
  | .ite _ a _ => wd a

mutual
def evalBV (env : Nat → Nat) : BV → Option Nat
  | .var i _ => some (env i)
  | .free i _ => some (env i)
  | .const v _ => some v
  | .bin op a b => evalBV env a >>= fun x => evalBV env b >>= fun y => concBin op (wd a) x y
  | .neg a => evalBV env a >>= fun x => some (Conc.neg (wd a) x)
  | .not a => evalBV env a >>= fun x => some (Conc.not (wd a) x)
  | .zext _ a => evalBV env a
  | .sext k a => evalBV env a >>= fun x => some (Conc.sext (wd a) (k + wd a) x)
  | .extract hi lo a => evalBV env a >>= fun x => some (Conc.extract hi lo x)
  | .concat a b => evalBV env a >>= fun x => evalBV env b >>= fun y => some (Conc.concat (wd b) x y)
  | .ite c a b => evalB env c >>= fun cv => if cv then evalBV env a else evalBV env b
def evalB (env : Nat → Nat) : BExp → Option Bool
  | .lit b => some b
  | .cmp op a b => evalBV env a >>= fun x => evalBV env b >>= fun y => some (concCmp op (wd a) x y)
  | .not c => evalB env c >>= fun b => some (!b)
  | .and c d => evalB env c >>= fun b => evalB env d >>= fun b' => some (b && b')
  | .or c d => evalB env c >>= fun b => evalB env d >>= fun b' => some (b || b')
  | .ite c a b => evalB env c >>= fun cv => if cv then evalB env a else evalB env b
end

mutual
/-- well-typed ASTs (operand widths agree, extraction inside the operand, leaves agree with their annotation) -/
def WTBV (anno : Nat → SI) (env : Nat → Nat) : BV → Prop
  | .var i w => (anno i).bits = w
  | .free i w => 0 < w ∧ env i < 2 ^ w
  | .const v w => 0 < w ∧ v < 2 ^ w
  | .bin _ a b => WTBV anno env a ∧ WTBV anno env b ∧ wd a = wd b
  | .neg a => WTBV anno env a
  | .not a => WTBV anno env a
  | .zext _ a => WTBV anno env a
  | .sext _ a => WTBV anno env a
  | .extract hi lo a => WTBV anno env a ∧ lo ≤ hi ∧ hi < wd a
  | .concat a b => WTBV anno env a ∧ WTBV anno env b
  | .ite c a b => WTB anno env c ∧ WTBV anno env a ∧ WTBV anno env b ∧ wd a = wd b
def WTB (anno : Nat → SI) (env : Nat → Nat) : BExp → Prop
  | .lit _ => True
  | .cmp _ a b => WTBV anno env a ∧ WTBV anno env b ∧ wd a = wd b
  | .not c => WTB anno env c
  | .and c d => WTB anno env c ∧ WTB anno env d
  | .or c d => WTB anno env c ∧ WTB anno env d
  | .ite c a b => WTB anno env c ∧ WTB anno env a ∧ WTB anno env b
end

/-- does the abstract truth value admit the concrete one? -/
def BoolRes.has (r : BoolRes) (b : Bool) : Bool := if b then r.hasTrue else r.hasFalse

end Claripy.VSA
