import Claripy.VSA.Meet
/-! `add`, `sub`, `neg`, `bitwise_not`, the eight orderings, Warren's `min_or`/`max_or`, `bitwise_or/and/xor`. -/
namespace Claripy.VSA

/-- `_wrapped_overflow_add` (also used for `sub`) -/
def wrappedOverflowAdd (a b : SI) : Bool :=
  let ca := if a.isInteger && a.lb == 0 then 0 else wrappedCard a.lb a.ub a.bits
  let cb := if b.isInteger && b.lb == 0 then 0 else wrappedCard b.lb b.ub b.bits
  ca + cb > maxInt a.bits + 1

/-- `add` (operands of equal width) -/
def SI.add (a b : SI) : SI :=
  let nb := Nat.max a.bits b.bits
  if wrappedOverflowAdd a b then SI.top a.bits
  else SI.new nb (Nat.gcd a.stride b.stride) (modAdd a.lb b.lb nb) (modAdd a.ub b.ub nb)

/-- `sub` -/
def SI.sub (a b : SI) : SI :=
  let nb := Nat.max a.bits b.bits
  if wrappedOverflowAdd a b then SI.top a.bits
  else SI.new nb (Nat.gcd a.stride b.stride) (modSub a.lb b.lastMember nb) (modSub a.ub b.lb nb)

/-- `neg` = `0 - self` (also `__neg__` since the repair) -/
def SI.neg (a : SI) : SI := (SI.new a.bits 0 0 0).sub a

/-- `bitwise_not` -/
def SI.bitwiseNot (a : SI) : R SI := do
  let pieces ← a.ssplit
  let rs := pieces.map fun p => SI.new a.bits a.stride (-(p.lastMember : Int) - 1) (-(p.lb : Int) - 1)
  return (← leastUpperBound rs).renorm

/-- combine the per-piece verdicts: all True → True, all False → False, otherwise Maybe -/
def combine (l : List BoolRes) : BoolRes :=
  if l.all (· == .t) then .t else if l.all (· == .f) then .f else .m

def cmpWith (b1 b2 : List (Int × Int)) (isT isF : Int → Int → Int → Int → Bool) : BoolRes :=
  combine ((b1.map fun p => b2.map fun q =>
    if isT p.1 p.2 q.1 q.2 then BoolRes.t else if isF p.1 p.2 q.1 q.2 then BoolRes.f else BoolRes.m).flatten)

def ltT (_l1 u1 l2 _u2 : Int) : Bool := u1 < l2
def ltF (l1 _u1 _l2 u2 : Int) : Bool := l1 ≥ u2
def leT (_l1 u1 l2 _u2 : Int) : Bool := u1 ≤ l2
def leF (l1 _u1 _l2 u2 : Int) : Bool := l1 > u2
def gtT (l1 _u1 _l2 u2 : Int) : Bool := l1 > u2
def gtF (_l1 u1 l2 _u2 : Int) : Bool := u1 ≤ l2
def geT (l1 _u1 _l2 u2 : Int) : Bool := l1 ≥ u2
def geF (_l1 u1 l2 _u2 : Int) : Bool := u1 < l2

def SI.ULT (a b : SI) : R BoolRes := do return cmpWith (← a.unsignedBounds) (← b.unsignedBounds) ltT ltF
def SI.ULE (a b : SI) : R BoolRes := do return cmpWith (← a.unsignedBounds) (← b.unsignedBounds) leT leF
def SI.UGT (a b : SI) : R BoolRes := do return cmpWith (← a.unsignedBounds) (← b.unsignedBounds) gtT gtF
def SI.UGE (a b : SI) : R BoolRes := do return cmpWith (← a.unsignedBounds) (← b.unsignedBounds) geT geF
def SI.SLT (a b : SI) : R BoolRes := do return cmpWith (← a.signedBounds) (← b.signedBounds) ltT ltF
def SI.SLE (a b : SI) : R BoolRes := do return cmpWith (← a.signedBounds) (← b.signedBounds) leT leF
def SI.SGT (a b : SI) : R BoolRes := do return cmpWith (← a.signedBounds) (← b.signedBounds) gtT gtF
def SI.SGE (a b : SI) : R BoolRes := do return cmpWith (← a.signedBounds) (← b.signedBounds) geT geF

/-! ### bitwise -/

/-- `_ntz(x)`: number of trailing zeros (0 for x = 0) -/
def ntzLoop : Nat → Nat → Nat → Nat
  | 0, _, acc => acc
  | fuel + 1, x, acc => if x % 2 = 1 then acc else ntzLoop fuel (x / 2) (acc + 1)

def ntz (x : Nat) : Nat := if x = 0 then 0 else ntzLoop x x 0

/-- `(v | m) & -m` for `m = 2^k`: set bit k, clear the bits below -/
def setAndClearBelow (v k : Nat) : Nat := ((v ||| 2 ^ k) >>> k) <<< k

/-- Warren's `min_or(a, b, c, d, w)`; `k` counts the bit positions still to visit (`m = 2^(k-1)`). -/
def minOrLoop : Nat → Nat → Nat → Nat → Nat → Nat
  | 0, a, _, c, _ => a ||| c
  | k + 1, a, b, c, d =>
    if !a.testBit k && c.testBit k then
      let temp := setAndClearBelow a k
      if temp ≤ b then temp ||| c else minOrLoop k a b c d
    else if a.testBit k && !c.testBit k then
      let temp := setAndClearBelow c k
      if temp ≤ d then a ||| temp else minOrLoop k a b c d
    else minOrLoop k a b c d

def minOr (a b c d w : Nat) : Nat := minOrLoop w a b c d

/-- Warren's `max_or(a, b, c, d, w)` -/
def maxOrLoop : Nat → Nat → Nat → Nat → Nat → Nat
  | 0, _, b, _, d => b ||| d
  | k + 1, a, b, c, d =>
    if b.testBit k && d.testBit k then
      let temp := (b - 2 ^ k) ||| (2 ^ k - 1)
      if temp ≥ a then temp ||| d
      else
        let temp := (d - 2 ^ k) ||| (2 ^ k - 1)
        if temp ≥ c then b ||| temp else maxOrLoop k a b c d
    else maxOrLoop k a b c d

def maxOr (a b c d w : Nat) : Nat := maxOrLoop w a b c d

/-- `x & (~mask & m)` for `mask = 2^st - 1`, `m = 2^w - 1`: clear the low `st` bits (inside `w` bits) -/
def clearLow (x st w : Nat) : Nat := (x % 2 ^ w) >>> st <<< st

/-- one `(u, v)` iteration of `bitwise_or` -/
def orPiece (u v : SI) : SI :=
  let w := u.bits
  let st :=
    if u.isInteger then ntz v.stride
    else if v.isInteger then ntz u.stride
    else Nat.min (ntz u.stride) (ntz v.stride)
  let ns0 :=
    if u.isInteger && u.lb == 0 then v.stride
    else if v.isInteger && v.lb == 0 then u.stride
    else 2 ^ st
  let r := (u.lb % 2 ^ st) ||| (v.lb % 2 ^ st)
  let lo := minOr (clearLow u.lb st w) (clearLow u.ub st w) (clearLow v.lb st w) (clearLow v.ub st w) w
  let hi := maxOr (clearLow u.lb st w) (clearLow u.ub st w) (clearLow v.lb st w) (clearLow v.ub st w) w
  let ns := if lo = hi then 0 else ns0
  SI.new w ns ((clearLow lo st w ||| r : Nat) : Int) ((clearLow hi st w ||| r : Nat) : Int)

/-- `bitwise_or` -/
def SI.bitwiseOr (s t : SI) : R SI := do
  let us ← s.ssplit
  let vs ← t.ssplit
  let rs := (us.map fun u => vs.map fun v => orPiece u v).flatten
  return (← leastUpperBound rs).renorm

def numberOfOnes (n : Nat) : Nat := (List.range (n.log2 + 1)).foldl (fun c i => if n.testBit i then c + 1 else c) 0

/-- `bitwise_and` (sign-bit shortcut as repaired, then De Morgan through `or`) -/
def SI.bitwiseAnd (s t : SI) : R SI := do
  let try1 (a b : SI) : R (Option SI) :=
    if a.isInteger && numberOfOnes a.lb == 1 && a.lb == 2 ^ (t.bits - 1) then do
      let stride : Nat := 2 ^ (a.bits - 1)
      let ps ← b.psplit
      let signs := ps.map fun p => getMsb p.lb p.bits
      if signs.all (· == 1) then return some (SI.new b.bits 0 stride stride)
      else if signs.all (· == 0) then return some (SI.new b.bits 0 0 0)
      else return some (SI.new b.bits stride 0 stride)
    else return none
  match ← try1 s t with
  | some r => return r
  | none =>
    match ← try1 t s with
    | some r => return r
    | none =>
      let ns ← s.bitwiseNot
      let nt ← t.bitwiseNot
      let o ← ns.bitwiseOr nt
      return (← o.bitwiseNot).renorm

/-- `bitwise_xor` -/
def SI.bitwiseXor (s t : SI) : R SI := do
  let ns ← s.bitwiseNot
  let nt ← t.bitwiseNot
  let l ← (← ns.bitwiseOr t).bitwiseNot
  let r ← (← s.bitwiseOr nt).bitwiseNot
  return (← l.bitwiseOr r).renorm

end Claripy.VSA
