import Claripy.VSA.SI
/-! Concrete (SMT-LIB) meaning of the operations on `w`-bit values represented as naturals below `2^w`.
This is the specification side of C21; `sdiv`/`ashr` go through core `BitVec`. -/
namespace Claripy.VSA.Conc

def add (w x y : Nat) : Nat := (x + y) % 2 ^ w
def sub (w x y : Nat) : Nat := (x + (2 ^ w - y % 2 ^ w)) % 2 ^ w
def neg (w x : Nat) : Nat := (2 ^ w - x % 2 ^ w) % 2 ^ w
def not (w x : Nat) : Nat := 2 ^ w - 1 - x % 2 ^ w
def mul (w x y : Nat) : Nat := (x * y) % 2 ^ w
def udiv (_w x y : Nat) : Nat := x / y
def urem (_w x y : Nat) : Nat := x % y
def sdiv (w x y : Nat) : Nat := ((BitVec.ofNat w x).sdiv (BitVec.ofNat w y)).toNat
def and (_w x y : Nat) : Nat := x &&& y
def or (_w x y : Nat) : Nat := x ||| y
def xor (_w x y : Nat) : Nat := x ^^^ y
def shl (w x y : Nat) : Nat := if y < w then (x <<< y) % 2 ^ w else 0
def lshr (w x y : Nat) : Nat := if y < w then x >>> y else 0
def ashr (w x y : Nat) : Nat := ((BitVec.ofNat w x).sshiftRight y).toNat
def toInt (w x : Nat) : Int := if x < 2 ^ (w - 1) then (x : Int) else (x : Int) - ((2 ^ w : Nat) : Int)
def zext (_w _nl x : Nat) : Nat := x
def sext (w nl x : Nat) : Nat := ((BitVec.ofNat w x).signExtend nl).toNat
def extract (hi lo x : Nat) : Nat := (x >>> lo) % 2 ^ (hi + 1 - lo)
def concat (wb x y : Nat) : Nat := x <<< wb ||| y

end Claripy.VSA.Conc
