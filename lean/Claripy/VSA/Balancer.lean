import Claripy.VSA.SI
/-! The bound pair the balancer ends up with for a single comparison of `x + c` / `x - c` with a constant
(`_balance_add/_balance_sub` + `_get_assumptions` + `_handle_comparison`), as a wrapped interval `(lo, hi)` for `x`. -/
namespace Claripy.VSA

inductive UCmp where
  | ule | ult | uge | ugt
  deriving DecidableEq, Repr

/-- bounds for `x` from `(x + c) mod 2^w  OP  d`; `none` = no value satisfies it -/
def balAddPair (w : Nat) (op : UCmp) (c d : Nat) : Option (Nat × Nat) :=
  let m := 2 ^ w
  match op with
  | .ule => some ((m - c) % m, (d + m - c) % m)
  | .ult => if d = 0 then none else some ((m - c) % m, (d - 1 + m - c) % m)
  | .uge => some ((d + m - c) % m, (m - 1 + m - c) % m)
  | .ugt => if d = m - 1 then none else some ((d + 1 + m - c) % m, (m - 1 + m - c) % m)

end Claripy.VSA
