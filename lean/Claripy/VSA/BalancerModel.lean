import Claripy.VSA.BackendSpec
/-!
Model of `claripy/backends/backend_vsa/balancer.py` (class `Balancer`, reached through `BackendVSA.constraint_to_si`)
on the ASTs of `Backend.lean`, transcribed from the Python as written (same case splits, same failure branches).

FRAGMENT (inputs outside it answer `unmodelled <why>`; the check counts them):
* the constraint, after `excavate_ite`, is ONE comparison of two bit-vector terms (`And`/`Or`/`Not`/`If` at the top never
  yield a bound: `_unpack_truisms` returns the empty set for every leaf, so only the `is_false` test applies to them);
* after `_adjust_truism` the other side is a literal (`BVV`).  It then stays a literal through every arm, because
  `Base.__new__` evaluates every node without a symbolic leaf (`foldBV`); a symbolic other side of cardinality <= 1
  (a variable annotated with a singleton) is outside the fragment;
* binary `__add__`, `__sub__`, `__and__`, `Concat` nodes where an arm looks at them (n-ary nodes are rejected by the
  serialiser of the check); no `Reverse` (not in the AST type), no `If` inside a comparison (`excavate_ite` removes it, so
  `_balance_if` / `_handle_if` are unreachable from `constraint_to_si`); no `/u` (its set order is not recorded here);
* no empty abstract value on the way (cardinality 0).

What IS modelled: `_doit` (work list: the truism, then its implicit assumption; `is_false` → unsat; `processed` /
`identified_assumptions`), `_handleable_truism`, `_adjust_truism` / `_reverse_comparison` (table `opposites`),
`_get_assumptions`, `_balance` (loop), `_align_truism` / `_align_ast` / `_align_bv` / `_align_sub` with the check that the
abstract truth value did not change, the arms `_balance_add`, `_balance_sub`, `_balance_zeroext`, `_balance_signext`,
`_balance_extract`, `_balance_and`, `_balance_concat`, `_balance_lshift`, then `_handle`, `_handle_eq`, `_handle_ne`,
`_handle_comparison`, `_add_lower_bound` / `_add_upper_bound`, `_replacements_iter`.

Constructors.  The balancer builds its intermediate ASTs partly raw (`BV(op, args)`, `Bool(op, args)`) and partly through
the simplifying constructors.  Modelled: the evaluation of nodes without symbolic leaves (`foldBV`, in `Base.__new__`,
applies to raw nodes too), `ge_simplifier` (`mkUGE`: used by `_get_assumptions` and `_reverse_comparison`),
`Concat` of one operand, `ZeroExt(0, ·)`.  The `Extract` / `==` / `!=` simplifiers only change the *syntax* of the guards
`is_true(inner[h:l] == 0)`; the model evaluates the raw guard.  The check runs the real balancer twice, with and without
these three simplifiers, and only compares inputs on which both runs agree (the others are counted).
Core Lean only.
-/
namespace Claripy.VSA.Bal
open Claripy.VSA

-- (decidable equality of `BV` / `BExp` is derived with the types, in `Backend.lean`)

/-- why the model stops: a Python exception that leaves `constraint_to_si`, or an input outside the fragment -/
inductive Stop where
  | raise (e : Err)
  | unmodelled (why : String)
  deriving DecidableEq, Repr

abbrev M := Except Stop

def liftR {α : Type} (x : R α) : M α :=
  match x with
  | .ok a => .ok a
  | .error e => .error (.raise e)

mutual
/-- `ast.symbolic`: does the AST have a variable leaf? -/
def symBV : BV → Bool
  | .var _ _ => true
  | .free _ _ => true
  | .const _ _ => false
  | .bin _ a b => symBV a || symBV b
  | .neg a => symBV a
  | .not a => symBV a
  | .zext _ a => symBV a
  | .sext _ a => symBV a
  | .extract _ _ a => symBV a
  | .concat a b => symBV a || symBV b
  | .ite c a b => symB c || symBV a || symBV b
def symB : BExp → Bool
  | .lit _ => false
  | .cmp _ a b => symBV a || symBV b
  | .not c => symB c
  | .and c d => symB c || symB d
  | .or c d => symB c || symB d
  | .ite c a b => symB c || symB a || symB b
end

/-- the value of an AST without symbolic leaves (`backends.concrete`) -/
def asConst (e : BV) : Option Nat := if symBV e then none else evalBV (fun _ => 0) e

/-- `Base.__new__`: a node without symbolic leaves is evaluated by the concrete backend at construction -/
def foldBV (e : BV) : BV :=
  match asConst e with
  | some v => .const v (wd e)
  | none => e

def sizeBV : BV → Nat
  | .var _ _ => 1
  | .free _ _ => 1
  | .const _ _ => 1
  | .bin _ a b => sizeBV a + sizeBV b + 1
  | .neg a => sizeBV a + 1
  | .not a => sizeBV a + 1
  | .zext _ a => sizeBV a + 1
  | .sext _ a => sizeBV a + 1
  | .extract _ _ a => sizeBV a + 1
  | .concat a b => sizeBV a + sizeBV b + 1
  | .ite _ a b => sizeBV a + sizeBV b + 1

/-- a truism whose other side is a literal: `lhs op BVV(r, w)` -/
structure Tru where
  op : CmpOp
  lhs : BV
  r : Nat
  w : Nat
  deriving DecidableEq, Repr

def Tru.toB (t : Tru) : BExp := .cmp t.op t.lhs (.const t.r t.w)

/-- an entry of the work list: a comparison, or a `BoolV` the constructors folded / simplified it to -/
inductive Tr where
  | tru (t : Tru)
  | lit (b : Bool)
  deriving DecidableEq, Repr

def Tr.toB : Tr → BExp
  | .tru t => t.toB
  | .lit b => .lit b

/-- `operations.opposites` on the comparison operators -/
def opposite : CmpOp → CmpOp
  | .ult => .ugt | .ugt => .ult | .ule => .uge | .uge => .ule
  | .slt => .sgt | .sgt => .slt | .sle => .sge | .sge => .sle
  | .eq => .eq | .ne => .ne

def isSigned : CmpOp → Bool
  | .slt | .sle | .sgt | .sge => true
  | _ => false

/-! ### abstract queries -/

/-- `ast.cardinality` (`backends.any_backend`): 1 from the concrete backend for a node without symbolic leaves, else the
cardinality of the interval the VSA backend converts it to -/
def card (anno : Nat → SI) (e : BV) : M Nat :=
  if symBV e then liftR (convBV anno e [] >>= fun p => p.1.si.cardinality) else pure 1

/-- abstract truth value of a comparison (`backends.vsa.convert`) -/
def truth (anno : Nat → SI) (c : BExp) : M BoolRes := liftR (convB anno c [] >>= fun p => pure p.1)

/-- `backends.vsa.is_true(e == 0)` -/
def isZero (anno : Nat → SI) (e : BV) : M Bool :=
  truth anno (.cmp .eq e (.const 0 (wd e))) >>= fun b => pure (decide (b = .t))

/-- `StridedInterval.identical` -/
def siIdentical (a b : SI) : Bool :=
  decide (a.bits = b.bits) && decide (a.stride = b.stride) && decide (a.lb = b.lb) && decide (a.ub = b.ub)

/-- `Balancer._min / _max`: `backends.vsa.simplify` re-abstracts the interval (`_abstract`: TSI / BVV / SI(...), i.e. the
constructor normalises it again), then `StridedInterval.min / max`; `None` (empty interval) makes the caller's
`min(int_max, None, …)` raise TypeError -/
def siMin (s : SI) (signed : Bool) : M Int :=
  liftR (s.renorm.min signed) >>= fun o => match o with | some v => pure v | none => .error (.raise .typeError)
def siMax (s : SI) (signed : Bool) : M Int :=
  liftR (s.renorm.max signed) >>= fun o => match o with | some v => pure v | none => .error (.raise .typeError)

/-! ### constructors -/

/-- raw `Bool(op, (l, BVV(r, w)))`: evaluated when `l` has no symbolic leaf -/
def mkCmpT (op : CmpOp) (l : BV) (r w : Nat) : Tr :=
  match asConst l with
  | some v => .lit (concCmp op w v r)
  | none => .tru ⟨op, l, r, w⟩

/-- `UGE(a, BVV(r, w))` through `ge_simplifier` (`zeroext_comparing_against_simplifier`): a `ZeroExt` / `Concat(0, ·)` on the
left is removed when the high bits of the literal are zero, and the comparison is `false` when they are not -/
def mkUGE : BV → Nat → Nat → Tr
  | .zext k a, r, w =>
    if Conc.extract (w - 1) (w - k) r = 0 then mkUGE a (Conc.extract (w - k - 1) 0 r) (w - k) else .lit false
  | .concat (.const 0 k) a, r, w =>
    if Conc.extract (w - 1) (w - k) r = 0 then mkUGE a (Conc.extract (w - k - 1) 0 r) (w - k) else .lit false
  | e, r, w => mkCmpT .uge e r w

/-- the comparison constructors `BV.ULT … BV.__ne__` applied to `(l, BVV(r, w))`: only `UGE` has a simplifier that fires on
these shapes (the `==` / `!=` simplifiers are switched off in the reference run, see the file header) -/
def mkCmp (op : CmpOp) (l : BV) (r w : Nat) : Tr :=
  match op with
  | .uge => mkUGE l r w
  | _ => mkCmpT op l r w

/-! ### `_align_truism` -/

/-- `ast.cardinality` where the balancer compares cardinalities; an empty abstract value is outside the fragment -/
def cardNE (anno : Nat → SI) (e : BV) : M Nat :=
  card anno e >>= fun c => if c = 0 then .error (.unmodelled "empty-abstract-value") else pure c

def isCommutative : BinOp → Bool
  | .add | .mul | .and | .or | .xor => true
  | _ => false

/-- `_align_bv` / `_align_sub` on the left-hand side: the operand with the highest cardinality goes first (stable sort);
`c - x` becomes `(-x) + c` -/
def alignBV (anno : Nat → SI) (e : BV) : M BV :=
  match e with
  | .bin .sub a b =>
    cardNE anno a >>= fun ca => cardNE anno b >>= fun cb =>
    if cb ≤ ca then pure e
    else
      let nb := foldBV (.neg b)
      cardNE anno nb >>= fun cnb => cardNE anno a >>= fun ca' =>
      pure (if ca' > cnb then foldBV (.bin .add a nb) else foldBV (.bin .add nb a))
  | .bin op a b =>
    if isCommutative op then
      cardNE anno a >>= fun ca => cardNE anno b >>= fun cb => pure (if cb > ca then foldBV (.bin op b a) else e)
    else pure e
  | _ => pure e

/-- `_align_truism`: the aligned truism is kept only if the abstract truth value (`backends.vsa.simplify` of a Bool:
true / false / maybe) did not change -/
def alignTru (anno : Nat → SI) (t : Tru) : M Tru :=
  cardNE anno t.lhs >>= fun _ =>
  alignBV anno t.lhs >>= fun l' =>
  let t' : Tru := { t with lhs := l' }
  truth anno t'.toB >>= fun b' => truth anno t.toB >>= fun b => pure (if b' = b then t' else t)

/-! ### the arms of `_balance` (each returns the truism itself when it does not apply) -/

def valOf (e : BV) : M Nat :=
  match asConst e with
  | some v => pure v
  | none => .error (.unmodelled "concrete-operand-without-value")

/-- `_balance_add`: the concrete operand moves to the other side (`BV("__sub__", (rhs, c))`, evaluated) -/
def balAdd (t : Tru) (a b : BV) : M Tru :=
  if !symBV a && !symBV b then valOf b >>= fun vb => pure { t with lhs := a, r := Conc.sub t.w t.r vb }
  else if symBV a && symBV b then pure t
  else if symBV a then valOf b >>= fun vb => pure { t with lhs := a, r := Conc.sub t.w t.r vb }
  else valOf a >>= fun va => pure { t with lhs := b, r := Conc.sub t.w t.r va }

/-- `_balance_sub`: only a concrete subtrahend moves -/
def balSub (t : Tru) (a b : BV) : M Tru :=
  if symBV b then pure t else valOf b >>= fun vb => pure { t with lhs := a, r := Conc.add t.w t.r vb }

/-- `_balance_zeroext`: removed when the high bits of the other side are zero -/
def balZext (t : Tru) (k : Nat) (e : BV) : Tru :=
  if Conc.extract (t.w - 1) (t.w - k) t.r = 0 then ⟨t.op, e, Conc.extract (t.w - k - 1) 0 t.r, t.w - k⟩ else t

/-- `_balance_signext`: removed when the abstract value of the extension bits of the left side is identical to the high
bits of the other side -/
def balSext (anno : Nat → SI) (t : Tru) (k : Nat) (e : BV) : M Tru :=
  let left := foldBV (.extract (t.w - 1) (t.w - k) t.lhs)
  liftR (convBV anno left []) >>= fun p =>
  let other := SI.new (t.w - 1 + 1 - (t.w - k)) 0 (Conc.extract (t.w - 1) (t.w - k) t.r) (Conc.extract (t.w - 1) (t.w - k) t.r)
  pure (if siIdentical p.1.si other then ⟨t.op, e, Conc.extract (t.w - k - 1) 0 t.r, t.w - k⟩ else t)

def optZero (anno : Nat → SI) (c : Bool) (e : BV) : M (Option Bool) :=
  if c then isZero anno e >>= fun z => pure (some z) else pure none

/-- `_balance_extract` -/
def balExtract (anno : Nat → SI) (t : Tru) (hi lo : Nat) (e : BV) : M Tru :=
  let isz := wd e
  optZero anno (decide (hi < isz - 1)) (foldBV (.extract (isz - 1) (hi + 1) e)) >>= fun msbZ =>
  optZero anno (decide (lo > 0)) (foldBV (.extract (lo - 1) 0 e)) >>= fun lsbZ =>
  let signed := isSigned t.op
  if msbZ = some true ∧ lsbZ = some true ∧ signed = false then pure ⟨t.op, e, t.r * 2 ^ lo, isz⟩
  else if msbZ = some true ∧ lo = 0 ∧ signed = false then pure ⟨t.op, e, t.r, isz⟩
  else if lsbZ = some true ∧ hi = isz - 1 then pure ⟨t.op, e, t.r * 2 ^ lo, isz⟩
  else if lo = 0 ∧ (t.op = .uge ∨ t.op = .ugt ∨ t.op = .ne) then pure ⟨t.op, e, t.r, isz⟩
  else pure t

/-- the `while v != 0` loop of `_balance_and`: `some n` when `v = 2^n - 1` -/
def lowOnes : Nat → Nat → Nat → Option Nat
  | 0, _, acc => some acc
  | fuel + 1, v, acc => if v = 0 then some acc else if v % 2 = 0 then none else lowOnes fuel (v / 2) (acc + 1)

/-- `_balance_and` -/
def balAnd (t : Tru) (a b : BV) : Tru :=
  match b with
  | .const v _ =>
    match lowOnes (v + 1) v 0 with
    | none => t
    | some n =>
      if n = 0 then ⟨t.op, .const 0 (wd t.lhs), t.r, t.w⟩
      else match a with
        | .zext k _ => if k + n = wd a then { t with lhs := a } else t
        | _ => t
  | _ => t

/-- `_balance_concat` (binary `Concat`) -/
def balConcat (anno : Nat → SI) (t : Tru) (a b : BV) : M Tru :=
  let size := wd t.lhs
  isZero anno a >>= fun z =>
  pure (if z && decide (Conc.extract (size - 1) (size - wd a) t.r = 0)
    then ⟨t.op, b, Conc.extract (size - wd a - 1) 0 t.r, size - wd a⟩ else t)

/-- `_balance_lshift` -/
def balShl (anno : Nat → SI) (t : Tru) (e amt : BV) : M Tru :=
  liftR (convBV anno amt [] >>= fun p => p.1.si.eval 2 false) >>= fun vals =>
  match vals with
  | [v] =>
    let n := v.toNat
    if n = 0 then pure { t with lhs := e }
    else if n ≥ wd e ∨ isSigned t.op = true then pure t
    else
      (if t.op = .uge ∨ t.op = .ugt ∨ t.op = .ne then pure true
       else isZero anno (foldBV (.extract (wd e - 1) (wd e - n) e))) >>= fun ok =>
      if !ok then pure t
      else if Conc.extract (n - 1) 0 t.r = 0 then pure { t with lhs := e, r := Conc.lshr t.w t.r n }
      else pure t
  | _ => pure t

/-- the dispatch of `_balance` on the operation of the aligned left-hand side -/
def balStep (anno : Nat → SI) (t : Tru) : M Tru :=
  match t.lhs with
  | .bin .add a b => balAdd t a b
  | .bin .sub a b => balSub t a b
  | .zext k e => pure (balZext t k e)
  | .sext k e => balSext anno t k e
  | .extract hi lo e => balExtract anno t hi lo e
  | .bin .and a b => pure (balAnd t a b)
  | .concat a b => balConcat anno t a b
  | .bin .shl e amt => balShl anno t e amt
  | _ => pure t

/-- does the arm move a constant across a modular addition? -/
def isModLhs : BV → Bool
  | .bin .add _ _ => true
  | .bin .sub _ _ => true
  | _ => false

/-- the result of `_balance` with what the theorems need to know about the path: was a constant moved across `+` / `-`,
was another arm used -/
structure BalOut where
  t : Tru
  usedMod : Bool
  usedPt : Bool
  deriving DecidableEq, Repr

/-- is there a `_balance_<op>` arm for the outermost operation? (`If` and `Reverse` are outside the fragment) -/
def hasArm : BV → Bool
  | .bin .add _ _ | .bin .sub _ _ | .bin .and _ _ | .bin .shl _ _ => true
  | .zext _ _ | .sext _ _ | .extract _ _ _ | .concat _ _ => true
  | _ => false

/-- `_balance`: align, apply the arm of the outermost operation, stop when nothing changes.  Without an arm the loop
returns the truism as it was BEFORE alignment (`case _: return truism`); an arm that does not apply returns the aligned one. -/
def balLoop (anno : Nat → SI) : Nat → Tru → Bool → Bool → M BalOut
  | 0, _, _, _ => .error (.unmodelled "fuel")
  | n + 1, t, um, up =>
    alignTru anno t >>= fun ta =>
    if !hasArm ta.lhs then pure ⟨t, um, up⟩
    else
      balStep anno ta >>= fun t' =>
      if t' = ta then pure ⟨ta, um, up⟩
      else balLoop anno n t' (um || isModLhs ta.lhs) (up || !isModLhs ta.lhs)

def balance1 (anno : Nat → SI) (t : Tru) : M BalOut := balLoop anno (2 * sizeBV t.lhs + 2) t false false

/-! ### bounds and handlers -/

/-- `_lower_bounds` / `_upper_bounds` / `_ast_hash_map` (keyed by the AST) -/
abbrev Bounds := List (BV × Option Int × Option Int)

def addLower : Bounds → BV → Int → Bounds
  | [], e, b => [(e, some b, none)]
  | (e', lo, hi) :: rest, e, b =>
    if e' = e then (e', some (match lo with | some o => max b o | none => b), hi) :: rest
    else (e', lo, hi) :: addLower rest e b

def addUpper : Bounds → BV → Int → Bounds
  | [], e, b => [(e, none, some b)]
  | (e', lo, hi) :: rest, e, b =>
    if e' = e then (e', lo, some (match hi with | some o => min b o | none => b)) :: rest
    else (e', lo, hi) :: addUpper rest e b

/-- `comparison_info`: (is_lt, is_equal, is_unsigned) -/
def cmpInfo : CmpOp → Bool × Bool × Bool
  | .ult => (true, false, true) | .ule => (true, true, true) | .ugt => (false, false, true) | .uge => (false, true, true)
  | .slt => (true, false, false) | .sle => (true, true, false) | .sgt => (false, false, false) | .sge => (false, true, false)
  | .eq => (false, true, true) | .ne => (false, true, true)      -- not used

/-- `_handle_comparison` -/
def handleCmp (anno : Nat → SI) (t : Tru) (bs : Bounds) : M Bounds :=
  let info := cmpInfo t.op
  let isLt := info.1
  let isEq := info.2.1
  let uns := info.2.2
  let size := wd t.lhs
  let intMax : Int := if uns then (2 : Int) ^ size - 1 else (2 : Int) ^ (size - 1) - 1
  let intMin : Int := -((2 : Int) ^ (size - 1))
  liftR (convBV anno t.lhs []) >>= fun pl =>
  siMin pl.1.si (!uns) >>= fun leftMin => siMax pl.1.si (!uns) >>= fun leftMax =>
  siMin (SI.new t.w 0 t.r t.r) (!uns) >>= fun rightMin => siMax (SI.new t.w 0 t.r t.r) (!uns) >>= fun rightMax =>
  let boundMax := if isEq then rightMax else if isLt then rightMax - 1 else rightMax + 1
  let boundMin := if isEq then rightMin else if isLt then rightMin - 1 else rightMin + 1
  if isLt then pure (addUpper bs t.lhs (min intMax (min leftMax boundMax)))
  else pure (addLower bs t.lhs (max intMin (max leftMin boundMin)))

/-- `_handle` with `_handle_eq` / `_handle_ne` (the other side is a literal) -/
def handle (anno : Nat → SI) (t : Tru) (bs : Bounds) : M Bounds :=
  card anno t.lhs >>= fun c =>
  if c = 1 then pure bs
  else match t.op with
    | .eq => pure (addLower (addUpper bs t.lhs t.r) t.lhs t.r)
    | .ne =>
      if t.r = 0 then pure (addLower bs t.lhs 1)
      else if t.r = 2 ^ t.w - 1 then pure (addUpper bs t.lhs ((2 : Int) ^ t.w - 1 - 1))
      else pure bs
    | _ => handleCmp anno t bs

/-- `_get_assumptions` (the comparison constructors `>=`, `<=`, `SGE`, `SLE` applied to the left side and the extreme) -/
def assumption (t : Tru) : Option Tr :=
  let n := wd t.lhs
  match t.op with
  | .ule | .ult => some (mkCmp .uge t.lhs 0 n)
  | .uge | .ugt => some (mkCmp .ule t.lhs (2 ^ n - 1) n)
  | .sle | .slt => some (mkCmp .sge t.lhs (2 ^ (n - 1)) n)
  | .sge | .sgt => some (mkCmp .sle t.lhs (2 ^ (n - 1) - 1) n)
  | _ => none

/-! ### `_doit` -/

/-- one returned replacement: the expression, the recorded bounds (defaults 0 and 2^w - 1 filled in) and the interval
`convert(expr.intersection(SI(1, mn, mx)))` -/
structure Repl where
  e : BV
  mn : Int
  mx : Int
  si : SI
  deriving Repr

/-- what the theorems need to know about the two balancing paths (the truism and its implicit assumption) -/
structure PathInfo where
  main : Option BalOut := none
  assum : Option BalOut := none
  deriving Repr

inductive Res where
  | unsat
  | sat (bounds : Bounds) (info : PathInfo)
  deriving Repr

/-- balance and handle one truism -/
def processTru (anno : Nat → SI) (t : Tru) (bs : Bounds) : M (Bounds × BalOut) :=
  balance1 anno t >>= fun out => handle anno out.t bs >>= fun bs' => pure (bs', out)

/-- `_adjust_truism` on the constraint itself; the other side must be a literal afterwards -/
def adjust (op : CmpOp) (a b : BV) (ca cb : Nat) : M Tr :=
  if ca = 1 ∧ cb > 1 then
    match a with
    | .const r w => pure (mkCmp (opposite op) b r w)
    | _ => .error (.unmodelled "other-side-not-a-literal")
  else
    match b with
    | .const r w => pure (.tru ⟨op, a, r, w⟩)
    | _ => .error (.unmodelled "other-side-not-a-literal")

/-- `Balancer._doit` on a single comparison -/
def doit (anno : Nat → SI) (c : BExp) : M Res :=
  match c with
  | .cmp op a b =>
    truth anno c >>= fun tv =>
    if tv = .f then pure .unsat
    else
      cardNE anno a >>= fun ca => cardNE anno b >>= fun cb =>
      if ca > 1 ∧ cb > 1 then pure (.sat [] {})
      else
        adjust op a b ca cb >>= fun T =>
        match T with
        | .lit _ => pure (.sat [] {})
        | .tru t =>
          processTru anno t [] >>= fun p1 =>
          match assumption t with
          | none => pure (.sat p1.1 { main := some p1.2 })
          | some A =>
            if A.toB = c then pure (.sat p1.1 { main := some p1.2 })
            else
              truth anno A.toB >>= fun av =>
              if av = .f then pure .unsat
              else match A with
                | .lit _ => pure (.sat p1.1 { main := some p1.2 })
                | .tru ta =>
                  cardNE anno ta.lhs >>= fun _ =>
                  processTru anno ta p1.1 >>= fun p2 => pure (.sat p2.1 { main := some p1.2, assum := some p2.2 })
  | _ => .error (.unmodelled "not-a-single-comparison")

/-- `_replacements_iter` -/
def replacements (anno : Nat → SI) : Bounds → M (List Repl)
  | [] => pure []
  | (e, lo, hi) :: rest =>
    let mn : Int := lo.getD 0
    let mx : Int := hi.getD ((2 : Int) ^ wd e - 1)
    liftR (convBV anno e [] >>= fun p => p.1.si.intersection (SI.new (wd e) 1 mn mx)) >>= fun s =>
    replacements anno rest >>= fun l => pure (⟨e, mn, mx, s⟩ :: l)

/-- `BackendVSA.constraint_to_si`: `none` = reported unsatisfiable -/
def constraintToSI (anno : Nat → SI) (c : BExp) : M (Option (List Repl)) :=
  doit anno c >>= fun r =>
  match r with
  | .unsat => pure none
  | .sat bs _ => replacements anno bs >>= fun l => pure (some l)

end Claripy.VSA.Bal
