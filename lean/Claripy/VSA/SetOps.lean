import Claripy.VSA.DSIS
/-!
Model of `discrete_strided_interval_set.py` / `valueset.py`, part 2: the set-level operations that are not plain
`apply_on_each_si` liftings — comparisons, `widen`, `sdiv`, the reflected operations, `eval`, `union`, `intersection` of two
sets — and the `ValueSet` operations `union` / `intersection` / `widen`.  Transcribed from the Python as written, with
`_allow_dsis_flag = False` (`StridedInterval.union` is the join).  Names are not modelled.

Status of the tie: every function of this file is run by the line-protocol driver (`so …` / `vs …` requests,
`lean/DriverVSA/SetOpsCmd.lean`) and compared exactly with the real method on the same operands on every run of `./check C23`
(`harness/lib/vsa_setops_corr.py`; the iteration orders of the Python sets involved are recorded on the real objects and handed
to the model as the `order` arguments).
-/
namespace Claripy.VSA

/-- `collapse_operand`: a set operand is collapsed, an interval operand is taken as it is -/
def Val.collapse : Val → R SI
  | .si s => pure s
  | .ds d => d.collapse

/-- `__eq__`, `__ne__`, `ULT` … `SGE`: `self.collapse() <cmp> o` after `collapse_operand` -/
def DSIS.cmp (f : SI → SI → R BoolRes) (a : DSIS) (b : Val) : R BoolRes :=
  b.collapse >>= fun cb => a.collapse >>= fun ca => f ca cb

/-- `widen`: `self.collapse().widen(b)` after `collapse_operand` -/
def DSIS.widen (a : DSIS) (b : Val) : R SI :=
  b.collapse >>= fun cb => a.collapse >>= fun ca => ca.widen cb

/-- `sdiv`: `self.collapse().sdiv(o)` after `collapse_operand` -/
def DSIS.sdiv (a : DSIS) (b : Val) (order : List Nat) : R SI :=
  b.collapse >>= fun cb => a.collapse >>= fun ca => ca.sdiv cb order

/-- `__rsub__`: `o - self` is `(-self) + o` (the negation is lifted and normalised first) -/
def DSIS.rsub (a : DSIS) (o : SI) (order1 order2 : List Nat) : R Val :=
  a.lift1 (fun s => pure s.neg) order1 >>= fun n =>
    match n with
    | .si s => pure (.si (s.add o))
    | .ds d => d.lift2 (fun s t => pure (s.add t)) [o] order2

/-- `__rfloordiv__`: `o // self.collapse()`; `__rmod__`: `o % self.collapse()` -/
def DSIS.rudiv (a : DSIS) (o : SI) (order : List Nat) : R SI := a.collapse >>= fun c => o.udiv c order
def DSIS.rmod (a : DSIS) (o : SI) : R SI := a.collapse >>= fun c => o.mod c

/-- `eval(n)`: the values the loop draws from — `si.eval(n)` of every member, in iteration order (the Python code puts
them into a `set` and returns at most `n` of them) -/
def DSIS.evalCandidates (d : DSIS) (n : Nat) : R (List Int) :=
  d.sis.mapM (fun s => s.eval n false) >>= fun ls => pure ls.flatten

/-- the loop of `_union_with_si`: is some member `== si` True? (it stops at the first hit) -/
def unionFind (s : SI) : List SI → R Bool
  | [] => pure false
  | m :: ms => m.eq s >>= fun r => if r = .t then pure true else unionFind s ms

/-- `union` with an interval (`_union_with_si`; an empty interval leaves the set as it is) -/
def DSIS.unionSI (d : DSIS) (s : SI) (order : List Nat) : R Val :=
  if s.bottom then pure (.ds d)
  else unionFind s d.sis >>= fun found =>
    if found then pure (.ds d) else finishSet d.bits (d.sis ++ [s]) order

/-- `union` on whatever `copied` has become inside `_union_with_dsis` (a set, or an interval after a collapse) -/
def Val.unionSI (v : Val) (s : SI) (order : List Nat) : R Val :=
  match v with
  | .ds d => d.unionSI s order
  | .si t => t.union s >>= fun u => pure (.si u)

def unionFold : Val → List SI → List (List Nat) → R Val
  | v, [], _ => pure v
  | v, s :: ss, o :: os => v.unionSI s o >>= fun v' => unionFold v' ss os
  | _, _ :: _, [] => throw .assertion

/-- the final `copied.normalize()` -/
def Val.normalize : Val → R Val
  | .si s => pure (.si s.renorm)
  | .ds d => d.normalize

/-- `union` with a set (`_union_with_dsis`): the members of the other set are added one by one (one recorded set order per
step), then `normalize` -/
def DSIS.unionDS (a b : DSIS) (orders : List (List Nat)) : R Val :=
  unionFold (.ds a) b.sis orders >>= fun v => v.normalize

/-- the loop of `_intersection_with_dsis`: sets contribute their members, non-empty intervals themselves -/
def meetParts (a : DSIS) : List SI → List (List Nat) → List SI → R (List SI)
  | [], _, acc => pure acc
  | s :: ss, o :: os, acc =>
    a.meetSI s o >>= fun r =>
      match r with
      | .ds d => meetParts a ss os (acc ++ d.sis)
      | .si t => meetParts a ss os (if t.bottom then acc else acc ++ [t])
  | _ :: _, [], _ => throw .assertion

/-- `_intersection_with_dsis`: the partial results are merged into one set, then `normalize`; no partial result at all gives
the empty interval -/
def DSIS.meetDS (a b : DSIS) (orders : List (List Nat)) (order : List Nat) : R Val :=
  meetParts a b.sis orders [] >>= fun parts =>
    match parts with
    | [] => pure (.si (SI.empty a.bits))
    | _ => finishSet a.bits parts order

/-- `__floordiv__` on sets: the lifting of `udiv`, whose every per-pair call iterates over its own Python set of partial
results — one recorded order per pair (in the order of the double loop), one for the result set -/
def applyEach2o (op : SI → SI → List Nat → R SI) : List (SI × SI) → List (List Nat) → R (List SI)
  | [], _ => pure []
  | p :: ps, o :: os => op p.1 p.2 o >>= fun r => applyEach2o op ps os >>= fun rs => pure (r :: rs)
  | _ :: _, [] => throw .assertion

def DSIS.udivSet (a : DSIS) (bs : List SI) (orders : List (List Nat)) (order : List Nat) : R Val :=
  applyEach2o SI.udiv (a.sis.flatMap fun s => bs.map fun t => (s, t)) orders >>= fun rs => finishSet a.bits rs order

/-! ### ValueSet -/

/-- `union` / `widen` with an interval operand: every region and the summary interval are combined with it -/
def VS.unionSI (v : VS) (b : SI) : R VS := v.mapRegions (fun s => s.union b)
def VS.widenSI (v : VS) (b : SI) : R VS := v.mapRegions (fun s => s.widen b)

/-- `intersection` with an interval operand: regions whose intersection is empty are deleted -/
def VS.meetSI (v : VS) (b : SI) : R VS :=
  v.regions.mapM (onRegion fun s => s.intersection b) >>= fun regs =>
    v.si.intersection b >>= fun si => pure { v with regions := regs.filter (fun p => !p.2.bottom), si := si }

/-- dict lookup / assignment / deletion (keys are unique in a Python dict, so "the first entry with the key" is the entry;
assignment to a new key appends) -/
def dictGet (l : List (String × SI)) (k : String) : Option SI := (l.find? (fun p => p.1 == k)).map (·.2)
def dictSet : List (String × SI) → String → SI → List (String × SI)
  | [], k, s => [(k, s)]
  | p :: ps, k, s => if p.1 == k then (k, s) :: ps else p :: dictSet ps k s
def dictDel : List (String × SI) → String → List (String × SI)
  | [], _ => []
  | p :: ps, k => if p.1 == k then ps else p :: dictDel ps k

/-- one iteration of the loop of `union` with a value-set operand (the summary interval is updated in every iteration, as
written) -/
def vsCombineStep (op : SI → SI → R SI) (bsi : SI) (acc : VS) (p : String × SI) : R VS :=
  (match dictGet acc.regions p.1 with
    | none => pure (dictSet acc.regions p.1 p.2)
    | some s => op s p.2 >>= fun u => pure (dictSet acc.regions p.1 u)) >>= fun regs =>
  op acc.si bsi >>= fun si => pure { acc with regions := regs, si := si }

def vsFold (f : VS → String × SI → R VS) : VS → List (String × SI) → R VS
  | acc, [] => pure acc
  | acc, p :: ps => f acc p >>= fun acc' => vsFold f acc' ps

/-- `union` with a value set -/
def VS.unionVS (v b : VS) : R VS := vsFold (vsCombineStep SI.union b.si) v b.regions

/-- one iteration of the loop of `widen` with a value-set operand (regions only) -/
def vsWidenStep (acc : VS) (p : String × SI) : R VS :=
  match dictGet acc.regions p.1 with
  | none => pure { acc with regions := dictSet acc.regions p.1 p.2 }
  | some s => s.widen p.2 >>= fun u => pure { acc with regions := dictSet acc.regions p.1 u }

/-- `widen` with a value set: unlike in `union`, the summary interval is widened ONCE, after the loop, as written -/
def VS.widenVS (v b : VS) : R VS :=
  vsFold vsWidenStep v b.regions >>= fun r => r.si.widen b.si >>= fun si => pure { r with si := si }

/-- one iteration of `intersection` with a value set: a region of `b` that `vs` does not hold is skipped, an empty
intersection deletes the region -/
def vsMeetStep (acc : VS) (p : String × SI) : R VS :=
  match dictGet acc.regions p.1 with
  | none => pure acc
  | some s => s.intersection p.2 >>= fun u =>
      pure { acc with regions := if u.bottom then dictDel acc.regions p.1 else dictSet acc.regions p.1 u }

/-- `intersection` with a value set (regions of `self` that the operand does not hold are KEPT, as written) -/
def VS.meetVS (v b : VS) : R VS :=
  vsFold vsMeetStep v b.regions >>= fun r => r.si.intersection b.si >>= fun si => pure { r with si := si }

/-! ### `eval`: the list that is returned -/

/-- a Python `set` of integers keeps the first of each value -/
def dedupeInts (l : List Int) : List Int :=
  l.foldl (fun acc x => if acc.contains x then acc else acc ++ [x]) []

/-- reorder the distinct values as the recorded iteration order of the Python set says (indices into the insertion order) -/
def permuteInts (l : List Int) (order : List Nat) : Option (List Int) :=
  if order.length ≠ l.length ∨ !(List.range l.length).all (fun i => order.contains i) then none
  else some (order.filterMap fun i => l[i]?)

/-- the loop of `eval(n)`: `ret |= set(si.eval(n))` member by member, left as soon as `len(ret) >= n` -/
def evalGather (n : Nat) : List SI → List Int → R (List Int)
  | [], acc => pure acc
  | s :: ss, acc => s.eval n false >>= fun l =>
      if (dedupeInts (acc ++ l)).length ≥ n then pure (dedupeInts (acc ++ l)) else evalGather n ss (dedupeInts (acc ++ l))

/-- `eval(n)` as written: `list(ret)[:n]`; `order` is the recorded iteration order of the Python set `ret` -/
def DSIS.eval (d : DSIS) (n : Nat) (order : List Nat) : R (List Int) :=
  evalGather n d.sis [] >>= fun vals =>
    match permuteInts vals order with
    | none => throw .assertion
    | some l => pure (l.take n)

end Claripy.VSA
