import Claripy.VSA.Shift
/-!
Model of `discrete_strided_interval_set.py` (a set of strided intervals) and `valueset.py` (region ↦ interval).

A Python `set` is a list here: the *members* of a DSIS are given in the set's iteration order (recorded on the
real run), results of the lifted operations are produced in insertion order, de-duplicated like the Python set
does (equal hash = equal element) and — only where the order matters, i.e. when the set is collapsed — reordered by
a recorded permutation.  Theorems quantify over these orders.
-/
namespace Claripy.VSA

structure DSIS where
  bits : Nat
  sis : List SI
  deriving Repr, DecidableEq

/-- what an operation on a DSIS may return -/
inductive Val where
  | si (s : SI)
  | ds (d : DSIS)
  deriving Repr, DecidableEq

def memL (l : List SI) (x : Nat) : Prop := ∃ s, s ∈ l ∧ s.mem x
def DSIS.mem (d : DSIS) (x : Nat) : Prop := memL d.sis x
def Val.mem : Val → Nat → Prop
  | .si s, x => s.mem x
  | .ds d, x => d.mem x

def maxCardinality : Nat := 256

/-- `cardinality` (sum over the members; an over-approximation) -/
def DSIS.cardinality (d : DSIS) : R Nat := do
  let cs ← d.sis.mapM SI.cardinality
  return cs.sum

/-- `min(signed)` / `max(signed)` (as repaired: over the non-empty members; `none` for the empty set) -/
def DSIS.minQ (d : DSIS) (signed : Bool) : R (Option Int) := do
  let vals ← (d.sis.filter fun s => !s.bottom).mapM fun s => s.min signed
  match vals.filterMap id with
  | [] => return none
  | v :: vs => return some (vs.foldl (fun m x => if x < m then x else m) v)

def DSIS.maxQ (d : DSIS) (signed : Bool) : R (Option Int) := do
  let vals ← (d.sis.filter fun s => !s.bottom).mapM fun s => s.max signed
  match vals.filterMap id with
  | [] => return none
  | v :: vs => return some (vs.foldl (fun m x => if x > m then x else m) v)

/-- `collapse()`: fold `_union` (= smart `pseudo_join`) over the iteration order -/
def DSIS.collapse (d : DSIS) : R SI :=
  match d.cardinality with
  | .error e => .error e
  | .ok c =>
    if c = 0 then .ok (SI.empty d.bits)
    else match d.sis with
      | [] => .ok (SI.empty d.bits)
      | x :: xs => .ok (xs.foldl (fun r s => pseudoJoin r s true) x)

/-- `normalize()` -/
def DSIS.normalize (d : DSIS) : R Val :=
  match d.cardinality with
  | .error e => .error e
  | .ok c =>
    if c > maxCardinality then
      match d.collapse with
      | .error e => .error e
      | .ok r => .ok (.si r)
    else match d.sis with
      | [s] => .ok (.si s)
      | _ => .ok (.ds d)

/-- apply a binary interval operation on every pair, in the insertion order of the Python double loop -/
def applyEach2 (op : SI → SI → R SI) (as bs : List SI) : R (List SI) :=
  (as.flatMap fun a => bs.map fun b => (a, b)).mapM fun p => op p.1 p.2

def applyEach1 (op : SI → R SI) (as : List SI) : R (List SI) := as.mapM op

/-- `__init__` runs `_update_bits` on every member: a non-empty set takes the width of its members -/
def setBits (bits : Nat) : List SI → Nat
  | [] => bits
  | s :: _ => s.bits

/-- the result set of a lifted operation: de-duplicate, reorder as recorded, `normalize` -/
def finishSet (bits : Nat) (results : List SI) (order : List Nat) : R Val :=
  match permute (dedupe results) order with
  | none => throw .assertion
  | some l => DSIS.normalize { bits := setBits bits l, sis := l }

def DSIS.lift2 (op : SI → SI → R SI) (a : DSIS) (bs : List SI) (order : List Nat) : R Val := do
  finishSet a.bits (← applyEach2 op a.sis bs) order

def DSIS.lift1 (op : SI → R SI) (a : DSIS) (order : List Nat) : R Val := do
  finishSet a.bits (← applyEach1 op a.sis) order

/-- `extract`: a bare set (no normalize) when more than one distinct result -/
def DSIS.extract (a : DSIS) (hi lo : Nat) (order : List Nat) : R Val := do
  let rs := dedupe (← applyEach1 (fun s => s.extract hi lo) a.sis)
  match permute rs order with
  | none => throw .assertion
  | some [s] => return .si s
  | some l => return .ds { bits := hi + 1 - lo, sis := l }

/-- `_intersection_with_si` -/
def DSIS.meetSI (a : DSIS) (s : SI) (order : List Nat) : R Val := do
  let rs := dedupe (← applyEach1 (fun x => x.intersection s) a.sis)
  match permute rs order with
  | none => throw .assertion
  | some [] => return .si (SI.empty a.bits)
  | some l =>
    let d : DSIS := { bits := a.bits, sis := l }
    if (← d.cardinality) > maxCardinality then return .si (← d.collapse) else return .ds d

/-! ### ValueSet -/

structure VS where
  bits : Nat
  regions : List (String × SI)      -- dict in insertion order
  si : SI
  deriving Repr, DecidableEq

def VS.memAt (v : VS) (region : String) (x : Nat) : Prop := ∃ p, p ∈ v.regions ∧ p.1 = region ∧ p.2.mem x

def onRegion (op : SI → R SI) (p : String × SI) : R (String × SI) :=
  match op p.2 with
  | .ok r => .ok (p.1, r)
  | .error e => .error e

/-- apply an interval operation to the offsets of every region and to the summary interval
(`__add__`, `__sub__`, `__mod__`, `__and__` with an interval operand) -/
def VS.mapRegions (v : VS) (op : SI → R SI) : R VS :=
  match v.regions.mapM (onRegion op) with
  | .error e => .error e
  | .ok regs =>
    match op v.si with
    | .error e => .error e
    | .ok s => .ok { v with regions := regs, si := s }

end Claripy.VSA
