import Claripy.VSA.Join
/-! `extended_euclid`, `diop_natural_solution_linear`, `_minimal_common_integer(_splitted)`,
`_multi_valued_intersection`, `intersection`, `solution`, `eq`.

`diop_natural_solution_linear` divides with Python floats (`(-c * x0) / float(b)`); the model divides exactly
(rationals as numerator/denominator pairs).  The two agree whenever the float quotient is exact enough to be
floored/ceiled correctly; the correspondence at 32/64 bits is what would expose a divergence. -/
namespace Claripy.VSA

/-- `extended_euclid(a, b)` for non-negative arguments: `(x, y, d)` with `a*x + b*y = d = gcd a b`.
Structural recursion on a fuel argument (the second argument strictly decreases, so `b + 1` steps suffice). -/
def extendedEuclidF : Nat → Nat → Nat → Int × Int × Nat
  | 0, a, _ => (1, 0, a)
  | fuel + 1, a, b =>
    if b = 0 then (1, 0, a)
    else
      let r := extendedEuclidF fuel b (a % b)
      (r.2.1, r.1 - ((a / b : Nat) : Int) * r.2.1, r.2.2)

def extendedEuclid (a b : Nat) : Int × Int × Nat := extendedEuclidF (b + 1) a b

/-- an exact rational `num / den`, `den > 0` -/
structure Q where
  num : Int
  den : Nat
  deriving Repr

def Q.mk' (n d : Int) : Q := if d < 0 then ⟨-n, d.natAbs⟩ else ⟨n, d.natAbs⟩
def Q.lt (a b : Q) : Bool := a.num * b.den < b.num * a.den
def Q.le (a b : Q) : Bool := a.num * b.den ≤ b.num * a.den
def Q.eq (a b : Q) : Bool := a.num * b.den == b.num * a.den
def Q.abs (a : Q) : Q := ⟨a.num.natAbs, a.den⟩
def Q.floor (a : Q) : Int := Int.fdiv a.num a.den
def Q.ceil (a : Q) : Int := -(Int.fdiv (-a.num) a.den)

/-- extended rationals for the `float("inf")` bounds -/
inductive EQ where
  | negInf | fin (q : Q) | posInf
  deriving Repr

def EQ.leZero : EQ → Bool | .negInf => true | .fin q => q.num ≤ 0 | .posInf => false
def EQ.geZero : EQ → Bool | .negInf => false | .fin q => q.num ≥ 0 | .posInf => true
def EQ.isInf : EQ → Bool | .fin _ => false | _ => true
/-- `abs(x) < abs(y)` -/
def EQ.absLt : EQ → EQ → Bool
  | .fin a, .fin b => a.abs.lt b.abs
  | .fin _, _ => true
  | _, _ => false

def isign (a : Int) : Int := if a < 0 then -1 else 1

/-- `diop_natural_solution_linear(c, a, b)`; `none` = the `(None, None)` return -/
def diop (c a b : Int) : R (Option (Int × Int)) :=
  let d := Nat.gcd (Nat.gcd a.natAbs b.natAbs) c.natAbs
  if d = 0 then throw .zeroDiv else
  let a := Int.fdiv a d
  let b := Int.fdiv b d
  let c := Int.fdiv c d
  if c = 0 then pure (some (0, 0)) else
  let e := extendedEuclid a.natAbs b.natAbs
  let x0 := e.1 * isign a
  let y0 := e.2.1 * isign b
  let d := e.2.2
  if d = 0 then throw .zeroDiv else
  if Int.emod c d = 0 then
    if b = 0 ∨ a = 0 then throw .assertion else
    let t0 := Q.mk' (-c * x0) b
    let t1 := Q.mk' (c * y0) a
    let t0ge := !(decide (b < 0))      -- t0_dir == ">="
    let t1ge := decide (a < 0)         -- t1_dir == ">="
    -- get_intersection(t0, t1, t0_dir, t1_dir)
    let bounds : Option (EQ × EQ) :=
      if t0ge && t1ge then some (.fin (if t1.lt t0 then t0 else t1), .posInf)      -- max(b, a) with b = t1, a = t0
      else if !t0ge && t1ge then (if t1.lt t0 then some (.fin t1, .fin t0) else none)
      else if t0ge && !t1ge then (if t0.lt t1 then some (.fin t0, .fin t1) else none)
      else some (.negInf, .fin (if t0.lt t1 then t0 else t1))                      -- min(b, a)
    match bounds with
    | none => throw .typeError
    | some (lb, ub) =>
      let pickUb : Bool :=
        if lb.leZero && ub.geZero then ub.absLt lb
        else if lb.isInf then true
        else if ub.isInf then false
        else ub.absLt lb
      let t : EQ := if pickUb then ub else lb
      match t, ub with
      | .fin tq, .fin uq =>
        let ti := if tq.eq uq then tq.floor else tq.ceil
        pure (some (c * x0 + b * ti, c * y0 - a * ti))
      | .fin tq, _ => let ti := tq.ceil; pure (some (c * x0 + b * ti, c * y0 - a * ti))
      | _, _ => throw .typeError      -- floor/ceil of an infinity (OverflowError in Python; unreachable)
  else pure none

/-- `_minimal_common_integer_splitted(si_0, si_1)`; inner `none` = Python `None` -/
def mciSplitted : Nat → SI → SI → R (Option Int)
  | 0, _, _ => throw .recursion
  | fuel + 1, s0, s1 =>
    let a : Int := s0.stride
    let c : Int := s1.stride
    let b : Int := s0.lb
    let d : Int := s1.lb
    if s0.isInteger then
      if s1.isInteger then pure (if s0.lb ≠ s1.lb then none else some b)
      else if s0.lb ≥ s1.lb ∧ s0.lb ≤ s1.ub then
        if s1.stride = 0 then throw .zeroDiv
        else if (s0.lb - s1.lb) % s1.stride = 0 then pure (some b) else pure none
      else pure none
    else if s1.isInteger then mciSplitted fuel s1 s0
    else if s0.ub < s1.lb ∨ s1.ub < s0.lb then pure none
    else if Nat.gcd s0.stride s1.stride = 0 then throw .zeroDiv
    else if Int.emod (d - b) (Nat.gcd s0.stride s1.stride) ≠ 0 then pure none
    else do
      match ← diop (-(b - d)) a (-c) with
      | none => throw .typeError
      | some (x, y) =>
        let first := x * a + b
        if first ≠ y * c + d then throw .assertion
        else if (s0.lb : Int) ≤ first ∧ first ≤ s0.ub ∧ (s1.lb : Int) ≤ first ∧ first ≤ s1.ub then pure (some first)
        else pure none

/-- `_minimal_common_integer(si_0, si_1)` -/
def minimalCommonInteger (s0 s1 : SI) : R (Option Int) := do
  let l0 ← s0.ssplit
  let l1 ← s1.ssplit
  let (l0, l1) := if l0.length = 1 ∧ l1.length = 2 then (l1, l0) else (l0, l1)
  match l0, l1 with
  | [_], [_] => mciSplitted 4 s0 s1
  | [p0, p1], [q0] =>
    let i0 ← mciSplitted 4 p0 q0
    let i1 ← mciSplitted 4 p1 q0
    pure (match i0 with | none => i1 | some v => some v)
  | [p0, p1], [q0, q1] =>
    let i0 ← mciSplitted 4 p0 q0
    let i1 ← mciSplitted 4 p1 q1
    pure (match i0 with | none => i1 | some v => some v)
  | _, _ => throw .assertion

/-- the common tail of the overlap cases: from the first common integer `lb` up to the last multiple of the new
stride that stays below `upTo` -/
def meetFrom (bits newStride : Nat) (lb : Option Int) (upTo : Nat) : SI :=
  match lb with
  | none => SI.empty bits
  | some lb =>
    let ub := modAdd ((modSub upTo lb bits / newStride * newStride : Nat) : Int) lb bits
    SI.new bits newStride lb ub

/-- `_multi_valued_intersection(self, b)` -/
def SI.multiMeet (s b : SI) : R (List SI) :=
  if s.bottom || b.bottom then pure [SI.empty s.bits]
  else if s.bits ≠ b.bits then throw .assertion
  else if s.isInteger && b.isInteger then
    pure [if s.lb = b.lb then SI.new s.bits 0 s.lb s.lb else SI.empty s.bits]
  else if s.isInteger then
    if b.stride = 0 then throw .zeroDiv
    else if modSub s.lb b.lb s.bits % b.stride = 0 ∧ b.surroundsMember s.lb then pure [SI.new s.bits 0 s.lb s.lb]
    else pure [SI.empty s.bits]
  else if b.isInteger then
    if s.stride = 0 then throw .zeroDiv
    else if modSub b.lb s.lb s.bits % s.stride = 0 ∧ s.surroundsMember b.lb then pure [SI.new s.bits 0 b.lb b.lb]
    else pure [SI.empty s.bits]
  else do
    let ns := Nat.lcm s.stride b.stride
    let fin (lb : Option Int) (upTo : Nat) : R SI :=
      match lb with
      | none => pure (SI.empty s.bits)
      | some _ => if ns = 0 then throw .zeroDiv else pure (meetFrom s.bits ns lb upTo)
    if s.isSurrounded b then
      return [← fin (← minimalCommonInteger s b) s.ub]
    else if b.isSurrounded s then
      return [← fin (← minimalCommonInteger s b) b.ub]
    else if s.surroundsMember b.lb && s.surroundsMember b.ub && b.surroundsMember s.lb && b.surroundsMember s.ub then
      let s0 := SI.new s.bits s.stride s.lb b.ub
      let s1 := SI.new s.bits b.stride b.lb s.ub
      let l0 ← minimalCommonInteger s0 b
      let l1 ← minimalCommonInteger s1 s
      return [← fin l0 b.ub, ← fin l1 s.ub]
    else if s.surroundsMember b.lb then
      return [← fin (← minimalCommonInteger b s) s.ub]
    else if s.surroundsMember b.ub then
      return [← fin (← minimalCommonInteger b s) b.ub]
    else if b.surroundsMember s.lb then
      return [← fin (← minimalCommonInteger s b) b.ub]
    else if b.surroundsMember s.ub then
      return [← fin (← minimalCommonInteger s b) s.ub]
    else return [SI.empty s.bits]

/-- `intersection` -/
def SI.intersection (s b : SI) : R SI := do
  match ← s.multiMeet b with
  | [v] => pure v
  | [v, w] => pure (pseudoJoin v w true)
  | _ => throw .assertion

/-- `solution(b)` -/
def SI.solution (s : SI) (v : Int) : R Bool := do
  return !(← s.intersection (SI.new s.bits 0 v v)).bottom

/-- truth values an abstract comparison may take -/
inductive BoolRes where
  | t | f | m
  deriving DecidableEq, Repr, Inhabited

/-- `eq` for operands with different names -/
def SI.eq (s o : SI) : R BoolRes :=
  if s.isInteger && o.isInteger then pure (if s.lb = o.lb then .t else .f)
  else do
    return if (← s.intersection o).bottom then .f else .m

def BoolRes.not : BoolRes → BoolRes | .t => .f | .f => .t | .m => .m

end Claripy.VSA
