import Claripy.VSA.Arith
/-! `mul`, `udiv`, `sdiv`, `__mod__`, `widen`. -/
namespace Claripy.VSA

/-- `_wrapped_unsigned_mul` -/
def wrappedUnsignedMul (a b : SI) : SI :=
  let bits := Nat.max a.bits b.bits
  let lb := a.lb * b.lb
  let ub := a.ub * b.ub
  if (ub : Int) - lb < 2 ^ bits then
    let stride :=
      if b.isInteger then a.stride * b.lb
      else if a.isInteger then a.lb * b.stride
      else Nat.gcd a.stride b.stride
    SI.new bits stride lb ub
  else SI.top bits

/-- `_wrapped_signed_mul` -/
def wrappedSignedMul (a b : SI) : R SI :=
  let bits := Nat.max a.bits b.bits
  let alp := isMsbZero a.lb bits
  let aup := isMsbZero a.ub bits
  let blp := isMsbZero b.lb bits
  let bup := isMsbZero b.ub bits
  let sg (v : Nat) : Int := toSigned v bits
  let stride : Nat :=
    if b.isInteger then (if blp then a.stride * b.lb else ((a.stride : Int) * sg b.lb).natAbs)
    else if a.isInteger then (if alp then b.stride * a.lb else ((b.stride : Int) * sg a.lb).natAbs)
    else Nat.gcd a.stride b.stride
  let fin (lb ub : Int) : SI := if ub - lb < 2 ^ bits then SI.new bits stride lb ub else SI.top bits
  if alp && aup && blp && bup then pure (fin ((a.lb * b.lb : Nat) : Int) ((a.ub * b.ub : Nat) : Int))
  else if !alp && !aup && !blp && !bup then pure (fin (sg a.ub * sg b.ub) (sg a.lb * sg b.lb))
  else if !alp && !aup && blp && bup then pure (fin (sg a.lb * b.ub) (sg a.ub * b.lb))
  else if alp && aup && !blp && !bup then pure (fin (a.ub * sg b.lb) (a.lb * sg b.ub))
  else throw .vsaError

/-- `mul` -/
def SI.mul (s o : SI) : R SI :=
  if s.isInteger && o.isInteger then pure (SI.new s.bits 0 ((s.lb * o.lb : Nat) : Int) ((s.lb * o.lb : Nat) : Int))
  else do
    let p1 ← s.psplit
    let p2 ← o.psplit
    let mut all : List SI := []
    for si1 in p1 do
      for si2 in p2 do
        let sm ← wrappedSignedMul si1 si2
        all := all ++ (← (wrappedUnsignedMul si1 si2).multiMeet sm)
    return (← leastUpperBound all).renorm

/-- `_wrapped_unsigned_div` -/
def wrappedUnsignedDiv (a b : SI) : SI :=
  let bits := Nat.max a.bits b.bits
  if b.lb = 0 ∧ b.ub = 0 then SI.empty bits
  else
    let dlb := if b.lb = 0 then 1 else b.lb
    let dub := if b.ub = 0 then maxInt bits else b.ub
    SI.new bits 1 ((a.lb / dub : Nat) : Int) ((a.ub / dlb : Nat) : Int)

/-- Python `//` (floor division); a zero divisor raises -/
def pyFloorDiv (a b : Int) : R Int := if b = 0 then throw .zeroDiv else pure (Int.fdiv a b)

/-- `_wrapped_signed_div` (floor division, as the code and its tests have it) -/
def wrappedSignedDiv (a b : SI) : R SI :=
  let bits := Nat.max a.bits b.bits
  if b.lb = 0 ∧ b.ub = 0 then pure (SI.empty bits)
  else do
    let dlb : Int := if b.lb = 0 then 1 else b.lb
    let dub : Int := if b.ub = 0 then maxInt bits else b.ub
    let sg (v : Int) : Int := toSigned v bits
    let dividendPos := isMsbZero a.lb bits
    let divisorPos := isMsbZero b.lb bits
    let (lb, ub) ←
      if dividendPos && divisorPos then do pure (← pyFloorDiv a.lb dub, ← pyFloorDiv a.ub dlb)
      else if dividendPos && !divisorPos then do pure (← pyFloorDiv a.ub (sg dub), ← pyFloorDiv a.lb (sg dlb))
      else if !dividendPos && divisorPos then do pure (← pyFloorDiv (sg a.lb) dlb, ← pyFloorDiv (sg a.ub) dub)
      else do pure (← pyFloorDiv (sg a.ub) (sg b.lb), ← pyFloorDiv (sg a.lb) (sg b.ub))
    pure (SI.new bits 1 lb ub)

/-- Python `set` of intervals: equal hash (bits, lb, ub, stride, bottom flag) means equal element (`__eq__` returns
a truthy BoolResult); keeps the first of each -/
def dedupe (l : List SI) : List SI :=
  l.foldl (fun acc x => if acc.any (fun y => y.bits == x.bits && y.lb == x.lb && y.ub == x.ub && y.stride == x.stride && y.bottom == x.bottom) then acc else acc ++ [x]) []

/-- reorder the distinct elements as the recorded set iteration order says (indices into the insertion order) -/
def permute (l : List SI) (order : List Nat) : Option (List SI) :=
  if order.length ≠ l.length ∨ !(List.range l.length).all (fun i => order.contains i) then none
  else some (order.filterMap fun i => l[i]?)

/-- `udiv`; `order` is the iteration order of the Python set of partial results (recorded on the real run) -/
def SI.udiv (s o : SI) (order : List Nat) : R SI := do
  let ds ← s.ssplit
  let vs ← o.ssplit
  let rs := dedupe ((ds.map fun d => vs.map fun v => wrappedUnsignedDiv d v).flatten)
  match permute rs order with
  | none => throw .assertion
  | some l => return (← leastUpperBound l).renorm

/-- `sdiv` -/
def SI.sdiv (s o : SI) (order : List Nat) : R SI := do
  let ds ← s.psplit
  let vs ← o.psplit
  let mut rs : List SI := []
  for d in ds do
    for v in vs do
      rs := rs ++ [← wrappedSignedDiv d v]
  match permute (dedupe rs) order with
  | none => throw .assertion
  | some l => return (← leastUpperBound l).renorm

/-- `udiv` of two non-wrapping pieces (one partial result, no set order involved) -/
def udivPiece (s t : SI) : R SI := do
  let ds ← s.ssplit
  let vs ← t.ssplit
  let rs := dedupe ((ds.map fun d => vs.map fun v => wrappedUnsignedDiv d v).flatten)
  match rs with
  | [r] => pure r.renorm
  | _ => throw .assertion      -- would need a set order; does not happen for split pieces

/-- `__mod__` (unsigned remainder, as repaired) -/
def SI.mod (s o : SI) : R SI :=
  if o.isInteger && o.lb == 0 then pure (SI.empty o.bits)
  else if s.isInteger && o.isInteger then pure (SI.new s.bits 0 ((s.lb % o.lb : Nat) : Int) ((s.lb % o.lb : Nat) : Int))
  else do
    let ss ← s.ssplit
    let ts ← o.ssplit
    let mut all : List SI := []
    for p in ss do
      for t in ts do
        let q ← udivPiece p t
        let card ← q.cardinality
        if card = 1 then
          all := all ++ [p.sub (← q.mul t)]
        else
          all := all ++ [SI.new s.bits 1 0 ((t.ub : Int) - 1)]
    return (← leastUpperBound all).renorm

/-- `upper(bits, i, stride)`, `lower(bits, i, stride)` (the latter with the signed minimum, as written) -/
def upperLim (bits : Nat) (i : Nat) (stride : Nat) : Int :=
  if stride ≥ 1 then
    let offset := i % stride
    let mx := maxInt bits
    let mo := mx % stride
    if mo ≥ offset then (mx : Int) - (mo - offset : Nat) else (mx : Int) - ((mo + stride - offset : Nat) : Int)
  else maxInt bits

def lowerLim (bits : Nat) (i : Nat) (stride : Nat) : Int :=
  let mn : Int := -((2 ^ (bits - 1) : Nat) : Int)
  if stride ≥ 1 then
    let offset : Int := (i % stride : Nat)
    let mo : Int := Int.emod mn stride
    if offset ≥ mo then mn + (offset - mo) else mn + (offset + stride - mo)
  else mn

/-- `widen` -/
def SI.widen (s b : SI) : R SI :=
  if s.bottom && !b.bottom then pure (SI.top s.bits)
  else if s.bottom then pure b.renorm
  else if b.bottom then pure s.renorm
  else
    let ns := Nat.gcd s.stride b.stride
    let lower : Int := if b.lb < s.lb then lowerLim s.bits s.lb ns else s.lb
    let upper : Int := if b.ub > s.ub then upperLim s.bits s.ub ns else s.ub
    if ns = 0 then
      if s.isInteger && b.isInteger then pure (SI.new s.bits 1 lower upper)
      else throw .opError
    else pure (SI.new s.bits ns lower upper)

end Claripy.VSA
