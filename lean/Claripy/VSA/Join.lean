import Claripy.VSA.SI
/-! `pseudo_join`, `least_upper_bound`, `union` (with `_allow_dsis_flag = False`, the default). -/
namespace Claripy.VSA

def natAbsDiff (a b : Nat) : Nat := if a ≤ b then b - a else a - b

/-- `pseudo_join(s, b, smart_join)` -/
def pseudoJoin (s b : SI) (smart : Bool := true) : SI :=
  let w := s.bits
  if s.bottom then b
  else if b.bottom then s
  else if s.isInteger && b.isInteger then
    let upper := if smart then Nat.max s.ub b.ub else b.ub
    let lower := if smart then Nat.min s.lb b.lb else s.lb
    SI.new w (imod ((upper : Int) - lower) w) lower upper
  else if s.isSurrounded b then
    let ns := if !s.isInteger then Nat.gcd s.stride b.stride else b.stride
    SI.new w (Nat.gcd ns (modSub s.lb b.lb w)) b.lb b.ub
  else if b.isSurrounded s then
    let ns := if !b.isInteger then Nat.gcd s.stride b.stride else s.stride
    SI.new w (Nat.gcd ns (modSub b.lb s.lb w)) s.lb s.ub
  else if s.surroundsMember b.lb && s.surroundsMember b.ub && b.surroundsMember s.lb && b.surroundsMember s.ub then
    SI.top w
  else if s.surroundsMember b.lb then
    SI.new w (Nat.gcd (Nat.gcd s.stride b.stride) (modSub b.lb s.lb w)) s.lb b.ub
  else if b.surroundsMember s.lb then
    SI.new w (Nat.gcd (Nat.gcd s.stride b.stride) (modSub s.lb b.lb w)) b.lb s.ub
  else if !smart then
    let ns :=
      if s.isInteger then Nat.gcd b.stride (modSub b.lb s.lb w)
      else if b.isInteger then Nat.gcd s.stride (modSub b.lb s.lb w)
      else Nat.gcd (Nat.gcd s.stride b.stride) (wrappedCard s.lb b.lb w - 1)
    SI.new w ns s.lb b.ub
  else
    let ns := if s.isInteger then b.stride else if b.isInteger then s.stride else Nat.gcd s.stride b.stride
    let s1 := Nat.gcd ns (wrappedCard b.lb s.lb w - 1)
    let s2 := Nat.gcd ns (wrappedCard s.lb b.lb w - 1)
    let si1 := SI.new w s1 b.lb s.ub
    let si2 := SI.new w s2 s.lb b.ub
    if si1.nValues ≤ si2.nValues then si1 else si2

/-- stable insertion sort by lower bound (Python's `sorted(key=lambda x: x.lower_bound)` is stable) -/
def insertByLb (x : SI) : List SI → List SI
  | [] => [x]
  | y :: ys => if x.lb < y.lb then x :: y :: ys else y :: insertByLb x ys

def sortByLb (l : List SI) : List SI := l.foldl (fun acc x => insertByLb x acc) []

def reduceJoin : List SI → Option SI
  | [] => none
  | x :: xs => some (xs.foldl (fun acc y => pseudoJoin acc y false) x)

/-- `least_upper_bound(*intervals)` -/
def leastUpperBound (l : List SI) : R SI :=
  match l with
  | [] => throw .assertion
  | [a] => pure a.renorm
  | [a, b] => pure (pseudoJoin a b true)
  | _ =>
    let sorted := sortByLb l
    let n := sorted.length
    let cands := (List.range n).filterMap fun i => reduceJoin (sorted.drop i ++ sorted.take i)
    match cands with
    | [] => throw .assertion
    | c :: cs => pure (cs.foldl (fun ret si => if ret.nValues > si.nValues then si else ret) c)

/-- `union` with `_allow_dsis_flag = False` -/
def SI.union (a b : SI) : R SI := leastUpperBound [a, b]

end Claripy.VSA
