import Claripy.VSA.MulDiv
/-! Shifts, `cast_low`, `extract`, `concat`, `zero_extend`, `sign_extend` (as repaired). -/
namespace Claripy.VSA

/-- the stride of a right shift by `k`: kept only if no set bit of it is shifted out -/
def rshiftStride (stride k : Nat) : Nat :=
  if stride % 2 ^ k = 0 then Nat.max (stride >>> k) 1 else 1

def unionAll : List SI → R (Option SI)
  | [] => pure none
  | x :: xs => do
    let mut acc := x
    for y in xs do
      acc ← acc.union y
    return some acc

/-- `_rshift_logical(k)`; the recursion on the split pieces is bounded by `fuel` (Python: RecursionError) -/
def rshiftLogicalK : Nat → SI → Nat → R SI
  | 0, _, _ => throw .recursion
  | fuel + 1, s, k =>
    if s.bottom then pure s else do
    let ps ← s.ssplit
    match ps with
    | [p] => pure (SI.new s.bits (rshiftStride s.stride k) ((p.lb >>> k : Nat) : Int) ((p.ub >>> k : Nat) : Int))
    | [p, q] => do
      let a ← rshiftLogicalK fuel p k
      let b ← rshiftLogicalK fuel q k
      a.union b
    | _ => throw .assertion

/-- `_rshift_arithmetic(k)` (`k ≤ bits`) -/
def rshiftArithK : Nat → SI → Nat → R SI
  | 0, _, _ => throw .recursion
  | fuel + 1, s, k =>
    if s.bottom then pure s else do
    let ps ← s.psplit
    match ps with
    | [p] =>
      let high := decide (p.lb > 2 ^ (p.bits - 1) - 1)
      let lower := p.lb >>> k
      let upper := p.ub >>> k
      let stride := rshiftStride s.stride k
      let mask := (2 ^ k - 1) <<< (s.bits - k)
      let lower := if high then lower ||| mask else lower
      let upper := if high then upper ||| mask else upper
      let stride := if lower = upper then 0 else stride
      pure (SI.new s.bits stride (lower : Int) (upper : Int))
    | [] => throw .assertion
    | p :: rest => do
      let mut acc ← rshiftArithK fuel p k
      for q in rest do
        acc ← acc.union (← rshiftArithK fuel q k)
      return acc

/-- `_lshift(k)` -/
def lshiftK (s : SI) (k : Nat) : SI :=
  if s.bottom then s
  else
    let span := modSub s.ub s.lb s.bits
    if span <<< k < 2 ^ s.bits then
      SI.new s.bits (s.stride <<< k) ((s.lb <<< k : Nat) : Int) (((s.lb + span) <<< k : Nat) : Int)
    else if k ≥ s.bits then SI.new s.bits 0 0 0
    else SI.new s.bits (2 ^ k) 0 ((2 ^ s.bits - 2 ^ k : Nat) : Int)

def roundTo (mx x : Nat) : Nat := if x > mx then mx else x

/-- `_get_shift_range` for an interval shift amount -/
def getShiftRange (self amt : SI) : Nat × Nat :=
  if amt.isInteger then (roundTo self.bits amt.lb, roundTo self.bits amt.lb)
  else if amt.lb > amt.ub then (0, self.bits)
  else (roundTo self.bits amt.lb, roundTo self.bits amt.ub)

def recFuel : Nat := 64

/-- the loop `for amount in range(lower, upper + 1): si_ = f(amount); ret = si_ if ret is None else ret.union(si_)` -/
def overRangeAux (f : Nat → R SI) : List Nat → Option SI → R (Option SI)
  | [], acc => pure acc
  | k :: ks, acc =>
    match f k with
    | .error e => .error e
    | .ok si =>
      match acc with
      | none => overRangeAux f ks (some si)
      | some r =>
        match r.union si with
        | .error e => .error e
        | .ok u => overRangeAux f ks (some u)

/-- union of `f amount` for `lower ≤ amount ≤ upper`, `top` when the range is empty, then `normalize` -/
def overRange (self : SI) (lower upper : Nat) (f : Nat → R SI) : R SI :=
  match overRangeAux f ((List.range (upper + 1 - lower)).map (lower + ·)) none with
  | .error e => .error e
  | .ok none => .ok (SI.top self.bits)
  | .ok (some r) => .ok r.renorm

def SI.rshiftLogicalRange (s : SI) (lower upper : Nat) : R SI := overRange s lower upper (rshiftLogicalK recFuel s)
def SI.rshiftArithRange (s : SI) (lower upper : Nat) : R SI := overRange s lower upper (rshiftArithK recFuel s)
def SI.lshiftRange (s : SI) (lower upper : Nat) : R SI := overRange s lower upper (fun k => pure (lshiftK s k))

def SI.rshiftLogical (s amt : SI) : R SI := let (l, u) := getShiftRange s amt; s.rshiftLogicalRange l u
def SI.rshiftArith (s amt : SI) : R SI := let (l, u) := getShiftRange s amt; s.rshiftArithRange l u
def SI.lshift (s amt : SI) : R SI := let (l, u) := getShiftRange s amt; s.lshiftRange l u

/-- `cast_low(tok)` -/
def SI.castLow (s : SI) (tok : Nat) : R SI :=
  if tok > s.bits then throw .assertion
  else
    let mask := 2 ^ tok - 1
    if tok = s.bits then pure s.renorm
    else if s.lb ≤ s.ub ∧ s.lb &&& mask = s.lb ∧ s.ub &&& mask = s.ub then
      pure (SI.new tok s.stride s.lb s.ub)
    else if s.lb ≤ s.ub ∧ s.ub - s.lb ≤ mask then
      pure (SI.new tok s.stride ((s.lb &&& mask : Nat) : Int) ((s.ub &&& mask : Nat) : Int))
    else if s.ub &&& mask = s.lb &&& mask ∧ imod ((s.ub : Int) - s.lb) tok = 0 ∧ s.stride &&& mask = 0 then
      pure (SI.new tok 0 ((s.lb &&& mask : Nat) : Int) ((s.lb &&& mask : Nat) : Int))
    else
      let n := ntz s.stride
      if tok > n then
        let stride := 2 ^ n
        let lower := s.lb % 2 ^ n
        let k := (maxInt tok - lower) / stride
        pure { bits := tok, stride := stride, lb := lower, ub := stride * k + lower }
      else
        pure (SI.new tok 0 ((s.lb % 2 ^ tok : Nat) : Int) ((s.lb % 2 ^ tok : Nat) : Int))

/-- `extract(high, low)` -/
def SI.extract (s : SI) (high low : Nat) : R SI := do
  let bits := high + 1 - low
  let ret ← if low ≠ 0 then s.rshiftLogicalRange low low else pure s.renorm
  let ret ← if bits ≠ s.bits then ret.castLow bits else pure ret
  return ret.renorm

/-- `zero_extend(new_length)`; the recursion is on the (non-wrapping) pieces -/
def SI.zeroExtend (s : SI) (nl : Nat) : R SI :=
  if !s.bottom && decide (s.lb > s.ub) then do
    let ps ← s.ssplit
    leastUpperBound (ps.map fun p => { p.renorm with bits := nl })
  else pure { s.renorm with bits := nl }

/-- `sign_extend(new_length)` -/
def SI.signExtend (s : SI) (nl : Nat) : R SI := do
  let msb ← (← s.extract (s.bits - 1) (s.bits - 1)).eval 2 false
  if msb = [0] then s.zeroExtend nl
  else if msb = [1] ∧ s.lb ≤ s.ub then
    let c := s.renorm
    let mask := (2 ^ nl - 1) - (2 ^ s.bits - 1)
    pure { c with bits := nl, lb := c.lb ||| mask, ub := c.ub ||| mask }
  else do
    let nums ← s.nsplit
    let rs := nums.map fun n =>
      let maskN := (2 ^ (nl - n.bits) - 1) <<< n.bits
      let ma := if getMsb n.lb n.bits = 1 then maskN else 0
      let mb := if getMsb n.ub n.bits = 1 then maskN else 0
      SI.new nl n.stride ((n.lb ||| ma : Nat) : Int) ((n.ub ||| mb : Nat) : Int)
    return (← leastUpperBound rs).renorm

/-- `concat(self, b)` -/
def SI.concat (s b : SI) : R SI := do
  let a := { s.renorm with bits := s.bits + b.bits }
  let newSi ← a.lshiftRange b.bits b.bits
  let newB ← b.zeroExtend newSi.bits
  if newSi.isInteger then
    pure { newSi with bits := newB.bits, stride := newB.stride, lb := newSi.lb + newB.lb, ub := newSi.ub + newB.ub }
  else newSi.bitwiseOr newB

end Claripy.VSA
