import Claripy.VSA.DSIS
import Claripy.VSA.Conc
/-!
Model of `backend_vsa.py`: which interval operation each AST operator dispatches to, `If`, `And/Or/Not` on
`BoolResult`, `apply_annotation` on leaves, and names.  Every `StridedInterval` carries a name and `eq` answers True for
equal names.  A leaf variable carries the variable's name; every operation that builds a new interval gives it a FRESH name,
and the backend converts an AST once (`Backend.convert` keeps the converted object of every AST, ASTs are hash-consed), so
all occurrences of one sub-AST are ONE object with ONE name: the fresh name created at a node is identified by the node
(`NameKey.node t`).  The operand's name survives where the code returns the operand or a `copy()` of it: `zero_extend`
(non-wrapping operand), `sign_extend` of a non-negative interval (it calls `zero_extend`), a full-width `extract`, a shift of
an empty interval (`_lshift` / `_rshift_*` return `self`), the branch `If` selects, and the other operand of a join with an
empty interval (`pseudo_join` returns `b` / `s`).
With `_allow_dsis_flag = False` (the default) every bit-vector value is a single interval.
The ASTs evaluated here are the ones claripy hands to the backend (after construction-time simplification and
`excavate_ite`, which belong to other properties).
-/
namespace Claripy.VSA

inductive BinOp where
  | add | sub | mul | udiv | urem | and | or | xor | shl | lshr | ashr
  deriving DecidableEq, Repr

inductive CmpOp where
  | ult | ule | ugt | uge | slt | sle | sgt | sge | eq | ne
  deriving DecidableEq, Repr

mutual
inductive BV where
  | var (i : Nat) (w : Nat)
  | free (i : Nat) (w : Nat)      -- an occurrence of variable `i` that lost its annotation: TOP, same name
  | const (v w : Nat)
  | bin (op : BinOp) (a b : BV)
  | neg (a : BV)
  | not (a : BV)
  | zext (k : Nat) (a : BV)
  | sext (k : Nat) (a : BV)
  | extract (hi lo : Nat) (a : BV)
  | concat (a b : BV)
  | ite (c : BExp) (a b : BV)
  deriving Repr, DecidableEq
inductive BExp where
  | lit (b : Bool)
  | cmp (op : CmpOp) (a b : BV)
  | not (c : BExp)
  | and (c d : BExp)
  | or (c d : BExp)
  | ite (c a b : BExp)
  deriving Repr, DecidableEq
end

/-- the name of a `StridedInterval`: the name of variable `i` (`BVS(ast)` / `apply_annotation` keep `ast.args[0]`), or the
fresh name (`SI_<counter>`) the operation at node `t` gave its result - one per AST, because the backend converts an AST
once -/
inductive NameKey where
  | var (i : Nat)
  | node (t : BV)
  deriving Repr, DecidableEq

/-- an abstract bit-vector value: the interval and the name it carries (`none`: a name nothing else carries) -/
structure AV where
  si : SI
  name : Option NameKey := none
  deriving Repr, DecidableEq

def brAnd : BoolRes → BoolRes → BoolRes
  | .f, _ => .f | _, .f => .f | .t, o => o | s, .t => s | .m, .m => .m
def brOrUnion : BoolRes → BoolRes → BoolRes     -- `BackendVSA.Or` uses BoolResult.union (set union)
  | .t, .t => .t | .f, .f => .f | _, _ => .m
def BoolRes.hasTrue : BoolRes → Bool | .f => false | _ => true
def BoolRes.hasFalse : BoolRes → Bool | .t => false | _ => true

/-- `StridedInterval.eq` with names -/
def eqNamed (a b : AV) : R BoolRes :=
  if a.si.isInteger && b.si.isInteger then pure (if a.si.lb = b.si.lb then .t else .f)
  else if a.name.isSome && a.name == b.name then pure .t
  else do return if (← a.si.intersection b.si).bottom then .f else .m

/-- the recorded set orders of the `udiv` nodes, consumed left to right in evaluation order -/
abbrev Orders := List (List Nat)

def applyBin (op : BinOp) (a b : SI) (orders : Orders) : R (SI × Orders) :=
  match op with
  | .add => pure (a.add b, orders)
  | .sub => pure (a.sub b, orders)
  | .mul => do return (← a.mul b, orders)
  | .udiv =>
    match orders with
    | [] => throw .assertion
    | o :: rest => do return (← a.udiv b o, rest)
  | .urem => do return (← a.mod b, orders)
  | .and => do return (← a.bitwiseAnd b, orders)
  | .or => do return (← a.bitwiseOr b, orders)
  | .xor => do return (← a.bitwiseXor b, orders)
  | .shl => do return (← a.lshift b, orders)
  | .lshr => do return (← a.rshiftLogical b, orders)
  | .ashr => do return (← a.rshiftArith b, orders)

def applyCmp (op : CmpOp) (a b : AV) : R BoolRes :=
  match op with
  | .ult => a.si.ULT b.si | .ule => a.si.ULE b.si | .ugt => a.si.UGT b.si | .uge => a.si.UGE b.si
  | .slt => a.si.SLT b.si | .sle => a.si.SLE b.si | .sgt => a.si.SGT b.si | .sge => a.si.SGE b.si
  | .eq => eqNamed a b
  | .ne => do return (← eqNamed a b).not

/-- does the name survive `zero_extend` / `sign_extend` / `extract`? (only the copying branches keep it) -/
def zextKeeps (x : SI) : Bool := !(!x.bottom && decide (x.lb > x.ub))
def sextKeeps (x : SI) : R Bool :=
  (x.extract (x.bits - 1) (x.bits - 1)) >>= fun m => (m.eval 2 false) >>= fun msb => pure (decide (msb = [0]) && zextKeeps x)
def extractKeeps (x : SI) (hi lo : Nat) : Bool := decide (lo = 0 ∧ hi + 1 - lo = x.bits)

/-- do `_lshift` / `_rshift_logical` / `_rshift_arithmetic` return `self` (empty operand)?  Then the loop over the shift
amounts joins `self` with `self` (`pseudo_join` returns its second argument) and the result IS the operand -/
def shiftKeeps (op : BinOp) (x : SI) : Bool :=
  (match op with | .shl | .lshr | .ashr => true | _ => false) && x.bottom

/-- `BackendVSA.If` on bit-vectors: the selected branch itself, or `t.union(f)`; `pseudo_join` returns the other operand
when one is empty, else a new interval (`fresh` = the name it gets) -/
def iteBV (cv : BoolRes) (x y : AV) (fresh : Option NameKey := none) : R AV :=
  if !cv.hasTrue then pure y
  else if !cv.hasFalse then pure x
  else (x.si.union y.si) >>= fun r =>
    pure { si := r, name := if x.si.bottom then y.name else if y.si.bottom then x.name else fresh }

def iteB (cv x y : BoolRes) : BoolRes :=
  if !cv.hasTrue then y else if !cv.hasFalse then x else brOrUnion x y      -- BoolResult.union

mutual
/-- `BackendVSA.convert` on a bit-vector AST; `anno i` is the annotation of variable `i` -/
def convBV (anno : Nat → SI) : BV → Orders → R (AV × Orders)
  | .var i _, o => pure ({ si := anno i, name := some (.var i) }, o)
  | .free i w, o => pure ({ si := SI.top w, name := some (.var i) }, o)
  | .const v w, o => pure ({ si := SI.new w 0 v v, name := some (.node (.const v w)) }, o)
  | .bin op a b, o =>
    convBV anno a o >>= fun p1 => convBV anno b p1.2 >>= fun p2 =>
    applyBin op p1.1.si p2.1.si p2.2 >>= fun p3 =>
    pure ({ si := p3.1, name := if shiftKeeps op p1.1.si then p1.1.name else some (.node (.bin op a b)) }, p3.2)
  | .neg a, o => convBV anno a o >>= fun p1 => pure ({ si := p1.1.si.neg, name := some (.node (.neg a)) }, p1.2)
  | .not a, o =>
    convBV anno a o >>= fun p1 => p1.1.si.bitwiseNot >>= fun r => pure ({ si := r, name := some (.node (.not a)) }, p1.2)
  | .zext k a, o =>
    convBV anno a o >>= fun p1 => p1.1.si.zeroExtend (k + p1.1.si.bits) >>= fun r =>
    pure ({ si := r, name := if zextKeeps p1.1.si then p1.1.name else some (.node (.zext k a)) }, p1.2)
  | .sext k a, o =>
    convBV anno a o >>= fun p1 => p1.1.si.signExtend (k + p1.1.si.bits) >>= fun r =>
    sextKeeps p1.1.si >>= fun keeps =>
    pure ({ si := r, name := if keeps then p1.1.name else some (.node (.sext k a)) }, p1.2)
  | .extract hi lo a, o =>
    convBV anno a o >>= fun p1 => p1.1.si.extract hi lo >>= fun r =>
    pure ({ si := r, name := if extractKeeps p1.1.si hi lo then p1.1.name else some (.node (.extract hi lo a)) }, p1.2)
  | .concat a b, o =>
    convBV anno a o >>= fun p1 => convBV anno b p1.2 >>= fun p2 =>
    p1.1.si.concat p2.1.si >>= fun r => pure ({ si := r, name := some (.node (.concat a b)) }, p2.2)
  | .ite c a b, o =>
    convB anno c o >>= fun pc => convBV anno a pc.2 >>= fun p1 => convBV anno b p1.2 >>= fun p2 =>
    iteBV pc.1 p1.1 p2.1 (some (.node (.ite c a b))) >>= fun r => pure (r, p2.2)
/-- … on a Boolean AST -/
def convB (anno : Nat → SI) : BExp → Orders → R (BoolRes × Orders)
  | .lit b, o => pure (if b then .t else .f, o)
  | .cmp op a b, o =>
    convBV anno a o >>= fun p1 => convBV anno b p1.2 >>= fun p2 =>
    applyCmp op p1.1 p2.1 >>= fun r => pure (r, p2.2)
  | .not c, o => convB anno c o >>= fun p => pure (p.1.not, p.2)
  | .and c d, o => convB anno c o >>= fun p => convB anno d p.2 >>= fun q => pure (brAnd p.1 q.1, q.2)
  | .or c d, o => convB anno c o >>= fun p => convB anno d p.2 >>= fun q => pure (brOrUnion p.1 q.1, q.2)
  | .ite c a b, o =>
    convB anno c o >>= fun pc => convB anno a pc.2 >>= fun p => convB anno b p.2 >>= fun q =>
    pure (iteB pc.1 p.1 q.1, q.2)
end

end Claripy.VSA
