import Claripy.FP.Decimal
import Claripy.Gen.FpTables
/-!
# Model of claripy's concrete floating-point folding (backends/backend_concrete/fp.py + ast/fp.py:FPV)

A concrete `FPV` carries a Python `float` (binary64) whatever its sort.  Every Python float operation is one binary64
round-to-nearest-even operation (`py*` below are `Spec` at `binary64`/`RNE`: CPython's float arithmetic, `math.sqrt`,
`float(int)` and `struct.pack('f')` are trusted to be IEEE-754 and sampled against this on every run).  `claripy.FPV(v, FLOAT)`
rounds the double to binary32 with `struct.pack('f')` (RNE, overflow to infinity).  The rounding-mode argument of the
arithmetic functions is ignored by the code, and so it is here.

Operands and results are bit patterns of the sort's own format (NaN payloads are not modelled: every NaN is `nanBits`).
-/
namespace Claripy.FP.Fold
open Claripy.FP

abbrev D := binary64
abbrev F := binary32

inductive Res where
  | fp (fmt : Fmt) (bits : Nat)
  | bv (size value : Nat)
  | bool (b : Bool)
  | err (kind : String)
  deriving DecidableEq, Repr, Inhabited

/-- binary32 value as the Python float holding it (exact) -/
def widen (a : Nat) : Nat := cvt F D .RNE a
/-- `struct.unpack('f', struct.pack('f', v))` -/
def narrow (d : Nat) : Nat := cvt D F .RNE d

/-- the Python float inside a leaf `FPV(bits, fmt)` -/
def lift (fmt : Fmt) (a : Nat) : Nat := if fmt = F then widen a else (if isNaN D a then D.nanBits else a % 2 ^ D.width)
/-- `claripy.FPV(v, sort)` on the way back into an AST -/
def lower (fmt : Fmt) (d : Nat) : Nat := if fmt = F then narrow d else d

def pyAdd (a b : Nat) : Nat := add D .RNE a b
def pySub (a b : Nat) : Nat := sub D .RNE a b
def pyMul (a b : Nat) : Nat := mul D .RNE a b
/-- `a / b`: `none` = ZeroDivisionError (any dividend) -/
def pyDiv (a b : Nat) : Option Nat := if isZero D b then none else some (div D .RNE a b)
def pySqrt (a : Nat) : Nat := sqrt D .RNE a

/-- `_div_by_zero(dividend, zero)` -/
def divByZero (a b : Nat) : Nat :=
  if isZero D a || isNaN D a then D.nanBits
  else if signOf D a != signOf D b then mkBits D true D.infMag   -- copysign(1,a) * copysign(1,b) < 0
  else mkBits D false D.infMag

def fpAdd (fmt : Fmt) (_rm : RM) (a b : Nat) : Nat := lower fmt (pyAdd (lift fmt a) (lift fmt b))
def fpSub (fmt : Fmt) (_rm : RM) (a b : Nat) : Nat := lower fmt (pySub (lift fmt a) (lift fmt b))
def fpMul (fmt : Fmt) (_rm : RM) (a b : Nat) : Nat := lower fmt (pyMul (lift fmt a) (lift fmt b))
def fpDiv (fmt : Fmt) (_rm : RM) (a b : Nat) : Nat :=
  match pyDiv (lift fmt a) (lift fmt b) with
  | some r => lower fmt r
  | none => lower fmt (divByZero (lift fmt a) (lift fmt b))
/-- `if self.value < 0: nan else math.sqrt(self.value)` -/
def fpSqrt (fmt : Fmt) (_rm : RM) (a : Nat) : Nat :=
  let d := lift fmt a
  if flt D d (mkBits D false 0) then lower fmt D.nanBits else lower fmt (pySqrt d)
def fpAbs (fmt : Fmt) (a : Nat) : Nat := lower fmt (abs D (lift fmt a))
def fpNeg (fmt : Fmt) (a : Nat) : Nat := lower fmt (neg D (lift fmt a))

def fpEQ (fmt : Fmt) (a b : Nat) : Bool := feq D (lift fmt a) (lift fmt b)
def fpNEQ (fmt : Fmt) (a b : Nat) : Bool := fneq D (lift fmt a) (lift fmt b)
def fpLT (fmt : Fmt) (a b : Nat) : Bool := flt D (lift fmt a) (lift fmt b)
def fpLEQ (fmt : Fmt) (a b : Nat) : Bool := fleq D (lift fmt a) (lift fmt b)
def fpGT (fmt : Fmt) (a b : Nat) : Bool := fgt D (lift fmt a) (lift fmt b)
def fpGEQ (fmt : Fmt) (a b : Nat) : Bool := fgeq D (lift fmt a) (lift fmt b)
def fpIsNaN (fmt : Fmt) (a : Nat) : Bool := isNaN D (lift fmt a)
def fpIsInf (fmt : Fmt) (a : Nat) : Bool := isInf D (lift fmt a)

/-- `fpToFP(rm, fpv, sort)`: the Python float is passed on unchanged -/
def fpToFP_fp (src dst : Fmt) (_rm : RM) (a : Nat) : Nat := lower dst (lift src a)

/-- `float(n)` for a Python int: `none` = OverflowError -/
def pyFloatOfInt (neg : Bool) (n : Nat) : Option Nat :=
  let r := roundRat D .RNE neg n 1
  if isInf D r then none else some r

/-- `fpToFP(rm, sbvv, sort)`: `FPV(float(a2.signed), a3)` -/
def fpToFP_sbv (dst : Fmt) (_rm : RM) (w v : Nat) : Res :=
  let v := v % 2 ^ w
  let r := if v ≥ 2 ^ (w - 1) then pyFloatOfInt true (2 ^ w - v) else pyFloatOfInt false v
  match r with
  | some d => .fp dst (lower dst d)
  | none => .err "OverflowError"

/-- `fpToFPUnsigned(_rm, thing, sort)`: `FPV(float(thing.value), sort)` -/
def fpToFPUnsigned (dst : Fmt) (_rm : RM) (w v : Nat) : Res :=
  match pyFloatOfInt false (v % 2 ^ w) with
  | some d => .fp dst (lower dst d)
  | none => .err "OverflowError"

/-- `fpToFP(ubvv, sort)`: reinterpret the bits -/
def fpToFP_bv (dst : Fmt) (v : Nat) : Nat :=
  let b := v % 2 ^ dst.width
  if isNaN dst b then dst.nanBits else b

/-- `fpToIEEEBV`: `struct.pack` of the Python float in the sort's format -/
def fpToIEEEBV (fmt : Fmt) (a : Nat) : Nat := lower fmt (lift fmt a)

/-- `fpFP(sgn, exp, mantissa)` -/
def fpFP (fmt : Fmt) (sgn exp sig : Nat) : Nat :=
  let b := ofFields fmt sgn exp sig
  if isNaN fmt b then fmt.nanBits else b

/-- `fpToSBV` / `fpToUBV` (identical since the assert was removed):
`int(Decimal(fp.value).to_integral_value(rm.pydecimal_equivalent_rounding_mode()))`, NaN/inf -> 0, then `BVV(val, size)` -/
def fpToBV (fmt : Fmt) (rm : RM) (a : Nat) (size : Nat) : Nat :=
  let d := lift fmt a
  if !isFinite D d then 0
  else (decToIntegral D (Claripy.Gen.rmToDecimal rm) d % (2 ^ size : Int)).toNat

end Claripy.FP.Fold
