import Claripy.FP.Spec
/-!
# Python `decimal` rounding constants (as used by `Decimal(x).to_integral_value(rounding=...)`)

Semantics from the `decimal` documentation: the discarded part is `rem/dd` of a unit (0 ≤ rem < dd), the kept integer
magnitude is `q`, the sign is `neg`.  Trusted (validated through `fpToSBV/fpToUBV` correspondence on every run).
-/
namespace Claripy.FP

inductive DecRounding where
  | ceiling | floor | down | up | halfEven | halfUp | halfDown | r05up
  deriving DecidableEq, Repr, Inhabited

/-- does the magnitude go up by one? -/
def decRoundUp (d : DecRounding) (neg : Bool) (qOdd : Bool) (rem dd : Nat) : Bool :=
  if rem = 0 then false
  else match d with
    | .ceiling => !neg
    | .floor => neg
    | .down => false
    | .up => true
    | .halfEven => decide (2 * rem > dd) || (decide (2 * rem = dd) && qOdd)
    | .halfUp => decide (2 * rem ≥ dd)
    | .halfDown => decide (2 * rem > dd)
    | .r05up => false   -- (rounds away only if the last kept digit is 0 or 5 in base 10; never produced by claripy's table)

/-- `int(Decimal(x).to_integral_value(d))` for the finite double/float `a` (`Decimal(float)` is exact) -/
def decToIntegral (f : Fmt) (d : DecRounding) (a : Nat) : Int :=
  let neg := signOf f a
  let dd := 2 ^ f.q
  let q := sval f (magOf f a) / dd
  let n : Nat := if decRoundUp d neg (q % 2 == 1) (sval f (magOf f a) % dd) dd then q + 1 else q
  if neg then -(n : Int) else n

end Claripy.FP
