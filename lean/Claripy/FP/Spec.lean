/-!
# IEEE-754 / SMT-LIB FloatingPoint reference (soft-float over exact integers and rationals)

A float of format `f` is its bit pattern (`Nat < 2^(eb+sb)`).  Every finite value of the format is an integer multiple
of `2^-q` with `q = bias + sb - 2` (the smallest subnormal): `sval f mag` is that integer, so the real value of a finite
magnitude is `sval f mag / 2^q`.  Arithmetic is carried out exactly on these integers (sums are integers, products and
quotients are fractions `sc/den` in units of `2^-q`, square roots an integer root plus a sticky bit) and rounded ONCE by
`roundScaled` in the requested SMT-LIB rounding mode.  Only `Nat` arithmetic, closed-form, so the kernel can evaluate it.

Magnitude encoding: the low `eb+sb-1` bits of a pattern, read as a natural number `mag`, order the non-negative floats
(`mag` = biased exponent * 2^(sb-1) + trailing significand); `mag + 1` is the next float; `infMag` is infinity.
-/
namespace Claripy.FP

inductive RM where
  | RNE | RNA | RTP | RTN | RTZ
  deriving DecidableEq, Repr, Inhabited

structure Fmt where
  eb : Nat
  sb : Nat
  deriving DecidableEq, Repr, Inhabited

def binary32 : Fmt := ⟨8, 24⟩
def binary64 : Fmt := ⟨11, 53⟩

namespace Fmt
def width (f : Fmt) : Nat := f.eb + f.sb
/-- number of trailing significand bits -/
def mbits (f : Fmt) : Nat := f.sb - 1
def bias (f : Fmt) : Nat := 2 ^ (f.eb - 1) - 1
def emin (f : Fmt) : Int := 1 - (f.bias : Int)
def emax (f : Fmt) : Int := f.bias
def signBit (f : Fmt) : Nat := 2 ^ (f.width - 1)
def infMag (f : Fmt) : Nat := (2 ^ f.eb - 1) * 2 ^ f.mbits
def maxMag (f : Fmt) : Nat := f.infMag - 1
/-- a canonical quiet NaN -/
def nanBits (f : Fmt) : Nat := f.infMag + 2 ^ (f.mbits - 1)
end Fmt

/-! ## reading bit patterns -/
def signOf (f : Fmt) (b : Nat) : Bool := decide (b % 2 ^ f.width ≥ f.signBit)
def magOf (f : Fmt) (b : Nat) : Nat := b % f.signBit
def isNaN (f : Fmt) (b : Nat) : Bool := decide (magOf f b > f.infMag)
def isInf (f : Fmt) (b : Nat) : Bool := decide (magOf f b = f.infMag)
def isZero (f : Fmt) (b : Nat) : Bool := decide (magOf f b = 0)
def isFinite (f : Fmt) (b : Nat) : Bool := decide (magOf f b < f.infMag)

def mkBits (f : Fmt) (neg : Bool) (mag : Nat) : Nat := (if neg then f.signBit else 0) + mag

/-- integer significand of a finite magnitude (hidden bit included for normals) -/
def sigOf (f : Fmt) (mag : Nat) : Nat :=
  let E := mag / 2 ^ f.mbits
  let T := mag % 2 ^ f.mbits
  if E = 0 then T else 2 ^ f.mbits + T

/-- exponent of the unit in the last place of a finite magnitude: value = sigOf * 2^expOf -/
def expOf (f : Fmt) (mag : Nat) : Int :=
  let E := mag / 2 ^ f.mbits
  (max E 1 : Nat) - ((f.bias + f.mbits : Nat) : Int)

/-- all finite values are integer multiples of `2^-q` -/
def Fmt.q (f : Fmt) : Nat := f.bias + f.mbits - 1

/-- the value of a finite magnitude in units of `2^-q`: `sigOf * 2^(max E 1 - 1)` -/
def sval (f : Fmt) (mag : Nat) : Nat := sigOf f mag * 2 ^ (mag / 2 ^ f.mbits - 1)

/-- largest `floor(log2 (value * 2^q))` of a finite value -/
def Fmt.lgMax (f : Fmt) : Nat := 2 * f.bias + f.mbits - 1

/-! ## rounding a positive rational to a magnitude -/

/-- does the discarded part `rem/dd` (0 ≤ rem < dd) round the kept integer `m` up? -/
def roundUp (rm : RM) (neg : Bool) (mOdd : Bool) (rem dd : Nat) : Bool :=
  if rem = 0 then false
  else match rm with
    | .RNE => decide (2 * rem > dd) || (decide (2 * rem = dd) && mOdd)
    | .RNA => decide (2 * rem ≥ dd)
    | .RTP => !neg
    | .RTN => neg
    | .RTZ => false

/-- magnitude on overflow (the exact value exceeds every finite float) -/
def overflowMag (f : Fmt) (rm : RM) (neg : Bool) : Nat :=
  match rm with
  | .RNE | .RNA => f.infMag
  | .RTP => if neg then f.maxMag else f.infMag
  | .RTN => if neg then f.infMag else f.maxMag
  | .RTZ => f.maxMag

/-- Round the positive rational `x = (sc/den) * 2^-q` (`sc, den > 0`), carrying sign `neg`, to a magnitude of `f`.
`lg = max (floor (log2 (sc/den))) mbits`; `sh = lg - mbits` is the exponent of the quantum (in units of `2^-q`) and at the
same time the biased exponent minus one (0 for subnormals); `m` is the integer significand, `rem/dd` the discarded part. -/
def roundScaled (f : Fmt) (rm : RM) (neg : Bool) (sc den : Nat) : Nat :=
  let lg := max (Nat.log2 (sc / den)) f.mbits
  if lg > f.lgMax then overflowMag f rm neg
  else
    let sh := lg - f.mbits
    let dd := den * 2 ^ sh
    let m := sc / dd
    let rem := sc % dd
    let m' := if roundUp rm neg (m % 2 == 1) rem dd then m + 1 else m
    sh * 2 ^ f.mbits + m'

/-- round `(-1)^neg * (sc/den) * 2^-q`; zero keeps the given sign -/
def roundS (f : Fmt) (rm : RM) (neg : Bool) (sc den : Nat) : Nat :=
  if sc = 0 then mkBits f neg 0 else mkBits f neg (roundScaled f rm neg sc den)

/-- round the rational `(-1)^neg * num/den` -/
def roundRat (f : Fmt) (rm : RM) (neg : Bool) (num den : Nat) : Nat := roundS f rm neg (num * 2 ^ f.q) den

/-! ## operations -/

def neg (f : Fmt) (a : Nat) : Nat := if signOf f a then magOf f a else f.signBit + magOf f a
def abs (f : Fmt) (a : Nat) : Nat := magOf f a

/-- signed value of a finite pattern in units of `2^-q` -/
def sintOf (f : Fmt) (a : Nat) : Int :=
  if signOf f a then -(sval f (magOf f a) : Int) else (sval f (magOf f a) : Int)

def add (f : Fmt) (rm : RM) (a b : Nat) : Nat :=
  if isNaN f a || isNaN f b then f.nanBits
  else if isInf f a then
    (if isInf f b && signOf f a != signOf f b then f.nanBits else mkBits f (signOf f a) f.infMag)
  else if isInf f b then mkBits f (signOf f b) f.infMag
  else
    let S : Int := sintOf f a + sintOf f b
    if S = 0 then
      -- exact zero: same-signed operands keep the sign, otherwise +0 (−0 when rounding toward −∞)
      if signOf f a == signOf f b then mkBits f (signOf f a) 0
      else mkBits f (decide (rm = .RTN)) 0
    else roundS f rm (decide (S < 0)) S.natAbs 1

def sub (f : Fmt) (rm : RM) (a b : Nat) : Nat :=
  if isNaN f b then f.nanBits else add f rm a (neg f b)

def mul (f : Fmt) (rm : RM) (a b : Nat) : Nat :=
  let s := signOf f a != signOf f b
  if isNaN f a || isNaN f b then f.nanBits
  else if isInf f a || isInf f b then
    (if isZero f a || isZero f b then f.nanBits else mkBits f s f.infMag)
  else roundS f rm s (sval f (magOf f a) * sval f (magOf f b)) (2 ^ f.q)

def div (f : Fmt) (rm : RM) (a b : Nat) : Nat :=
  let s := signOf f a != signOf f b
  if isNaN f a || isNaN f b then f.nanBits
  else if isInf f a then (if isInf f b then f.nanBits else mkBits f s f.infMag)
  else if isInf f b then mkBits f s 0
  else if isZero f b then (if isZero f a then f.nanBits else mkBits f s f.infMag)
  else roundS f rm s (sval f (magOf f a) * 2 ^ f.q) (sval f (magOf f b))

def sqrt (f : Fmt) (rm : RM) (a : Nat) : Nat :=
  if isNaN f a then f.nanBits
  else if isZero f a then a % 2 ^ f.width
  else if signOf f a then f.nanBits
  else if isInf f a then mkBits f false f.infMag
  else
    -- sqrt(value) * 2^q = sqrt(sval * 2^q); widen by 2k bits so that the integer root has more than sb+2 bits
    let k := f.sb + 2
    let n := sval f (magOf f a) * 2 ^ f.q * 4 ^ k
    let r := Nat.sqrt n
    let sticky := if r * r = n then 0 else 1
    -- sqrt = (r + δ) / 2^k with 0 ≤ δ < 1; one more bit carries "δ > 0"
    roundS f rm false (2 * r + sticky) (2 ^ (k + 1))

/-- comparison of two non-NaN values (infinities included) -/
def cmp (f : Fmt) (a b : Nat) : Ordering :=
  if isInf f a then
    (if isInf f b then compare (if signOf f a then (0 : Nat) else 1) (if signOf f b then 0 else 1)
     else if signOf f a then .lt else .gt)
  else if isInf f b then (if signOf f b then .gt else .lt)
  else compare (sintOf f a) (sintOf f b)

def unordered (f : Fmt) (a b : Nat) : Bool := isNaN f a || isNaN f b
def feq (f : Fmt) (a b : Nat) : Bool := !unordered f a b && cmp f a b == .eq
def fneq (f : Fmt) (a b : Nat) : Bool := !feq f a b
def flt (f : Fmt) (a b : Nat) : Bool := !unordered f a b && cmp f a b == .lt
def fleq (f : Fmt) (a b : Nat) : Bool := !unordered f a b && cmp f a b != .gt
def fgt (f : Fmt) (a b : Nat) : Bool := flt f b a
def fgeq (f : Fmt) (a b : Nat) : Bool := fleq f b a

/-! ## conversions -/

/-- `(_ to_fp eb sb) rm x` between formats -/
def cvt (src dst : Fmt) (rm : RM) (a : Nat) : Nat :=
  if isNaN src a then dst.nanBits
  else if isInf src a then mkBits dst (signOf src a) dst.infMag
  else roundS dst rm (signOf src a) (sval src (magOf src a) * 2 ^ dst.q) (2 ^ src.q)

/-- `(_ to_fp eb sb) rm (x : signed bit-vector of width w)`; `v` is the unsigned value of the bit pattern -/
def ofSBV (f : Fmt) (rm : RM) (w v : Nat) : Nat :=
  let v := v % 2 ^ w
  if v ≥ 2 ^ (w - 1) then roundRat f rm true (2 ^ w - v) 1 else roundRat f rm false v 1

/-- `(_ to_fp_unsigned eb sb) rm x` -/
def ofUBV (f : Fmt) (rm : RM) (w v : Nat) : Nat := roundRat f rm false (v % 2 ^ w) 1

/-- magnitude of a finite float rounded to an integer (`fp.roundToIntegral` as an exact integer) -/
def toIntegralMag (f : Fmt) (rm : RM) (neg : Bool) (mag : Nat) : Nat :=
  let dd := 2 ^ f.q
  let q := sval f mag / dd
  if roundUp rm neg (q % 2 == 1) (sval f mag % dd) dd then q + 1 else q

def toIntegral (f : Fmt) (rm : RM) (a : Nat) : Int :=
  let n := toIntegralMag f rm (signOf f a) (magOf f a)
  if signOf f a then -(n : Int) else n

/-- `fp.to_sbv`: `none` where SMT-LIB leaves the result unspecified (NaN, infinity, out of range) -/
def toSBV (f : Fmt) (rm : RM) (a : Nat) (w : Nat) : Option Nat :=
  if !isFinite f a then none
  else
    let n := toIntegral f rm a
    if -(2 ^ (w - 1) : Int) ≤ n ∧ n ≤ 2 ^ (w - 1) - 1 then some (n % (2 ^ w : Int)).toNat else none

/-- `fp.to_ubv` -/
def toUBV (f : Fmt) (rm : RM) (a : Nat) (w : Nat) : Option Nat :=
  if !isFinite f a then none
  else
    let n := toIntegral f rm a
    if 0 ≤ n ∧ n ≤ 2 ^ w - 1 then some n.toNat else none

/-- `fp.to_ieee_bv` (claripy's `fpToIEEEBV`): `none` for NaN (the payload is unspecified) -/
def toIEEE (f : Fmt) (a : Nat) : Option Nat := if isNaN f a then none else some (a % 2 ^ f.width)

/-- `(fp sgn exp sig)` -/
def ofFields (f : Fmt) (sgn exp sig : Nat) : Nat :=
  (sgn % 2) * f.signBit + (exp % 2 ^ f.eb) * 2 ^ f.mbits + sig % 2 ^ f.mbits

end Claripy.FP
