/-!
# IEEE-754 / SMT-LIB FloatingPoint reference (soft-float over exact integers and rationals)

A float of format `f` is its bit pattern (`Nat < 2^(eb+sb)`).  A finite value is `(-1)^neg * m * 2^e` with `m : Nat`,
`e : Int` — arithmetic is carried out exactly on such values (sums and products are dyadic, quotients are kept as
`num/den`, square roots as an integer root plus a sticky bit) and rounded ONCE by `roundMag` in the requested SMT-LIB
rounding mode.  Everything is structural / closed-form so that the kernel can evaluate it (`decide`).

Magnitude encoding: the low `eb+sb-1` bits of a pattern, read as a natural number `mag`, order the non-negative floats
(`mag` = biased exponent * 2^(sb-1) + trailing significand); `mag + 1` is the next float; `infMag` is infinity.
-/
namespace Claripy.FP

inductive RM where
  | RNE | RNA | RTP | RTN | RTZ
  deriving DecidableEq, Repr, Inhabited

structure Fmt where
  eb : Nat
  sb : Nat
  deriving DecidableEq, Repr, Inhabited

def binary32 : Fmt := ⟨8, 24⟩
def binary64 : Fmt := ⟨11, 53⟩

namespace Fmt
def width (f : Fmt) : Nat := f.eb + f.sb
/-- number of trailing significand bits -/
def mbits (f : Fmt) : Nat := f.sb - 1
def bias (f : Fmt) : Nat := 2 ^ (f.eb - 1) - 1
def emin (f : Fmt) : Int := 1 - (f.bias : Int)
def emax (f : Fmt) : Int := f.bias
def signBit (f : Fmt) : Nat := 2 ^ (f.width - 1)
def infMag (f : Fmt) : Nat := (2 ^ f.eb - 1) * 2 ^ f.mbits
def maxMag (f : Fmt) : Nat := f.infMag - 1
/-- a canonical quiet NaN -/
def nanBits (f : Fmt) : Nat := f.infMag + 2 ^ (f.mbits - 1)
end Fmt

/-! ## reading bit patterns -/
def signOf (f : Fmt) (b : Nat) : Bool := decide (b % 2 ^ f.width ≥ f.signBit)
def magOf (f : Fmt) (b : Nat) : Nat := b % f.signBit
def isNaN (f : Fmt) (b : Nat) : Bool := decide (magOf f b > f.infMag)
def isInf (f : Fmt) (b : Nat) : Bool := decide (magOf f b = f.infMag)
def isZero (f : Fmt) (b : Nat) : Bool := decide (magOf f b = 0)
def isFinite (f : Fmt) (b : Nat) : Bool := decide (magOf f b < f.infMag)

def mkBits (f : Fmt) (neg : Bool) (mag : Nat) : Nat := (if neg then f.signBit else 0) + mag

/-- integer significand of a finite magnitude (hidden bit included for normals) -/
def sigOf (f : Fmt) (mag : Nat) : Nat :=
  let E := mag / 2 ^ f.mbits
  let T := mag % 2 ^ f.mbits
  if E = 0 then T else 2 ^ f.mbits + T

/-- exponent of the unit in the last place of a finite magnitude: value = sigOf * 2^expOf -/
def expOf (f : Fmt) (mag : Nat) : Int :=
  let E := mag / 2 ^ f.mbits
  (max E 1 : Nat) - ((f.bias + f.mbits : Nat) : Int)

/-! ## rounding a positive rational to a magnitude -/

/-- `floor (log2 (num/den))` for `num, den > 0` -/
def ilog2 (num den : Nat) : Int :=
  let e0 : Int := (num.log2 : Int) - (den.log2 : Int)
  -- num/den ≥ 2^e0 ?
  let ge : Bool := if e0 ≥ 0 then decide (num ≥ den * 2 ^ e0.toNat) else decide (num * 2 ^ (-e0).toNat ≥ den)
  if ge then e0 else e0 - 1

/-- does the discarded part `rem/dd` (0 ≤ rem < dd) round the kept integer `m` up? -/
def roundUp (rm : RM) (neg : Bool) (mOdd : Bool) (rem dd : Nat) : Bool :=
  if rem = 0 then false
  else match rm with
    | .RNE => decide (2 * rem > dd) || (decide (2 * rem = dd) && mOdd)
    | .RNA => decide (2 * rem ≥ dd)
    | .RTP => !neg
    | .RTN => neg
    | .RTZ => false

/-- magnitude on overflow (the exact value exceeds every finite float) -/
def overflowMag (f : Fmt) (rm : RM) (neg : Bool) : Nat :=
  match rm with
  | .RNE | .RNA => f.infMag
  | .RTP => if neg then f.maxMag else f.infMag
  | .RTN => if neg then f.infMag else f.maxMag
  | .RTZ => f.maxMag

/-- quotient and remainder of `num/den` at the quantum `2^qe`: `num/den = (m + rem/dd) * 2^qe` -/
def scaleDiv (num den : Nat) (qe : Int) : Nat × Nat × Nat :=
  if qe ≥ 0 then
    let dd := den * 2 ^ qe.toNat
    (num / dd, num % dd, dd)
  else
    let nn := num * 2 ^ (-qe).toNat
    (nn / den, nn % den, den)

/-- round the positive rational `num/den` (`num, den > 0`), carrying sign `neg`, to a magnitude of format `f` -/
def roundMag (f : Fmt) (rm : RM) (neg : Bool) (num den : Nat) : Nat :=
  let e := ilog2 num den
  if e > f.emax then overflowMag f rm neg
  else
    let ee : Int := max e f.emin
    let qe : Int := ee - (f.mbits : Int)
    let (m, rem, dd) := scaleDiv num den qe
    let m' := if roundUp rm neg (m % 2 == 1) rem dd then m + 1 else m
    (ee - f.emin).toNat * 2 ^ f.mbits + m'

/-- round `(-1)^neg * num/den`; zero keeps the given sign -/
def roundRat (f : Fmt) (rm : RM) (neg : Bool) (num den : Nat) : Nat :=
  if num = 0 then mkBits f neg 0 else mkBits f neg (roundMag f rm neg num den)

/-- round `(-1)^neg * m * 2^e` -/
def roundDyadic (f : Fmt) (rm : RM) (neg : Bool) (m : Nat) (e : Int) : Nat :=
  if e ≥ 0 then roundRat f rm neg (m * 2 ^ e.toNat) 1 else roundRat f rm neg m (2 ^ (-e).toNat)

/-! ## operations -/

def neg (f : Fmt) (a : Nat) : Nat := if signOf f a then magOf f a else f.signBit + magOf f a
def abs (f : Fmt) (a : Nat) : Nat := magOf f a

/-- signed integer `S` with `value a = S * 2^(expOf a)` for finite `a` -/
def sintOf (f : Fmt) (a : Nat) : Int :=
  if signOf f a then -(sigOf f (magOf f a) : Int) else (sigOf f (magOf f a) : Int)

def add (f : Fmt) (rm : RM) (a b : Nat) : Nat :=
  if isNaN f a || isNaN f b then f.nanBits
  else if isInf f a then
    (if isInf f b && signOf f a != signOf f b then f.nanBits else mkBits f (signOf f a) f.infMag)
  else if isInf f b then mkBits f (signOf f b) f.infMag
  else
    let ea := expOf f (magOf f a)
    let eb := expOf f (magOf f b)
    let e := min ea eb
    let S : Int := sintOf f a * 2 ^ (ea - e).toNat + sintOf f b * 2 ^ (eb - e).toNat
    if S = 0 then
      -- exact zero: same-signed operands keep the sign, otherwise +0 (−0 when rounding toward −∞)
      if signOf f a == signOf f b then mkBits f (signOf f a) 0
      else mkBits f (decide (rm = .RTN)) 0
    else roundDyadic f rm (decide (S < 0)) S.natAbs e

def sub (f : Fmt) (rm : RM) (a b : Nat) : Nat :=
  if isNaN f b then f.nanBits else add f rm a (neg f b)

def mul (f : Fmt) (rm : RM) (a b : Nat) : Nat :=
  let s := signOf f a != signOf f b
  if isNaN f a || isNaN f b then f.nanBits
  else if isInf f a || isInf f b then
    (if isZero f a || isZero f b then f.nanBits else mkBits f s f.infMag)
  else
    let m := sigOf f (magOf f a) * sigOf f (magOf f b)
    if m = 0 then mkBits f s 0
    else roundDyadic f rm s m (expOf f (magOf f a) + expOf f (magOf f b))

def div (f : Fmt) (rm : RM) (a b : Nat) : Nat :=
  let s := signOf f a != signOf f b
  if isNaN f a || isNaN f b then f.nanBits
  else if isInf f a then (if isInf f b then f.nanBits else mkBits f s f.infMag)
  else if isInf f b then mkBits f s 0
  else if isZero f b then (if isZero f a then f.nanBits else mkBits f s f.infMag)
  else if isZero f a then mkBits f s 0
  else
    let d : Int := expOf f (magOf f a) - expOf f (magOf f b)
    roundRat f rm s (sigOf f (magOf f a) * 2 ^ d.toNat) (sigOf f (magOf f b) * 2 ^ (-d).toNat)

def sqrt (f : Fmt) (rm : RM) (a : Nat) : Nat :=
  if isNaN f a then f.nanBits
  else if isZero f a then a % 2 ^ f.width
  else if signOf f a then f.nanBits
  else if isInf f a then mkBits f false f.infMag
  else
    let m0 := sigOf f (magOf f a)
    let e0 := expOf f (magOf f a)
    -- make the exponent even, then widen by 2k bits so that the integer root has at least sb+2 bits
    let odd := e0 % 2 != 0
    let m1 := if odd then 2 * m0 else m0
    let e1 : Int := if odd then e0 - 1 else e0
    let k := f.sb + 2
    let n := m1 * 4 ^ k
    let r := Nat.sqrt n
    let sticky := if r * r = n then 0 else 1
    -- sqrt = (r + δ) * 2^(e1/2 - k), 0 ≤ δ < 1; one more bit carries "δ > 0"
    roundDyadic f rm false (2 * r + sticky) (e1 / 2 - (k : Int) - 1)

/-- three-way comparison of two finite values -/
def cmpFinite (f : Fmt) (a b : Nat) : Ordering :=
  let ea := expOf f (magOf f a)
  let eb := expOf f (magOf f b)
  let e := min ea eb
  compare (sintOf f a * 2 ^ (ea - e).toNat) (sintOf f b * 2 ^ (eb - e).toNat)

/-- comparison of two non-NaN values (infinities included) -/
def cmp (f : Fmt) (a b : Nat) : Ordering :=
  if isInf f a then
    (if isInf f b then compare (if signOf f a then (0 : Nat) else 1) (if signOf f b then 0 else 1)
     else if signOf f a then .lt else .gt)
  else if isInf f b then (if signOf f b then .gt else .lt)
  else cmpFinite f a b

def unordered (f : Fmt) (a b : Nat) : Bool := isNaN f a || isNaN f b
def feq (f : Fmt) (a b : Nat) : Bool := !unordered f a b && cmp f a b == .eq
def fneq (f : Fmt) (a b : Nat) : Bool := !feq f a b
def flt (f : Fmt) (a b : Nat) : Bool := !unordered f a b && cmp f a b == .lt
def fleq (f : Fmt) (a b : Nat) : Bool := !unordered f a b && cmp f a b != .gt
def fgt (f : Fmt) (a b : Nat) : Bool := flt f b a
def fgeq (f : Fmt) (a b : Nat) : Bool := fleq f b a

/-! ## conversions -/

/-- `(_ to_fp eb sb) rm x` between formats -/
def cvt (src dst : Fmt) (rm : RM) (a : Nat) : Nat :=
  if isNaN src a then dst.nanBits
  else if isInf src a then mkBits dst (signOf src a) dst.infMag
  else roundDyadic dst rm (signOf src a) (sigOf src (magOf src a)) (expOf src (magOf src a))

/-- `(_ to_fp eb sb) rm (x : signed bit-vector of width w)`; `v` is the unsigned value of the bit pattern -/
def ofSBV (f : Fmt) (rm : RM) (w v : Nat) : Nat :=
  let v := v % 2 ^ w
  if v ≥ 2 ^ (w - 1) then roundRat f rm true (2 ^ w - v) 1 else roundRat f rm false v 1

/-- `(_ to_fp_unsigned eb sb) rm x` -/
def ofUBV (f : Fmt) (rm : RM) (w v : Nat) : Nat := roundRat f rm false (v % 2 ^ w) 1

/-- round a finite float to an integer (`fp.roundToIntegral` as an exact integer) -/
def toIntegral (f : Fmt) (rm : RM) (a : Nat) : Int :=
  let neg := signOf f a
  let m := sigOf f (magOf f a)
  let e := expOf f (magOf f a)
  let n : Nat :=
    if e ≥ 0 then m * 2 ^ e.toNat
    else
      let dd := 2 ^ (-e).toNat
      let q := m / dd
      if roundUp rm neg (q % 2 == 1) (m % dd) dd then q + 1 else q
  if neg then -(n : Int) else n

/-- `fp.to_sbv`: `none` where SMT-LIB leaves the result unspecified (NaN, infinity, out of range) -/
def toSBV (f : Fmt) (rm : RM) (a : Nat) (w : Nat) : Option Nat :=
  if !isFinite f a then none
  else
    let n := toIntegral f rm a
    if -(2 ^ (w - 1) : Int) ≤ n ∧ n ≤ 2 ^ (w - 1) - 1 then some (n % (2 ^ w : Int)).toNat else none

/-- `fp.to_ubv` -/
def toUBV (f : Fmt) (rm : RM) (a : Nat) (w : Nat) : Option Nat :=
  if !isFinite f a then none
  else
    let n := toIntegral f rm a
    if 0 ≤ n ∧ n ≤ 2 ^ w - 1 then some n.toNat else none

/-- `fp.to_ieee_bv` (claripy's `fpToIEEEBV`): `none` for NaN (the payload is unspecified) -/
def toIEEE (f : Fmt) (a : Nat) : Option Nat := if isNaN f a then none else some (a % 2 ^ f.width)

/-- `(fp sgn exp sig)` -/
def ofFields (f : Fmt) (sgn exp sig : Nat) : Nat :=
  (sgn % 2) * f.signBit + (exp % 2 ^ f.eb) * 2 ^ f.mbits + sig % 2 ^ f.mbits

end Claripy.FP
