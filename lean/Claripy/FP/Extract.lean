import Claripy.FP.Fold
/-!
# Floats coming out of Z3 (backend_z3.py: `_abstract_fp_val`, `_abstract_fp_encoded_val`)

For a finite non-zero numeral Z3 reports a sign, the significand as a DECIMAL STRING of the rational `sig / 2^(sb-1)`
(`1.5`, `0.00000011920928955078125` for a binary32 subnormal) and the unbiased exponent (`emin` for subnormals).  claripy
computes `fp_sign * float(sig_string) * (2 ** fp_exp)` with Python floats: three binary64 operations.
-/
namespace Claripy.FP.Extract
open Claripy.FP Claripy.FP.Fold

/-- `float(decimal string of num/den)`: correctly rounded binary64 -/
def pyFloatOfRat (num den : Nat) : Nat := roundRat D .RNE false num den

/-- `2 ** e` for `e = hi - lo` as the float it becomes in the product: an `int` for `e ≥ 0` (converted exactly), a float for `e < 0` -/
def pyPow2 (hi lo : Nat) : Nat :=
  if hi ≥ lo then roundRat D .RNE false (2 ^ (hi - lo)) 1 else roundRat D .RNE false 1 (2 ^ (lo - hi))

/-- `_abstract_fp_val` → the Python float (binary64 bits) returned for a numeral with bit pattern `b` of format `f`.
Z3 reports the unbiased exponent `max E 1 - bias` (`emin` for subnormals) and the significand `sig / 2^(sb-1)`. -/
def abstractFpVal (f : Fmt) (b : Nat) : Nat :=
  if isNaN f b then D.nanBits
  else if isInf f b then mkBits D (signOf f b) D.infMag
  else if isZero f b then mkBits D (signOf f b) 0
  else
    let mant := pyFloatOfRat (sigOf f (magOf f b)) (2 ^ f.mbits)
    let sm := if signOf f b then neg D mant else mant          -- `fp_sign * fp_mantissa` (±1 * float)
    pyMul sm (pyPow2 (max (magOf f b / 2 ^ f.mbits) 1) f.bias)  -- `* (2 ** fp_exp)`

/-- `_abstract_fp_encoded_val`: sign, biased exponent and trailing significand fields reassembled -/
def abstractFpEncodedVal (f : Fmt) (b : Nat) : Nat :=
  let sgn := if signOf f b then 1 else 0
  let mag := magOf f b
  if isNaN f b then (0 <<< (f.eb + f.mbits)) ||| ((2 ^ f.eb - 1) <<< f.mbits) ||| 1
  else (sgn <<< (f.eb + f.mbits)) ||| ((mag / 2 ^ f.mbits) <<< f.mbits) ||| (mag % 2 ^ f.mbits)

end Claripy.FP.Extract
