import Claripy.Solver.Ops
/-
L2: claripy/frontend/constrained_frontend.py and full_frontend.py as layers.
-/
namespace Claripy.Solver

/-- `ConstrainedFrontend._add` loop -/
def constrainedAddLoop : List Con → Frontend → List Con → Frontend × List Con
  | [], fe, added => (fe, added)
  | con :: rest, fe, added =>
    if fe.woAnnot.contains con.id then constrainedAddLoop rest fe added
    else constrainedAddLoop rest
      { fe with woAnnot := listInsert fe.woAnnot con.id,
                constraints := fe.constraints ++ [con],
                variables := listUnion fe.variables con.vars }
      (added ++ [con])

def constrainedLayer (E : Env) : Layer := fun _self sup =>
  { sup with
    add := fun cs _inv => fun s =>
      let (fe', added) := constrainedAddLoop cs s.fe []
      (.ok added, { s with fe := fe' })
    simplify := do
      let fe ← M.getFe
      -- no SimplificationAvoidanceAnnotation in the modelled alphabets: everything is simplified
      if fe.constraints.isEmpty then pure fe.constraints
      else do
        let s ← M.get
        let out := E.simp fe.constraints s.tick
        M.modify fun s => { s with tick := s.tick + 1, fe := { s.fe with constraints := out } }
        pure out
    downsize := pure ()
    blankCopy := fun self c =>
      let c := sup.blankCopy self c
      { c with constraints := [], woAnnot := [], variables := [], finalized := false }
    copy := fun c => do
      let c ← sup.copy c
      let fe ← M.getFe
      let c := { c with constraints := fe.constraints, woAnnot := fe.woAnnot, variables := fe.variables }
      M.modifyFe fun fe => { fe with finalized := true }     -- self.finalize()
      pure { c with finalized := true }                        -- c.finalize()
  }

/-- `FullFrontend._add_constraints` -/
def addConstraints : M Unit := do
  let fe ← M.getFe
  z3Add (fe.solver.getD 0) (fe.constraints.map ZCon.ofCon) fe.track
  M.modifyFe fun fe => { fe with toAdd := [] }

/-- `FullFrontend._get_solver` -/
def getSolver : M Nat := do
  let fe ← M.getFe
  if fe.solver.isNone then
    let r ← backendSolver
    M.modifyFe fun fe => { fe with solver := some r }
    addConstraints
  else if fe.finalized && !fe.toAdd.isEmpty then
    -- BackendZ3 has clone_solver; not used with reuse_z3_solver nor for tracked frontends
    let s ← M.get
    let r ← if s.reuse || fe.track then backendSolver else cloneSolver (fe.solver.getD 0)
    M.modifyFe fun fe => { fe with solver := some r }
    addConstraints
  let fe ← M.getFe
  if !fe.toAdd.isEmpty then addConstraints
  let s ← M.get
  if s.reuse then
    let r ← backendSolver
    M.modifyFe fun fe => { fe with solver := some r }
    addConstraints
  let fe ← M.getFe
  pure (fe.solver.getD 0)

/-- anonymous assumption built by `claripy.SLE/ULE/SGE/UGE(e, v)` in FullFrontend.min/max -/
def cmpCon (signed ge : Bool) (e : Exp) (v : Nat) : Con :=
  { id := 0, vars := e.vars,
    sem := fun a => if ge then geSem signed e (v : Int) a else leSem signed e (v : Int) a }

def fullExtremum (E : Env) (self : Ops) (isMax : Bool) (e : Exp) (extra : List Con) (signed : Bool) : M Int := do
  if !(← self.satisfiable extra) then M.throw .unsat
  let two ← self.eval e 2 extra
  match two with
  | [] => M.throw .unsat
  | [v] => pure (v : Int)
  | v0 :: v1 :: _ => do
      let c := extra ++ [cmpCon signed isMax e v0, cmpCon signed isMax e v1]
      let r ← getSolver
      z3Extrema E r isMax e (c.map ZCon.ofCon) signed self.modelHook

def fullLayer (E : Env) : Layer := fun self sup =>
  { sup with
    add := fun cs _inv => do
      let toAdd ← sup.add cs true
      M.modifyFe fun fe => { fe with toAdd := fe.toAdd ++ toAdd }
      pure toAdd
    simplify := do
      let _ ← sup.simplify
      M.modifyFe fun fe => { fe with solver := none, toAdd := [] }
      let fe ← M.getFe
      pure fe.constraints
    satisfiable := fun extra => do
      let r ← getSolver
      z3Satisfiable E r (extra.map ZCon.ofCon) self.modelHook
    eval := fun e n extra => do
      let r ← getSolver
      let res ← z3BatchEval E r [e] n (extra.map ZCon.ofCon) self.modelHook
      let res := res.map fun t => t.headD 0
      if res.isEmpty then M.throw .unsat else pure res
    batchEval := fun es n extra => do
      let r ← getSolver
      let res ← z3BatchEval E r es n (extra.map ZCon.ofCon) self.modelHook
      if res.isEmpty then M.throw .unsat else pure res
    max := fun e extra signed => fullExtremum E self true e extra signed
    min := fun e extra signed => fullExtremum E self false e extra signed
    solution := fun e v extra => do
      let r ← getSolver
      z3Solution E r e v (extra.map ZCon.ofCon) self.modelHook
    isTrue := fun c _extra => do
      let _ ← getSolver
      let s ← M.get
      M.modify fun s => { s with tick := s.tick + 1 }
      pure (E.truth true c s.tick)
    isFalse := fun c _extra => do
      let _ ← getSolver
      let s ← M.get
      M.modify fun s => { s with tick := s.tick + 1 }
      pure (E.truth false c s.tick)
    unsatCore := fun extra => do
      if ← self.satisfiable extra then pure []
      else do
        let r ← getSolver
        let _ ← z3Satisfiable E r (extra.map ZCon.ofCon) (fun _ => pure ())
        let ids ← z3UnsatCore r
        let fe ← M.getFe
        -- `_abstract` finds the claripy AST through `_ast_cache`, filled by `add(track=True)`
        pure (ids.filterMap fun i => fe.constraints.find? fun c => c.zid == i)
    downsize := do
      sup.downsize
      M.modifyFe fun fe => { fe with solver := none, toAdd := [] }
    modelHook := fun _ => pure ()
    blankCopy := fun self c =>
      let c := sup.blankCopy self c
      { c with track := self.track, solver := none, toAdd := [] }
    copy := fun c => do
      let c ← sup.copy c
      let fe ← M.getFe
      pure { c with track := fe.track, solver := fe.solver, toAdd := fe.toAdd }
  }

end Claripy.Solver
