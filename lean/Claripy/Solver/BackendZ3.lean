import Claripy.Solver.Monad
/-
L1: the solver-object algorithms of claripy/backends/backend_z3.py, transcribed over the L0 oracle.
  z3_solver_sat, _satisfiable, _batch_eval (push / blocking clauses / pop-in-finally), _extrema (binary search,
  both signednesses), _solution, solver(), clone_solver, _add (plain and tracked), _unsat_core.
`hook` is the `model_callback` argument (the frontend's `_model_hook`).
-/
namespace Claripy.Solver


def getObj (r : Nat) : M Z3Obj := fun s => (.ok (s.objs.getD r {}), s)

def setObj (r : Nat) (o : Z3Obj) : M Unit := M.modify fun s => { s with objs := s.objs.set r o }

/-- `z3.Solver(ctx=...)` -/
def newObj : M Nat := fun s => (.ok s.objs.length, { s with objs := s.objs ++ [({} : Z3Obj)] })

/-- `BackendZ3.solver()` -/
def backendSolver : M Nat := do
  let s ← M.get
  if !s.reuse || s.shared.isNone then
    let r ← newObj
    if s.reuse then M.modify fun s => { s with shared := some r }
    pure r
  else
    let r := s.shared.getD 0
    setObj r {}          -- s.reset()
    pure r

/-- `BackendZ3.clone_solver`: `s.translate(ctx)` copies assertions and scopes -/
def cloneSolver (r : Nat) : M Nat := do
  let o ← getObj r
  fun s => (.ok s.objs.length, { s with objs := s.objs ++ [{ o with lastCore := [] }] })

def Z3Obj.addTop (o : Z3Obj) (cs : List ZCon) : Z3Obj :=
  match o.frames with
  | [] => { o with frames := [cs] }
  | f :: rest => { o with frames := (f ++ cs) :: rest }

/-- names already used for tracking: `{str(impl.children()[0]) for impl in s.assertions()}`; the name of a
constraint is its Z3 AST id, i.e. its identity -/
def Z3Obj.trackedNames (o : Z3Obj) : List ZTag := o.asserted.map (·.tag)

/-- `BackendZ3._add(s, c, track)` -/
def z3Add (r : Nat) (cs : List ZCon) (track : Bool) : M Unit := do
  let o ← getObj r
  if track then
    let fresh := cs.foldl (fun (acc : List ZCon) c =>
      if (o.trackedNames ++ acc.map (·.tag)).contains c.tag then acc else acc ++ [c]) []
    setObj r (o.addTop fresh)
  else
    setObj r (o.addTop cs)

def z3Push (r : Nat) : M Unit := do
  let o ← getObj r
  setObj r { o with frames := [] :: o.frames }

def z3Pop (r : Nat) : M Unit := do
  let o ← getObj r
  setObj r { o with frames := match o.frames with | [] => [] | [f] => [f] | _ :: rest => rest }

/-- `z3_solver_sat(solver, extra_constraints, occasion)`: `unknown` raises; otherwise the model of a `sat`
answer (values for all variables, mentioned constants) or `none` -/
def z3Check (E : Env) (r : Nat) (assumptions : List ZCon) : M (Option (List Nat × List Var)) := do
  let o ← getObj r
  let s ← M.get
  let q : Query := { asserted := o.asserted, assumptions := assumptions }
  let ans := E.oracle q s.tick
  M.modify fun s => { s with tick := s.tick + 1, qlog := (q, ans) :: s.qlog }
  match ans with
  | .unknown => M.throw .giveUp
  | .unsat core => do
      setObj r { o with lastCore := core }
      pure none
  | .sat vals keys => do
      setObj r { o with lastCore := [] }
      pure (some (vals, keys))

/-- `_satisfiable` -/
def z3Satisfiable (E : Env) (r : Nat) (extra : List ZCon) (hook : PModel → M Unit) : M Bool := do
  match ← z3Check E r extra with
  | none => pure false
  | some (vals, keys) => do
      hook (PModel.ofKeys vals keys)
      pure true

def blocking (exprs : List Exp) (rv : List Nat) : ZCon :=
  match exprs, rv with
  | [e], [v] => ⟨.ne e.id v, fun a => decide (e.val a ≠ v)⟩
  | _, _ => ⟨.notAll ((exprs.map (·.id)).zip rv),
             fun a => !((exprs.zip rv).all fun ev => decide (ev.1.val a = ev.2))⟩

/-- the `for i in range(n)` loop of `_batch_eval`; `rem = n - i` -/
def batchEvalLoop (E : Env) (r : Nat) (exprs : List Exp) (extra : List ZCon) (hook : PModel → M Unit) :
    (rem : Nat) → (acc : List (List Nat)) → M (List (List Nat))
  | 0, acc => pure acc.reverse
  | rem + 1, acc => do
      match ← z3Check E r extra with
      | none => pure acc.reverse
      | some (vals, keys) => do
          let rv := exprs.map fun e => e.val (asgOf vals)
          -- NB `_primitive_from_model` evaluates with model_completion=True, which adds constants of `expr` the
          -- Z3 model did not mention (those its lazy evaluator visits, with Z3's default 0) to the very model
          -- object `_generic_model(solver.model())` reads afterwards: `keys` of the oracle answer is the key set
          -- at THAT moment (recorded there by the harness)
          hook (PModel.ofKeys vals keys)
          if rem ≠ 0 then
            let o ← getObj r
            setObj r (o.addTop [blocking exprs rv])      -- solver.add(...)
          batchEvalLoop E r exprs extra hook rem (rv :: acc)

/-- `_batch_eval` (with the pop in a `finally`) -/
def z3BatchEval (E : Env) (r : Nat) (exprs : List Exp) (n : Nat) (extra : List ZCon)
    (hook : PModel → M Unit) : M (List (List Nat)) := do
  if n > 1 then z3Push r
  M.tryFinally (batchEvalLoop E r exprs extra hook n [])
    (if n > 1 then z3Pop r else pure ())

/-- `GE`/`LE` of `_extrema`: Python's `>=`/`<=` on Z3 bit-vectors are the signed comparisons, `z3.UGE/ULE` the
unsigned ones; the Python int operand is coerced modulo 2^bits -/
def geSem (signed : Bool) (e : Exp) (m : Int) (a : Asg) : Bool :=
  if signed then decide (toSigned e.bits (e.val a) ≥ toSigned e.bits (wrap e.bits m))
  else decide (e.val a ≥ wrap e.bits m)

def leSem (signed : Bool) (e : Exp) (m : Int) (a : Asg) : Bool :=
  if signed then decide (toSigned e.bits (e.val a) ≤ toSigned e.bits (wrap e.bits m))
  else decide (e.val a ≤ wrap e.bits m)

def rangeCon (signed : Bool) (e : Exp) (lo hi : Int) : ZCon :=
  ⟨.range e.id lo hi signed, fun a => geSem signed e lo a && leSem signed e hi a⟩

def eqCon (e : Exp) (v : Int) : ZCon := ⟨.eqv e.id v, fun a => decide (e.val a = wrap e.bits v)⟩

/-- the `while hi - lo > 1` loop of `_extrema`; `fuel` bounds the number of iterations (the width suffices) -/
def extremaLoop (E : Env) (r : Nat) (isMax : Bool) (e : Exp) (extra : List ZCon) (signed : Bool)
    (hook : PModel → M Unit) : (fuel : Nat) → (lo hi : Int) → M (Int × Int)
  | 0, lo, hi => pure (lo, hi)
  | fuel + 1, lo, hi =>
    if hi - lo > 1 then do
      let middle := (lo + hi) / 2
      let c := if isMax then rangeCon signed e middle hi else rangeCon signed e lo middle
      match ← z3Check E r (extra ++ [c]) with
      | some (vals, keys) => do
          hook (PModel.ofKeys vals keys)
          if isMax then extremaLoop E r isMax e extra signed hook fuel middle hi
          else extremaLoop E r isMax e extra signed hook fuel lo middle
      | none =>
          if isMax then extremaLoop E r isMax e extra signed hook fuel lo middle
          else extremaLoop E r isMax e extra signed hook fuel middle hi
    else pure (lo, hi)

/-- `_extrema` -/
def z3Extrema (E : Env) (r : Nat) (isMax : Bool) (e : Exp) (extra : List ZCon) (signed : Bool)
    (hook : PModel → M Unit) : M Int := do
  let lo0 : Int := if signed then -((2 ^ (e.bits - 1) : Nat) : Int) else 0
  let hi0 : Int := if signed then ((2 ^ (e.bits - 1) : Nat) : Int) - 1 else ((2 ^ e.bits : Nat) : Int) - 1
  let (lo, hi) ← extremaLoop E r isMax e extra signed hook (e.bits + 1) lo0 hi0
  match ← z3Check E r (extra ++ [eqCon e (if isMax then hi else lo)]) with
  | some (vals, keys) => do
      hook (PModel.ofKeys vals keys)
      pure (if isMax then hi else lo)          -- `hi if sat == is_max else lo`
  | none => pure (if isMax then lo else hi)

/-- `_solution` -/
def z3Solution (E : Env) (r : Nat) (e : Exp) (v : Nat) (extra : List ZCon) (hook : PModel → M Unit) : M Bool :=
  z3Satisfiable E r (eqCon e (v : Int) :: extra) hook

/-- `_unsat_core`: the tracked assertions whose name Z3 lists in the core of the last check -/
def z3UnsatCore (r : Nat) : M (List Nat) := do
  let o ← getObj r
  pure (o.asserted.filterMap fun c => match c.tag with
    | .con id => if o.lastCore.contains id then some id else none
    | _ => none)

end Claripy.Solver
