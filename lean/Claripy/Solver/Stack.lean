import Claripy.Solver.Mixins
import Claripy.Gen.SolverMro
/-
The classes of claripy/solvers.py: the mixin layers composed in the order of the GENERATED `__mro__`
(`Claripy.Gen.SolverMro.mro`), late binding (`self`) tied by unrolling the fixed point `depth` times
(no method of these classes re-enters itself through `self`; depth 5 covers the longest chain
min → self.eval → self.add → self._concrete_constraint), and the multi-frontend world with `branch`.
-/
namespace Claripy.Solver
open Claripy.Gen.SolverMro

/-- layers this file models; the composite / replacement / hybrid / light frontends have their own models -/
def layerOf (E : Env) : LayerName → Layer
  | .ConcreteHandlerMixin => concreteHandlerLayer
  | .EagerResolutionMixin => eagerLayer
  | .ConstraintFilterMixin => filterLayer E
  | .ConstraintDeduplicatorMixin => dedupLayer
  | .SimplifySkipperMixin => skipperLayer
  | .SatCacheMixin => satCacheLayer E
  | .ModelCacheMixin => modelCacheLayer E
  | .ConstraintExpansionMixin => expansionLayer E
  | .SimplifyHelperMixin => helperLayer
  | .FullFrontend => fullLayer E
  | .ConstrainedFrontend => constrainedLayer E
  | .Frontend => fun _ _ => frontendBase
  | _ => fun _ _ => frontendBase

def compose (E : Env) (mro : List LayerName) (self : Ops) : Ops :=
  mro.foldr (fun L sup => layerOf E L self sup) frontendBase

def stage (E : Env) (mro : List LayerName) : Nat → Ops
  | 0 => frontendBase
  | k + 1 => compose E mro (stage E mro k)

def depth : Nat := 5

def classOps (E : Env) (cls : SolverClass) : Ops := stage E (mro cls) depth

/-! ### operations and the world -/

inductive Op where
  | add (cs : List Con)
  | satisfiable (extra : List Con)
  | eval (e : Exp) (n : Nat) (extra : List Con)
  | batchEval (es : List Exp) (n : Nat) (extra : List Con)
  | min (e : Exp) (extra : List Con) (signed : Bool)
  | max (e : Exp) (extra : List Con) (signed : Bool)
  | solution (e : Exp) (v : Nat) (extra : List Con)
  | isTrue (c : Con) (extra : List Con)
  | isFalse (c : Con) (extra : List Con)
  | unsatCore (extra : List Con)
  | simplify
  | downsize
  | branch
  | pickle          -- s = pickle.loads(pickle.dumps(s)), in place

inductive Out where
  | unit
  | bool (b : Bool)
  | vals (vs : List Nat)
  | tuples (ts : List (List Nat))
  | int (i : Int)
  | cons (ids : List Nat)
  | newSolver (i : Nat)
  | err (e : Err)
  deriving DecidableEq, Repr, Inhabited

structure World where
  fes : List Frontend := [{}]
  objs : List Z3Obj := []
  reuse : Bool := false
  shared : Option Nat := none
  tick : Nat := 0
  qlog : List (Query × Answer) := []
  deriving Inhabited

/-- `__getstate__` / `__setstate__` of one layer: which fields survive a pickle round trip, which are re-initialised
(the plan is regenerated from the source as `Claripy.Gen.SolverPickle.plan`; C18 ties the two) -/
def pickleLayer : LayerName → Frontend → Frontend → Frontend
  | .ConstrainedFrontend, old, new =>
      { new with constraints := old.constraints, variables := old.variables, finalized := old.finalized,
                 woAnnot := old.constraints.foldl (fun acc c => listInsert acc c.id) [] }
  | .FullFrontend, old, new => { new with track := old.track, solver := none, toAdd := [] }
  | .ConstraintDeduplicatorMixin, old, new => { new with hashes := old.hashes }
  | .SimplifySkipperMixin, old, new => { new with simplified := old.simplified }
  | .SatCacheMixin, old, new => { new with cachedSat := old.cachedSat, cachedCore := old.cachedCore }
  | .ModelCacheMixin, _, new =>
      { new with models := [], evalExh := [], maxExh := [], minExh := [], maxSExh := [], minSExh := [] }
  | _, _, new => new

/-- unpickling a pickled frontend of a class with the given MRO -/
def pickleRestore (mro : List LayerName) (fe : Frontend) : Frontend :=
  mro.foldl (fun new L => pickleLayer L fe new) {}

def World.init (track reuse : Bool) : World := { fes := [{ track := track }], reuse := reuse }

def runOn (w : World) (i : Nat) (m : M α) : Except Err α × World :=
  let st : St := { fe := w.fes.getD i {}, objs := w.objs, reuse := w.reuse, shared := w.shared, tick := w.tick,
                   qlog := w.qlog }
  let (r, st') := m st
  (r, { w with fes := w.fes.set i st'.fe, objs := st'.objs, shared := st'.shared, tick := st'.tick, qlog := st'.qlog })

def outOf (f : α → Out) : Except Err α × World → Out × World
  | (.ok a, w) => (f a, w)
  | (.error e, w) => (.err e, w)

/-- one public call on frontend `i` of the world -/
def step (E : Env) (cls : SolverClass) (w : World) (i : Nat) (op : Op) : Out × World :=
  let o := classOps E cls
  match op with
  | .add cs => outOf (fun added => .cons (added.map (·.id))) (runOn w i (publicAdd o cs))
  | .satisfiable extra => outOf .bool (runOn w i (o.satisfiable extra))
  | .eval e n extra => outOf .vals (runOn w i (o.eval e n extra))
  | .batchEval es n extra => outOf .tuples (runOn w i (o.batchEval es n extra))
  | .min e extra signed => outOf .int (runOn w i (o.min e extra signed))
  | .max e extra signed => outOf .int (runOn w i (o.max e extra signed))
  | .solution e v extra => outOf .bool (runOn w i (o.solution e v extra))
  | .isTrue c extra => outOf .bool (runOn w i (o.isTrue c extra))
  | .isFalse c extra => outOf .bool (runOn w i (o.isFalse c extra))
  | .unsatCore extra => outOf (fun core => .cons (core.map (·.id))) (runOn w i (o.unsatCore extra))
  | .simplify => outOf (fun cs => .cons (cs.map (·.id))) (runOn w i o.simplify)
  | .downsize => outOf (fun _ => .unit) (runOn w i o.downsize)
  | .pickle =>
    (.unit, { w with fes := w.fes.set i (pickleRestore (mro cls) (w.fes.getD i {})) })
  | .branch =>
    -- Frontend.branch: c = self.blank_copy(); self._copy(c)
    match runOn w i (do let fe ← M.getFe; o.copy (o.blankCopy fe {})) with
    | (.ok c, w') => (.newSolver w'.fes.length, { w' with fes := w'.fes ++ [c] })
    | (.error e, w') => (.err e, w')

end Claripy.Solver
