import Claripy.Solver.Stack
import Claripy.Solver.Structure
/-
claripy/frontend/composite_frontend.py — class `CompositeFrontend`, transcribed as written: the bookkeeping a SolverComposite keeps
about its children (`_solvers`: variable ↦ child, `_unchecked_solvers`, `_owned_solvers`, `_unsat`), `_solver_for_names` (closure of
the children that own some of the names, `combine` when there are several), copy-on-write `_claim`, `_store_child`,
`_add` (split of the new constraints into independent groups, one `_add_dependent_constraints` per group),
`check_satisfiability`, the queries (`_ensure_sat`, merged solver, the child's answer, `_reabsorb_solver`), `simplify` with
`_split_child`, `branch`, `downsize`, pickling.

The children are frontends of class SolverCompositeChild living in a `World` (records + heap of Z3 objects): every child
operation is the C11 model of that class (`classOps E .SolverCompositeChild`, run with `runOn`).  What the child class needs on top
of the `Ops` table is here too: `combine`, `split`, `update` (ConstrainedFrontend / ModelCacheMixin) and
`check_satisfiability` (SatCacheMixin, FullFrontend).

Conventions.  A child is referred to by its index in `World.fes` (object identity = order of creation: every `blank_copy()` of a
child appends one).  Python sets of children / names are lists in discovery order.  Where the code ITERATES a set and the order
is visible afterwards — the groups `_split_constraints` returns (a set of frozensets), `list(solvers)` in `_solver_for_names`
(`solvers[0]` is the one whose `combine` runs), the sets `_models` that `itertools.product` walks in `combine`, the loop over
`_unchecked_solvers` (it stops at the first unsatisfiable child) — CPython's order (addresses, string hashes) is an INPUT: the
model asks the oracle for it (`orderOracle`, through `Env.pick`, the channel of the set-iteration dependent choices of C11; one
event per iteration) and accepts whatever it is told (`reorderBy` yields a permutation of the set for every answer).  The weak sets
`_unchecked_solvers` / `_owned_solvers` are lists: a child nobody refers to any more stays listed, which is unobservable (the
loops over `_unchecked_solvers` skip children that `_solvers` no longer points to).  `SolverComposite` is this class under
eight mixins and `CompositedCacheMixin` (a cache of merged solvers keyed by the name set); those are NOT in this file.
-/
namespace Claripy.Solver

/-- the composite's own record (ConstrainedFrontend + CompositeFrontend fields; `variables` is a property: the keys of `solvers`) -/
structure Comp where
  constraints : List Con := []
  woAnnot : List Nat := []
  finalized : Bool := false
  /-- `_solvers`: an insertion-ordered dict variable ↦ child -/
  solvers : List (Var × Nat) := []
  unchecked : List Nat := []
  owned : List Nat := []
  unsat : Bool := false
  track : Bool := false
  deriving Inhabited

/-- one composite and the world of children it can reach -/
structure CSt where
  c : Comp := {}
  w : World := { fes := [] }
  deriving Inhabited

def CM (α : Type) := CSt → Except Err α × CSt

namespace CM
@[inline] def pure (a : α) : CM α := fun s => (.ok a, s)
@[inline] def bind (m : CM α) (f : α → CM β) : CM β := fun s =>
  match m s with
  | (.ok a, s') => f a s'
  | (.error e, s') => (.error e, s')
instance : Monad CM := { pure := CM.pure, bind := CM.bind }
@[inline] def get : CM CSt := fun s => (.ok s, s)
@[inline] def modifyC (f : Comp → Comp) : CM Unit := fun s => (.ok (), { s with c := f s.c })
@[inline] def throw (e : Err) : CM α := fun s => (.error e, s)
/-- run a method of child `j` -/
@[inline] def onChild (j : Nat) (m : M α) : CM α := fun s =>
  let r := runOn s.w j m
  (r.1, { s with w := r.2 })
end CM

def childOps (E : Env) : Ops := classOps E .SolverCompositeChild

/-! ### iteration order of Python sets -/

/-- the elements of `l` that the keys of `p` name, one after the other (`mt x k`: key `k` names `x`), each once; keys naming
nothing (or nothing new) are ignored -/
def reorderFront [BEq α] (mt : α → List Nat → Bool) (l : List α) (p : List (List Nat)) (acc : List α) : List α :=
  p.foldl (fun acc k =>
    match l.find? (fun x => mt x k && !acc.contains x) with
    | some x => acc ++ [x]
    | none => acc) acc

/-- the elements of `l` in the order the key list `p` names them; elements no key names follow in the order of `l`: for EVERY
`p` the result has exactly the elements of `l` -/
def reorderBy [BEq α] (mt : α → List Nat → Bool) (p : List (List Nat)) (l : List α) : List α :=
  reorderFront mt l p [] ++ l.filter fun x => !(reorderFront mt l p []).contains x

/-- the order in which CPython iterates the set `l` (shown to the oracle as the keys `keys`): one event -/
def orderOracle [BEq α] (E : Env) (mt : α → List Nat → Bool) (keys : List (List Nat)) (l : List α) : CM (List α) := fun s =>
  (.ok (reorderBy mt (E.pick keys keys.length s.w.tick) l), { s with w := { s.w with tick := s.w.tick + 1 } })

/-- a set of children -/
def orderChildren (E : Env) (l : List Nat) : CM (List Nat) :=
  orderOracle E (fun j k => k == [j]) (l.map fun j => [j]) l

/-- `min(iter(s.variables))` -/
def minVar : List Var → Var
  | [] => 0
  | v :: rest => rest.foldl Nat.min v

/-- the groups of `_split_constraints` (a list made from a set of pairs of frozensets); a group is named by its least variable.
Nothing is iterated when there are fewer than two. -/
def orderGroups (E : Env) (gs : List (List Var × List Nat)) : CM (List (List Var × List Nat)) :=
  if gs.length < 2 then pure gs
  else orderOracle E (fun g k => k == [minVar g.1]) (gs.map fun g => [minVar g.1]) gs

/-- a set of cached models; a model is named by its items, sorted by variable -/
def modelKey (m : PModel) : List Nat := m.flatMap fun kv => [kv.1, kv.2]

def orderModels (E : Env) (ms : List PModel) : CM (List PModel) :=
  orderOracle E (fun m k => k == modelKey m) (ms.map modelKey) ms

def CSt.child (s : CSt) (j : Nat) : Frontend := s.w.fes.getD j {}

/-! ### the child class: what is not in the `Ops` table -/

/-- the `BVS != BVV` shape `FullFrontend.check_satisfiability` looks for.  The constraint records carry the `BVS == BVV` shape only
(`Con.triv`): no constraint of the modelled alphabets has this one. -/
def Con.trivNe (_c : Con) : Option (Var × Nat) := none

/-- the shortcut of `FullFrontend.check_satisfiability`: no extra constraints and a single constraint of the shape `BVS == BVV` /
`BVS != BVV` — trivially satisfiable, by the model returned here -/
def checkSatShortcut (fe : Frontend) (extra : List Con) : Option PModel :=
  if extra.isEmpty && fe.constraints.length == 1 then
    match (fe.constraints.headD default).triv, (fe.constraints.headD default).trivNe with
    | some (v, x, _), _ => some [(v, x)]
    | none, some (v, x) => some [(v, x)]
    | none, none => none
  else none

/-- `check_satisfiability(extra_constraints)` of SolverCompositeChild: SatCacheMixin (reads the cached verdict, does not write it),
then FullFrontend (the shortcut: hand the model to `_model_hook`), then the backend: `"SAT" if _satisfiable(...) else "UNSAT"`
(an `unknown` of Z3 is raised by `z3_solver_sat`) -/
def childCheckSat (E : Env) (extra : List Con) : M Bool := do
  let fe ← M.getFe
  if fe.cachedSat == some false then pure false
  else if fe.cachedSat == some true && extra.isEmpty then pure true
  else
    match checkSatShortcut fe extra with
    | some m => do
        (childOps E).modelHook m
        pure true
    | none => do
        let r ← getSolver
        z3Satisfiable E r (extra.map ZCon.ofCon) (childOps E).modelHook

/-- `Frontend.blank_copy()` of a child -/
def childBlank (E : Env) (self : Frontend) : Frontend := (childOps E).blankCopy self {}

/-- `ModelCache.combine(*models)`: `dict(chain(m.items() for m in models))`, later models win -/
def PModel.combine (ms : List PModel) : PModel :=
  ms.foldl (fun acc m => m.foldl (fun acc kv => PModel.insert acc kv.1 kv.2) acc) []

/-- `itertools.product(*lists)` (the last list varies fastest) -/
def productOf : List (List PModel) → List (List PModel)
  | [] => [[]]
  | l :: rest => l.flatMap fun m => (productOf rest).map fun t => m :: t

/-- `self.combine(others)`: ConstrainedFrontend.combine (a blank copy to which the constraints of everybody are added through the
public `add`), then ModelCacheMixin.combine (when everybody has models and the variable sets are disjoint: the first
`len(self._models)` combinations of one model each, `selfModels` / `otherModels` being the sets `_models` in the order
`itertools.product` walks them).  Returns the new child. -/
def childCombineWith (E : Env) (self : Nat) (others : List Nat) (selfModels : List PModel) (otherModels : List (List PModel)) :
    CM Nat := fun s =>
  let k := s.w.fes.length
  let w0 : World := { s.w with fes := s.w.fes ++ [childBlank E (s.child self)] }
  -- combined.add(self.constraints); for o in others: combined.add(o.constraints)
  let rec go : List Nat → World → Except Err Unit × World
    | [], w => (.ok (), w)
    | o :: rest, w =>
      match runOn w k (publicAdd (childOps E) (w.fes.getD o {}).constraints) with
      | (.ok _, w') => go rest w'
      | (.error e, w') => (.error e, w')
  match go (self :: others) w0 with
  | (.error e, w') => (.error e, { s with w := w' })
  | (.ok _, w1) =>
    let fs := s.child self
    let fo := others.map s.child
    if fo.any (·.models.isEmpty) || fs.models.isEmpty then (.ok k, { s with w := w1 })
    else
      let varsCount := fs.variables.length + (fo.map (·.variables.length)).sum
      let allVars := fo.foldl (fun acc o => listUnion acc o.variables) fs.variables
      if varsCount != allVars.length then (.ok k, { s with w := w1 })
      else
        let combos := ((productOf (selfModels :: otherModels)).take fs.models.length).map PModel.combine
        let fk := w1.fes.getD k {}
        let fk := { fk with models := combos.foldl listInsert fk.models }
        (.ok k, { s with w := { w1 with fes := w1.fes.set k fk } })

/-- the order of the model sets of the children in `l` (one event each) -/
def orderModelSets (E : Env) : List Nat → CM (List (List PModel))
  | [] => pure []
  | o :: rest => do
    let s ← CM.get
    let ms ← orderModels E (s.child o).models
    let mss ← orderModelSets E rest
    pure (ms :: mss)

def childCombine (E : Env) (self : Nat) (others : List Nat) : CM Nat := do
  let mss ← orderModelSets E (self :: others)
  childCombineWith E self others (mss.headD []) (mss.drop 1)

/-- `self.split()`: ConstrainedFrontend.split (one blank copy per group of `_split_constraints(self.constraints)`, in the order
of that list, the constraints without variables forming a last group of their own), then ModelCacheMixin.split (every part gets
the models of the whole, filtered to its variables).  Returns the new children. -/
def childSplitWith (E : Env) (self : Nat) (groups : List (List Var × List Nat)) (concrete : List Nat) : CM (List Nat) := fun s =>
  let fs := s.child self
  let lists := (groups.map fun g => g.2.map fun i => fs.constraints.getD i default) ++
    (if concrete.isEmpty then [] else [concrete.map fun i => fs.constraints.getD i default])
  let rec go : List (List Con) → World → List Nat → Except Err (List Nat) × World
    | [], w, acc => (.ok acc, w)
    | cl :: rest, w, acc =>
      let k := w.fes.length
      let w := { w with fes := w.fes ++ [childBlank E fs] }
      match runOn w k (publicAdd (childOps E) cl) with
      | (.ok _, w') =>
        let fk := w'.fes.getD k {}
        let fk := { fk with models := (fs.models.map fun m => m.restrict fk.variables).foldl listInsert [] }
        go rest { w' with fes := w'.fes.set k fk } (acc ++ [k])
      | (.error e, w') => (.error e, w')
  match go lists s.w [] with
  | (r, w') => (r, { s with w := w' })

def childSplit (E : Env) (self : Nat) : CM (List Nat) := do
  let s ← CM.get
  let split := splitConstraints ((s.child self).constraints.map (·.vars))
  let groups ← orderGroups E split.1
  childSplitWith E self groups split.2

def modelKeys (m : PModel) : List Var := m.map (·.1)

def sameSet (l r : List Var) : Bool := subsetB l r && subsetB r l

/-- `self.update(other)` (ModelCacheMixin) -/
def childUpdate (self other : Nat) : CM Unit := fun s =>
  let fs := s.child self
  let fo := s.child other
  let acceptable := fo.models.filter fun m => sameSet (modelKeys m) fs.variables
  let fs := { fs with models := acceptable.foldl listInsert fs.models,
                      evalExh := listUnion fs.evalExh fo.evalExh, maxExh := listUnion fs.maxExh fo.maxExh,
                      minExh := listUnion fs.minExh fo.minExh, maxSExh := listUnion fs.maxSExh fo.maxSExh,
                      minSExh := listUnion fs.minSExh fo.minSExh }
  (.ok (), { s with w := { s.w with fes := s.w.fes.set self fs } })

/-- `s.branch()` of a child: the new child -/
def childBranch (E : Env) (j : Nat) : CM Nat := fun s =>
  match step E .SolverCompositeChild s.w j .branch with
  | (.newSolver k, w') => (.ok k, { s with w := w' })
  | (.err e, w') => (.error e, { s with w := w' })
  | (_, w') => (.error .notImpl, { s with w := w' })

/-! ### solver list management -/

/-- `_solver_list`: the distinct values of `_solvers`, in dict order -/
def Comp.solverList (c : Comp) : List Nat := (c.solvers.map (·.2)).foldl listInsert []

/-- `_solvers_for_variables(names)` -/
def Comp.solversForStep (c : Comp) (acc : List Nat) (n : Var) : List Nat :=
  match alGet? c.solvers n with
  | some s => listInsert acc s
  | none => acc

def Comp.solversFor (c : Comp) (names : List Var) : List Nat := names.foldl c.solversForStep []

/-- `_names_for(...)`: the union of the variable sets -/
def namesFor (vss : List (List Var)) : List Var := vss.foldl listUnion []

/-- the `while True` loop of `_solver_for_names` (transitive closure); `fuel` bounds the iterations -/
def closureLoop (s : CSt) : (fuel : Nat) → (allNames newNames : List Var) → (solvers : List Nat) → List Nat
  | 0, _, _, solvers => solvers
  | fuel + 1, allNames, newNames, solvers =>
    let solvers := listUnion solvers (s.c.solversFor newNames)
    let allNames := listUnion allNames newNames
    let tmpNames := solvers.foldl (fun acc j => listUnion acc (s.child j).variables) []
    let newNames := tmpNames.filter fun v => !allNames.contains v
    if newNames.isEmpty then solvers else closureLoop s fuel allNames newNames solvers

/-- `self._template_frontend.blank_copy()`: the template is a `SolverCompositeChild(track=track)` nobody adds to -/
def blankChild (E : Env) : CM Nat := fun s =>
  (.ok s.w.fes.length, { s with w := { s.w with fes := s.w.fes ++ [childBlank E { track := s.c.track }] } })

/-- `_solver_for_names(names)` (= `_merged_solver_for`) -/
def solverForNames (E : Env) (names : List Var) : CM Nat := do
  let s ← CM.get
  -- every iteration but the last adds a name; the names are variables of children
  let fuel := (s.w.fes.map (·.variables.length)).sum + 1
  match closureLoop s fuel names names [] with
  | [] => blankChild E
  | [j] => pure j
  | l => do
    -- `solvers = list(solvers)`: the order of a set of children
    match ← orderChildren E l with
    | [] => blankChild E
    | j :: rest => childCombine E j rest

/-- `_store_child(ns, invalidate_cache)` -/
def storeChild (j : Nat) (invalidate : Bool := true) : CM Unit := fun s =>
  (.ok (), { s with c := { s.c with
    solvers := (s.child j).variables.foldl (fun d v => alSet d v j) s.c.solvers,
    unchecked := if invalidate then listInsert s.c.unchecked j else s.c.unchecked } })

/-- `_claim(s)` -/
def claim (E : Env) (j : Nat) : CM Nat := do
  let s ← CM.get
  if s.c.owned.contains j then pure j
  else do
    let k ← childBranch E j
    CM.modifyC fun c => { c with owned := listInsert c.owned k }
    pure k

/-- `_reabsorb_solver(s)`; a `KeyError` outside the `try` is reported as `Err.value` -/
def reabsorb (E : Env) (j : Nat) : CM Unit := do
  let s ← CM.get
  let vars := (s.child j).variables
  if vars.isEmpty then pure ()
  else
    match alGet? s.c.solvers (minVar vars) with
    | none => pure ()                                   -- KeyError
    | some t =>
      if t == j then pure ()
      else do
        let parts ← childSplit E j
        let s ← CM.get
        let old := s.c.solversFor vars
        if parts.length == old.length && parts.all (fun p => !(s.child p).variables.isEmpty) then
          -- `done` is a set of the parts, which are pairwise different objects
          parts.forM fun p => do
            let s ← CM.get
            match alGet? s.c.solvers (minVar (s.child p).variables) with
            | some t => childUpdate t p
            | none => CM.throw .value
        else
          parts.forM fun p => do
            CM.modifyC fun c => { c with owned := listInsert c.owned p }
            storeChild p

/-! ### constraints -/

/-- `_add_dependent_constraints(names, constraints)`; on every path of `CompositeFrontend._add` `invalidate_cache` is `True` -/
def addDependent (E : Env) (names : List Var) (cs : List Con) : CM (List Con) := do
  let m ← solverForNames E names
  let j ← claim E m
  let added ← CM.onChild j (publicAdd (childOps E) cs)
  storeChild j
  pure added

/-- the `CONCRETE` group: `any(backends.concrete.convert(c) is False for c in set_constraints)` inside `try … except BackendError`
(`conc = none` is the BackendError): found-false / all-true / unsure -/
def concreteScan : List Con → Option Bool
  | [] => some false
  | c :: rest =>
    match c.conc with
    | some false => some true
    | some true => concreteScan rest
    | none => none

/-- `for names, set_constraints in split: child_added += self._add_dependent_constraints(names, set_constraints)` -/
def addGroups (E : Env) (cs : List Con) : List (List Var × List Nat) → List Con → CM (List Con)
  | [], acc => pure acc
  | g :: rest, acc => do
    let added ← addDependent E g.1 (g.2.map fun i => cs.getD i default)
    addGroups E cs rest (acc ++ added)

/-- `for s in self._solver_list: s = self._claim(s); s.add(unsure); self._store_child(s)` -/
def addUnsure (E : Env) (unsure : List Con) : List Nat → CM Unit
  | [] => pure ()
  | j :: rest => do
    let j ← claim E j
    let _ ← CM.onChild j (publicAdd (childOps E) unsure)
    storeChild j
    addUnsure E unsure rest

/-- `super()._add(child_added)`: ConstrainedFrontend._add on the composite's own list -/
def ownAdd (childAdded : List Con) : CM (List Con) := fun s =>
  let fe : Frontend := { constraints := s.c.constraints, woAnnot := s.c.woAnnot }
  let r := constrainedAddLoop childAdded fe []
  (.ok r.2, { s with c := { s.c with constraints := r.1.constraints, woAnnot := r.1.woAnnot } })

/-- `CompositeFrontend._add` -/
def compAdd (E : Env) (cs : List Con) : CM (List Con) := do
  -- the constraints of the alphabets are not conjunctions: `splitted` = `constraints`
  let split := splitConstraints (cs.map (·.vars))
  let groups ← orderGroups E split.1
  let childAdded ← addGroups E cs groups []
  -- the `{"CONCRETE"}` group comes last in the list `_split_constraints` returns
  if split.2.isEmpty then ownAdd childAdded
  else
    let set := split.2.map fun i => cs.getD i default
    match concreteScan set with
    | some true => do
        CM.modifyC fun c => { c with unsat := true }
        ownAdd (childAdded ++ [E.falseCon])
    | some false => ownAdd childAdded
    | none => do
        let s ← CM.get
        addUnsure E set s.c.solverList
        ownAdd childAdded

/-! ### solving -/

/-- the loop over `_unchecked_solvers` of `check_satisfiability` (in the order the set is iterated); `skip` = the variables of the solver the extra constraints went to -/
def checkLoop (E : Env) (skip : Option (List Var)) : List Nat → CM Bool
  | [] => pure true
  | j :: rest => do
    let s ← CM.get
    let vars := (s.child j).variables
    if (match skip with | some sv => vars.any sv.contains | none => false) then checkLoop E skip rest
    else if vars.isEmpty || alGet? s.c.solvers (minVar vars) != some j then checkLoop E skip rest
    else do
      let r ← CM.onChild j (childCheckSat E [])
      if !r then pure false else checkLoop E skip rest

/-- `check_satisfiability(extra_constraints) == "SAT"` (= `satisfiable`) -/
def compSatisfiable (E : Env) (extra : List Con) : CM Bool := do
  let s ← CM.get
  if s.c.unsat then pure false
  else if extra.isEmpty then do
    let order ← orderChildren E s.c.unchecked
    let ok ← checkLoop E none order
    if !ok then pure false
    else do
      CM.modifyC fun c => { c with unchecked := [] }
      pure true
  else do
    let es ← solverForNames E (namesFor (extra.map (·.vars)))
    let r ← CM.onChild es (childCheckSat E extra)
    if !r then pure false
    else do
      reabsorb E es
      let s ← CM.get
      let order ← orderChildren E s.c.unchecked
      let ok ← checkLoop E (some (s.child es).variables) order
      if !ok then pure false
      else do
        CM.modifyC fun c => { c with unchecked := [] }
        pure true

/-- `_ensure_sat` -/
def ensureSat (E : Env) (extra : List Con) : CM Unit := do
  let s ← CM.get
  if s.c.unsat then CM.throw .unsat
  else if !(← compSatisfiable E extra) then CM.throw .unsat
  else pure ()

/-- the shape of eval / batch_eval / max / min / solution: `_ensure_sat`, the merged solver of the names, its answer, `_reabsorb_solver` -/
def compQuery (E : Env) (names : List Var) (extra : List Con) (q : M α) : CM α := do
  ensureSat E extra
  let ms ← solverForNames E names
  let r ← CM.onChild ms q
  reabsorb E ms
  pure r

def compEval (E : Env) (e : Exp) (n : Nat) (extra : List Con) : CM (List Nat) :=
  compQuery E (namesFor (e.vars :: extra.map (·.vars))) extra ((childOps E).eval e n extra)

def compBatchEval (E : Env) (es : List Exp) (n : Nat) (extra : List Con) : CM (List (List Nat)) :=
  compQuery E (namesFor (extra.map (·.vars) ++ es.map (·.vars))) extra ((childOps E).batchEval es n extra)

def compMax (E : Env) (e : Exp) (extra : List Con) (signed : Bool) : CM Int :=
  compQuery E (namesFor (e.vars :: extra.map (·.vars))) extra ((childOps E).max e extra signed)

def compMin (E : Env) (e : Exp) (extra : List Con) (signed : Bool) : CM Int :=
  compQuery E (namesFor (e.vars :: extra.map (·.vars))) extra ((childOps E).min e extra signed)

/-- `solution(e, v)` with a Python int `v` -/
def compSolution (E : Env) (e : Exp) (v : Nat) (extra : List Con) : CM Bool :=
  compQuery E (namesFor (e.vars :: extra.map (·.vars))) extra ((childOps E).solution e v extra)

/-- `is_true` / `is_false`: no `_ensure_sat`, no `_reabsorb_solver` -/
def compIsTrue (E : Env) (c : Con) (extra : List Con) : CM Bool := do
  let ms ← solverForNames E (namesFor (c.vars :: extra.map (·.vars)))
  CM.onChild ms ((childOps E).isTrue c extra)

def compIsFalse (E : Env) (c : Con) (extra : List Con) : CM Bool := do
  let ms ← solverForNames E (namesFor (c.vars :: extra.map (·.vars)))
  CM.onChild ms ((childOps E).isFalse c extra)

/-! ### simplify -/

/-- `_split_child(s)` -/
def splitChild (E : Env) (j : Nat) : CM (List Nat) := do
  let parts ← childSplit E j
  if parts.length == 1 then pure [j]
  else do
    parts.forM fun p => do
      CM.modifyC fun c => { c with owned := listInsert c.owned p }
      storeChild p
    CM.modifyC fun c => { c with solvers := c.solvers.filter fun kv => kv.2 != j }
    pure parts

def markSimplified (p : Nat) : CM Unit := fun s =>
  (.ok (), { s with w := { s.w with fes := s.w.fes.set p { s.child p with simplified := true } } })

/-- the loop of `CompositeFrontend.simplify` over `_solver_list` (children are SimplifySkipperMixin instances) -/
def simplifyLoop (E : Env) : List Nat → List Con → CM (List Con)
  | [], new => pure new
  | j :: rest, new => do
    let s ← CM.get
    if (s.child j).simplified then simplifyLoop E rest (new ++ (s.child j).constraints)
    else do
      let _ ← CM.onChild j (childOps E).simplify
      -- `if any(c.is_false() for c in s.constraints): self._unsat = True` (a variable-free False belongs to none of the parts)
      let s1 ← CM.get
      if (s1.child j).constraints.any (fun c => c.conc == some false) then
        CM.modifyC fun c => { c with unsat := true }
      let parts ← splitChild E j
      parts.forM markSimplified
      let s ← CM.get
      simplifyLoop E rest (new ++ (s.child j).constraints)

/-- `CompositeFrontend.simplify` -/
def compSimplify (E : Env) : CM (List Con) := do
  let s ← CM.get
  if s.c.unsat then pure s.c.constraints
  else do
    let new ← simplifyLoop E s.c.solverList []
    CM.modifyC fun c => { c with constraints := new }
    pure new

/-! ### branch, downsize, pickling -/

/-- `Frontend.branch` of the composite: `_blank_copy` then `_copy` (CompositeFrontend over ConstrainedFrontend); `self.finalize()` /
`c.finalize()` are `CompositeFrontend.finalize`: every child is finalized, the composite's own `_finalized` stays as it is -/
def compBranch : CSt → Comp × CSt := fun s =>
  let c : Comp := { constraints := s.c.constraints, woAnnot := s.c.woAnnot, finalized := false,
                    solvers := s.c.solvers, unchecked := s.c.unchecked, owned := [], unsat := s.c.unsat, track := s.c.track }
  let fes := s.c.solverList.foldl (fun fes j => fes.set j { fes.getD j {} with finalized := true }) s.w.fes
  (c, { c := { s.c with owned := [] }, w := { s.w with fes := fes } })

def compDownsize (E : Env) : CM Unit := do
  let s ← CM.get
  s.c.solverList.forM fun j => CM.onChild j (childOps E).downsize

/-- `pickle.loads(pickle.dumps(self))` in place: the children are pickled with it (`_solvers`), nothing is owned, every child is
unchecked -/
def compPickle (s : CSt) : CSt :=
  let fes := s.c.solverList.foldl (fun fes j =>
    fes.set j (pickleRestore (Claripy.Gen.SolverMro.mro .SolverCompositeChild) (fes.getD j {}))) s.w.fes
  { c := { s.c with owned := [], unchecked := s.c.solverList,
                    woAnnot := s.c.constraints.foldl (fun acc c => listInsert acc c.id) [] },
    w := { s.w with fes := fes } }

/-! ### one public call on a CompositeFrontend (a single composite; `branch` of the composite is `compBranch`) -/

def outOfC (f : α → Out) : Except Err α × CSt → Out × CSt
  | (.ok a, s) => (f a, s)
  | (.error e, s) => (.err e, s)

def compStep (E : Env) (s : CSt) : Op → Out × CSt
  | .add cs => if cs.isEmpty then (.cons [], s) else outOfC (fun added => .cons (added.map (·.id))) (compAdd E cs s)
  | .satisfiable extra => outOfC .bool (compSatisfiable E extra s)
  | .eval e n extra => outOfC .vals (compEval E e n extra s)
  | .batchEval es n extra => outOfC .tuples (compBatchEval E es n extra s)
  | .min e extra signed => outOfC .int (compMin E e extra signed s)
  | .max e extra signed => outOfC .int (compMax E e extra signed s)
  | .solution e v extra => outOfC .bool (compSolution E e v extra s)
  | .isTrue c extra => outOfC .bool (compIsTrue E c extra s)
  | .isFalse c extra => outOfC .bool (compIsFalse E c extra s)
  | .simplify => outOfC (fun cs => .cons (cs.map (·.id))) (compSimplify E s)
  | .downsize => outOfC (fun _ => .unit) (compDownsize E s)
  | .pickle => (.unit, compPickle s)
  | .unsatCore _ => (.err .notImpl, s)
  | .branch => (.err .notImpl, s)

/-- a history of calls on one CompositeFrontend; each answer is paired with the constraints the user had added when it was given -/
def runComp (E : Env) : CSt → List Con → List Op → List (List Con × Op × Out)
  | _, _, [] => []
  | s, U, op :: rest =>
    let r := compStep E s op
    let U' := match op with | .add cs => U ++ cs | _ => U
    (U', op, r.1) :: runComp E r.2 U' rest

end Claripy.Solver
