import Claripy.Solver.Stack
/-
The stateless reference (DESIGN 3.3 "Spec"): what property C11 (and the solver half of C10) demands of each
answer, as a function of the set of assignments satisfying the constraints the USER added (plus the extra
constraints of the call) — no cache, no solver object.
`Judge` is the statement (quantifying over all assignments); `judgeFin` the same test over an explicit finite
list of assignments, used by the driver.
-/
namespace Claripy.Solver

def Models (cs : List Con) (a : Asg) : Prop := ∀ c ∈ cs, c.sem a = true

def Satisfiable (cs : List Con) : Prop := ∃ a, Models cs a

/-- `v` is a value `e` takes in some model of `cs` -/
def Feasible (cs : List Con) (e : Exp) (v : Nat) : Prop := ∃ a, Models cs a ∧ e.val a = v

def FeasibleT (cs : List Con) (es : List Exp) (t : List Nat) : Prop := ∃ a, Models cs a ∧ es.map (·.val a) = t

/-- `i` (any integer whose `bits`-bit pattern is meant) is the optimum of `e` over the models of `cs` -/
def IsOpt (isMax signed : Bool) (cs : List Con) (e : Exp) (i : Int) : Prop :=
  Feasible cs e (wrap e.bits i) ∧
  ∀ v, Feasible cs e v →
    if isMax then key signed e.bits v ≤ key signed e.bits (wrap e.bits i)
    else key signed e.bits (wrap e.bits i) ≤ key signed e.bits v

/-- What the property statement allows as outcome of one call; `cs` = user constraints at that moment. -/
def Judge (cs : List Con) : Op → Out → Prop
  | .add _, .cons _ => True
  | .simplify, .cons _ => True
  | .downsize, .unit => True
  | .pickle, .unit => True
  | .branch, .newSolver _ => True
  | .satisfiable extra, .bool b => (b = true ↔ Satisfiable (cs ++ extra))
  | .eval e n extra, .vals vs =>
      (match e.conc with
       | some c => vs = [c]
       | none => (∀ v ∈ vs, Feasible (cs ++ extra) e v) ∧ vs.Nodup ∧ vs.length ≤ n ∧
                 (∀ v, Feasible (cs ++ extra) e v → v ∈ vs ∨ vs.length = n))
  | .eval _ _ extra, .err .unsat => ¬ Satisfiable (cs ++ extra)
  | .batchEval es n extra, .tuples ts =>
      (if es.all (·.conc.isSome) then ts = [es.map fun e => e.conc.getD 0]
       else (∀ t ∈ ts, FeasibleT (cs ++ extra) es t) ∧ ts.Nodup ∧ ts.length ≤ n ∧
            (∀ t, FeasibleT (cs ++ extra) es t → t ∈ ts ∨ ts.length = n))
  | .batchEval _ _ extra, .err .unsat => ¬ Satisfiable (cs ++ extra)
  | .min e extra signed, .int i =>
      (match e.conc with | some c => i = (c : Int) | none => IsOpt false signed (cs ++ extra) e i)
  | .min _ extra _, .err .unsat => ¬ Satisfiable (cs ++ extra)
  | .max e extra signed, .int i =>
      (match e.conc with | some c => i = (c : Int) | none => IsOpt true signed (cs ++ extra) e i)
  | .max _ extra _, .err .unsat => ¬ Satisfiable (cs ++ extra)
  | .solution e v extra, .bool b =>
      (match e.conc with | some c => b = (c == v) | none => (b = true ↔ Feasible (cs ++ extra) e v))
  | .solution _ _ extra, .err .unsat => ¬ Satisfiable (cs ++ extra)
  | .isTrue c extra, .bool b => (b = true → ∀ a, Models (cs ++ extra) a → c.sem a = true)
  | .isFalse c extra, .bool b => (b = true → ∀ a, Models (cs ++ extra) a → c.sem a = false)
  | .isTrue _ extra, .err .unsat => ¬ Satisfiable (cs ++ extra)
  | .isFalse _ extra, .err .unsat => ¬ Satisfiable (cs ++ extra)
  | _, _ => False

/-! ### the same test over an explicit list of assignments (driver) -/

def modelsOn (dom : List Asg) (cs : List Con) : List Asg := dom.filter fun a => holdsAll cs a

def dedupNat (l : List Nat) : List Nat := l.foldl listInsert []

def optOf (isMax signed : Bool) (bits : Nat) : List Nat → Option Nat
  | [] => none
  | v :: rest => some (rest.foldl (fun best w =>
      if isMax then (if key signed bits w > key signed bits best then w else best)
      else (if key signed bits w < key signed bits best then w else best)) v)

/-- the test, given the list `ms` of assignments (of the finite domain) that satisfy the user constraints and the
extra constraints of the call -/
def judgeModels (ms : List Asg) (op : Op) (out : Out) : Option String :=
  let chk (b : Bool) (why : String) : Option String := if b then none else some why
  match op, out with
  | .add _, .cons _ => none
  | .simplify, .cons _ => none
  | .downsize, .unit => none
  | .pickle, .unit => none
  | .branch, .newSolver _ => none
  | .satisfiable _, .bool b => chk (b == !ms.isEmpty) "wrong-sat"
  | .eval e n _, .vals vs =>
    (match e.conc with
     | some c => chk (vs == [c]) "wrong-constant"
     | none =>
       let V := dedupNat (ms.map e.val)
       if !(vs.all V.contains) then some "infeasible"
       else if dedupNat vs != vs then some "duplicate"
       else if vs.length > n then some "too-many"
       else chk (vs.length == min n V.length) "incomplete")
  | .batchEval es n _, .tuples ts =>
    if es.all (·.conc.isSome) then chk (ts == [es.map fun e => e.conc.getD 0]) "wrong-constant"
    else
      let V := (ms.map fun a => es.map (·.val a)).foldl listInsert []
      if !(ts.all V.contains) then some "infeasible"
      else if ts.foldl listInsert [] != ts then some "duplicate"
      else if ts.length > n then some "too-many"
      else chk (ts.length == min n V.length) "incomplete"
  | .min e _ signed, .int i =>
    (match e.conc with
     | some c => chk (i == (c : Int)) "wrong-constant"
     | none => chk (optOf false signed e.bits (ms.map e.val) == some (wrap e.bits i)) "wrong-optimum")
  | .max e _ signed, .int i =>
    (match e.conc with
     | some c => chk (i == (c : Int)) "wrong-constant"
     | none => chk (optOf true signed e.bits (ms.map e.val) == some (wrap e.bits i)) "wrong-optimum")
  | .solution e v _, .bool b =>
    (match e.conc with
     -- a concrete expression: the classes with ConcreteHandlerMixin answer `c == v` without looking at the constraints,
     -- the others (SolverCompositeChild) ask the solver, which says `false` when the constraints have no model
     | some c => chk (b == (c == v) || (ms.isEmpty && !b)) "wrong-constant"
     | none => chk (b == (ms.map e.val).contains v) "wrong-solution")
  | .isTrue c _, .bool b => chk (!b || ms.all c.sem) "unsound-is_true"
  | .isFalse c _, .bool b => chk (!b || ms.all fun a => !c.sem a) "unsound-is_false"
  | .eval _ _ _, .err .unsat => chk ms.isEmpty "spurious-unsat"
  | .batchEval _ _ _, .err .unsat => chk ms.isEmpty "spurious-unsat"
  | .min _ _ _, .err .unsat => chk ms.isEmpty "spurious-unsat"
  | .max _ _ _, .err .unsat => chk ms.isEmpty "spurious-unsat"
  | .solution _ _ _, .err .unsat => chk ms.isEmpty "spurious-unsat"
  | .isTrue _ _, .err .unsat => chk ms.isEmpty "spurious-unsat"
  | .isFalse _ _, .err .unsat => chk ms.isEmpty "spurious-unsat"
  | .unsatCore _, .cons _ => none
  | _, .err .giveUp => none
  | _, _ => some "unexpected-outcome"

def Op.extra : Op → List Con
  | .satisfiable ex | .eval _ _ ex | .batchEval _ _ ex | .min _ ex _ | .max _ ex _ | .solution _ _ ex
  | .isTrue _ ex | .isFalse _ ex | .unsatCore ex => ex
  | _ => []

def judgeFin (dom : List Asg) (cs : List Con) (op : Op) (out : Out) : Option String :=
  judgeModels (modelsOn dom (cs ++ op.extra)) op out

end Claripy.Solver
