import Claripy.Solver.Basic
/-
ConstrainedFrontend.merge / combine / split at the level of constraint lists, and `_split_constraints`
(claripy/frontend/constrained_frontend.py), transcribed as written: two dicts variable ↦ set, every newly
connected variable is re-pointed at the united sets.
-/
namespace Claripy.Solver

/-! ### `_split_constraints` -/

def alGet? (d : List (Var × β)) (k : Var) : Option β := (d.find? fun p => p.1 == k).map (·.2)

def alSet (d : List (Var × β)) (k : Var) (x : β) : List (Var × β) :=
  if d.any (fun p => p.1 == k) then d.map (fun p => if p.1 == k then (k, x) else p) else d ++ [(k, x)]

structure SplitSt where
  /-- `variable_connections` -/
  vc : List (Var × List Var) := []
  /-- `constraint_connections` -/
  cc : List (Var × List Nat) := []

/-- one iteration of the `for n, s in enumerate(splitted)` loop (for a constraint with variables `vars`) -/
def splitStep (st : SplitSt) (n : Nat) (vars : List Var) : SplitSt :=
  let cv := vars.foldl (fun acc v => match alGet? st.vc v with | some s => listUnion acc s | none => acc)
              (vars.foldl listInsert [])
  let cs := vars.foldl (fun acc v => match alGet? st.cc v with | some s => listUnion acc s | none => acc) [n]
  { vc := cv.foldl (fun d v => alSet d v cv) st.vc,
    cc := cv.foldl (fun d v => alSet d v cs) st.cc }

def insertSorted (x : Nat) : List Nat → List Nat
  | [] => [x]
  | y :: ys => if x < y then x :: y :: ys else if x = y then y :: ys else y :: insertSorted x ys

def sortDedup (l : List Nat) : List Nat := l.foldl (fun acc x => insertSorted x acc) []

/-- `_split_constraints` on the variable lists of the (already And-split) constraints: the groups as
(sorted variable set, sorted constraint indices); constraints without variables form the `CONCRETE` group,
returned separately -/
def splitConstraints (varss : List (List Var)) : List (List Var × List Nat) × List Nat :=
  let st := (varss.zipIdx).foldl (fun st p => splitStep st p.2 p.1) {}
  let groups := st.vc.foldl (fun (acc : List (List Var × List Nat)) p =>
    let g := (sortDedup p.2, sortDedup ((alGet? st.cc p.1).getD []))
    if acc.contains g then acc else acc ++ [g]) []
  let concrete := (varss.zipIdx).filterMap fun p => if p.1.isEmpty then some p.2 else none
  (groups, concrete)

/-! ### merge / combine / split on constraint lists (ConstrainedFrontend) -/

/-- `Or(*[And(v, *s.constraints) for s, v in zip([self] + others, merge_conditions)])` -/
def mergeSem (opts : List (Con × List Con)) (a : Asg) : Bool :=
  opts.any fun o => o.1.sem a && holdsAll o.2 a

/-- `combined.add(self.constraints); for o in others: combined.add(o.constraints)` -/
def combineCons (self : List Con) (others : List (List Con)) : List Con := self ++ others.flatten

end Claripy.Solver
