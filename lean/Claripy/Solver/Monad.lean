import Claripy.Solver.Oracle
/-
State of one frontend object together with the heap of Z3 solver objects it can reach, and the
state-and-exception monad the transcribed methods run in.  An exception leaves the state as it was at the
`raise` (Python semantics) — that is what C17 is about.
-/
namespace Claripy.Solver

/-- the fields the Python frontend objects carry (ConstrainedFrontend, FullFrontend and the mixins); fields of
mixins a class does not inherit stay at their initial value -/
structure Frontend where
  -- ConstrainedFrontend
  constraints : List Con := []
  woAnnot : List Nat := []          -- constraints_wo_annotations
  variables : List Var := []
  finalized : Bool := false
  -- FullFrontend
  track : Bool := false
  solver : Option Nat := none       -- _tls.solver (reference into the heap)
  toAdd : List Con := []
  -- ConstraintDeduplicatorMixin
  hashes : List Nat := []
  -- SimplifySkipperMixin
  simplified : Bool := true
  -- SatCacheMixin
  cachedSat : Option Bool := none
  cachedCore : Option (List Con) := none
  -- ModelCacheMixin
  models : List PModel := []
  evalExh : List Nat := []
  maxExh : List Nat := []
  minExh : List Nat := []
  maxSExh : List Nat := []
  minSExh : List Nat := []
  deriving Inhabited

structure St where
  fe : Frontend := {}
  objs : List Z3Obj := []           -- heap of z3.Solver objects, a reference is an index
  reuse : Bool := false             -- backends.z3.reuse_z3_solver
  shared : Option Nat := none       -- backends.z3._tls.solver (only used when `reuse`)
  tick : Nat := 0                   -- number of external events consumed so far
  qlog : List (Query × Answer) := []  -- every oracle exchange (newest first); observation only
  deriving Inhabited

def M (α : Type) := St → Except Err α × St

namespace M
@[inline] def pure (a : α) : M α := fun s => (.ok a, s)
@[inline] def bind (m : M α) (f : α → M β) : M β := fun s =>
  match m s with
  | (.ok a, s') => f a s'
  | (.error e, s') => (.error e, s')
instance : Monad M := { pure := M.pure, bind := M.bind }
@[inline] def get : M St := fun s => (.ok s, s)
@[inline] def set (s : St) : M Unit := fun _ => (.ok (), s)
@[inline] def modify (f : St → St) : M Unit := fun s => (.ok (), f s)
@[inline] def modifyFe (f : Frontend → Frontend) : M Unit := fun s => (.ok (), { s with fe := f s.fe })
@[inline] def getFe : M Frontend := fun s => (.ok s.fe, s)
@[inline] def throw (e : Err) : M α := fun s => (.error e, s)
/-- `try: m  except <e matching p>: h` -/
@[inline] def tryCatch (m : M α) (p : Err → Bool) (h : M α) : M α := fun s =>
  match m s with
  | (.ok a, s') => (.ok a, s')
  | (.error e, s') => if p e then h s' else (.error e, s')
/-- `try: m  finally: fin` -/
@[inline] def tryFinally (m : M α) (fin : M Unit) : M α := fun s =>
  match m s with
  | (.ok a, s') => (match fin s' with | (.ok _, s'') => (.ok a, s'') | (.error e, s'') => (.error e, s''))
  | (.error e, s') => (match fin s' with | (_, s'') => (.error e, s''))
end M

end Claripy.Solver
