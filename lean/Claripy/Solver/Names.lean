/-
Names of the classes in claripy/solvers.py and of everything that can occur in their `__mro__`.
The generated file Claripy/Gen/SolverMro.lean lists the MRO of every class in these terms.
-/
namespace Claripy.Solver

inductive LayerName where
  | ConcreteHandlerMixin | EagerResolutionMixin | ConstraintFilterMixin | ConstraintDeduplicatorMixin
  | SimplifySkipperMixin | SatCacheMixin | ModelCacheMixin | ConstraintExpansionMixin | SimplifyHelperMixin
  | CompositedCacheMixin | SolveBlockMixin
  | FullFrontend | ConstrainedFrontend | Frontend
  | CompositeFrontend | HybridFrontend | ReplacementFrontend | LightFrontend
  deriving DecidableEq, Repr, Inhabited

inductive SolverClass where
  | Solver | SolverCacheless | SolverReplacement | SolverHybrid | SolverVSA | SolverConcrete | SolverStrings
  | SolverCompositeChild | SolverComposite
  deriving DecidableEq, Repr, Inhabited

end Claripy.Solver
