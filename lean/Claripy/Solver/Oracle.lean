import Claripy.Solver.Basic
/-
L0: the Z3 solver object and everything else the frontends obtain from outside, as PARAMETERS (`Env`):
  * `oracle q k`     — the answer of the k-th `solver.check(assumptions)` on the assertions `q.asserted`
  * `build key`      — the claripy AST that `claripy.ULE(e, m)` etc. construct (hash-consed, possibly folded)
  * `cheapFalse`     — `claripy.is_false(And(c1, c2))` of SatCacheMixin._add
  * `truth`          — `backend.is_true / is_false` (Z3 simplify-to-literal) of FullFrontend.is_true/is_false
  * `simp`           — the conjunct list `claripy.simplify(And(*cs))` yields in ConstrainedFrontend.simplify
  * `pick`           — which `n` of the cached value tuples Python's set iteration happens to yield first
Every use carries the global event counter `tick`, so answers may differ from call to call (Z3 and Python sets
are not deterministic); theorems quantify over all `Env`s that satisfy the exactness hypotheses.
-/
namespace Claripy.Solver

inductive Err where
  | unsat        -- claripy.errors.UnsatError
  | giveUp       -- ClaripySolverInterruptError / ClaripyZ3Error raised by z3_solver_sat on `unknown`
  | value        -- ClaripyValueError (extra_constraints is not a list/tuple)
  | notImpl      -- NotImplementedError of the abstract bases
  | badChoice    -- model only: the recorded nondeterministic choice is not a behaviour of the code
  deriving DecidableEq, Repr, Inhabited

/-- provenance of an assertion inside the Z3 object (printing / correspondence only; `sem` is the meaning) -/
inductive ZTag where
  | con (zid : Nat)                                  -- a converted claripy constraint (Z3 AST identity)
  | ne (e : Nat) (v : Nat)                           -- `exprs[0] != r[0]`               (_batch_eval)
  | notAll (evs : List (Nat × Nat))                  -- `Not(And(ex == v, ...))`         (_batch_eval)
  | range (e : Nat) (lo hi : Int) (signed : Bool)    -- `And(GE(e, lo), LE(e, hi))`      (_extrema)
  | eqv (e : Nat) (v : Int)                          -- `expr == v`                      (_extrema, _solution)
  | cmp (signed ge : Bool) (e : Nat) (v : Nat)       -- `SLE/ULE/SGE/UGE(e, v)`          (FullFrontend.min/max)
  | blockAll (rs : List (List Nat)) (es : List Nat)  -- `And(Or(a != v, ...), ...)`      (ModelCacheMixin.batch_eval)
  deriving DecidableEq, Repr, Inhabited

structure ZCon where
  tag : ZTag
  sem : Asg → Bool

instance : Inhabited ZCon := ⟨⟨.con 0, fun _ => true⟩⟩

def ZCon.ofCon (c : Con) : ZCon := ⟨.con c.zid, c.sem⟩

/-- A `z3.Solver`: assertion frames (innermost first; the last one is the base level) and the core of the
last `check`. -/
structure Z3Obj where
  frames : List (List ZCon) := [[]]
  lastCore : List Nat := []
  deriving Inhabited

def Z3Obj.asserted (o : Z3Obj) : List ZCon := (o.frames.reverse).flatten

structure Query where
  asserted : List ZCon
  assumptions : List ZCon

def Query.all (q : Query) : List ZCon := q.asserted ++ q.assumptions

def Query.holds (q : Query) (a : Asg) : Bool := q.all.all fun c => c.sem a

inductive Answer where
  /-- `sat`: Z3's model, values listed for every variable (Z3's own completion) and the constants it mentions -/
  | sat (vals : List Nat) (keys : List Var)
  /-- `unsat` with the tracked names Z3 reports as core -/
  | unsat (core : List Nat)
  | unknown
  deriving DecidableEq, Repr, Inhabited

/-- the derived constraints claripy builds inside the frontends (ConstraintExpansionMixin) -/
inductive BuildKey where
  | ule (e : Exp) (m : Int) | uge (e : Exp) (m : Int) | sle (e : Exp) (m : Int) | sge (e : Exp) (m : Int)
  | ne (e : Exp) (v : Nat)
  | orEq (e : Exp) (vs : List Nat)

structure Env where
  /-- `ModelCache._leaf_op` default of a variable missing from a cached model (0, or 1 for `BoolS`) -/
  dflt : Var → Nat
  oracle : Query → Nat → Answer
  build : BuildKey → Con
  /-- the AST `claripy.false()` -/
  falseCon : Con
  cheapFalse : Con → Con → Nat → Bool
  truth : (isTrue : Bool) → Con → Nat → Bool
  simp : List Con → Nat → List Con
  pick : (all : List (List Nat)) → (n : Nat) → Nat → List (List Nat)

/-- meaning the code intends for each derived constraint, from the expression's value function -/
def BuildKey.sem : BuildKey → Asg → Bool
  | .ule x m, a => decide (x.val a ≤ wrap x.bits m)
  | .uge x m, a => decide (x.val a ≥ wrap x.bits m)
  | .sle x m, a => decide (toSigned x.bits (x.val a) ≤ toSigned x.bits (wrap x.bits m))
  | .sge x m, a => decide (toSigned x.bits (x.val a) ≥ toSigned x.bits (wrap x.bits m))
  | .ne x v, a => decide (x.val a ≠ v % 2 ^ x.bits)
  | .orEq x vs, a => vs.any fun v => decide (x.val a = v % 2 ^ x.bits)

def BuildKey.exp : BuildKey → Exp
  | .ule x _ | .uge x _ | .sle x _ | .sge x _ | .ne x _ | .orEq x _ => x

end Claripy.Solver
