import Claripy.Solver.Full
/-
L3: claripy/frontend/mixin/*.py, one `Layer` per mixin, transcribed as written (on the tree with the `fix:`
commits recorded in known_findings.json).
-/
namespace Claripy.Solver

/-! ### ModelCacheMixin -/

/-- `ModelCache.eval_constraints` (no division in the modelled alphabets, so no ClaripyZeroDivisionError) -/
def modelSatisfies (E : Env) (m : PModel) (extra : List Con) : Bool :=
  extra.all fun c => c.sem (m.complete E.dflt)

/-- `list(self._get_models(extra_constraints))` -/
def getModels (E : Env) (fe : Frontend) (extra : List Con) : List PModel :=
  fe.models.filter fun m => modelSatisfies E m extra

/-- `ModelCache.eval_list(asts, allow_unconstrained)`; `none` is the KeyError of `_leaf_op_existonly` -/
def evalList (E : Env) (m : PModel) (asts : List Exp) (allowUnc : Bool) : Option (List Nat) :=
  if allowUnc || asts.all (fun e => e.vars.all m.hasKey) then
    some (asts.map fun e => e.val (m.complete E.dflt))
  else none

/-- every value tuple the cached models yield: `_get_batch_solutions(asts, n=None, ...)` -/
def allBatchSolutions (E : Env) (fe : Frontend) (asts : List Exp) (extra : List Con) (allowUnc : Bool) :
    List (List Nat) :=
  ((getModels E fe extra).filterMap fun m => evalList E m asts allowUnc).foldl listInsert []

/-- `_get_batch_solutions(asts, n, extra)`: with a bound `n` the loop stops after `n` distinct tuples, in the
iteration order of a Python set — a recorded choice (`E.pick`), checked to be one the code can make -/
def getBatchSolutions (E : Env) (asts : List Exp) (n : Nat) (extra : List Con) : M (List (List Nat)) := do
  let s ← M.get
  let all := allBatchSolutions E s.fe asts extra true
  let chosen := E.pick all n s.tick
  M.modify fun s => { s with tick := s.tick + 1 }
  if subsetB chosen all && chosen.length == min n all.length
     && chosen.foldl listInsert [] == chosen then pure chosen
  else M.throw .badChoice

def blockAllCon (asts : List Exp) (results : List (List Nat)) : Con :=
  { id := 0, vars := asts.foldl (fun acc e => listUnion acc e.vars) [],
    sem := fun a => results.all fun r => (asts.zip r).any fun ev => decide (ev.1.val a ≠ ev.2) }

def clearFlags (fe : Frontend) : Frontend :=
  { fe with evalExh := [], maxExh := [], minExh := [], maxSExh := [], minSExh := [] }

/-- `ModelCacheMixin.batch_eval` -/
def modelCacheBatchEval (E : Env) (sup : Ops) (asts : List Exp) (n : Nat) (extra : List Con) :
    M (List (List Nat)) := do
  let results ← getBatchSolutions E asts n extra
  let fe ← M.getFe
  let exhausted := !results.isEmpty && extra.isEmpty && (match asts with | [e] => fe.evalExh.contains e.id | _ => false)
  if results.length == n || exhausted then pure results
  else do
    let remaining := n - results.length
    let constraints := if !results.isEmpty then blockAllCon asts results :: extra else extra
    let more ← M.tryCatch (sup.batchEval asts remaining constraints) (· == .unsat)
      (if results.isEmpty then M.throw .unsat else pure [])
    let results := listUnion results more
    if extra.isEmpty && results.length < n then
      M.modifyFe fun fe => asts.foldl (fun fe e =>
        if subsetB e.vars fe.variables then { fe with evalExh := listInsert fe.evalExh e.id } else fe) fe
    pure results

def pickBy (better : Int → Int → Bool) (keyf : Nat → Int) : List Nat → Option Nat
  | [] => none
  | v :: rest => some (rest.foldl (fun best w => if better (keyf w) (keyf best) then w else best) v)

/-- `ModelCacheMixin.min` / `.max` -/
def modelCacheExtremum (E : Env) (sup : Ops) (isMax : Bool) (e : Exp) (extra : List Con) (signed : Bool) :
    M Int := do
  let fe ← M.getFe
  let flags := if isMax then (if signed then fe.maxSExh else fe.maxExh)
               else (if signed then fe.minSExh else fe.minExh)
  let cached :=
    if extra.isEmpty && (fe.evalExh.contains e.id || flags.contains e.id) then
      (allBatchSolutions E fe [e] [] true).map fun t => t.headD 0
    else []
  match pickBy (if isMax then (fun a b => decide (a > b)) else (fun a b => decide (a < b))) (key signed e.bits) cached with
  | some v => pure (v : Int)
  | none => do
      let cacheable := extra.isEmpty && subsetB e.vars fe.variables
      let m ← if isMax then sup.max e extra signed else sup.min e extra signed
      if cacheable then
        M.modifyFe fun fe =>
          if isMax then (if signed then { fe with maxSExh := listInsert fe.maxSExh e.id }
                         else { fe with maxExh := listInsert fe.maxExh e.id })
          else (if signed then { fe with minSExh := listInsert fe.minSExh e.id }
                else { fe with minExh := listInsert fe.minExh e.id })
      pure m

def modelCacheLayer (E : Env) : Layer := fun _self sup =>
  { sup with
    simplify := do
      let results ← sup.simplify
      if !results.isEmpty && results.any (·.isFalse) then
        M.modifyFe fun fe => { fe with models := [] }
      pure results
    add := fun cs invalidate => do
      if cs.isEmpty then pure cs
      else do
        let oldVars := (← M.getFe).variables
        let added ← sup.add cs invalidate
        if added.isEmpty then pure added
        else do
          let fe ← M.getFe
          -- _trivial_model_optimization
          if fe.constraints.length == 1 && fe.models.isEmpty then
            match (fe.constraints.headD default).triv with
            | some (v, x, eid) =>
              M.modifyFe fun fe =>
                { fe with models := listInsert fe.models [(v, x)],
                          evalExh := listInsert fe.evalExh eid, maxExh := listInsert fe.maxExh eid,
                          minExh := listInsert fe.minExh eid, maxSExh := listInsert fe.maxSExh eid,
                          minSExh := listInsert fe.minSExh eid }
            | none => pure ()
          let newVars := added.any fun a => a.vars.any fun v => !oldVars.contains v
          if newVars || invalidate then
            if cs.any (·.isFalse) then M.modifyFe fun fe => { fe with models := [] }
            let fe ← M.getFe
            let stillValid := getModels E fe added
            if stillValid.length != fe.models.length then
              M.modifyFe fun fe => { clearFlags fe with models := stillValid }
          pure added
    modelHook := fun m => do
      let fe ← M.getFe
      let m' := m.restrict fe.variables
      if !m'.isEmpty then M.modifyFe fun fe => { fe with models := listInsert fe.models m' }
    satisfiable := fun extra => do
      let fe ← M.getFe
      if !(getModels E fe extra).isEmpty then pure true else sup.satisfiable extra
    batchEval := fun asts n extra => modelCacheBatchEval E sup asts n extra
    eval := fun e n extra => do
      let rs ← modelCacheBatchEval E sup [e] n extra
      pure (rs.map fun t => t.headD 0)
    min := fun e extra signed => modelCacheExtremum E sup false e extra signed
    max := fun e extra signed => modelCacheExtremum E sup true e extra signed
    solution := fun e v extra => do
      let fe ← M.getFe
      let cached := (allBatchSolutions E fe [e] extra true).map fun t => t.headD 0
      if cached.contains v then pure true else sup.solution e v extra
    blankCopy := fun self c =>
      clearFlags { sup.blankCopy self c with models := [] }
    copy := fun c => do
      let c ← sup.copy c
      let fe ← M.getFe
      pure { c with models := fe.models, evalExh := fe.evalExh, maxExh := fe.maxExh, minExh := fe.minExh,
                    maxSExh := fe.maxSExh, minSExh := fe.minSExh }
  }

/-! ### SatCacheMixin -/

/-- the pairwise cheap contradiction scan of `SatCacheMixin._add` -/
def cheapScan (E : Env) (added : Con) : List Con → M (Option Con)
  | [] => pure none
  | con :: rest => do
      let s ← M.get
      M.modify fun s => { s with tick := s.tick + 1 }
      if E.cheapFalse con added s.tick then pure (some con) else cheapScan E added rest

/-- shared shape of SatCacheMixin.eval / batch_eval / max / min -/
def satCacheQuery (m : M α) (extraEmpty : Bool) : M α := do
  let fe ← M.getFe
  if fe.cachedSat == some false then M.throw .unsat
  else do
    let r ← M.tryCatch m (· == .unsat) (do
      if extraEmpty then M.modifyFe fun fe => { fe with cachedSat := some false }
      M.throw .unsat)
    M.modifyFe fun fe => { fe with cachedSat := some true }
    pure r

/-- the part of `SatCacheMixin._add` that decides `cached_satness = False` (and records the cheap core) -/
def satCacheAddScan (E : Env) (added : List Con) : M Bool := do
  if added.isEmpty then pure false
  else if added.any (·.isFalse) then pure true
  else
    match added with
    | [a] => do
      let fe ← M.getFe
      if fe.constraints.length < 5 then
        match ← cheapScan E a fe.constraints with
        | some con => do
          M.modifyFe fun fe => { fe with cachedCore := some [con, a] }
          pure true
        | none => pure false
      else pure false
    | _ => pure false

def satCacheLayer (E : Env) : Layer := fun _self sup =>
  { sup with
    add := fun cs invalidate => do
      let added ← sup.add cs invalidate
      let foundUnsat ← satCacheAddScan E added
      if foundUnsat then M.modifyFe fun fe => { fe with cachedSat := some false }
      else M.modifyFe fun fe => if fe.cachedSat == some true then { fe with cachedSat := none } else fe
      pure added
    simplify := do
      let cs ← sup.simplify
      if !cs.isEmpty && cs.any (·.isFalse) then M.modifyFe fun fe => { fe with cachedSat := some false }
      -- the cached core is dropped when simplification has rewritten one of the constraints it names
      M.modifyFe fun fe =>
        match fe.cachedCore with
        | some core => if core.any (fun c => !(cs.any fun c' => c'.id == c.id)) then { fe with cachedCore := none } else fe
        | none => fe
      pure cs
    satisfiable := fun extra => do
      let fe ← M.getFe
      if fe.cachedSat == some false then pure false
      else if fe.cachedSat == some true && extra.isEmpty then pure true
      else do
        let r ← sup.satisfiable extra
        if extra.isEmpty then M.modifyFe fun fe => { fe with cachedSat := some r }
        pure r
    eval := fun e n extra => satCacheQuery (sup.eval e n extra) extra.isEmpty
    batchEval := fun es n extra => satCacheQuery (sup.batchEval es n extra) extra.isEmpty
    max := fun e extra signed => satCacheQuery (sup.max e extra signed) extra.isEmpty
    min := fun e extra signed => satCacheQuery (sup.min e extra signed) extra.isEmpty
    solution := fun e v extra => do
      let fe ← M.getFe
      if fe.cachedSat == some false then M.throw .unsat
      else do
        let r ← M.tryCatch (sup.solution e v extra) (· == .unsat) (do
          if extra.isEmpty then M.modifyFe fun fe => { fe with cachedSat := some false }
          M.throw .unsat)
        if r then M.modifyFe fun fe => { fe with cachedSat := some true }
        pure r
    unsatCore := fun extra => do
      let fe ← M.getFe
      match fe.cachedCore with
      | some core => pure core
      | none => sup.unsatCore extra
    blankCopy := fun self c => { sup.blankCopy self c with cachedSat := none, cachedCore := none }
    copy := fun c => do
      let c ← sup.copy c
      let fe ← M.getFe
      pure { c with cachedSat := fe.cachedSat, cachedCore := fe.cachedCore }
  }

/-! ### ConstraintExpansionMixin -/

def expansionLayer (E : Env) : Layer := fun self sup =>
  { sup with
    eval := fun e n extra => do
      let results ← sup.eval e n extra
      if extra.isEmpty && results.length < n then
        let _ ← publicAdd self [E.build (.orEq e results)] false
      pure results
    max := fun e extra signed => do
      let m ← sup.max e extra signed
      if extra.isEmpty then
        let _ ← publicAdd self [E.build (if signed then .sle e m else .ule e m)] false
      pure m
    min := fun e extra signed => do
      let m ← sup.min e extra signed
      if extra.isEmpty then
        let _ ← publicAdd self [E.build (if signed then .sge e m else .uge e m)] false
      pure m
    solution := fun e v extra => do
      let b ← sup.solution e v extra
      if !b && extra.isEmpty then
        let _ ← publicAdd self [E.build (.ne e v)] false
      pure b
  }

/-! ### ConstraintFilterMixin -/

/-- `_constraint_filter`: UnsatError if some constraint is concretely False, else drop the concretely True ones -/
def constraintFilter (self : Ops) (cs : List Con) : Except Err (List Con) :=
  if cs.isEmpty then .ok cs
  else if cs.any (fun c => self.concreteCon c == some false) then .error .unsat
  else .ok (cs.filter fun c => self.concreteCon c != some true)

def liftE (x : Except Err α) : M α := fun s => (x, s)

def filterLayer (E : Env) : Layer := fun self sup =>
  { sup with
    add := fun cs invalidate => do
      let ec := match constraintFilter self cs with
        | .ok ec => ec
        | .error _ => (cs.filter fun c => c.id != E.falseCon.id) ++ [E.falseCon]
      if cs.isEmpty then pure []
      else if !ec.isEmpty then sup.add ec invalidate
      else pure []
    satisfiable := fun extra =>
      M.tryCatch (do let ec ← liftE (constraintFilter self extra); sup.satisfiable ec) (· == .unsat) (pure false)
    eval := fun e n extra => do let ec ← liftE (constraintFilter self extra); sup.eval e n ec
    batchEval := fun es n extra => do let ec ← liftE (constraintFilter self extra); sup.batchEval es n ec
    max := fun e extra signed => do let ec ← liftE (constraintFilter self extra); sup.max e ec signed
    min := fun e extra signed => do let ec ← liftE (constraintFilter self extra); sup.min e ec signed
    solution := fun e v extra => do let ec ← liftE (constraintFilter self extra); sup.solution e v ec
    isTrue := fun c extra => do let ec ← liftE (constraintFilter self extra); sup.isTrue c ec
    isFalse := fun c extra => do let ec ← liftE (constraintFilter self extra); sup.isFalse c ec
  }

/-! ### ConstraintDeduplicatorMixin -/

def dedupLayer : Layer := fun _self sup =>
  { sup with
    simplify := do
      let added ← sup.simplify
      M.modifyFe fun fe => { fe with hashes := listUnion fe.hashes (added.map (·.id)) }
      pure added
    add := fun cs invalidate => do
      let fe ← M.getFe
      let filtered := cs.filter fun c => !fe.hashes.contains c.id
      if filtered.isEmpty then pure filtered
      else do
        let added ← sup.add filtered invalidate
        M.modifyFe fun fe => { fe with hashes := listUnion fe.hashes (added.map (·.id)) }
        pure added
    blankCopy := fun self c => { sup.blankCopy self c with hashes := [] }
    copy := fun c => do
      let c ← sup.copy c
      let fe ← M.getFe
      pure { c with hashes := fe.hashes }
  }

/-! ### SimplifySkipperMixin -/

def skipperLayer : Layer := fun _self sup =>
  { sup with
    add := fun cs invalidate => do
      let added ← sup.add cs invalidate
      if !added.isEmpty then M.modifyFe fun fe => { fe with simplified := false }
      pure added
    simplify := do
      let fe ← M.getFe
      if fe.simplified then pure fe.constraints
      else do
        M.modifyFe fun fe => { fe with simplified := true }
        sup.simplify
    blankCopy := fun self c => { sup.blankCopy self c with simplified := true }
    copy := fun c => do
      let c ← sup.copy c
      let fe ← M.getFe
      pure { c with simplified := fe.simplified }
  }

/-! ### SimplifyHelperMixin -/

def helperLayer : Layer := fun self sup =>
  { sup with
    max := fun e extra signed => do let _ ← self.simplify; sup.max e extra signed
    min := fun e extra signed => do let _ ← self.simplify; sup.min e extra signed
    eval := fun e n extra => do
      if n > 1 then let _ ← self.simplify
      sup.eval e n extra
    batchEval := fun es n extra => do
      if n > 1 then let _ ← self.simplify
      sup.batchEval es n extra
  }

/-! ### ConcreteHandlerMixin -/

def concreteHandlerLayer : Layer := fun self sup =>
  { sup with
    eval := fun e n extra =>
      match self.concreteValue e with
      | some c => pure [c]
      | none => sup.eval e n extra
    batchEval := fun es n extra => do
      let conc := es.map self.concreteValue
      let symbolic := (es.zip conc).filterMap fun ec => if ec.2.isNone then some ec.1 else none
      if symbolic.isEmpty then pure [conc.map (·.getD 0)]
      else do
        let rs ← sup.batchEval symbolic n extra
        pure (rs.map fun r =>
          (conc.foldl (fun (acc : List Nat × List Nat) c =>
            match c with
            | some v => (acc.1 ++ [v], acc.2)
            | none => (acc.1 ++ [acc.2.headD 0], acc.2.tail)) ([], r)).1)
    max := fun e extra signed =>
      match self.concreteValue e with
      | some c => pure (c : Int)
      | none => sup.max e extra signed
    min := fun e extra signed =>
      match self.concreteValue e with
      | some c => pure (c : Int)
      | none => sup.min e extra signed
    solution := fun e v extra =>
      match self.concreteValue e with
      | some ce => pure (ce == v)         -- `v` is always a Python int here, hence concrete
      | none => sup.solution e v extra
    isTrue := fun c extra =>
      match self.concreteCon c with
      | some b => pure b
      | none => sup.isTrue c extra
    isFalse := fun c extra =>
      match self.concreteCon c with
      | some b => pure (!b)
      | none => sup.isFalse c extra
  }

/-! ### EagerResolutionMixin -/

def eagerLayer : Layer := fun _self sup =>
  { sup with
    concreteValue := fun e => match sup.concreteValue e with | some r => some r | none => e.conc
    concreteCon := fun c => match sup.concreteCon c with | some r => some r | none => c.conc
  }

end Claripy.Solver
