/-
Solver family, layer 0 data.

Constraints and expressions are opaque to the frontends: a record with an identity (the AST hash), the
variable set, the meaning as a function of a total assignment, and the few shape bits the frontends inspect
(`c is false()`, `_concrete_constraint(c)`, the `BVS == constant` shape of `_trivial_model_optimization`).
The theorems quantify over arbitrary `sem`/`val`; the driver supplies truth tables over a small finite domain.
-/
namespace Claripy.Solver

abbrev Var := Nat
/-- A total assignment: variable ↦ value (Booleans as 0/1). -/
abbrev Asg := Var → Nat

/-- A claripy `Bool` AST as a frontend sees it. -/
structure Con where
  id : Nat
  vars : List Var
  sem : Asg → Bool
  /-- identity of the Z3 AST `backends.z3.convert(c)` (different claripy ASTs may convert to the same Z3 AST) -/
  zid : Nat := id
  /-- `c is false()` -/
  isFalse : Bool := false
  /-- `self._concrete_constraint(c)` (EagerResolutionMixin: `backends.concrete.eval(c, 1)[0]`, `None` on BackendError) -/
  conc : Option Bool := none
  /-- depth-2 `BVS == <concrete>` with one variable: (variable, value, id of the `BVS` expression) -/
  triv : Option (Var × Nat × Nat) := none

/-- A claripy `BV` (or `Bool`, values 0/1) AST used as a query expression. -/
structure Exp where
  id : Nat
  bits : Nat
  vars : List Var
  val : Asg → Nat
  /-- `self._concrete_value(e)` -/
  conc : Option Nat := none

instance : Inhabited Con := ⟨{ id := 0, vars := [], sem := fun _ => true }⟩
instance : Inhabited Exp := ⟨{ id := 0, bits := 1, vars := [], val := fun _ => 0 }⟩

/-- A model as claripy caches it (`ModelCache.model`): a finite map variable ↦ value, kept sorted by variable
so that dict equality is list equality. -/
abbrev PModel := List (Var × Nat)

def PModel.get? (m : PModel) (v : Var) : Option Nat :=
  match m with
  | [] => none
  | (k, x) :: rest => if k = v then some x else PModel.get? rest v

def PModel.hasKey (m : PModel) (v : Var) : Bool := (PModel.get? m v).isSome

/-- `ModelCache._leaf_op`: a variable missing from the model takes claripy's default (`0`, `True`). -/
def PModel.complete (dflt : Var → Nat) (m : PModel) : Asg :=
  fun v => (PModel.get? m v).getD (dflt v)

/-- Insert keeping the list sorted by key, replacing an existing key. -/
def PModel.insert (m : PModel) (k : Var) (x : Nat) : PModel :=
  match m with
  | [] => [(k, x)]
  | (k', x') :: rest =>
    if k < k' then (k, x) :: (k', x') :: rest
    else if k = k' then (k, x) :: rest
    else (k', x') :: PModel.insert rest k x

/-- `{k: v for k, v in m.items() if k in variables}` -/
def PModel.restrict (m : PModel) (vars : List Var) : PModel :=
  m.filter fun kv => vars.contains kv.1

/-- The Z3 model of a `sat` answer as `_generic_model` returns it: the values (by Z3's own completion, listed for
every variable of the universe) restricted to the constants the Z3 model mentions (`keys`). -/
def PModel.ofKeys (vals : List Nat) (keys : List Var) : PModel :=
  keys.foldl (fun m k => PModel.insert m k (vals.getD k 0)) []

def asgOf (vals : List Nat) : Asg := fun v => vals.getD v 0

/-- all constraints hold -/
def holdsAll (cs : List Con) (a : Asg) : Bool := cs.all fun c => c.sem a

/-- two's complement reading of an `n`-bit pattern -/
def toSigned (bits : Nat) (v : Nat) : Int :=
  if bits = 0 then 0 else if v % 2 ^ bits < 2 ^ (bits - 1) then ((v % 2 ^ bits : Nat) : Int) else ((v % 2 ^ bits : Nat) : Int) - ((2 ^ bits : Nat) : Int)

/-- Z3 coerces a Python int to a bit-vector of the expression's size: value mod 2^bits -/
def wrap (bits : Nat) (i : Int) : Nat := (i % ((2 ^ bits : Nat) : Int)).toNat

/-- the order `min`/`max` refer to: signed or unsigned reading of the pattern -/
def key (signed : Bool) (bits : Nat) (v : Nat) : Int :=
  if signed then toSigned bits v else ((v % 2 ^ bits : Nat) : Int)

def listInsert [BEq α] (l : List α) (x : α) : List α := if l.contains x then l else l ++ [x]

def listUnion [BEq α] (l r : List α) : List α := r.foldl listInsert l

def subsetB [BEq α] (l r : List α) : Bool := l.all r.contains

end Claripy.Solver
