import Claripy.Solver.BackendZ3
/-
The method table of a frontend class.  A mixin is a `Layer`: given `self` (the complete class, late binding)
and `super` (the rest of the MRO) it overrides some methods.  Extra constraints are claripy ASTs (`Con`);
constraints a frontend builds only to pass them down as assumptions carry the anonymous id 0.
-/
namespace Claripy.Solver

structure Ops where
  /-- `_add(constraints, invalidate_cache)` -/
  add : List Con → Bool → M (List Con)
  simplify : M (List Con)
  satisfiable : List Con → M Bool
  eval : Exp → Nat → List Con → M (List Nat)
  batchEval : List Exp → Nat → List Con → M (List (List Nat))
  max : Exp → List Con → Bool → M Int
  min : Exp → List Con → Bool → M Int
  solution : Exp → Nat → List Con → M Bool
  isTrue : Con → List Con → M Bool
  isFalse : Con → List Con → M Bool
  unsatCore : List Con → M (List Con)
  downsize : M Unit
  /-- `_concrete_value(e)` / `_concrete_constraint(c)` -/
  concreteValue : Exp → Option Nat
  concreteCon : Con → Option Bool
  /-- `_model_hook(m)` -/
  modelHook : PModel → M Unit
  /-- `_blank_copy(c)` then `_copy(c)`: builds the branch `c`; may touch `self` (finalize) -/
  blankCopy : Frontend → Frontend → Frontend
  copy : Frontend → M Frontend

abbrev Layer := Ops → Ops → Ops

/-- class `Frontend`: everything abstract -/
def frontendBase : Ops where
  add := fun _ _ => M.throw .notImpl
  simplify := M.throw .notImpl
  satisfiable := fun _ => M.throw .notImpl
  eval := fun _ _ _ => M.throw .notImpl
  batchEval := fun _ _ _ => M.throw .notImpl
  max := fun _ _ _ => M.throw .notImpl
  min := fun _ _ _ => M.throw .notImpl
  solution := fun _ _ _ => M.throw .notImpl
  isTrue := fun _ _ => M.throw .notImpl
  isFalse := fun _ _ => M.throw .notImpl
  unsatCore := fun _ => M.throw .notImpl
  downsize := pure ()
  concreteValue := fun _ => none          -- an AST is not a `numbers.Number`
  concreteCon := fun _ => none
  modelHook := fun _ => pure ()
  blankCopy := fun _ c => c
  copy := fun c => pure c

/-- `Frontend.add`: the public entry point in front of `_add` -/
def publicAdd (o : Ops) (cs : List Con) (invalidate : Bool := true) : M (List Con) :=
  if cs.isEmpty then pure [] else o.add cs invalidate

end Claripy.Solver
