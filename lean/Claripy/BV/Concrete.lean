/-
Model of claripy/backends/backend_concrete/bv.py: the concrete bit-vector arithmetic used for eager
folding.  Python integers are unbounded, so the model computes on `Int`/`Nat` with exactly the
formulas of the source (masking in the `BVV` constructor, the `signed` property, `Extract`'s
one-bit-too-wide mask, `SDiv`/`SMod`'s case split, `Reverse`'s per-width shortcuts, `Rotate*` through
`bits % size`).  Where Python raises, the model returns an `Err`.
-/
namespace Claripy.BV

inductive Err where
  | divZero          -- ClaripyZeroDivisionError
  | reverseNonByte   -- ClaripyOperationError("can't reverse non-byte sized bitvectors")
  | sizeMismatch     -- ClaripyTypeError (differently sized / zero length)
  | crash (what : String)  -- any other Python exception
  deriving DecidableEq, Repr, Inhabited

abbrev R := Except Err Nat

/-- `BVV(value, bits).value`: `v & ((1 << bits) - 1)` on a Python int (two's complement `&`). -/
def mask (w : Nat) (v : Int) : Nat := (v % (2 ^ w : Int)).toNat

/-- the `signed` property, as written: `v if v < mod//2 else v % (mod//2) - mod//2` -/
def signed (w : Nat) (v : Nat) : Int :=
  if v < 2 ^ w / 2 then (v : Int) else ((v % (2 ^ w / 2) : Nat) : Int) - ((2 ^ w / 2 : Nat) : Int)

def add (w a b : Nat) : R := .ok (mask w ((a + b : Nat) : Int))
def sub (w a b : Nat) : R := .ok (mask w ((a : Int) - b))
def mul (w a b : Nat) : R := .ok (mask w ((a * b : Nat) : Int))
def umod (w a b : Nat) : R := if b = 0 then .error .divZero else .ok (mask w ((a % b : Nat) : Int))
def udiv (w a b : Nat) : R := if b = 0 then .error .divZero else .ok (mask w ((a / b : Nat) : Int))
def and_ (w a b : Nat) : R := .ok (mask w ((a &&& b : Nat) : Int))
def or_ (w a b : Nat) : R := .ok (mask w ((a ||| b : Nat) : Int))
def xor_ (w a b : Nat) : R := .ok (mask w ((a ^^^ b : Nat) : Int))
/-- `BVV(self.value << o.value, bits)`; since the `fix:` commit a shift by `≥ bits` returns 0 without
materialising the shifted integer. -/
def shl (w a b : Nat) : R := if b ≥ w then .ok 0 else .ok (mask w ((a * 2 ^ b : Nat) : Int))
/-- `BVV(self.signed >> o.value, bits)` (Python `>>` on a negative int is a floor shift). -/
def ashr (w a b : Nat) : R := .ok (mask w (signed w a >>> b))
def lshr (w a b : Nat) : R := .ok (mask w ((a >>> b : Nat) : Int))
/-- `BVV(self.value ^ self.mod - 1, bits)` -/
def not_ (w a : Nat) : R := .ok (mask w ((a ^^^ (2 ^ w - 1) : Nat) : Int))
/-- `BVV((-self.value) % self.mod, bits)` -/
def neg (w a : Nat) : R := .ok (mask w ((-(a : Int)) % (2 ^ w : Int)))

/-- Python's `a // b` and `a % b` (floor semantics). -/
def pyDiv (a b : Int) : Int := Int.fdiv a b
def pyMod (a b : Int) : Int := Int.fmod a b

/-- `val = a // b if a * b > 0 else (a + (-a % b)) // b` -/
def sdivCore (a b : Int) : Int := if a * b > 0 then pyDiv a b else pyDiv (a + pyMod (-a) b) b

def sdiv (w a b : Nat) : R :=
  let a' := signed w a; let b' := signed w b
  if b' = 0 then .error .divZero else .ok (mask w (sdivCore a' b'))

def smod (w a b : Nat) : R :=
  let a' := signed w a; let b' := signed w b
  if b' = 0 then .error .divZero else .ok (mask w (a' - sdivCore a' b' * b'))

def zeroExt (n w a : Nat) : R := .ok (mask (w + n) (a : Int))
def signExt (n w a : Nat) : R := .ok (mask (w + n) (signed w a))
/-- `BVV((o.value >> t) & ((1 << (f + 2 - t)) - 1), f + 1 - t)` -/
def extract (f t a : Nat) : R := .ok (mask (f + 1 - t) (((a >>> t) &&& (2 ^ (f + 2 - t) - 1) : Nat) : Int))
/-- `total_value = (total_value << o.bits) | o.value` -/
def concat2 (wb a b : Nat) : Nat := (a * 2 ^ wb) ||| b

def concat (args : List (Nat × Nat)) : Nat × Nat :=   -- (value, bits) pairs, left to right
  args.foldl (fun (acc : Nat × Nat) (vb : Nat × Nat) => (concat2 vb.2 acc.1 vb.1, acc.2 + vb.2)) (0, 0)

/-- `RotateLeft(self, bits)`: `bits_smaller = bits % size; (self << bits_smaller) | LShR(self, size - bits_smaller)`
(all through BVV arithmetic of width `w`). -/
def rotl (w a b : Nat) : R := do
  let bs ← umod w b (mask w w)
  let l ← shl w a bs
  let k ← sub w (mask w w) bs
  let r ← lshr w a k
  or_ w l r

def rotr (w a b : Nat) : R := do
  let bs ← umod w b (mask w w)
  let r ← lshr w a bs
  let k ← sub w (mask w w) bs
  let l ← shl w a k
  or_ w r l

def reverse16 (v : Nat) : Nat := ((v &&& 0xFF) <<< 8) ||| ((v &&& 0xFF00) >>> 8)
def reverse32 (v : Nat) : Nat :=
  ((v &&& 0xFF) <<< 24) ||| ((v &&& 0xFF00) <<< 8) ||| ((v &&& 0xFF0000) >>> 8) ||| ((v &&& 0xFF000000) >>> 24)
def reverse64 (v : Nat) : Nat :=
  ((v &&& 0xFF) <<< 56) ||| ((v &&& 0xFF00) <<< 40) ||| ((v &&& 0xFF0000) <<< 24) ||| ((v &&& 0xFF000000) <<< 8)
  ||| ((v &&& 0xFF00000000) >>> 8) ||| ((v &&& 0xFF0000000000) >>> 24) ||| ((v &&& 0xFF000000000000) >>> 40)
  ||| ((v &&& 0xFF00000000000000) >>> 56)

/-- the generic loop: `for i in range(0, size, 8): out |= ((value & (0xFF << i)) >> i) << (size - 8 - i)` -/
def reverseLoop (size v : Nat) : Nat :=
  (List.range (size / 8)).foldl (fun out k =>
    let i := 8 * k
    out ||| (((v &&& (0xFF <<< i)) >>> i) <<< (size - 8 - i))) 0

def reverse (w a : Nat) : R :=
  if w = 8 then .ok a
  else if w % 8 ≠ 0 then .error .reverseNonByte
  else if w = 64 then .ok (mask w ((reverse64 a : Nat) : Int))
  else if w = 32 then .ok (mask w ((reverse32 a : Nat) : Int))
  else if w = 16 then .ok (mask w ((reverse16 a : Nat) : Int))
  else .ok (mask w ((reverseLoop w a : Nat) : Int))

def eq (a b : Nat) : Bool := a == b
def ne (a b : Nat) : Bool := a != b
def ult (a b : Nat) : Bool := a < b
def ule (a b : Nat) : Bool := a ≤ b
def ugt (a b : Nat) : Bool := a > b
def uge (a b : Nat) : Bool := a ≥ b
def slt (w a b : Nat) : Bool := signed w a < signed w b
def sle (w a b : Nat) : Bool := signed w a ≤ signed w b
def sgt (w a b : Nat) : Bool := signed w a > signed w b
def sge (w a b : Nat) : Bool := signed w a ≥ signed w b

end Claripy.BV
