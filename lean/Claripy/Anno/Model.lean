/-!
Model of claripy's annotation bookkeeping (annotation.py, ast/base.py `__new__`/`make_like`,
operations.py `_handle_annotations`, algorithm/simplify.py, ConstrainedFrontend.simplify).

An annotation is (id, eliminatable, relocatable, avoid) — `avoid` marks SimplificationAvoidanceAnnotation
and its subclasses.  Expressions are abstract trees: only the annotation structure matters here.
The cached `_uneliminatable_annotations` is modelled by the recomputed set `unelim` (the correspondence
check compares the cached field of real ASTs with this recomputation).
-/
namespace Claripy.Anno

structure Anno where
  id : Nat
  elim : Bool
  reloc : Bool
  avoid : Bool := false
  deriving DecidableEq, Repr, Inhabited

inductive AExpr where
  | mk (tag : String) (args : List AExpr) (annos : List Anno)
  deriving Repr, Inhabited

def AExpr.annos : AExpr → List Anno | .mk _ _ an => an
def AExpr.args : AExpr → List AExpr | .mk _ as _ => as
def AExpr.tag : AExpr → String | .mk t _ _ => t

def isUnelim (a : Anno) : Bool := !a.elim && !a.reloc
def isReloc (a : Anno) : Bool := !a.elim && a.reloc

mutual
/-- every non-eliminatable, non-relocatable annotation reachable in the term -/
def AExpr.unelim : AExpr → List Anno
  | .mk _ args an => an.filter isUnelim ++ AExpr.unelimList args
def AExpr.unelimList : List AExpr → List Anno
  | [] => []
  | e :: es => e.unelim ++ AExpr.unelimList es
end

mutual
/-- the term and all its sub-expressions (each with its own annotations) -/
def AExpr.subterms : AExpr → List AExpr
  | .mk t args an => .mk t args an :: AExpr.subtermsList args
def AExpr.subtermsList : List AExpr → List AExpr
  | [] => []
  | e :: es => e.subterms ++ AExpr.subtermsList es
end

/-- `_relocatable_annotations`: the node's own annotations that are relocatable (children's relocatable
annotations have been copied onto the node by `mkNode`) -/
def AExpr.relocs (e : AExpr) : List Anno := e.annos.filter isReloc

def AExpr.appendAnno : AExpr → Anno → AExpr
  | .mk t as an, a => .mk t as (an ++ [a])

/-- `Base.__new__` without skip_child_annotations: the children's relocatable annotations are added -/
def mkNode (tag : String) (args : List AExpr) (annos : List Anno) : AExpr :=
  .mk tag args ((annos ++ args.flatMap AExpr.relocs).eraseDups)

/-- inner loop of `_handle_annotations` over the relocatable annotations of one argument -/
def relocateFrom (preserved : List Anno) : List Anno → (AExpr × List Anno) → (AExpr × List Anno)
  | [], st => st
  | oa :: rest, (simp, relocated) =>
    if preserved.contains oa || relocated.contains oa then relocateFrom preserved rest (simp, relocated)
    else relocateFrom preserved rest (simp.appendAnno oa, oa :: relocated)

/-- `_handle_annotations(simp, args)`: returns the (re-annotated) result, or none when a non-eliminatable
annotation of some argument would be lost -/
def handle (simp : AExpr) (args : List AExpr) : Option AExpr :=
  let preserved := simp.relocs
  let step := fun (st : AExpr × List Anno × Nat) (aa : AExpr) =>
    let (s, relocated, bad) := st
    let (s', relocated') := relocateFrom preserved aa.relocs (s, relocated)
    let lost := aa.unelim.filter fun u => !s'.unelim.contains u
    (s', relocated', bad + lost.length)
  let (s, _, bad) := args.foldl step (simp, [], 0)
  if bad = 0 then some s else none

/-- `operations.op._op`: a simplifier proposes `simp` (or nothing); the proposal is used only if `handle`
accepts it, otherwise the plain node is built -/
def buildOp (tag : String) (args : List AExpr) (proposal : Option AExpr) : AExpr :=
  match proposal with
  | none => mkNode tag args []
  | some s =>
    match handle s args with
    | some r => r
    | none => mkNode tag args []

/-- the annotation part of algorithm/simplify.py: the simplified expression gets the annotations of the
original's top node plus the relocatable annotations of its direct arguments -/
def simplifyAnnos (expr simplified : AExpr) : AExpr :=
  if expr.annos.isEmpty then simplified
  else
    let want := (expr.args.flatMap AExpr.relocs ++ expr.annos).eraseDups
    match simplified with
    | .mk t as _ => .mk t as want

def hasAvoid (c : AExpr) : Bool := c.annos.any (·.avoid)

/-- ConstrainedFrontend.simplify: constraints carrying a simplification-avoidance annotation are kept verbatim,
the others are handed to the rewriter as one conjunction -/
def frontendSimplify (constraints : List AExpr) (rewriter : List AExpr → List AExpr) : List AExpr :=
  let toSimplify := constraints.filter fun c => !hasAvoid c
  let noSimplify := constraints.filter hasAvoid
  if toSimplify.isEmpty then constraints else noSimplify ++ rewriter toSimplify

end Claripy.Anno
