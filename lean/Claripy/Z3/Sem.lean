import Claripy.Gen.Z3Tables
/-!
Hand-written reference table for C09: the SMT-LIB function each claripy operation means (as `backend_z3` translates
it and as C01's `eval` interprets it) and the SMT-LIB function each Z3 declaration kind denotes (Z3's documented
meaning of `Z3_decl_kind`).  ~60 entries; part of the trusted base.  Operations not listed have no class (`none`)
and are not constrained by the semantic theorems.
-/
namespace Claripy.Z3
open Claripy.Gen.Z3Tables

def semClaripy : List (COp × String) := [
  (.«__add__», "bvadd"), (.«__sub__», "bvsub"), (.«__mul__», "bvmul"), (.«__floordiv__», "bvudiv"),
  (.«__mod__», "bvurem"), (.«SDiv», "bvsdiv"), (.«SMod», "bvsrem"), (.«__and__», "bvand"), (.«__or__», "bvor"), (.«__xor__», "bvxor"),
  (.«__lshift__», "bvshl"), (.«__rshift__», "bvashr"), (.«LShR», "bvlshr"), (.«__invert__», "bvnot"), (.«__neg__», "bvneg"),
  (.«__eq__», "="), (.«__ne__», "distinct"), (.«ULT», "bvult"), (.«ULE», "bvule"), (.«UGT», "bvugt"), (.«UGE», "bvuge"),
  (.«SLT», "bvslt"), (.«SLE», "bvsle"), (.«SGT», "bvsgt"), (.«SGE», "bvsge"),
  (.«Concat», "concat"), (.«Extract», "extract"), (.«ZeroExt», "zero_extend"), (.«SignExt», "sign_extend"),
  (.«RotateLeft», "ext_rotate_left"), (.«RotateRight», "ext_rotate_right"),
  (.«If», "ite"), (.«And», "and"), (.«Or», "or"), (.«Not», "not"), (.«BitVecVal», "bvnum"), (.«True», "true"), (.«False», "false"),
  (.«fpAdd», "fp.add"), (.«fpSub», "fp.sub"), (.«fpMul», "fp.mul"), (.«fpDiv», "fp.div"), (.«fpNeg», "fp.neg"), (.«fpAbs», "fp.abs"),
  (.«fpSqrt», "fp.sqrt"), (.«fpLT», "fp.lt"), (.«fpLEQ», "fp.leq"), (.«fpGT», "fp.gt"), (.«fpGEQ», "fp.geq"), (.«fpEQ», "fp.eq"),
  (.«fpIsNaN», "fp.isNaN"), (.«fpIsInf», "fp.isInfinite"), (.«fpToIEEEBV», "fp.to_ieee_bv"), (.«fpToSBV», "fp.to_sbv"),
  (.«fpToUBV», "fp.to_ubv"), (.«fpToFP», "to_fp"), (.«fpToFPUnsigned», "to_fp_unsigned")]

def semZ3 : List (Kind × String) := [
  (.«Z3_OP_BADD», "bvadd"), (.«Z3_OP_BSUB», "bvsub"), (.«Z3_OP_BMUL», "bvmul"), (.«Z3_OP_BUDIV», "bvudiv"), (.«Z3_OP_BUDIV_I», "bvudiv"),
  (.«Z3_OP_BUREM», "bvurem"), (.«Z3_OP_BUREM_I», "bvurem"), (.«Z3_OP_BSDIV», "bvsdiv"), (.«Z3_OP_BSDIV_I», "bvsdiv"),
  (.«Z3_OP_BSREM», "bvsrem"), (.«Z3_OP_BSREM_I», "bvsrem"), (.«Z3_OP_BSMOD», "bvsmod"), (.«Z3_OP_BSMOD_I», "bvsmod"),
  (.«Z3_OP_BAND», "bvand"), (.«Z3_OP_BOR», "bvor"), (.«Z3_OP_BXOR», "bvxor"), (.«Z3_OP_BNOT», "bvnot"), (.«Z3_OP_BNEG», "bvneg"),
  (.«Z3_OP_BSHL», "bvshl"), (.«Z3_OP_BASHR», "bvashr"), (.«Z3_OP_BLSHR», "bvlshr"),
  (.«Z3_OP_EQ», "="), (.«Z3_OP_DISTINCT», "distinct"), (.«Z3_OP_ULT», "bvult"), (.«Z3_OP_ULEQ», "bvule"), (.«Z3_OP_UGT», "bvugt"),
  (.«Z3_OP_UGEQ», "bvuge"), (.«Z3_OP_SLT», "bvslt"), (.«Z3_OP_SLEQ», "bvsle"), (.«Z3_OP_SGT», "bvsgt"), (.«Z3_OP_SGEQ», "bvsge"),
  (.«Z3_OP_CONCAT», "concat"), (.«Z3_OP_EXTRACT», "extract"), (.«Z3_OP_ZERO_EXT», "zero_extend"), (.«Z3_OP_SIGN_EXT», "sign_extend"),
  (.«Z3_OP_EXT_ROTATE_LEFT», "ext_rotate_left"), (.«Z3_OP_EXT_ROTATE_RIGHT», "ext_rotate_right"),
  (.«Z3_OP_ITE», "ite"), (.«Z3_OP_AND», "and"), (.«Z3_OP_OR», "or"), (.«Z3_OP_NOT», "not"), (.«Z3_OP_BNUM», "bvnum"),
  (.«Z3_OP_TRUE», "true"), (.«Z3_OP_FALSE», "false"),
  (.«Z3_OP_FPA_ADD», "fp.add"), (.«Z3_OP_FPA_SUB», "fp.sub"), (.«Z3_OP_FPA_MUL», "fp.mul"), (.«Z3_OP_FPA_DIV», "fp.div"),
  (.«Z3_OP_FPA_NEG», "fp.neg"), (.«Z3_OP_FPA_ABS», "fp.abs"), (.«Z3_OP_FPA_SQRT», "fp.sqrt"), (.«Z3_OP_FPA_LT», "fp.lt"),
  (.«Z3_OP_FPA_LE», "fp.leq"), (.«Z3_OP_FPA_GT», "fp.gt"), (.«Z3_OP_FPA_GE», "fp.geq"), (.«Z3_OP_FPA_EQ», "fp.eq"),
  (.«Z3_OP_FPA_IS_NAN», "fp.isNaN"), (.«Z3_OP_FPA_IS_INF», "fp.isInfinite"), (.«Z3_OP_FPA_TO_IEEE_BV», "fp.to_ieee_bv"),
  (.«Z3_OP_FPA_TO_SBV», "fp.to_sbv"), (.«Z3_OP_FPA_TO_UBV», "fp.to_ubv"), (.«Z3_OP_FPA_TO_FP», "to_fp"),
  (.«Z3_OP_FPA_TO_FP_UNSIGNED», "to_fp_unsigned")]

/-- forward direction holds for one (claripy op, top-level kind) pair: when the claripy operation has a semantic class,
the kind it is translated to denotes that class, is mapped back, and the operation it is mapped back to has that class -/
def fwdOk (opMap : List (Kind × Option COp)) (entry : COp × Kind × List Kind) : Bool :=
  match semClaripy.lookup entry.1 with
  | none => true
  | some c =>
    semZ3.lookup entry.2.1 == some c &&
    (match opMap.lookup entry.2.1 with
     | some (some o') => semClaripy.lookup o' == some c
     | _ => false)

/-- every Z3 kind occurring in the translation of a claripy operation can be abstracted again -/
def totalOk (opMap : List (Kind × Option COp)) (entry : COp × Kind × List Kind) : Bool :=
  entry.2.2.all fun k => match opMap.lookup k with | some (some _) => true | _ => false

/-- backward direction: a kind that is mapped to a claripy operation with a semantic class denotes that class -/
def bwdOk (kv : Kind × Option COp) : Bool :=
  match kv.2 with
  | none => true
  | some o =>
    match semZ3.lookup kv.1, semClaripy.lookup o with
    | some c, some c' => c == c'
    | _, _ => true

end Claripy.Z3
