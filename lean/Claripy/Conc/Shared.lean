/-!
Model for C20 (threads sharing claripy's process-wide caches).

`CellClass` classifies every process-wide mutable binding found by the translator (harness/translate_shared.py).
The execution model: any number of threads, each running its own program (a list of cache requests); the only
shared mutable state is a memo store whose entries may also disappear at any time (weak references) or be inserted
twice (check-then-insert races).  A request looks the key up and otherwise computes `f key` and inserts it.
-/
namespace Claripy.Conc

inductive CellClass where
  | memo                 -- cache: key ↦ value that is a function of the key (hash-cons tables, simplification caches, verdict caches)
  | monotoneFacts        -- set of facts that stay true once true (`_errored`)
  | atomicCounter        -- `itertools.count` used for fresh names / ids
  | threadLocal          -- reached only through `threading.local`
  | readOnlyAfterImport  -- tables filled at import time and never written afterwards
  | lockProtected        -- only written while holding `_gc_lock` (see C19)
  | configFlag           -- process-wide switch set by the embedding application, not by solver operations
  | unclassified
  deriving DecidableEq, Repr, Inhabited

structure Sys (K V : Type) where
  store : List (K × V)
  pending : List (List K)          -- remaining program of each thread
  outputs : List (List V)          -- values returned so far, per thread (newest first)

inductive Step (K : Type) where
  | run (tid : Nat)                -- thread `tid` performs its next request
  | evict (k : K)                  -- a weak entry dies
  deriving Repr

def lookup {K V} [DecidableEq K] (s : List (K × V)) (k : K) : Option V := (s.find? fun e => e.1 = k).map (·.2)

/-- serve one request: reuse the stored value or compute and insert it -/
def serve {K V} [DecidableEq K] (f : K → V) (store : List (K × V)) (k : K) : V × List (K × V) :=
  match lookup store k with
  | some v => (v, store)
  | none => (f k, (k, f k) :: store)

def step {K V} [DecidableEq K] (f : K → V) (s : Sys K V) : Step K → Sys K V
  | .evict k => { s with store := s.store.filter fun e => e.1 ≠ k }
  | .run tid =>
    match s.pending[tid]? with
    | some (k :: rest) =>
      let r := serve f s.store k
      { store := r.2, pending := s.pending.set tid rest,
        outputs := s.outputs.set tid (r.1 :: (s.outputs[tid]?.getD [])) }
    | _ => s

def runSteps {K V} [DecidableEq K] (f : K → V) : Sys K V → List (Step K) → Sys K V
  | s, [] => s
  | s, st :: rest => runSteps f (step f s st) rest

def initSys {K V} (progs : List (List K)) : Sys K V :=
  { store := [], pending := progs, outputs := progs.map fun _ => [] }

end Claripy.Conc
