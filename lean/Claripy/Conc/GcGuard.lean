/-
Model of the GC guard in claripy/backends/backend_z3.py (`_enter_z3`, `_exit_z3`).

The two functions are represented as straight-line programs over a tiny instruction set, one
instruction per executed source line (the translator `harness/translate.py` regenerates
`Claripy/Gen/GcGuard.lean` from the current source in this same representation; the theorems in
`ClaripyProofs/Props/C19.lean` are about whatever that file says).

Semantics: line-granular interleaving of any number of threads sharing
  active  = `_active_z3_calls`      saved = `_gc_was_enabled`
  gc      = `gc.isenabled()`        lock  = `_gc_lock` (holder index)
Ghost state: `gc0` (collector state "before the first of them started"), and per thread
`held` (incs minus decs performed) and `depth` (calls in progress: enter returned, exit not yet called).
-/
namespace Claripy.GcGuard

inductive Instr where
  | acquire                 -- `with _gc_lock:` entry
  | release                 -- leaving the `with` block
  | brActiveNZ (t : Nat)    -- `if _active_z3_calls == 0:` ; jump to t when the test is false
  | brNotSaved (t : Nat)    -- `if _gc_was_enabled:` ; jump to t when the test is false
  | saveGc                  -- `_gc_was_enabled = gc.isenabled()`
  | gcDisable               -- `gc.disable()`
  | gcEnable                -- `gc.enable()`
  | inc                     -- `_active_z3_calls += 1`
  | dec                     -- `_active_z3_calls -= 1`
  | clearSaved              -- `_gc_was_enabled = False`
  | nop                     -- `log.error(...)`
  | ret                     -- function return
  deriving DecidableEq, Repr, Inhabited

abbrev Prog := List Instr

/-- `_enter_z3` as written at the pinned commit. -/
def enterProg : Prog :=
  [ .acquire,          -- 0  with _gc_lock:
    .brActiveNZ 5,     -- 1    if _active_z3_calls == 0:
    .saveGc,           -- 2      _gc_was_enabled = gc.isenabled()
    .brNotSaved 5,     -- 3      if _gc_was_enabled:
    .gcDisable,        -- 4        gc.disable()
    .inc,              -- 5    _active_z3_calls += 1
    .release,          -- 6  (leave with)
    .ret ]             -- 7

/-- `_exit_z3` as written at the pinned commit. -/
def exitProg : Prog :=
  [ .acquire,          -- 0  with _gc_lock:
    .brActiveNZ 6,     -- 1    if _active_z3_calls == 0:
    .nop,              -- 2      log.error(...)
    .nop,              -- 3      return
    .release,          -- 4      (leaves the with block)
    .ret,              -- 5
    .dec,              -- 6    _active_z3_calls -= 1
    .brActiveNZ 11,    -- 7    if _active_z3_calls == 0:
    .brNotSaved 10,    -- 8      if _gc_was_enabled:
    .gcEnable,         -- 9        gc.enable()
    .clearSaved,       -- 10     _gc_was_enabled = False
    .release,          -- 11 (leave with)
    .ret ]             -- 12

/-- fn: 0 = outside the guard functions, 1 = inside `_enter_z3`, 2 = inside `_exit_z3`. -/
structure Thread where
  fn : Nat := 0
  pc : Nat := 0
  held : Nat := 0
  depth : Nat := 0
  deriving DecidableEq, Repr, Inhabited, Hashable

structure State where
  active : Int := 0
  saved : Bool := false
  gc : Bool := true
  lock : Option Nat := none
  gc0 : Bool := true
  threads : List Thread := []
  deriving DecidableEq, Repr, Inhabited, Hashable

inductive Act where
  | callEnter | callExit | run | envFlip
  deriving DecidableEq, Repr, Inhabited

def initState (n : Nat) (gc : Bool) : State :=
  { gc := gc, gc0 := gc, threads := List.replicate n {} }

structure Progs where
  enter : Prog
  exit : Prog
  deriving DecidableEq, Repr

def stdProgs : Progs := ⟨enterProg, exitProg⟩

def Progs.get (P : Progs) (fn : Nat) : Prog := if fn = 1 then P.enter else P.exit

def quiescent (s : State) : Bool := s.threads.all fun t => t.fn == 0 && t.depth == 0

def setThread (s : State) (i : Nat) (t : Thread) : State := { s with threads := s.threads.set i t }

/-- One line of one thread (or one environment step).  `none` = the step is not enabled
(blocked on the lock, thread index out of range, call not allowed in this state). -/
def step (P : Progs) (s : State) (i : Nat) (a : Act) : Option State :=
  match a with
  | .envFlip => if quiescent s then some { s with gc := !s.gc, gc0 := !s.gc0 } else none
  | .callEnter =>
    match s.threads[i]? with
    | none => none
    | some t => if t.fn = 0 then some (setThread s i { t with fn := 1, pc := 0 }) else none
  | .callExit =>
    match s.threads[i]? with
    | none => none
    | some t =>
      if t.fn = 0 ∧ 0 < t.depth then some (setThread s i { t with fn := 2, pc := 0, depth := t.depth - 1 })
      else none
  | .run =>
    match s.threads[i]? with
    | none => none
    | some t =>
      if t.fn = 0 then none else
      match (P.get t.fn)[t.pc]? with
      | none => none
      | some ins =>
        let nxt : Thread := { t with pc := t.pc + 1 }
        match ins with
        | .acquire => if s.lock = none then some { setThread s i nxt with lock := some i } else none
        | .release => some { setThread s i nxt with lock := none }
        | .brActiveNZ tgt =>
          if s.active = 0 then some (setThread s i nxt) else some (setThread s i { t with pc := tgt })
        | .brNotSaved tgt =>
          if s.saved then some (setThread s i nxt) else some (setThread s i { t with pc := tgt })
        | .saveGc => some { setThread s i nxt with saved := s.gc }
        | .gcDisable => some { setThread s i nxt with gc := false }
        | .gcEnable => some { setThread s i nxt with gc := true }
        | .inc => some { setThread s i { nxt with held := t.held + 1 } with active := s.active + 1 }
        | .dec => some { setThread s i { nxt with held := t.held - 1 } with active := s.active - 1 }
        | .clearSaved => some { setThread s i nxt with saved := false }
        | .nop => some (setThread s i nxt)
        | .ret =>
          some (setThread s i { t with fn := 0, pc := 0, depth := if t.fn = 1 then t.depth + 1 else t.depth })

/-- Run a schedule; stops at the first disabled step. Returns the visited states. -/
def runSched (P : Progs) (s : State) : List (Nat × Act) → List State
  | [] => []
  | (i, a) :: rest =>
    match step P s i a with
    | none => []
    | some s' => s' :: runSched P s' rest

/-- Number of backend calls in progress. -/
def inProgress (s : State) : Nat := (s.threads.map (·.depth)).sum

/-- The three claims of the property, as a state predicate. -/
def Safe (s : State) : Prop :=
  (0 < inProgress s → s.gc = false) ∧ (quiescent s = true → s.gc = s.gc0) ∧ 0 ≤ s.active

instance (s : State) : Decidable (Safe s) := by unfold Safe; infer_instance

inductive Reachable (P : Progs) (n : Nat) (g : Bool) : State → Prop
  | init : Reachable P n g (initState n g)
  | step {s s' i a} : Reachable P n g s → step P s i a = some s' → Reachable P n g s'

end Claripy.GcGuard
