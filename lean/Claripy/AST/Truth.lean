import Claripy.AST.Meta
/-!
Model of claripy.is_true / is_false (algorithm/bool_check.py → backends.concrete.is_true → Backend.is_true):
the concrete backend can only convert expressions without variables; its verdict is cached per expression
hash in `_true_cache` / `_false_cache`, and a positive verdict also records the negative one for the other cache.
Keys are structural (hash-consing, see C06).
-/
namespace Claripy.AST

def env0 : Env := ⟨fun _ => 0, fun _ => false⟩

/-- the uncached verdict: only a variable-free expression can be converted; then it is evaluated -/
def isTrueCore (e : Expr) : Bool := e.vars.isEmpty && (eval env0 e == .bool true)
def isFalseCore (e : Expr) : Bool := e.vars.isEmpty && (eval env0 e == .bool false)

structure Caches where
  t : List (Expr × Bool) := []
  f : List (Expr × Bool) := []

def lookup (l : List (Expr × Bool)) (e : Expr) : Option Bool :=
  (l.find? fun kv => kv.1 == e).map (·.2)

def isTrue (c : Caches) (e : Expr) : Bool × Caches :=
  match lookup c.t e with
  | some v => (v, c)
  | none =>
    let v := isTrueCore e
    (v, { t := (e, v) :: c.t, f := if v then (e, false) :: c.f else c.f })

def isFalse (c : Caches) (e : Expr) : Bool × Caches :=
  match lookup c.f e with
  | some v => (v, c)
  | none =>
    let v := isFalseCore e
    (v, { f := (e, v) :: c.f, t := if v then (e, false) :: c.t else c.t })

inductive Query where
  | isTrue (e : Expr)
  | isFalse (e : Expr)

def answer (c : Caches) : Query → Bool × Caches
  | .isTrue e => isTrue c e
  | .isFalse e => isFalse c e

/-- run a history of queries; returns the answers in order and the final caches -/
def runQueries : Caches → List Query → List Bool × Caches
  | c, [] => ([], c)
  | c, q :: qs =>
    let (a, c') := answer c q
    let (as, c'') := runQueries c' qs
    (a :: as, c'')

end Claripy.AST
