import Claripy.AST.Expr
/-!
Normal forms of associative-commutative n-ary nodes (`__add__ __mul__ __and__ __or__ __xor__`), the algebra behind
claripy's `_flatten_simplifier` (simplifications.py): nested nodes of the same operation are flattened, literals are
collected into one literal, `__xor__` drops equal pairs, `__and__`/`__or__` drop repeated operands, and the order of
the operands is irrelevant.

`acEquiv k w lhs rhs` is an executable certificate check: it accepts when the normal form of `rhs` is the normal form of
`lhs`.  `ClaripyProofs/Lemmas/AST/ACNormSound.lean` proves that an accepted rewrite preserves the SMT-LIB value for every
assignment and every width (`acEquiv_sound`).  The correspondence check runs it on every rewrite the real
simplifiers perform on such nodes.
-/
namespace Claripy.AST

inductive ACK where
  | add | mul | band | bor | bxor
  deriving DecidableEq, Repr

def ACK.op : ACK → Op
  | .add => .add | .mul => .mul | .band => .band | .bor => .bor | .bxor => .bxor

def ACK.ofOp : Op → Option ACK
  | .add => some .add | .mul => some .mul | .band => some .band | .bor => some .bor | .bxor => some .bxor
  | _ => none

/-- the operator on `w`-bit vectors -/
def ACK.g (k : ACK) (w : Nat) (a b : BitVec w) : BitVec w :=
  match k with
  | .add => a + b | .mul => a * b | .band => a &&& b | .bor => a ||| b | .bxor => a ^^^ b

/-- its identity element -/
def ACK.e (k : ACK) (w : Nat) : BitVec w :=
  match k with
  | .add => 0#w | .mul => 1#w | .band => BitVec.allOnes w | .bor => 0#w | .bxor => 0#w

mutual
/-- operands of the maximal tree of `op` nodes rooted at an expression (the expression itself if it is not one) -/
def flat (op : Op) : Expr → List Expr
  | .app op' args => if op' = op ∧ 2 ≤ args.length then flatList op args else [.app op' args]
  | .bvv v w => [.bvv v w]
  | .bvs n w => [.bvs n w]
  | .boolv b => [.boolv b]
  | .bools n => [.bools n]
def flatList (op : Op) : List Expr → List Expr
  | [] => []
  | e :: es => flat op e ++ flatList op es
end

/-- literals of width `w` among the operands (as `BitVec`s) and the remaining operands -/
def splitC (w : Nat) : List Expr → List (BitVec w) × List Expr
  | [] => ([], [])
  | .bvv v w' :: ts =>
    let r := splitC w ts
    if w' = w then (BitVec.ofNat w v :: r.1, r.2) else (r.1, .bvv v w' :: r.2)
  | t :: ts => let r := splitC w ts; (r.1, t :: r.2)

def cprod (k : ACK) (w : Nat) (cs : List (BitVec w)) : BitVec w := cs.foldl (k.g w) (k.e w)

/-- `__xor__`: equal operands cancel in pairs -/
def cancel : List Expr → List Expr
  | [] => []
  | a :: l => let r := cancel l; if r.elem a then r.erase a else a :: r

/-- `__and__`, `__or__`: repeated operands are dropped -/
def dedupe : List Expr → List Expr
  | [] => []
  | a :: l => let r := dedupe l; if r.elem a then r else a :: r

def ACK.reduce : ACK → List Expr → List Expr
  | .bxor, l => cancel l
  | .band, l => dedupe l
  | .bor, l => dedupe l
  | _, l => l

/-- does the rewrite `lhs ⇒ rhs` of a `k` node of width `w` only flatten, reorder, merge literals, and cancel/drop
repeated operands as `k` allows?  (`rhs` is taken as it is: its own repeated operands are not reduced.) -/
def acEquiv (k : ACK) (w : Nat) (lhs rhs : Expr) : Bool :=
  let l := splitC w (flat k.op lhs)
  let r := splitC w (flat k.op rhs)
  decide (0 < w) && decide (cprod k w l.1 = cprod k w r.1) && (k.reduce l.2).isPerm r.2

/-! ### Boolean `And` / `Or` (boolean_and_simplifier / boolean_or_simplifier): flattening, dropped identity literals, an absorbing
literal decides the node, repeated operands are dropped, order is irrelevant -/
inductive BK where
  | and | or
  deriving DecidableEq, Repr

def BK.op : BK → Op
  | .and => .and | .or => .or

def BK.ofOp : Op → Option BK
  | .and => some .and | .or => some .or | _ => none

def BK.g : BK → Bool → Bool → Bool
  | .and => (· && ·) | .or => (· || ·)

/-- identity literal (`true` for And, `false` for Or); the absorbing literal is its negation -/
def BK.e : BK → Bool
  | .and => true | .or => false

mutual
def flatB (op : Op) : Expr → List Expr
  | .app op' args => if op' = op ∧ 1 ≤ args.length then flatBList op args else [.app op' args]
  | .bvv v w => [.bvv v w]
  | .bvs n w => [.bvs n w]
  | .boolv b => [.boolv b]
  | .bools n => [.bools n]
def flatBList (op : Op) : List Expr → List Expr
  | [] => []
  | e :: es => flatB op e ++ flatBList op es
end

/-- Boolean literals among the operands and the remaining operands -/
def splitB : List Expr → List Bool × List Expr
  | [] => ([], [])
  | .boolv b :: ts => let r := splitB ts; (b :: r.1, r.2)
  | t :: ts => let r := splitB ts; (r.1, t :: r.2)

def bprod (k : BK) (bs : List Bool) : Bool := bs.foldl k.g k.e

def bcEquiv (k : BK) (lhs rhs : Expr) : Bool :=
  let l := splitB (flatB k.op lhs)
  let r := splitB (flatB k.op rhs)
  if bprod k l.1 = k.e then bprod k r.1 = k.e && (dedupe l.2).isPerm r.2
  else bprod k r.1 ≠ k.e && r.2.isEmpty        -- an absorbing literal: the node is that literal

/-! ### `And` of equalities / disequalities of ONE expression with literals (the tail of boolean_and_simplifier)

`x == 1 && x != 2 ⇒ x == 1`, `x == 1 && x == 3 ⇒ false`, `x == 1 && x != 1 ⇒ false`. -/
/-- `(isEq, literal value modulo 2^w, w)` of an atom `target == c` / `c == target` / `target != c` / `c != target` -/
def eqNeAtom (target : Expr) : Expr → Option (Bool × Nat × Nat)
  | .app .eq [a, .bvv v w] => if a == target then some (true, v % 2 ^ w, w) else none
  | .app .eq [.bvv v w, b] => if b == target then some (true, v % 2 ^ w, w) else none
  | .app .ne [a, .bvv v w] => if a == target then some (false, v % 2 ^ w, w) else none
  | .app .ne [.bvv v w, b] => if b == target then some (false, v % 2 ^ w, w) else none
  | _ => none

def atomsAll (target : Expr) : List Expr → Option (List (Bool × Nat × Nat))
  | [] => some []
  | t :: ts => match eqNeAtom target t, atomsAll target ts with
    | some a, some as => some (a :: as)
    | _, _ => none

/-- the truth value of the conjunction of the atoms when the target has value `n` -/
def atomsHold (n : Nat) : List (Bool × Nat × Nat) → Bool
  | [] => true
  | (isEq, c, _) :: as => (if isEq then n == c else n != c) && atomsHold n as

/-- what the conjunction collapses to: `none` = always false, `some e` = exactly `target == e` -/
def collapse (as : List (Bool × Nat × Nat)) : Option (Option Nat) :=
  match (as.filter (·.1)).map (·.2.1) with
  | [] => none                                   -- no equality: not handled
  | e :: es =>
    if es.all (· == e) && !((as.filter (!·.1)).map (·.2.1)).contains e then some (some e) else some none

/-- the conjuncts that matter: literal `true` conjuncts are dropped -/
def conjuncts (lhs : Expr) : List Expr := (flatB .and lhs).filter fun t => !(t == .boolv true)

/-- is `lhs ⇒ rhs` this collapse of an `And` over one target expression `target` of width `w`? -/
def andEqNe (target : Expr) (w : Nat) (lhs rhs : Expr) : Bool :=
  match atomsAll target (conjuncts lhs) with
  | none => false
  | some as =>
    decide (0 < w) && as.all (fun a => a.2.2 == w) &&
    (match collapse as, rhs with
     | some none, .boolv false => true
     | some (some e), .app .eq [t, .bvv v w'] => t == target && w' == w && v % 2 ^ w == e
     | _, _ => false)

def guessTarget : Expr → Option (Expr × Nat)
  | .app .eq [a, .bvv _ w] => some (a, w)
  | .app .eq [.bvv _ w, b] => some (b, w)
  | .app .ne [a, .bvv _ w] => some (a, w)
  | .app .ne [.bvv _ w, b] => some (b, w)
  | _ => none

/-- the (dis)equality atoms about `target` among the conjuncts, whatever else there is -/
def atomsSome (target : Expr) (ts : List Expr) : List (Bool × Nat × Nat) := ts.filterMap (eqNeAtom target)

/-- an `And` whose atoms about one target already contradict each other is `false`, whatever the other conjuncts say -/
def andEqNeMixed (target : Expr) (w : Nat) (lhs rhs : Expr) : Bool :=
  let as := atomsSome target (conjuncts lhs)
  decide (0 < w) && as.all (fun a => a.2.2 == w) &&
  (match collapse as, rhs with
   | some none, .boolv false => true
   | _, _ => false)

/-- `andEqNe` with the target read off the first operand that is an atom -/
def andEqNeAuto (lhs rhs : Expr) : Bool :=
  match (conjuncts lhs).findSome? guessTarget with
  | some (target, w) => andEqNe target w lhs rhs || andEqNeMixed target w lhs rhs
  | none => false

end Claripy.AST
