import Claripy.AST.Expr
import Claripy.AST.Rules
/-!
Model of `claripy/algorithm/ite_relocation.py`: `excavate_ite` pulls `If`s towards the root, `burrow_ite` pushes them
towards the leaves.  The constructors the real code calls (`make_like(simplify=True)`, `claripy.If`, `~cond`) are
parameters: `mk` builds a node, `notOf` builds the negation of a condition.  `ClaripyProofs/Lemmas/AST/IteRelocSound.lean`
proves that both algorithms preserve the value of every well-typed expression for ANY constructors that preserve values;
the driver instantiates them with the raw constructor and the `Not` simplifier.
-/
namespace Claripy.AST

def iteParts : Expr → Option (Expr × Expr × Expr)
  | .app .ite [c, t, f] => some (c, t, f)
  | _ => none

/-- the condition of the first `If` among the arguments -/
def firstIteCond : List Expr → Option Expr
  | [] => none
  | a :: as => match iteParts a with
    | some (c, _, _) => some c
    | none => firstIteCond as

/-- arguments under `cond` true / false; `none` when an `If` argument has another condition ("weird conditions -- giving up") -/
def splitArgs (cond ncond : Expr) : List Expr → Option (List Expr × List Expr)
  | [] => some ([], [])
  | a :: as =>
    match splitArgs cond ncond as with
    | none => none
    | some (ts, fs) =>
      match iteParts a with
      | none => some (a :: ts, a :: fs)
      | some (c, t, f) =>
        if c == cond then some (t :: ts, f :: fs)
        else if c == ncond then some (f :: ts, t :: fs)
        else none

/-- one node of `_excavate_ite`, its arguments already excavated -/
def excavateNode (mk : Op → List Expr → Expr) (notOf : Expr → Expr) (op : Op) (args : List Expr) : Expr :=
  if op = .ite then mk .ite args
  else
    match firstIteCond args with
    | none => mk op args
    | some cond =>
      match splitArgs cond (notOf cond) args with
      | none => mk op args
      | some (ts, fs) => mk .ite [cond, mk op ts, mk op fs]

mutual
def excavate (mk : Op → List Expr → Expr) (notOf : Expr → Expr) : Expr → Expr
  | .app op args => excavateNode mk notOf op (excavateList mk notOf args)
  | .bvv v w => .bvv v w
  | .bvs n w => .bvs n w
  | .boolv b => .boolv b
  | .bools n => .bools n
def excavateList (mk : Op → List Expr → Expr) (notOf : Expr → Expr) : List Expr → List Expr
  | [] => []
  | e :: es => excavate mk notOf e :: excavateList mk notOf es
end

/-- `boolean_not_simplifier` as far as `~cond` needs it: double negation, comparisons flip, literals fold -/
def mkNot : Expr → Expr
  | .app .not [x] => x
  | .app .eq [a, b] => .app .ne [a, b]
  | .app .ne [a, b] => .app .eq [a, b]
  | .app .slt [a, b] => .app .sge [a, b]
  | .app .sle [a, b] => .app .sgt [a, b]
  | .app .sgt [a, b] => .app .sle [a, b]
  | .app .sge [a, b] => .app .slt [a, b]
  | .app .ult [a, b] => .app .uge [a, b]
  | .app .ule [a, b] => .app .ugt [a, b]
  | .app .ugt [a, b] => .app .ule [a, b]
  | .app .uge [a, b] => .app .ult [a, b]
  | .boolv b => .boolv (!b)
  | e => .app .not [e]

/-- the right-hand side of the first proven schema (`R.all`) whose left-hand side is this node and whose side condition holds -/
def firstRule (t : Expr) : Option Expr :=
  (proposals t).findSome? fun p => R.all.findSome? fun s => if (s.lhs p == t) && s.side p then some (s.rhs p) else none

/-- node constructor that rewrites by the rule table (one step at the root, like `simplifications.simplify` / `claripy.If`) -/
def mkRules (op : Op) (args : List Expr) : Expr := (firstRule (.app op args)).getD (.app op args)

/-- `Not(c)` as the real constructor builds it: the negation table, then the simplifier of the node it produced
(`Not(true != q)` is `true == q`, which the equality simplifier turns into `q`) -/
def mkNotR (e : Expr) : Expr :=
  match mkNot e with
  | .app op args => mkRules op args
  | x => x

/-! ### burrow_ite -/
def isLeaf : Expr → Bool
  | .app _ _ => false
  | _ => true

/-- the single position at which two argument lists of equal length differ -/
def diffIndex (a b : List Expr) : Option Nat :=
  match (List.range a.length).filter (fun j => a[j]? != b[j]?) with
  | [i] => some i
  | _ => none

/-- `_burrow_ite` on an `If` node `e = If(c, t, f)`; `rec` burrows the new inner `If`.  The inner `If` is only built when
its branches have the same sort and size (the guard the repaired code has: `If` over different sizes does not exist). -/
def burrowIte (mk : Op → List Expr → Expr) (rec : Expr → Expr) (e c t f : Expr) : Expr :=
  match t, f with
  | .app opt targs, .app opf fargs =>
    if opt = opf ∧ targs.length = fargs.length ∧ opt ≠ .ite ∧ isLeaf c = false then
      match diffIndex targs fargs with
      | some idx =>
        match targs[idx]?, fargs[idx]? with
        | some ti, some fi =>
          if ti.width = fi.width then .app opt (targs.set idx (rec (mk .ite [c, ti, fi]))) else e
        | _, _ => e
      | none => e
    else e
  | _, _ => e

mutual
/-- `burrow_ite` with a recursion budget (`fuel`; the size of the expression suffices) -/
def burrow (mk : Op → List Expr → Expr) : Nat → Expr → Expr
  | 0, e => e
  | fuel + 1, .app op args =>
    if op = .ite then
      match args with
      | [c, t, f] => burrowIte mk (burrow mk fuel) (.app .ite [c, t, f]) c t f
      | _ => .app op args
    else .app op (burrowList mk fuel args)
  | _ + 1, .bvv v w => .bvv v w
  | _ + 1, .bvs n w => .bvs n w
  | _ + 1, .boolv b => .boolv b
  | _ + 1, .bools n => .bools n
def burrowList (mk : Op → List Expr → Expr) : Nat → List Expr → List Expr
  | _, [] => []
  | fuel, e :: es => burrow mk fuel e :: burrowList mk fuel es
end

end Claripy.AST
