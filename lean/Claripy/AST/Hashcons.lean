/-!
Model of claripy's hash-consing (ast/base.py): `_arg_serialize` for integers (variable-length signed
little-endian), Python's `hash()` on integers (used to serialise annotation objects), the node
serialisation `_ast_serialize`, and the weak hash-cons table `_hash_cache`.
-/
namespace Claripy.Hashcons

/-! ### Python int → bytes: `arg.to_bytes((arg.bit_length() + 15) // 8, "little", signed=True)` -/

def bitLength (n : Nat) : Nat := if n = 0 then 0 else Nat.log2 n + 1

def natBytes : (len : Nat) → Nat → List Nat
  | 0, _ => []
  | len + 1, n => (n % 256) :: natBytes len (n / 256)

def intLen (n : Int) : Nat := (bitLength n.natAbs + 15) / 8

/-- two's complement of `n` on `intLen n` bytes, little endian -/
def intBytes (n : Int) : List Nat :=
  let len := intLen n
  natBytes len (n % (256 ^ len : Int)).toNat

def natOfBytes : List Nat → Nat
  | [] => 0
  | b :: bs => b + 256 * natOfBytes bs

/-- decode signed little endian -/
def decodeInt (bs : List Nat) : Int :=
  let v := natOfBytes bs
  if 2 * v < 256 ^ bs.length then (v : Int) else (v : Int) - (256 ^ bs.length : Nat)

/-! ### Python `hash()` of an int: sign * (|n| mod (2^61 - 1)), with -1 replaced by -2 -/

def pyModulus : Nat := 2 ^ 61 - 1

def pyHashInt (n : Int) : Int :=
  let h : Int := (if n < 0 then -1 else 1) * ((n.natAbs % pyModulus : Nat) : Int)
  if h = -1 then -2 else h

/-! ### node serialisation -/

inductive Arg where
  | child (hash : Nat)        -- 8 bytes little endian, unsigned
  | int (n : Int)
  | str (utf8 : List Nat)
  | none | true | false
  | float (bits : Nat)        -- a Python float, given by the 64 bits of its IEEE-754 double
  | hashed (h : Int)          -- any other hashable object (sorts, rounding modes): the 8 signed bytes of `hash(arg)`
  deriving DecidableEq, Repr, Inhabited

/-- is the double with these bits a NaN? -/
def isNaNBits (bits : Nat) : Bool := (bits / 4503599627370496) % 2048 == 2047 && bits % 4503599627370496 != 0

/-- `_arg_serialize(float)`: every NaN is `b"nan"`, the infinities and `-0.0` are spelled out, any other value is its
`struct.pack("d", ·)` image (8 bytes, little endian on the platforms claripy runs on) -/
def floatBytes (bits : Nat) : List Nat :=
  if isNaNBits bits then [110, 97, 110]
  else if bits = 9218868437227405312 then [105, 110, 102]
  else if bits = 18442240474082181120 then [45, 105, 110, 102]
  else if bits = 9223372036854775808 then [45, 48, 46, 48]
  else natBytes 8 bits

def argBytes : Arg → List Nat
  | .child h => natBytes 8 h
  | .int n => intBytes n
  | .str s => s
  | .none => [0x0f]
  | .true => [0x1f]
  | .false => [0x2e]
  | .float b => floatBytes b
  | .hashed h => natBytes 8 (h % (256 ^ 8 : Int)).toNat

/-- `_ast_serialize(op, args, annotations, length)`; annotations enter through `hash(annotation)` as 8 signed bytes -/
def astSerialize (op : List Nat) (args : List Arg) (annoHashes : List Int) (length : Option Nat) : List Nat :=
  [0x7b] ++ op ++ (args.flatMap fun a => [0x3c] ++ argBytes a ++ [0x3e]) ++
    (annoHashes.flatMap fun h => [0x28] ++ natBytes 8 (h % (256 ^ 8 : Int)).toNat ++ [0x29]) ++
    (match length with | Option.none => [] | some l => natBytes 8 l) ++ [0x7d]

/-! ### the weak hash-cons table -/

structure Table (κ ν : Type) where
  entries : List (κ × ν)

def Table.get {κ ν} [DecidableEq κ] (t : Table κ ν) (k : κ) : Option ν :=
  (t.entries.find? fun e => e.1 = k).map (·.2)

/-- `Base.__new__`: look the key up; reuse the live node or register the new one -/
def construct {κ ν} [DecidableEq κ] (key : ν → κ) (t : Table κ ν) (n : ν) : ν × Table κ ν :=
  match t.get (key n) with
  | some m => (m, t)
  | none => (n, ⟨(key n, n) :: t.entries⟩)

/-- a weak reference died: the entry disappears (the garbage collector may do this at any time) -/
def collect {κ ν} [DecidableEq κ] (t : Table κ ν) (k : κ) : Table κ ν :=
  ⟨t.entries.filter fun e => e.1 ≠ k⟩

inductive Ev (κ ν : Type) where
  | build (n : ν)
  | collect (k : κ)

def run {κ ν} [DecidableEq κ] (key : ν → κ) : Table κ ν → List (Ev κ ν) → Table κ ν
  | t, [] => t
  | t, .build n :: rest => run key (construct key t n).2 rest
  | t, .collect k :: rest => run key (collect t k) rest

end Claripy.Hashcons
