import Claripy.AST.Expr
/-! Cached metadata of an AST node as `Base.__new__` computes it: variables (union over arguments), depth
(1 + deepest argument), symbolic flag (any argument symbolic).  Width is `Expr.width` in Expr.lean. -/
namespace Claripy.AST

mutual
def Expr.vars : Expr → List String
  | .bvv _ _ => []
  | .bvs name _ => [name]
  | .boolv _ => []
  | .bools name => [name]
  | .app _ args => Expr.varsList args
def Expr.varsList : List Expr → List String
  | [] => []
  | e :: es => e.vars ++ Expr.varsList es
end

mutual
def Expr.depth : Expr → Nat
  | .app _ args => 1 + Expr.depthList args
  | _ => 1
def Expr.depthList : List Expr → Nat
  | [] => 0
  | e :: es => max e.depth (Expr.depthList es)
end

def Expr.symbolic (e : Expr) : Bool := !e.vars.isEmpty

end Claripy.AST
