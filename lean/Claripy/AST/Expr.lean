import Claripy.BV.Concrete
/-!
Expression model for the bit-vector / Boolean fragment of claripy ASTs, and its denotation.

`Expr` is the operation tree (claripy's `op` + `args`; integer arguments of `Extract`/`ZeroExt`/`SignExt`
live inside the `Op`).  `eval` gives the SMT-LIB meaning: every operator is Lean core's `BitVec`
operator (division by zero follows SMT-LIB via `smtUDiv`/`smtSDiv`; claripy's `SMod` is `bvsrem`,
as `backend_z3` translates it).  Values carry their width and the value as a `Nat`
(`Val.bv w n` always has `n < 2^w` when produced by `eval`); ill-typed trees evaluate to `Val.err`.
-/
namespace Claripy.AST

inductive Op where
  | add | sub | mul | udiv | umod | sdiv | smod
  | band | bor | bxor | shl | ashr | lshr | bnot | neg
  | eq | ne | ult | ule | ugt | uge | slt | sle | sgt | sge
  | concat | extract (hi lo : Nat) | zeroExt (n : Nat) | signExt (n : Nat)
  | rotl | rotr | reverse
  | ite | and | or | not
  deriving DecidableEq, Repr, Inhabited

inductive Expr where
  | bvv (v w : Nat)
  | bvs (name : String) (w : Nat)
  | boolv (b : Bool)
  | bools (name : String)
  | app (op : Op) (args : List Expr)
  deriving Repr, Inhabited

inductive Val where
  | bv (w n : Nat)
  | bool (b : Bool)
  | err
  deriving DecidableEq, Repr, Inhabited

structure Env where
  bv : String → Nat       -- value of a bit-vector variable (taken modulo its width)
  bool : String → Bool

/-! ### value-level operators (SMT-LIB through `BitVec`) -/

def bvBin (f : (w : Nat) → BitVec w → BitVec w → BitVec w) : Val → Val → Val
  | .bv w a, .bv w' b => if w = w' ∧ 0 < w then .bv w (f w (.ofNat w a) (.ofNat w b)).toNat else .err
  | _, _ => .err

def bvUn (f : (w : Nat) → BitVec w → BitVec w) : Val → Val
  | .bv w a => if 0 < w then .bv w (f w (.ofNat w a)).toNat else .err
  | _ => .err

def bvCmp (f : (w : Nat) → BitVec w → BitVec w → Bool) : Val → Val → Val
  | .bv w a, .bv w' b => if w = w' ∧ 0 < w then .bool (f w (.ofNat w a) (.ofNat w b)) else .err
  | _, _ => .err

def valEq : Val → Val → Val
  | .bv w a, .bv w' b => if w = w' ∧ 0 < w then .bool (BitVec.ofNat w a == BitVec.ofNat w b) else .err
  | .bool a, .bool b => .bool (a == b)
  | _, _ => .err

def valNot : Val → Val
  | .bool b => .bool (!b)
  | _ => .err

def valConcat : Val → Val → Val
  | .bv w a, .bv w' b => .bv (w + w') (BitVec.ofNat w a ++ BitVec.ofNat w' b).toNat
  | _, _ => .err

def valIte : Val → Val → Val → Val
  | .bool c, .bv w a, .bv w' b => if w = w' then (if c then .bv w a else .bv w' b) else .err
  | .bool c, .bool a, .bool b => .bool (if c then a else b)
  | _, _, _ => .err

def bytesRev : (k : Nat) → Nat → Nat     -- reverse the k low bytes of a number
  | 0, _ => 0
  | k + 1, n => (n % 256) * 256 ^ k + bytesRev k (n / 256)

def valReverse : Val → Val
  | .bv w a => if w % 8 = 0 ∧ 0 < w then .bv w (bytesRev (w / 8) (a % 2 ^ w)) else .err
  | _ => .err

def boolBin (f : Bool → Bool → Bool) : Val → Val → Val
  | .bool a, .bool b => .bool (f a b)
  | _, _ => .err

/-- SMT-LIB `bvshl`, computed without materialising `x * 2^y` for huge `y` (equal to `x <<< y`, see
`bvShl_eq` in ClaripyProofs/Lemmas/AST/Eval.lean) -/
def bvShl {w : Nat} (x y : BitVec w) : BitVec w := if w ≤ y.toNat then 0#w else x <<< y

/-- left fold of a binary value operator over a non-empty argument list (claripy's n-ary nodes) -/
def foldVals (f : Val → Val → Val) : List Val → Val
  | [] => .err
  | v :: vs => vs.foldl f v

def applyOp (op : Op) (vs : List Val) : Val :=
  match op, vs with
  | .add, _ :: _ :: _ => foldVals (bvBin fun _ x y => x + y) vs
  | .mul, _ :: _ :: _ => foldVals (bvBin fun _ x y => x * y) vs
  | .band, _ :: _ :: _ => foldVals (bvBin fun _ x y => x &&& y) vs
  | .bor, _ :: _ :: _ => foldVals (bvBin fun _ x y => x ||| y) vs
  | .bxor, _ :: _ :: _ => foldVals (bvBin fun _ x y => x ^^^ y) vs
  | .sub, [a, b] => bvBin (fun _ x y => x - y) a b
  | .udiv, [a, b] => bvBin (fun _ x y => BitVec.smtUDiv x y) a b
  | .umod, [a, b] => bvBin (fun _ x y => x % y) a b
  | .sdiv, [a, b] => bvBin (fun _ x y => BitVec.smtSDiv x y) a b
  | .smod, [a, b] => bvBin (fun _ x y => BitVec.srem x y) a b
  | .shl, [a, b] => bvBin (fun _ x y => bvShl x y) a b
  | .lshr, [a, b] => bvBin (fun _ x y => x >>> y) a b
  | .ashr, [a, b] => bvBin (fun _ x y => BitVec.sshiftRight' x y) a b
  | .rotl, [a, b] => bvBin (fun _ x y => x.rotateLeft y.toNat) a b
  | .rotr, [a, b] => bvBin (fun _ x y => x.rotateRight y.toNat) a b
  | .bnot, [a] => bvUn (fun _ x => ~~~x) a
  | .neg, [a] => bvUn (fun _ x => -x) a
  | .eq, [a, b] => valEq a b
  | .ne, [a, b] => valNot (valEq a b)
  | .ult, [a, b] => bvCmp (fun _ x y => BitVec.ult x y) a b
  | .ule, [a, b] => bvCmp (fun _ x y => BitVec.ule x y) a b
  | .ugt, [a, b] => bvCmp (fun _ x y => BitVec.ult y x) a b
  | .uge, [a, b] => bvCmp (fun _ x y => BitVec.ule y x) a b
  | .slt, [a, b] => bvCmp (fun _ x y => BitVec.slt x y) a b
  | .sle, [a, b] => bvCmp (fun _ x y => BitVec.sle x y) a b
  | .sgt, [a, b] => bvCmp (fun _ x y => BitVec.slt y x) a b
  | .sge, [a, b] => bvCmp (fun _ x y => BitVec.sle y x) a b
  | .concat, _ :: _ => foldVals valConcat vs
  | .extract hi lo, [.bv w a] =>
    if lo ≤ hi ∧ hi < w then .bv (hi - lo + 1) (BitVec.extractLsb hi lo (BitVec.ofNat w a)).toNat else .err
  | .zeroExt n, [.bv w a] => if 0 < w then .bv (w + n) (BitVec.zeroExtend (w + n) (BitVec.ofNat w a)).toNat else .err
  | .signExt n, [.bv w a] => if 0 < w then .bv (w + n) (BitVec.signExtend (w + n) (BitVec.ofNat w a)).toNat else .err
  | .reverse, [a] => valReverse a
  | .ite, [c, a, b] => valIte c a b
  | .and, _ :: _ => vs.foldl (boolBin (· && ·)) (.bool true)
  | .or, _ :: _ => vs.foldl (boolBin (· || ·)) (.bool false)
  | .not, [a] => valNot a
  | _, _ => .err

mutual
def eval (env : Env) : Expr → Val
  | .bvv v w => if 0 < w then .bv w (v % 2 ^ w) else .err
  | .bvs name w => if 0 < w then .bv w (env.bv name % 2 ^ w) else .err
  | .boolv b => .bool b
  | .bools name => .bool (env.bool name)
  | .app op args => applyOp op (evalList env args)
def evalList (env : Env) : List Expr → List Val
  | [] => []
  | e :: es => eval env e :: evalList env es
end

theorem evalList_eq_map (env : Env) (es : List Expr) : evalList env es = es.map (eval env) := by
  induction es with
  | nil => simp [evalList]
  | cons e es ih => simp [evalList, ih]

/-! structural Boolean equality on expressions (claripy's `is`, up to hash-consing) -/
mutual
def Expr.beq : Expr → Expr → Bool
  | .bvv v w, .bvv v' w' => v == v' && w == w'
  | .bvs n w, .bvs n' w' => n == n' && w == w'
  | .boolv b, .boolv b' => b == b'
  | .bools n, .bools n' => n == n'
  | .app op args, .app op' args' => decide (op = op') && Expr.beqList args args'
  | _, _ => false
def Expr.beqList : List Expr → List Expr → Bool
  | [], [] => true
  | a :: as, b :: bs => Expr.beq a b && Expr.beqList as bs
  | _, _ => false
end

instance : BEq Expr := ⟨Expr.beq⟩

/-- `length` of a node from the lengths of its arguments, as the `calc_length` functions compute it
(none for Booleans / ill-sized) -/
def sumWidths (ws : List (Option Nat)) (acc : Option Nat) : Option Nat :=
  ws.foldl (fun acc a => match acc, a with | some x, some y => some (x + y) | _, _ => none) acc

def widthOf (op : Op) (ws : List (Option Nat)) : Option Nat :=
  match op, ws with
  | .extract hi lo, _ => some (hi + 1 - lo)
  | .zeroExt n, [a] => a.map (· + n)
  | .signExt n, [a] => a.map (· + n)
  | .concat, _ => sumWidths ws (some 0)
  | .ite, [_, a, _] => a
  | .eq, _ | .ne, _ | .ult, _ | .ule, _ | .ugt, _ | .uge, _ | .slt, _ | .sle, _ | .sgt, _ | .sge, _
  | .and, _ | .or, _ | .not, _ => none
  | _, a :: _ => a
  | _, [] => none

mutual
def Expr.width : Expr → Option Nat
  | .bvv _ w => some w
  | .bvs _ w => some w
  | .boolv _ => none
  | .bools _ => none
  | .app op args => widthOf op (Expr.widthList args)
def Expr.widthList : List Expr → List (Option Nat)
  | [] => []
  | e :: es => e.width :: Expr.widthList es
end

end Claripy.AST
