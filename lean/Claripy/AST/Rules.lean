import Claripy.AST.Expr
/-!
The construction-time rewrite rules of claripy/simplifications.py and ast/bool.py:If, as a table of
schemas `lhs ⇒ rhs` under a decidable side condition.  `lhs p` is the node the caller asked for (its
arguments are arbitrary, already-built expressions — the metavariables `x y z c`), `rhs p` is the tree of
constructor calls the simplifier makes instead (raw: claripy re-enters its constructors on it).
Each schema has a soundness theorem in ClaripyProofs/Lemmas/AST/Rules.lean, for every width and constant.

`matchers` (bottom of the file) are untrusted glue for the correspondence check: they propose parameters
`p` for a concrete node `t`; the driver only reports a candidate after checking `lhs p == t ∧ side p`.
-/
namespace Claripy.AST

structure P where
  x : Expr := .boolv true
  y : Expr := .boolv true
  z : Expr := .boolv true
  c : Expr := .boolv true      -- a Boolean condition
  c1 : Nat := 0
  c2 : Nat := 0
  w : Nat := 0
  n : Nat := 0
  xs : List Expr := []
  deriving Repr, Inhabited

structure Schema where
  name : String
  lhs : P → Expr
  rhs : P → Expr
  side : P → Bool := fun _ => true

abbrev bv0 (w : Nat) : Expr := .bvv 0 w
abbrev ones (w : Nat) : Expr := .bvv (2 ^ w - 1) w
abbrev tt : Expr := .boolv true
abbrev ff : Expr := .boolv false

namespace R

/-! #### shifts -/
def shl_zero : Schema := { name := "L1.shl_zero", lhs := fun p => .app .shl [p.x, bv0 p.w], rhs := fun p => p.x }
def ashr_zero : Schema := { name := "R1.ashr_zero", lhs := fun p => .app .ashr [p.x, bv0 p.w], rhs := fun p => p.x }
def lshr_zero : Schema := { name := "R1.lshr_zero", lhs := fun p => .app .lshr [p.x, bv0 p.w], rhs := fun p => p.x }
/-- `(x << c1) << c2 ⇒ x << (c1 + c2)` when the sum cannot wrap (after the fix) -/
def shl_shl : Schema :=
  { name := "L2.shl_shl"
    lhs := fun p => .app .shl [.app .shl [p.x, .bvv p.c1 p.w], .bvv p.c2 p.w]
    rhs := fun p => .app .shl [p.x, .app .add [.bvv p.c1 p.w, .bvv p.c2 p.w]]
    side := fun p => decide (p.c1 < 2 ^ p.w ∧ p.c2 < 2 ^ p.w ∧ p.c1 + p.c2 < 2 ^ p.w) }

/-! #### subtraction / addition -/
def sub_zero : Schema := { name := "S1.sub_zero", lhs := fun p => .app .sub [p.x, bv0 p.w], rhs := fun p => p.x }
def sub_sub : Schema :=
  { name := "S2.sub_sub"
    lhs := fun p => .app .sub [.app .sub [p.x, .bvv p.c1 p.w], .bvv p.c2 p.w]
    rhs := fun p => .app .sub [p.x, .app .add [.bvv p.c1 p.w, .bvv p.c2 p.w]] }
def sub_add : Schema :=
  { name := "S3.sub_add"
    lhs := fun p => .app .sub [.app .add [p.x, .bvv p.c1 p.w], .bvv p.c2 p.w]
    rhs := fun p => .app .add [p.x, .app .sub [.bvv p.c1 p.w, .bvv p.c2 p.w]] }
def add_sub : Schema :=
  { name := "P1.add_sub"
    lhs := fun p => .app .add [.app .sub [p.x, .bvv p.c1 p.w], .bvv p.c2 p.w]
    rhs := fun p => .app .sub [p.x, .app .sub [.bvv p.c1 p.w, .bvv p.c2 p.w]] }

/-! #### bitwise identities (two-argument forms) -/
def xor_zero_l : Schema := { name := "X1.xor_zero_l", lhs := fun p => .app .bxor [bv0 p.w, p.x], rhs := fun p => p.x }
def xor_zero_r : Schema := { name := "X2.xor_zero_r", lhs := fun p => .app .bxor [p.x, bv0 p.w], rhs := fun p => p.x }
def or_zero_l : Schema := { name := "U1.or_zero_l", lhs := fun p => .app .bor [bv0 p.w, p.x], rhs := fun p => p.x }
def or_zero_r : Schema := { name := "U2.or_zero_r", lhs := fun p => .app .bor [p.x, bv0 p.w], rhs := fun p => p.x }
def or_self : Schema := { name := "U3.or_self", lhs := fun p => .app .bor [p.x, p.x], rhs := fun p => p.x }
def and_ones_l : Schema := { name := "D2.and_ones_l", lhs := fun p => .app .band [ones p.w, p.x], rhs := fun p => p.x }
def and_ones_r : Schema := { name := "D3.and_ones_r", lhs := fun p => .app .band [p.x, ones p.w], rhs := fun p => p.x }
def and_self : Schema := { name := "D4.and_self", lhs := fun p => .app .band [p.x, p.x], rhs := fun p => p.x }
def and_zero_l : Schema := { name := "D5.and_zero_l", lhs := fun p => .app .band [bv0 p.w, p.x], rhs := fun p => bv0 p.w }
def and_zero_r : Schema := { name := "D5.and_zero_r", lhs := fun p => .app .band [p.x, bv0 p.w], rhs := fun p => bv0 p.w }

/-! #### equality / disequality -/
def eq_self : Schema := { name := "E1.eq_self", lhs := fun p => .app .eq [p.x, p.x], rhs := fun _ => tt }
def ne_self : Schema := { name := "N1.ne_self", lhs := fun p => .app .ne [p.x, p.x], rhs := fun _ => ff }
def eq_true_r : Schema := { name := "E2.eq_true_r", lhs := fun p => .app .eq [p.c, tt], rhs := fun p => p.c }
def eq_true_l : Schema := { name := "E3.eq_true_l", lhs := fun p => .app .eq [tt, p.c], rhs := fun p => p.c }
def eq_false_r : Schema := { name := "E4.eq_false_r", lhs := fun p => .app .eq [p.c, ff], rhs := fun p => .app .not [p.c] }
def eq_false_l : Schema := { name := "E5.eq_false_l", lhs := fun p => .app .eq [ff, p.c], rhs := fun p => .app .not [p.c] }
def eq_swap : Schema :=
  { name := "E7.eq_swap", lhs := fun p => .app .eq [.bvv p.c1 p.w, p.x], rhs := fun p => .app .eq [p.x, .bvv p.c1 p.w] }
def ne_swap : Schema :=
  { name := "N7.ne_swap", lhs := fun p => .app .ne [.bvv p.c1 p.w, p.x], rhs := fun p => .app .ne [p.x, .bvv p.c1 p.w] }
def eq_sub : Schema :=
  { name := "E8.eq_sub"
    lhs := fun p => .app .eq [.app .sub [p.x, .bvv p.c1 p.w], .bvv p.c2 p.w]
    rhs := fun p => .app .eq [p.x, .app .add [.bvv p.c1 p.w, .bvv p.c2 p.w]] }
def eq_xor1_r : Schema :=
  { name := "E9.eq_xor1_r"
    lhs := fun p => .app .eq [.app .bxor [p.x, .bvv 1 p.w], bv0 p.w]
    rhs := fun p => .app .eq [p.x, .bvv 1 p.w] }
def eq_xor1_l : Schema :=
  { name := "E10.eq_xor1_l"
    lhs := fun p => .app .eq [.app .bxor [.bvv 1 p.w, p.x], bv0 p.w]
    rhs := fun p => .app .eq [p.x, .bvv 1 p.w] }
def ne_xor1_r : Schema :=
  { name := "N9.ne_xor1_r"
    lhs := fun p => .app .ne [.app .bxor [p.x, .bvv 1 p.w], bv0 p.w]
    rhs := fun p => .app .ne [p.x, .bvv 1 p.w] }
def ne_xor1_l : Schema :=
  { name := "N10.ne_xor1_l"
    lhs := fun p => .app .ne [.app .bxor [.bvv 1 p.w, p.x], bv0 p.w]
    rhs := fun p => .app .ne [p.x, .bvv 1 p.w] }
def eq_rev : Schema :=
  { name := "E6.eq_rev"
    lhs := fun p => .app .eq [.app .reverse [p.x], .app .reverse [p.y]], rhs := fun p => .app .eq [p.x, p.y] }

/-! #### Boolean negation -/
def not_not : Schema := { name := "N.not_not", lhs := fun p => .app .not [.app .not [p.c]], rhs := fun p => p.c }
def not_eq : Schema := { name := "N.not_eq", lhs := fun p => .app .not [.app .eq [p.x, p.y]], rhs := fun p => .app .ne [p.x, p.y] }
def not_ne : Schema := { name := "N.not_ne", lhs := fun p => .app .not [.app .ne [p.x, p.y]], rhs := fun p => .app .eq [p.x, p.y] }
def not_slt : Schema := { name := "N.not_slt", lhs := fun p => .app .not [.app .slt [p.x, p.y]], rhs := fun p => .app .sge [p.x, p.y] }
def not_sle : Schema := { name := "N.not_sle", lhs := fun p => .app .not [.app .sle [p.x, p.y]], rhs := fun p => .app .sgt [p.x, p.y] }
def not_sgt : Schema := { name := "N.not_sgt", lhs := fun p => .app .not [.app .sgt [p.x, p.y]], rhs := fun p => .app .sle [p.x, p.y] }
def not_sge : Schema := { name := "N.not_sge", lhs := fun p => .app .not [.app .sge [p.x, p.y]], rhs := fun p => .app .slt [p.x, p.y] }
def not_ult : Schema := { name := "N.not_ult", lhs := fun p => .app .not [.app .ult [p.x, p.y]], rhs := fun p => .app .uge [p.x, p.y] }
def not_ule : Schema := { name := "N.not_ule", lhs := fun p => .app .not [.app .ule [p.x, p.y]], rhs := fun p => .app .ugt [p.x, p.y] }
def not_ugt : Schema := { name := "N.not_ugt", lhs := fun p => .app .not [.app .ugt [p.x, p.y]], rhs := fun p => .app .ule [p.x, p.y] }
def not_uge : Schema := { name := "N.not_uge", lhs := fun p => .app .not [.app .uge [p.x, p.y]], rhs := fun p => .app .ult [p.x, p.y] }

/-! #### If (ast/bool.py) -/
def ite_true : Schema := { name := "I1.ite_true", lhs := fun p => .app .ite [tt, p.x, p.y], rhs := fun p => p.x }
def ite_false : Schema := { name := "I2.ite_false", lhs := fun p => .app .ite [ff, p.x, p.y], rhs := fun p => p.y }
def ite_same : Schema := { name := "I7.ite_same", lhs := fun p => .app .ite [p.c, p.x, p.x], rhs := fun p => p.x }
def ite_tf : Schema := { name := "I8.ite_tf", lhs := fun p => .app .ite [p.c, tt, ff], rhs := fun p => p.c }
def ite_ft : Schema := { name := "I9.ite_ft", lhs := fun p => .app .ite [p.c, ff, tt], rhs := fun p => .app .not [p.c] }
def ite_then_same : Schema :=
  { name := "I3.ite_then_same"
    lhs := fun p => .app .ite [p.c, .app .ite [p.c, p.x, p.y], p.z], rhs := fun p => .app .ite [p.c, p.x, p.z] }
def ite_then_neg : Schema :=
  { name := "I4.ite_then_neg"
    lhs := fun p => .app .ite [p.c, .app .ite [.app .not [p.c], p.x, p.y], p.z], rhs := fun p => .app .ite [p.c, p.y, p.z] }
def ite_else_same : Schema :=
  { name := "I5.ite_else_same"
    lhs := fun p => .app .ite [p.c, p.z, .app .ite [p.c, p.x, p.y]], rhs := fun p => .app .ite [p.c, p.z, p.y] }
def ite_else_neg : Schema :=
  { name := "I6.ite_else_neg"
    lhs := fun p => .app .ite [p.c, p.z, .app .ite [.app .not [p.c], p.x, p.y]], rhs := fun p => .app .ite [p.c, p.z, p.x] }

/-! #### misc -/
/-- `~If(c, 1, 0) ⇒ If(!c, 1, 0)`, 1-bit only (after the fix) -/
def invert_if : Schema :=
  { name := "J1.invert_if"
    lhs := fun p => .app .bnot [.app .ite [p.c, .bvv 1 1, .bvv 0 1]]
    rhs := fun p => .app .ite [.app .not [p.c], .bvv 1 1, .bvv 0 1] }
def zext_zero : Schema := { name := "Z1.zext_zero", lhs := fun p => .app (.zeroExt 0) [p.x], rhs := fun p => p.x }
def sext_zero : Schema := { name := "Y1.sext_zero", lhs := fun p => .app (.signExt 0) [p.x], rhs := fun p => p.x }
def rev_rev : Schema := { name := "V1.rev_rev", lhs := fun p => .app .reverse [.app .reverse [p.x]], rhs := fun p => p.x }
/-- `If(c0,1,0) & If(c1,1,0) ⇒ If(c0 && c1, 1, 0)` -/
def and_if : Schema :=
  { name := "D7.and_if"
    lhs := fun p => .app .band [.app .ite [p.c, .bvv 1 p.w, bv0 p.w], .app .ite [p.z, .bvv 1 p.w, bv0 p.w]]
    rhs := fun p => .app .ite [.app .and [p.c, p.z], .bvv 1 p.w, bv0 p.w] }
/-- `a >= c && a != c ⇒ a > c` -/
def and_uge_ne : Schema :=
  { name := "A3.and_uge_ne"
    lhs := fun p => .app .and [.app .uge [p.x, p.y], .app .ne [p.x, p.y]]
    rhs := fun p => .app .ugt [p.x, p.y] }

/-! #### rules that need the (reported) width of an operand -/
/-- `a - a ⇒ 0` -/
def sub_self : Schema :=
  { name := "S4.sub_self", lhs := fun p => .app .sub [p.x, p.x], rhs := fun p => bv0 p.w,
    side := fun p => p.x.width == some p.w }
/-- `a ^ a ⇒ 0` -/
def xor_self : Schema :=
  { name := "X3.xor_self", lhs := fun p => .app .bxor [p.x, p.x], rhs := fun p => bv0 p.w,
    side := fun p => p.x.width == some p.w }
/-- `LShR(ZeroExt(n, y), c) ⇒ 0` when `c > |y|` -/
def lshr_zext : Schema :=
  { name := "R3.lshr_zext", lhs := fun p => .app .lshr [.app (.zeroExt p.n) [p.y], .bvv p.c1 p.w], rhs := fun p => bv0 p.w,
    side := fun p => match p.y.width with
      | some wy => decide (p.w = wy + p.n ∧ wy < p.c1 ∧ p.c1 < 2 ^ p.w)
      | none => false }
/-- `ZeroExt(n, y) >> c ⇒ 0` (arithmetic shift) when `c > |y|` and at least one zero bit was added -/
def ashr_zext : Schema :=
  { name := "R3.ashr_zext", lhs := fun p => .app .ashr [.app (.zeroExt p.n) [p.y], .bvv p.c1 p.w], rhs := fun p => bv0 p.w,
    side := fun p => match p.y.width with
      | some wy => decide (p.w = wy + p.n ∧ wy < p.c1 ∧ p.c1 < 2 ^ p.w ∧ 0 < p.n)
      | none => false }
/-- `(x1 + … + xk + c1) - c2 ⇒ x1 + … + xk + (c1 - c2)` for an n-ary sum -/
def sub_addN : Schema :=
  { name := "S3.sub_addN"
    lhs := fun p => .app .sub [.app .add (p.xs ++ [.bvv p.c1 p.w]), .bvv p.c2 p.w]
    rhs := fun p => .app .add (p.xs ++ [.app .sub [.bvv p.c1 p.w, .bvv p.c2 p.w]])
    side := fun p => decide (1 ≤ p.xs.length) }

def base : List Schema :=
  [shl_zero, ashr_zero, lshr_zero, shl_shl, sub_zero, sub_sub, sub_add, add_sub,
   xor_zero_l, xor_zero_r, or_zero_l, or_zero_r, or_self, and_ones_l, and_ones_r, and_self, and_zero_l, and_zero_r,
   eq_self, ne_self, eq_true_r, eq_true_l, eq_false_r, eq_false_l, eq_swap, ne_swap, eq_sub,
   eq_xor1_r, eq_xor1_l, ne_xor1_r, ne_xor1_l,
   not_not, not_eq, not_ne, not_slt, not_sle, not_sgt, not_sge, not_ult, not_ule, not_ugt, not_uge,
   ite_true, ite_false, ite_same, ite_tf, ite_ft, ite_then_same, ite_then_neg, ite_else_same, ite_else_neg,
   invert_if, zext_zero, sext_zero, and_if, and_uge_ne]

/-- rules whose side condition mentions the reported width of an operand, and the n-ary sum rule -/
def widthy : List Schema := [sub_self, xor_self, lshr_zext, ashr_zext, sub_addN]

/-! #### comparing an `If` over two different literals with one of them (eq_simplifier / ne_simplifier) -/
def iteLits (p : P) : Expr := .app .ite [p.c, .bvv p.c1 p.w, .bvv p.c2 p.w]
def litsDiffer (p : P) : Bool := decide (p.c1 % 2 ^ p.w ≠ p.c2 % 2 ^ p.w)
/-- `If(c, k1, k2) == k1 ⇒ c` -/
def eq_ite_then : Schema := { name := "E13.eq_ite_then", lhs := fun p => .app .eq [iteLits p, .bvv p.c1 p.w], rhs := fun p => p.c, side := litsDiffer }
/-- `If(c, k1, k2) == k2 ⇒ !c` -/
def eq_ite_else : Schema := { name := "E13.eq_ite_else", lhs := fun p => .app .eq [iteLits p, .bvv p.c2 p.w], rhs := fun p => .app .not [p.c], side := litsDiffer }
/-- `If(c, k1, k2) != k2 ⇒ c` -/
def ne_ite_else : Schema := { name := "N13.ne_ite_else", lhs := fun p => .app .ne [iteLits p, .bvv p.c2 p.w], rhs := fun p => p.c, side := litsDiffer }
/-- `If(c, k1, k2) != k1 ⇒ !c` -/
def ne_ite_then : Schema := { name := "N13.ne_ite_then", lhs := fun p => .app .ne [iteLits p, .bvv p.c1 p.w], rhs := fun p => .app .not [p.c], side := litsDiffer }

def iteCmp : List Schema := [eq_ite_then, eq_ite_else, ne_ite_else, ne_ite_then]

/-! #### `ZeroExt(n, y) >= c` and `Concat(0, y) >= c` (zeroext_comparing_against_simplifier, unsigned) -/
def zextY (p : P) : Expr := .app (.zeroExt p.n) [p.y]
def cat0Y (p : P) : Expr := .app .concat [.bvv 0 p.n, p.y]
def ugeLowSide (p : P) : Bool := match p.y.width with
  | some wy => decide (p.w = wy + p.n ∧ 0 < p.n ∧ p.c1 % 2 ^ p.w < 2 ^ wy ∧ p.c2 = wy)
  | none => false
def ugeHighSide (p : P) : Bool := match p.y.width with
  | some wy => decide (p.w = wy + p.n ∧ 0 < p.n ∧ 2 ^ wy ≤ p.c1 % 2 ^ p.w)
  | none => false
/-- the high bits of the literal are zero: compare the narrow operand with the truncated literal (`p.c2` = width of `y`) -/
def uge_zext_low : Schema := { name := "E18.uge_zext_low", lhs := fun p => .app .uge [zextY p, .bvv p.c1 p.w],
                               rhs := fun p => .app .uge [p.y, .bvv (p.c1 % 2 ^ p.w) p.c2], side := ugeLowSide }
def uge_zext_high : Schema := { name := "E18.uge_zext_high", lhs := fun p => .app .uge [zextY p, .bvv p.c1 p.w],
                                rhs := fun _ => .boolv false, side := ugeHighSide }
def uge_cat0_low : Schema := { name := "E18.uge_cat0_low", lhs := fun p => .app .uge [cat0Y p, .bvv p.c1 p.w],
                               rhs := fun p => .app .uge [p.y, .bvv (p.c1 % 2 ^ p.w) p.c2], side := ugeLowSide }
def uge_cat0_high : Schema := { name := "E18.uge_cat0_high", lhs := fun p => .app .uge [cat0Y p, .bvv p.c1 p.w],
                                rhs := fun _ => .boolv false, side := ugeHighSide }
def ugeZext : List Schema := [uge_zext_low, uge_zext_high, uge_cat0_low, uge_cat0_high]

/-- byte reversal is an involution, hence injective -/
def revRules : List Schema := [rev_rev, eq_rev]

/-! #### `Extract` distributes over the bitwise operations (any number of operands) and over an `If` between literals
(extract_simplifier: `extract_distributable`, `val.op == "If"`) -/
def extr (p : P) (e : Expr) : Expr := .app (.extract p.c1 p.c2) [e]
def twoPlus (p : P) : Bool := decide (2 ≤ p.xs.length)
def isLit : Expr → Bool
  | .bvv _ _ => true
  | _ => false
def extract_and : Schema := { name := "T5.extract_and", lhs := fun p => extr p (.app .band p.xs), rhs := fun p => .app .band (p.xs.map (extr p)), side := twoPlus }
def extract_or : Schema := { name := "T5.extract_or", lhs := fun p => extr p (.app .bor p.xs), rhs := fun p => .app .bor (p.xs.map (extr p)), side := twoPlus }
def extract_xor : Schema := { name := "T5.extract_xor", lhs := fun p => extr p (.app .bxor p.xs), rhs := fun p => .app .bxor (p.xs.map (extr p)), side := twoPlus }
def extract_ite : Schema :=
  { name := "T6.extract_ite", lhs := fun p => extr p (.app .ite [p.c, p.x, p.y]), rhs := fun p => .app .ite [p.c, extr p p.x, extr p p.y]
    side := fun p => isLit p.x && isLit p.y }
def extractRules : List Schema := [extract_and, extract_or, extract_xor, extract_ite]

def all : List Schema := base ++ widthy ++ iteCmp ++ revRules ++ ugeZext ++ extractRules

/-- schemas transcribed from the code whose soundness theorem is not proved yet (used for matching only) -/
def unproved : List Schema := []

end R

/-! ### matchers (untrusted; their proposals are re-checked by `candidates`) -/

def bvvOf : Expr → Option (Nat × Nat)
  | .bvv v w => some (v, w)
  | _ => none

/-- proposals for `Extract` of an n-ary node -/
def proposalsExtract (t : Expr) : List P :=
  match t with
  | .app (.extract hi lo) [.app _ xs] =>
    [{ c1 := hi, c2 := lo, xs := xs }] ++
    (match xs with
     | [c, a, b] => [{ c := c, x := a, y := b, c1 := hi, c2 := lo }]
     | _ => [])
  | _ => []

/-- parameter proposals for a node: every sub-position that a schema may bind -/
def proposals (t : Expr) : List P :=
  proposalsExtract t ++
  match t with
  | .app _ [a] =>
    match a with
    | .app _ [b] => [{ x := a }, { x := b }, { c := b }, { c := a }]
    | .app _ [b, c] => [{ x := a }, { c := a }, { x := b, y := c }]
    | .app _ [c, b, d] => [{ x := a }, { c := c, x := b, y := d }]
    | _ => [{ x := a }, { c := a }]
  | .app _ [a, b] =>
    let base : List P := [{ x := a, y := b, c := a, z := b }, { x := b, y := a, c := b, z := a }]
    let withConst : List P :=
      (match bvvOf b with
       | some (v, w) =>
         [{ x := a, c := a, c1 := v, c2 := v, w := w }] ++
         (match a with
          | .app _ [i, j] =>
            (match bvvOf j with | some (v1, _) => [{ x := i, c1 := v1, c2 := v, w := w }] | none => []) ++
            (match bvvOf i with | some (v1, _) => [{ x := j, c1 := v1, c2 := v, w := w }] | none => [])
          | _ => [])
       | none => []) ++
      (match bvvOf a with
       | some (v, w) => [{ x := b, c := b, c1 := v, c2 := v, w := w }]
       | none => [])
    let nested : List P :=
      (match a, b with
       | .app _ [i], .app _ [j] => [{ x := i, y := j }]
       | .app .ite [c0, _, _], .app .ite [c1, t1, _] =>
         (match bvvOf t1 with | some (_, w) => [{ c := c0, z := c1, w := w }] | none => [])
       | .app _ [i, j], .app _ [_, _] => [{ x := i, y := j }]
       | _, _ => [])
    let widthy : List P :=
      (match a.width with | some w => [{ x := a, w := w }] | none => []) ++
      (match a, bvvOf b with
       | .app (.zeroExt n) [y], some (v, w) => [{ y := y, n := n, c1 := v, w := w }, { y := y, n := n, c1 := v, c2 := (y.width.getD 0), w := w }]
       | .app .add xs, some (v, w) =>
         (match xs.getLast?, xs.dropLast with
          | some (.bvv v1 _), init => [{ xs := init, c1 := v1, c2 := v, w := w }]
          | _, _ => [])
       | .app .ite [c0, .bvv k1 w, .bvv k2 _], some _ => [{ c := c0, c1 := k1, c2 := k2, w := w }]
       | .app .concat [.bvv 0 n, y], some (v, w) => [{ y := y, n := n, c1 := v, c2 := (y.width.getD 0), w := w }]
       | _, _ => [])
    base ++ withConst ++ nested ++ widthy
  | .app _ [c, a, b] =>
    let base : List P := [{ c := c, x := a, y := b }]
    let n1 : List P := match a with
      | .app .ite [c', x, y] =>
        [{ c := c, x := x, y := y, z := b }] ++
        (match c' with | .app .not [_] => [{ c := c, x := x, y := y, z := b }] | _ => [])
      | _ => []
    let n2 : List P := match b with
      | .app .ite [_, x, y] => [{ c := c, x := x, y := y, z := a }]
      | _ => []
    base ++ n1 ++ n2
  | _ => []

/-- every (schema, rhs) whose instantiated lhs IS the node `t` and whose side condition holds -/
def candidates (t : Expr) : List (String × Expr) :=
  (proposals t).foldl (fun acc p =>
    (R.all ++ R.unproved).foldl (fun acc s =>
      if (s.lhs p == t) && s.side p && !(acc.any fun (n, _) => n == s.name) then acc ++ [(s.name, s.rhs p)] else acc) acc) []

end Claripy.AST
