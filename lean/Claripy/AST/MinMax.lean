import Claripy.AST.Expr
/-!
The branch-free signed min/max idiom recognised by `bitwise_xor_simplifier_minmax` (simplifications.py):

    s = q - r; t = q ^ r; u = s ^ q; v = u & t; w = v ^ s; x = w >> (bits-1); y = x & t; z = q ^ y      (signed max)
    s = r - q; t = q ^ r; u = s ^ r; v = u & t; w = v ^ s; x = w >> (bits-1); y = x & t; z = q ^ y      (signed min)

with the operands of every `^` and `&` in either order.  `minmaxEquiv lhs rhs` accepts `lhs ⇒ If(q <=s r, r, q)` (max) and
`lhs ⇒ If(q <=s r, q, r)` (min) when `lhs` is the idiom over the `q`, `r` named by `rhs`, modulo the order of the operands of
the commutative binary nodes.
-/
namespace Claripy.AST

def isCommBin : Op → Bool
  | .bxor | .band | .bor | .add | .mul => true
  | _ => false

mutual
/-- equality modulo swapping the two operands of binary `^ & | + *` nodes, at any depth -/
def eqModComm : Expr → Expr → Bool
  | .app op args, .app op' args' =>
    decide (op = op') && (eqModCommList args args' || (isCommBin op && eqModSwap args args'))
  | .bvv v w, .bvv v' w' => v == v' && w == w'
  | .bvs n w, .bvs n' w' => n == n' && w == w'
  | .boolv b, .boolv b' => b == b'
  | .bools n, .bools n' => n == n'
  | _, _ => false
def eqModCommList : List Expr → List Expr → Bool
  | [], [] => true
  | a :: as, b :: bs => eqModComm a b && eqModCommList as bs
  | _, _ => false
def eqModSwap : List Expr → List Expr → Bool
  | [a, b], [a', b'] => eqModComm a b' && eqModComm b a'
  | _, _ => false
end

def idiomTail (q s t u : Expr) (w : Nat) : Expr :=
  let v := Expr.app .band [u, t]
  let ww := Expr.app .bxor [v, s]
  let x := Expr.app .ashr [ww, .bvv (w - 1) w]
  let y := Expr.app .band [x, t]
  .app .bxor [q, y]

def maxCanon (q r : Expr) (w : Nat) : Expr :=
  let s := Expr.app .sub [q, r]
  let t := Expr.app .bxor [q, r]
  idiomTail q s t (.app .bxor [s, q]) w

def minCanon (q r : Expr) (w : Nat) : Expr :=
  let s := Expr.app .sub [r, q]
  let t := Expr.app .bxor [q, r]
  idiomTail q s t (.app .bxor [s, r]) w

def minmaxEquiv (lhs rhs : Expr) : Bool :=
  match rhs with
  | .app .ite [.app .sle [q, r], a, b] =>
    match q.width with
    | some w =>
      (a == r && b == q && eqModComm lhs (maxCanon q r w)) || (a == q && b == r && eqModComm lhs (minCanon q r w))
    | none => false
  | _ => false

end Claripy.AST
