import Claripy.AST.Rules
import Claripy.Gen.SimpTables
/-!
Reading of the tables that `harness/translate_simptables.py` regenerates from claripy/simplifications.py on every run
(`Claripy/Gen/SimpTables.lean`): which model operator a Python operation name stands for, and which of the rewrites the
tables announce are covered by a proven schema or certificate check.  `ClaripyProofs/Props/C01.lean` proves that every entry
of the regenerated tables is covered — a new entry in the code (say, `Not(fpLT(a, b)) ⇒ fpGEQ(a, b)`) makes that fail.
-/
namespace Claripy.AST

/-- comparison operators by their Python name -/
def cmpOfPy : String → Option Op
  | "__eq__" => some .eq | "__ne__" => some .ne
  | "SLT" => some .slt | "SLE" => some .sle | "SGT" => some .sgt | "SGE" => some .sge
  | "ULT" => some .ult | "ULE" => some .ule | "UGT" => some .ugt | "UGE" => some .uge
  | _ => none

/-- bitwise operators by their Python name (the reflected spellings are the same operators) -/
def bitwiseOfPy : String → Option Op
  | "__and__" | "__rand__" => some .band
  | "__or__" | "__ror__" => some .bor
  | "__xor__" | "__rxor__" => some .bxor
  | _ => none

/-- the complement pairs `Not(a(x, y)) ⇒ b(x, y)` that are proven schemas (`N.not_*`) -/
def notPairs : List (Op × Op) :=
  [(.eq, .ne), (.ne, .eq), (.slt, .sge), (.sle, .sgt), (.sgt, .sle), (.sge, .slt), (.ult, .uge), (.ule, .ugt), (.ugt, .ule), (.uge, .ult)]

def notEntryOK (e : String × String) : Bool :=
  (e.1 == "Not" && e.2 == "arg0") ||
  match cmpOfPy e.1, cmpOfPy e.2 with
  | some a, some b => notPairs.contains (a, b)
  | _, _ => false

/-- operations whose flattening is decided by `acEquiv` / `bcEquiv` -/
def flattenModelled : List String := ["__and__", "__or__", "__xor__", "__mul__", "__add__", "And", "Or"]

/-- operations with a construction-time simplifier that the model covers (schemas, certificate checks, or — for the three
FP/string entries — the models of C02/C03) -/
def simplifierOpsModelled : List String :=
  ["And", "Concat", "Extract", "If", "LShR", "Not", "Or", "Reverse", "SignExt", "StrReverse", "UGE", "ZeroExt", "__add__", "__and__",
   "__eq__", "__invert__", "__lshift__", "__mul__", "__ne__", "__or__", "__rshift__", "__sub__", "__xor__", "fpToFP", "fpToIEEEBV"]

end Claripy.AST
