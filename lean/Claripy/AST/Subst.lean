import Claripy.AST.Fold
/-!
Models of the expression utilities of claripy/algorithm/replace.py, ast/base.py:canonicalize and
ast/bool.py:ite_cases / ite_dict, on the expression model.
-/
namespace Claripy.AST

/-! ### replace (leaf substitution) -/
mutual
/-- replace the bit-vector variable `name` of width `w` by `r` everywhere (purely syntactic) -/
def substBv (name : String) (w : Nat) (r : Expr) : Expr → Expr
  | .bvs n w' => if n = name ∧ w' = w then r else .bvs n w'
  | .app op args => .app op (substBvList name w r args)
  | e => e
def substBvList (name : String) (w : Nat) (r : Expr) : List Expr → List Expr
  | [] => []
  | e :: es => substBv name w r e :: substBvList name w r es
end

/-- `make_like(op, args)` without simplification: `Base.__new__` still folds a node whose arguments are all concrete -/
def mkFold (op : Op) (args : List Expr) : Except Claripy.BV.Err Expr :=
  match fold op args with
  | some (.ok c) => .ok c
  | some (.error e) => .error e
  | none => .ok (.app op args)

mutual
/-- `replace_dict` on a variable key: substitute, rebuilding changed nodes through `make_like` (so newly concrete
nodes fold).  Nodes without the variable are returned untouched (the `variable_set` shortcut). -/
def replaceBv (name : String) (w : Nat) (r : Expr) : Expr → Except Claripy.BV.Err Expr
  | .bvs n w' => .ok (if n = name ∧ w' = w then r else .bvs n w')
  | .app op args => do
    let args' ← replaceBvList name w r args
    if Expr.beqList args' args then pure (.app op args) else mkFold op args'
  | e => .ok e
def replaceBvList (name : String) (w : Nat) (r : Expr) : List Expr → Except Claripy.BV.Err (List Expr)
  | [] => .ok []
  | e :: es => do
    let e' ← replaceBv name w r e
    let es' ← replaceBvList name w r es
    pure (e' :: es')
end

/-! ### canonicalize (consistent renaming) -/
mutual
def rename (ρ : String → String) : Expr → Expr
  | .bvs n w => .bvs (ρ n) w
  | .bools n => .bools (ρ n)
  | .app op args => .app op (renameList ρ args)
  | e => e
def renameList (ρ : String → String) : List Expr → List Expr
  | [] => []
  | e :: es => rename ρ e :: renameList ρ es
end

mutual
def Expr.nodes : Expr → Nat
  | .app _ args => 1 + Expr.nodesList args
  | _ => 1
def Expr.nodesList : List Expr → Nat
  | [] => 0
  | e :: es => e.nodes + Expr.nodesList es
end

/-- `leaf_asts()`: a stack walk that pops from the right (so arguments are visited right to left) and visits every
distinct node (hash) once; yields the distinct leaves, constants included.  `stack` has its top at the head. -/
def leafWalk : Nat → List Expr → List Expr → List Expr → List Expr
  | 0, _, _, acc => acc.reverse
  | _, [], _, acc => acc.reverse
  | fuel + 1, e :: stack, seen, acc =>
    if seen.any (· == e) then leafWalk fuel stack seen acc
    else
      match e with
      | .app _ args => leafWalk fuel (args.reverse ++ stack) (e :: seen) acc
      | leaf => leafWalk fuel stack (e :: seen) (leaf :: acc)

def leafAsts (e : Expr) : List Expr := leafWalk (2 * e.nodes + 2) [e] [] []

/-- `canonicalize`: the counter advances for every distinct leaf in `leaf_asts()` order (constants consume a number too);
the i-th leaf, when it is a variable, becomes `canonical_i` -/
def canonMap (e : Expr) : List (String × String) :=
  let ls := leafAsts e
  (ls.zip (List.range ls.length)).filterMap fun (l, i) =>
    match l with
    | .bvs n _ => some (n, "canonical_" ++ toString i)
    | .bools n => some (n, "canonical_" ++ toString i)
    | _ => none

def canonicalize (e : Expr) : Expr :=
  let m := canonMap e
  rename (fun v => (m.lookup v).getD v) e

/-! ### ite_cases / ite_dict -/

/-- `ite_cases(cases, default)`: a chain of Ifs (the real code additionally skips a case whose value is
syntactically the value built so far, and `If` applies its shortcut rules; both preserve the value) -/
def iteCases (cases : List (Expr × Expr)) (default : Expr) : Expr :=
  cases.foldr (fun cv sofar => .app .ite [cv.1, cv.2, sofar]) default

def linearCases (i : Expr) (w : Nat) (d : List (Nat × Expr)) : List (Expr × Expr) :=
  d.map fun kv => (.app .eq [i, .bvv kv.1 w], kv.2)

def insertSorted (x : Nat) : List Nat → List Nat
  | [] => [x]
  | y :: ys => if x ≤ y then x :: y :: ys else y :: insertSorted x ys

def sortNat (l : List Nat) : List Nat := l.foldr insertSorted []

/-- the median key as `ite_dict` picks it: `sorted(keys)[(len - 1) // 2]` -/
def medianKey (d : List (Nat × Expr)) : Nat :=
  let keys := sortNat (d.map (·.1))
  keys.getD ((keys.length - 1) / 2) 0

/-- `ite_dict(i, d, default)` with keys already reduced modulo 2^w: linear below 4 entries, otherwise split at the
median key with an unsigned `<=`.  `split` is a parameter so that the correctness theorem covers any choice. -/
def iteDict (split : List (Nat × Expr) → Nat) (i : Expr) (w : Nat) (default : Expr) : Nat → List (Nat × Expr) → Expr
  | 0, d => iteCases (linearCases i w d) default
  | fuel + 1, d =>
    if d.length < 4 then iteCases (linearCases i w d) default
    else
      let s := split d
      .app .ite [.app .ule [i, .bvv s w],
        iteDict split i w default fuel (d.filter fun kv => kv.1 ≤ s),
        iteDict split i w default fuel (d.filter fun kv => ¬ kv.1 ≤ s)]

/-- the sequence of split values in the order the `If` nodes are built (post-order; for the correspondence check) -/
def iteDictPlan (split : List (Nat × Expr) → Nat) : Nat → List (Nat × Expr) → List Nat
  | 0, _ => []
  | fuel + 1, d =>
    if d.length < 4 then []
    else
      let s := split d
      iteDictPlan split fuel (d.filter fun kv => kv.1 ≤ s) ++ iteDictPlan split fuel (d.filter fun kv => ¬ kv.1 ≤ s) ++ [s]

end Claripy.AST
