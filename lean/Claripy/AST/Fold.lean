import Claripy.AST.Expr
/-!
Model of eager concrete folding: `Base.__new__` evaluates every non-leaf node whose arguments are all
concrete through `backends.concrete.call(op, args)` (backend_concrete.py: n-ary ops are a left `reduce`
over the `bv.py` operator; comparisons return Python bools; `If` needs a bool condition).
Errors are what Python raises.  `fold` is defined on nodes whose arguments are *leaf constants*.
-/
namespace Claripy.AST
open Claripy.BV

inductive CVal where
  | bv (v w : Nat)
  | bool (b : Bool)
  deriving DecidableEq, Repr, Inhabited

def Expr.toCVal? : Expr → Option CVal
  | .bvv v w => some (.bv (v % 2 ^ w) w)
  | .boolv b => some (.bool b)
  | _ => none

def CVal.toExpr : CVal → Expr
  | .bv v w => .bvv v w
  | .bool b => .boolv b

/-- both operands must have the same non-zero size (`compare_bits`) -/
def sized2 (a b : CVal) : Except Err (Nat × Nat × Nat) :=
  match a, b with
  | .bv x w, .bv y w' => if w = w' ∧ 0 < w then .ok (w, x, y) else .error .sizeMismatch
  | _, _ => .error (.crash "TypeError")

def bin (f : Nat → Nat → Nat → R) (a b : CVal) : Except Err CVal :=
  match sized2 a b with
  | .error e => .error e
  | .ok (w, x, y) =>
    match f w x y with
    | .error e => .error e
    | .ok r => .ok (.bv r w)

def cmp (f : Nat → Nat → Nat → Bool) (a b : CVal) : Except Err CVal :=
  match sized2 a b with
  | .error e => .error e
  | .ok (w, x, y) => .ok (.bool (f w x y))

def reduceL (f : CVal → CVal → Except Err CVal) : List CVal → Except Err CVal
  | [] => .error (.crash "reduce of empty sequence")
  | v :: vs => vs.foldlM f v

def boolAll : List CVal → Except Err CVal
  | [] => .ok (.bool true)
  | .bool b :: vs => do
    let r ← boolAll vs
    match r with | .bool r => pure (.bool (b && r)) | _ => .error (.crash "TypeError")
  | _ => .error (.crash "TypeError")

def boolAny : List CVal → Except Err CVal
  | [] => .ok (.bool false)
  | .bool b :: vs => do
    let r ← boolAny vs
    match r with | .bool r => pure (.bool (b || r)) | _ => .error (.crash "TypeError")
  | _ => .error (.crash "TypeError")

/-- (value, bits) of a bit-vector constant -/
def pairOf : CVal → Option (Nat × Nat)
  | .bv x w => some (x, w)
  | _ => none

def foldOp (op : Op) (vs : List CVal) : Except Err CVal :=
  match op, vs with
  | .add, _ => reduceL (bin add) vs
  | .mul, _ => reduceL (bin mul) vs
  | .band, _ => reduceL (bin and_) vs
  | .bor, _ => reduceL (bin or_) vs
  | .bxor, _ => reduceL (bin xor_) vs
  | .sub, _ => reduceL (bin sub) vs
  | .udiv, [a, b] => bin udiv a b
  | .umod, [a, b] => bin umod a b
  | .sdiv, [a, b] => bin sdiv a b
  | .smod, [a, b] => bin smod a b
  | .shl, [a, b] => bin shl a b
  | .ashr, [a, b] => bin ashr a b
  | .lshr, [a, b] => bin lshr a b
  | .rotl, [a, b] => bin rotl a b
  | .rotr, [a, b] => bin rotr a b
  | .bnot, [.bv x w] => do let r ← not_ w x; pure (.bv r w)
  | .neg, [.bv x w] => do let r ← neg w x; pure (.bv r w)
  | .eq, [.bv x w, .bv y w'] => if w = w' then .ok (.bool (eq x y)) else .error .sizeMismatch
  | .ne, [.bv x w, .bv y w'] => if w = w' then .ok (.bool (ne x y)) else .error .sizeMismatch
  | .eq, [.bool x, .bool y] => .ok (.bool (x == y))
  | .ne, [.bool x, .bool y] => .ok (.bool (x != y))
  | .ult, [a, b] => cmp (fun _ x y => ult x y) a b
  | .ule, [a, b] => cmp (fun _ x y => ule x y) a b
  | .ugt, [a, b] => cmp (fun _ x y => ugt x y) a b
  | .uge, [a, b] => cmp (fun _ x y => uge x y) a b
  | .slt, [a, b] => cmp slt a b
  | .sle, [a, b] => cmp sle a b
  | .sgt, [a, b] => cmp sgt a b
  | .sge, [a, b] => cmp sge a b
  | .concat, _ =>
    let pairs := vs.filterMap pairOf
    if pairs.length = vs.length then let r := concat pairs; .ok (.bv (mask r.2 r.1) r.2)
    else .error (.crash "TypeError")
  | .extract hi lo, [.bv x _] => do let r ← extract hi lo x; pure (.bv r (hi + 1 - lo))
  | .zeroExt n, [.bv x w] => do let r ← zeroExt n w x; pure (.bv r (w + n))
  | .signExt n, [.bv x w] => do let r ← signExt n w x; pure (.bv r (w + n))
  | .reverse, [.bv x w] => do let r ← reverse w x; pure (.bv r w)
  | .ite, [.bool c, t, f] => .ok (if c then t else f)
  | .and, _ => boolAll vs
  | .or, _ => boolAny vs
  | .not, [.bool b] => .ok (.bool (!b))
  | _, _ => .error (.crash "unsupported")

/-- fold a node whose arguments are all leaf constants; `none` when some argument is not a constant leaf -/
def fold (op : Op) (args : List Expr) : Option (Except Err Expr) :=
  match args.mapM Expr.toCVal? with
  | none => none
  | some vs => some ((foldOp op vs).map CVal.toExpr)

end Claripy.AST
