import Claripy.AST.Expr
/-!
Bit-level normal form of the *bit-rearranging* operations (`Concat`, `Extract`, `ZeroExt`, `SignExt` over literals and
arbitrary other terms): every bit of the result is a literal bit or a named bit `t[i]` of a term `t` the normal form
does not look into.  Two expressions with the same list of bits (and whose terms are among the terms of the first) have
the same value — this decides the rewrites of `extract_simplifier`, `concat_simplifier`, `zeroext_simplifier`, … that only
move bits around (extract of concat, extract of extract, concat of adjacent extracts, extract of an extension, …).

`bitsEquiv lhs rhs` is the executable certificate check; `ClaripyProofs/Lemmas/AST/BitsSound.lean` proves it sound for every
width and assignment.
-/
namespace Claripy.AST

inductive Bit where
  | c (b : Bool)
  | of (t : Expr) (i : Nat) (neg : Bool)      -- bit `i` of `t`, complemented if `neg`

def Bit.beq : Bit → Bit → Bool
  | .c a, .c b => a == b
  | .of t i ng, .of u j ng' => t == u && i == j && ng == ng'
  | _, _ => false

instance : BEq Bit := ⟨Bit.beq⟩

def Bit.not : Bit → Bit
  | .c b => .c (!b)
  | .of t i ng => .of t i (!ng)

/-- bitwise operations are followed only where one side is a literal bit -/
def Bit.and? : Bit → Bit → Option Bit
  | .c false, _ => some (.c false)
  | .c true, x => some x
  | _, .c false => some (.c false)
  | x, .c true => some x
  | _, _ => none

def Bit.or? : Bit → Bit → Option Bit
  | .c true, _ => some (.c true)
  | .c false, x => some x
  | _, .c true => some (.c true)
  | x, .c false => some x
  | _, _ => none

def Bit.xor? : Bit → Bit → Option Bit
  | .c false, x => some x
  | .c true, x => some x.not
  | x, .c false => some x
  | x, .c true => some x.not
  | _, _ => none

def zipBits (f : Bit → Bit → Option Bit) : List Bit → List Bit → Option (List Bit)
  | [], [] => some []
  | a :: as, b :: bs =>
    match f a b, zipBits f as bs with
    | some r, some rs => some (r :: rs)
    | _, _ => none
  | _, _ => none

/-- n-ary bitwise node: fold over the operands' bits -/
def foldBits (f : Bit → Bit → Option Bit) : List (Option (List Bit)) → Option (List Bit) → Option (List Bit)
  | [], acc => acc
  | some b :: rest, some acc => foldBits f rest (zipBits f acc b)
  | _, _ => none

/-- all bits of a term the normal form does not look into (`none` if it reports no positive width) -/
def opaqueBits (e : Expr) : Option (List Bit) :=
  match e.width with
  | some w => if 0 < w then some ((List.range w).map fun i => Bit.of e i false) else none
  | none => none

/-- `Concat(a, b, …)`: the first operand is the most significant; bits are listed least significant first -/
def concatBits : List (Option (List Bit)) → Option (List Bit)
  | [] => some []
  | some b :: rest => (concatBits rest).map (· ++ b)
  | none :: _ => none

/-- byte reversal of a bit list (least significant bit first) whose length is a multiple of 8 -/
def revBytes (b : List Bit) : List Bit :=
  (List.range b.length).map fun i => b.getD (8 * (b.length / 8 - 1 - i / 8) + i % 8) (Bit.c false)

/-- the shift amount of a shift node, if it is a literal -/
def shiftAmt : Expr → Option (Nat × Nat)
  | .app _ [_, .bvv v w] => some (v % 2 ^ w, w)
  | _ => none

/-- bits of a node from the bits of its operands (`none`: the node is not looked into) -/
def bitsOf (op : Op) (self : Expr) (obs : List (Option (List Bit))) : Option (List Bit) :=
  match op, obs with
  | .concat, _ :: _ => concatBits obs
  | .extract hi lo, [some b] => if lo ≤ hi ∧ hi < b.length then some ((b.drop lo).take (hi - lo + 1)) else none
  | .zeroExt n, [some b] => some (b ++ List.replicate n (Bit.c false))
  | .signExt n, [some b] =>
    match b.getLast? with
    | some m => some (b ++ List.replicate n m)
    | none => none
  | .bnot, [some b] => some (b.map Bit.not)
  | .reverse, [some b] => if b.length % 8 = 0 then some (revBytes b) else none
  | .band, some b0 :: r :: rest => foldBits Bit.and? (r :: rest) (some b0)
  | .bor, some b0 :: r :: rest => foldBits Bit.or? (r :: rest) (some b0)
  | .bxor, some b0 :: r :: rest => foldBits Bit.xor? (r :: rest) (some b0)
  | .lshr, [some a, some _] =>
    match shiftAmt self with
    | some (k, ws) => if ws = a.length then some (a.drop k ++ List.replicate (min k a.length) (Bit.c false)) else none
    | none => none
  | .ashr, [some a, some _] =>
    match shiftAmt self, a.getLast? with
    | some (k, ws), some m => if ws = a.length then some (a.drop k ++ List.replicate (min k a.length) m) else none
    | _, _ => none
  | .shl, [some a, some _] =>
    match shiftAmt self with
    | some (k, ws) =>
      if ws = a.length then some (List.replicate (min k a.length) (Bit.c false) ++ a.take (a.length - k)) else none
    | none => none
  | _, _ => none

/-- normal form of a node from the normal forms of its operands: (bits, terms treated as opaque) -/
def normApp (op : Op) (self : Expr) (subs : List (Option (List Bit) × List Expr)) : Option (List Bit) × List Expr :=
  match bitsOf op self (subs.map (·.1)) with
  | some r => (some r, subs.flatMap (·.2))
  | none => (opaqueBits self, [self])

mutual
def norm : Expr → Option (List Bit) × List Expr
  | .bvv v w => (if 0 < w then some ((List.range w).map fun i => Bit.c (v.testBit i)) else none, [])
  | .bvs n w => (opaqueBits (.bvs n w), [.bvs n w])
  | .boolv b => (none, [.boolv b])
  | .bools n => (none, [.bools n])
  | .app op args => normApp op (.app op args) (normList args)
def normList : List Expr → List (Option (List Bit) × List Expr)
  | [] => []
  | e :: es => norm e :: normList es
end

def bits (e : Expr) : Option (List Bit) := (norm e).1
/-- the terms the normal form of an expression treats as opaque -/
def opq (e : Expr) : List Expr := (norm e).2

/-- is `lhs ⇒ rhs` a rewrite that only rearranges bits? -/
def bitsEquiv (lhs rhs : Expr) : Bool :=
  match bits lhs, bits rhs with
  | some a, some b => a == b && (opq rhs).all fun t => (opq lhs).elem t
  | _, _ => false

end Claripy.AST
