import Claripy.AST.Expr
/-!
Bit-level normal form of the *bit-rearranging* operations (`Concat`, `Extract`, `ZeroExt`, `SignExt` over literals and
arbitrary other terms): every bit of the result is a literal bit or a named bit `t[i]` of a term `t` the normal form
does not look into.  Two expressions with the same list of bits (and whose terms are among the terms of the first) have
the same value — this decides the rewrites of `extract_simplifier`, `concat_simplifier`, `zeroext_simplifier`, … that only
move bits around (extract of concat, extract of extract, concat of adjacent extracts, extract of an extension, …).

`bitsEquiv lhs rhs` is the executable certificate check; `ClaripyProofs/Lemmas/AST/BitsSound.lean` proves it sound for every
width and assignment.
-/
namespace Claripy.AST

inductive Bit where
  | c (b : Bool)
  | of (t : Expr) (i : Nat) (neg : Bool)      -- bit `i` of `t`, complemented if `neg`

def Bit.beq : Bit → Bit → Bool
  | .c a, .c b => a == b
  | .of t i ng, .of u j ng' => t == u && i == j && ng == ng'
  | _, _ => false

instance : BEq Bit := ⟨Bit.beq⟩

def Bit.not : Bit → Bit
  | .c b => .c (!b)
  | .of t i ng => .of t i (!ng)

/-- bitwise operations are followed only where one side is a literal bit -/
def Bit.and? : Bit → Bit → Option Bit
  | .c false, _ => some (.c false)
  | .c true, x => some x
  | _, .c false => some (.c false)
  | x, .c true => some x
  | _, _ => none

def Bit.or? : Bit → Bit → Option Bit
  | .c true, _ => some (.c true)
  | .c false, x => some x
  | _, .c true => some (.c true)
  | x, .c false => some x
  | _, _ => none

def Bit.xor? : Bit → Bit → Option Bit
  | .c false, x => some x
  | .c true, x => some x.not
  | x, .c false => some x
  | x, .c true => some x.not
  | _, _ => none

def zipBits (f : Bit → Bit → Option Bit) : List Bit → List Bit → Option (List Bit)
  | [], [] => some []
  | a :: as, b :: bs =>
    match f a b, zipBits f as bs with
    | some r, some rs => some (r :: rs)
    | _, _ => none
  | _, _ => none

/-- n-ary bitwise node: fold over the operands' bits -/
def foldBits (f : Bit → Bit → Option Bit) : List (Option (List Bit)) → Option (List Bit) → Option (List Bit)
  | [], acc => acc
  | some b :: rest, some acc => foldBits f rest (zipBits f acc b)
  | _, _ => none

/-- all bits of a term the normal form does not look into (`none` if it reports no positive width) -/
def opaqueBits (e : Expr) : Option (List Bit) :=
  match e.width with
  | some w => if 0 < w then some ((List.range w).map fun i => Bit.of e i false) else none
  | none => none

/-- `Concat(a, b, …)`: the first operand is the most significant; bits are listed least significant first -/
def concatBits : List (Option (List Bit)) → Option (List Bit)
  | [] => some []
  | some b :: rest => (concatBits rest).map (· ++ b)
  | none :: _ => none

/-- byte reversal of a bit list (least significant bit first) whose length is a multiple of 8 -/
def revBytes (b : List Bit) : List Bit :=
  (List.range b.length).map fun i => b.getD (8 * (b.length / 8 - 1 - i / 8) + i % 8) (Bit.c false)

/-- the shift amount of a shift node, if it is a literal -/
def shiftAmt : Expr → Option (Nat × Nat)
  | .app _ [_, .bvv v w] => some (v % 2 ^ w, w)
  | _ => none

/-- bits of a node from the bits of its operands (`none`: the node is not looked into) -/
def bitsOf (op : Op) (self : Expr) (obs : List (Option (List Bit))) : Option (List Bit) :=
  match op, obs with
  | .concat, _ :: _ => concatBits obs
  | .extract hi lo, [some b] => if lo ≤ hi ∧ hi < b.length then some ((b.drop lo).take (hi - lo + 1)) else none
  | .zeroExt n, [some b] => some (b ++ List.replicate n (Bit.c false))
  | .signExt n, [some b] =>
    match b.getLast? with
    | some m => some (b ++ List.replicate n m)
    | none => none
  | .bnot, [some b] => some (b.map Bit.not)
  | .reverse, [some b] => if b.length % 8 = 0 then some (revBytes b) else none
  | .band, some b0 :: r :: rest => foldBits Bit.and? (r :: rest) (some b0)
  | .bor, some b0 :: r :: rest => foldBits Bit.or? (r :: rest) (some b0)
  | .bxor, some b0 :: r :: rest => foldBits Bit.xor? (r :: rest) (some b0)
  | .lshr, [some a, some _] =>
    match shiftAmt self with
    | some (k, ws) => if ws = a.length then some (a.drop k ++ List.replicate (min k a.length) (Bit.c false)) else none
    | none => none
  | .ashr, [some a, some _] =>
    match shiftAmt self, a.getLast? with
    | some (k, ws), some m => if ws = a.length then some (a.drop k ++ List.replicate (min k a.length) m) else none
    | _, _ => none
  | .shl, [some a, some _] =>
    match shiftAmt self with
    | some (k, ws) =>
      if ws = a.length then some (List.replicate (min k a.length) (Bit.c false) ++ a.take (a.length - k)) else none
    | none => none
  | _, _ => none

/-- normal form of a node from the normal forms of its operands: (bits, terms treated as opaque) -/
def normApp (op : Op) (self : Expr) (subs : List (Option (List Bit) × List Expr)) : Option (List Bit) × List Expr :=
  match bitsOf op self (subs.map (·.1)) with
  | some r => (some r, subs.flatMap (·.2))
  | none => (opaqueBits self, [self])

mutual
def norm : Expr → Option (List Bit) × List Expr
  | .bvv v w => (if 0 < w then some ((List.range w).map fun i => Bit.c (v.testBit i)) else none, [])
  | .bvs n w => (opaqueBits (.bvs n w), [.bvs n w])
  | .boolv b => (none, [.boolv b])
  | .bools n => (none, [.bools n])
  | .app op args => normApp op (.app op args) (normList args)
def normList : List Expr → List (Option (List Bit) × List Expr)
  | [] => []
  | e :: es => norm e :: normList es
end

def bits (e : Expr) : Option (List Bit) := (norm e).1
/-- the terms the normal form of an expression treats as opaque -/
def opq (e : Expr) : List Expr := (norm e).2

/-- is `lhs ⇒ rhs` a rewrite that only rearranges bits? -/
def bitsEquiv (lhs rhs : Expr) : Bool :=
  match bits lhs, bits rhs with
  | some a, some b => a == b && (opq rhs).all fun t => (opq lhs).elem t
  | _, _ => false

/-! ### equalities, bit by bit

`a == b` on bit-vectors is the conjunction of the per-bit equalities.  A pair of literal bits is trivially true or
refutes the whole equality; a pair of equal named bits is trivially true, of complementary named bits refutes it; what
remains are atoms `t[i] = rhs`.  Two (dis)equalities with the same set of atoms (and the same polarity) have the same
value: this decides the comparison simplifiers that strip masks, zero extensions and literal bit mismatches
(`(x & 1) == 1 ⇒ x[0:0] == 1`, `ZeroExt(2, x) != c ⇒ x != c'`, `Concat(0, x) == c ⇒ false` …). -/
structure EqAtom where
  t : Expr
  i : Nat
  rhs : Bit

instance : BEq EqAtom := ⟨fun a b => a.t == b.t && a.i == b.i && a.rhs == b.rhs⟩

inductive PairNF where
  | triv
  | absurd
  | atom (a : EqAtom)

def normPair : Bit → Bit → PairNF
  | .c a, .c b => if a == b then .triv else .absurd
  | .of t i ng, .c b => .atom ⟨t, i, .c (b ^^ ng)⟩
  | .c b, .of t i ng => .atom ⟨t, i, .c (b ^^ ng)⟩
  | .of t i ng, .of u j ng' =>
    if t == u && i == j then (if ng == ng' then .triv else .absurd) else .atom ⟨t, i, .of u j (ng ^^ ng')⟩

def zipPairs : List Bit → List Bit → Option (List PairNF)
  | [], [] => some []
  | a :: as, b :: bs => (zipPairs as bs).map (normPair a b :: ·)
  | _, _ => none

def PairNF.isAbsurd : PairNF → Bool
  | .absurd => true
  | _ => false

def atomsOf : List PairNF → List EqAtom
  | [] => []
  | .atom a :: ps => a :: atomsOf ps
  | _ :: ps => atomsOf ps

def dedupeAtoms : List EqAtom → List EqAtom
  | [] => []
  | a :: l => let r := dedupeAtoms l; if r.elem a then r else a :: r

/-- `neg ⊕ (all atoms hold)`, or a constant -/
inductive BoolNF where
  | const (b : Bool)
  | conj (neg : Bool) (atoms : List EqAtom)

def BoolNF.negate : BoolNF → BoolNF
  | .const b => .const (!b)
  | .conj n as => .conj (!n) as

/-- canonical polarity: no atoms is a constant; a negated single literal atom is the atom with the other literal -/
def BoolNF.canon : BoolNF → BoolNF
  | .conj n [] => .const (!n)
  | .conj true [⟨t, i, .c v⟩] => .conj false [⟨t, i, .c (!v)⟩]
  | x => x

def eqNF (a b : List Bit) : Option BoolNF :=
  (zipPairs a b).map fun ps => if ps.any PairNF.isAbsurd then .const false else .conj false (dedupeAtoms (atomsOf ps))

/-- normal form and opaque terms of a (dis)equality of bit-vectors, possibly under `Not` -/
def boolNF : Expr → Option (BoolNF × List Expr)
  | .boolv b => some (.const b, [])
  | .app .eq [a, b] =>
    match bits a, bits b with
    | some ba, some bb => (eqNF ba bb).map fun nf => (nf, opq a ++ opq b)
    | _, _ => none
  | .app .ne [a, b] =>
    match bits a, bits b with
    | some ba, some bb => (eqNF ba bb).map fun nf => (nf.negate, opq a ++ opq b)
    | _, _ => none
  | _ => none

def BoolNF.same : BoolNF → BoolNF → Bool
  | .const a, .const b => a == b
  | .conj n as, .conj m bs => n == m && as.isPerm bs
  | _, _ => false

/-- is `lhs ⇒ rhs` a rewrite of a bit-vector (dis)equality into one with the same per-bit atoms? -/
def cmpEquiv (lhs rhs : Expr) : Bool :=
  match boolNF lhs, boolNF rhs with
  | some (x, tl), some (y, tr) => x.canon.same y.canon && tr.all fun t => tl.elem t
  | _, _ => false

end Claripy.AST
