import Claripy.AST.Expr
/-!
Bit-level normal form of the *bit-rearranging* operations (`Concat`, `Extract`, `ZeroExt`, `SignExt`, `Reverse`, `Not`, shifts
by literals, `And`/`Or`/`Xor`, `If`, over literals and arbitrary other terms).  Every bit of the result is
  * a literal bit,
  * a (possibly complemented) named bit `t[i]` of a term `t` the normal form does not look into,
  * a (possibly complemented) bitwise operation on two such bits — a literal operand simplifies, which is what makes masks
    work; two symbolic operands are kept in the order of the node,
  * `if c then a else b` for a Boolean term `c` the form does not look into (equal branches need no condition; two different
    literal branches are the condition itself as a bit).
Two expressions with the same list of bits (and whose opaque terms are among those of the first) have the same value — this
decides the rewrites of `extract_simplifier`, `concat_simplifier`, `zeroext_simplifier`, … that move bits around (extract of
concat, extract of extract, concat of adjacent extracts, extract of an extension, …), also when the same step distributes
the `Extract` over a bitwise operation or an `If`.

`bitsEquiv lhs rhs` is the executable certificate check; `ClaripyProofs/Lemmas/AST/BitsSound.lean` proves it sound for every
width and assignment.
-/
namespace Claripy.AST

/-- a bitwise operation on two bits -/
inductive BitK where
  | and | or | xor
  deriving DecidableEq, Repr

def BitK.g : BitK → Bool → Bool → Bool
  | .and, x, y => x && y
  | .or, x, y => x || y
  | .xor, x, y => x ^^ y

inductive Bit where
  | c (b : Bool)
  | of (t : Expr) (i : Nat) (neg : Bool)      -- bit `i` of `t`, complemented if `neg`
  | p (t : Expr) (neg : Bool)                 -- the Boolean term `t` as a bit, complemented if `neg`
  | bin (k : BitK) (a b : Bit) (neg : Bool)   -- `a k b`, complemented if `neg`
  | mux (c : Expr) (a b : Bit) (neg : Bool)   -- `if c then a else b`, complemented if `neg`

def Bit.beq : Bit → Bit → Bool
  | .c a, .c b => a == b
  | .of t i ng, .of u j ng' => t == u && i == j && ng == ng'
  | .p t ng, .p u ng' => t == u && ng == ng'
  | .bin k a b ng, .bin k' a' b' ng' => decide (k = k') && Bit.beq a a' && Bit.beq b b' && ng == ng'
  | .mux e a b ng, .mux e' a' b' ng' => e == e' && Bit.beq a a' && Bit.beq b b' && ng == ng'
  | _, _ => false

instance : BEq Bit := ⟨Bit.beq⟩

def Bit.not : Bit → Bit
  | .c b => .c (!b)
  | .of t i ng => .of t i (!ng)
  | .p t ng => .p t (!ng)
  | .bin k a b ng => .bin k a b (!ng)
  | .mux e a b ng => .mux e a b (!ng)

/-- a bit without its outermost complement, and that complement (a literal is the complement of `0` or `0` itself) -/
def Bit.strip : Bit → Bit × Bool
  | .c b => (.c false, b)
  | .of t i ng => (.of t i false, ng)
  | .p t ng => (.p t false, ng)
  | .bin k a b ng => (.bin k a b false, ng)
  | .mux e a b ng => (.mux e a b false, ng)

/-- a bitwise operation on two symbolic bits: the same bit twice (up to the outermost complement) simplifies (`a ^ a = 0`,
`a & a = a`, `a & ~a = 0`, …); otherwise the operation is kept as written, operands in the order of the node (claripy keeps
the operand order when it distributes `Extract`) -/
def Bit.mk (k : BitK) (x y : Bit) : Bit :=
  if x.strip.1 == y.strip.1 then
    match k with
    | .xor => .c (x.strip.2 ^^ y.strip.2)
    | .and => if x.strip.2 == y.strip.2 then x else .c false
    | .or => if x.strip.2 == y.strip.2 then x else .c true
  else .bin k x y false

/-- bitwise operations: a literal bit simplifies (this is what makes masks work) -/
def Bit.and : Bit → Bit → Bit
  | .c false, _ => .c false
  | .c true, x => x
  | _, .c false => .c false
  | x, .c true => x
  | x, y => .mk .and x y

def Bit.or : Bit → Bit → Bit
  | .c true, _ => .c true
  | .c false, x => x
  | _, .c true => .c true
  | x, .c false => x
  | x, y => .mk .or x y

def Bit.xor : Bit → Bit → Bit
  | .c false, x => x
  | .c true, x => x.not
  | x, .c false => x
  | x, .c true => x.not
  | x, y => .mk .xor x y

/-- `if c then a else b` on bits: equal branches need no condition; two different literals are the condition itself -/
def Bit.ite (e : Expr) (a b : Bit) : Bit :=
  if a == b then a else
  match a, b with
  | .c true, .c false => .p e false
  | .c false, .c true => .p e true
  | _, _ => .mux e a b false

def zipBits (f : Bit → Bit → Bit) : List Bit → List Bit → Option (List Bit)
  | [], [] => some []
  | a :: as, b :: bs => (zipBits f as bs).map (f a b :: ·)
  | _, _ => none

/-- n-ary bitwise node: fold over the operands' bits -/
def foldBits (f : Bit → Bit → Bit) : List (Option (List Bit)) → Option (List Bit) → Option (List Bit)
  | [], acc => acc
  | some b :: rest, some acc => foldBits f rest (zipBits f acc b)
  | _, _ => none

/-- all bits of a term the normal form does not look into (`none` if it reports no positive width) -/
def opaqueBits (e : Expr) : Option (List Bit) :=
  match e.width with
  | some w => if 0 < w then some ((List.range w).map fun i => Bit.of e i false) else none
  | none => none

/-- `Concat(a, b, …)`: the first operand is the most significant; bits are listed least significant first -/
def concatBits : List (Option (List Bit)) → Option (List Bit)
  | [] => some []
  | some b :: rest => (concatBits rest).map (· ++ b)
  | none :: _ => none

/-- byte reversal of a bit list (least significant bit first) whose length is a multiple of 8 -/
def revBytes (b : List Bit) : List Bit :=
  (List.range b.length).map fun i => b.getD (8 * (b.length / 8 - 1 - i / 8) + i % 8) (Bit.c false)

/-- the shift amount of a shift node, if it is a literal -/
def shiftAmt : Expr → Option (Nat × Nat)
  | .app _ [_, .bvv v w] => some (v % 2 ^ w, w)
  | _ => none

/-- the condition of an `If` node -/
def iteCond : Expr → Option Expr
  | .app .ite [c, _, _] => some c
  | _ => none

/-- what an `If` node adds to the opaque terms: its condition, and the term a negated condition negates -/
def condTerms (self : Expr) : List Expr :=
  match iteCond self with
  | some (.app .not [c]) => [.app .not [c], c]
  | some e => [e]
  | none => []

/-- bits of a node from the bits of its operands (`none`: the node is not looked into) -/
def bitsOf (op : Op) (self : Expr) (obs : List (Option (List Bit))) : Option (List Bit) :=
  match op, obs with
  | .concat, _ :: _ => concatBits obs
  | .extract hi lo, [some b] => if lo ≤ hi ∧ hi < b.length then some ((b.drop lo).take (hi - lo + 1)) else none
  | .zeroExt n, [some b] => some (b ++ List.replicate n (Bit.c false))
  | .signExt n, [some b] =>
    match b.getLast? with
    | some m => some (b ++ List.replicate n m)
    | none => none
  | .bnot, [some b] => some (b.map Bit.not)
  | .reverse, [some b] => if b.length % 8 = 0 then some (revBytes b) else none
  | .band, some b0 :: r :: rest => foldBits Bit.and (r :: rest) (some b0)
  | .bor, some b0 :: r :: rest => foldBits Bit.or (r :: rest) (some b0)
  | .bxor, some b0 :: r :: rest => foldBits Bit.xor (r :: rest) (some b0)
  | .ite, [_, some a, some b] =>
    match iteCond self with
    | some (.app .not [c]) => if c.width.isNone then zipBits (Bit.ite c) b a else none   -- `If(Not(c), a, b)` is `If(c, b, a)`
    | some c => if c.width.isNone then zipBits (Bit.ite c) a b else none
    | none => none
  | .lshr, [some a, some _] =>
    match shiftAmt self with
    | some (k, ws) => if ws = a.length then some (a.drop k ++ List.replicate (min k a.length) (Bit.c false)) else none
    | none => none
  | .ashr, [some a, some _] =>
    match shiftAmt self, a.getLast? with
    | some (k, ws), some m => if ws = a.length then some (a.drop k ++ List.replicate (min k a.length) m) else none
    | _, _ => none
  | .shl, [some a, some _] =>
    match shiftAmt self with
    | some (k, ws) =>
      if ws = a.length then some (List.replicate (min k a.length) (Bit.c false) ++ a.take (a.length - k)) else none
    | none => none
  | _, _ => none

/-- normal form of a node from the normal forms of its operands: (bits, terms treated as opaque) -/
def normApp (op : Op) (self : Expr) (subs : List (Option (List Bit) × List Expr)) : Option (List Bit) × List Expr :=
  match bitsOf op self (subs.map (·.1)) with
  | some r => ((some r), condTerms self ++ subs.flatMap (·.2))
  | none => (opaqueBits self, [self])

mutual
def norm : Expr → Option (List Bit) × List Expr
  | .bvv v w => (if 0 < w then some ((List.range w).map fun i => Bit.c (v.testBit i)) else none, [])
  | .bvs n w => (opaqueBits (.bvs n w), [.bvs n w])
  | .boolv b => (none, [.boolv b])
  | .bools n => (none, [.bools n])
  | .app op args => normApp op (.app op args) (normList args)
def normList : List Expr → List (Option (List Bit) × List Expr)
  | [] => []
  | e :: es => norm e :: normList es
end

def bits (e : Expr) : Option (List Bit) := (norm e).1
/-- the terms the normal form of an expression treats as opaque -/
def opq (e : Expr) : List Expr := (norm e).2

/-- is `lhs ⇒ rhs` a rewrite that only rearranges bits? -/
def bitsEquiv (lhs rhs : Expr) : Bool :=
  match bits lhs, bits rhs with
  | some a, some b => a == b && (opq rhs).all fun t => (opq lhs).elem t
  | _, _ => false

/-! ### equalities, bit by bit

`a == b` on bit-vectors is the conjunction of the per-bit equalities.  A pair of literal bits is trivially true or
refutes the whole equality; a pair of syntactically equal bits (up to the outermost complement) is trivially true, of
complementary ones refutes it; what remains are atoms `lhs = rhs` on bits.  Two (dis)equalities with the same set of atoms
(and the same polarity) have the same value: this decides the comparison simplifiers that strip masks, zero extensions and
literal bit mismatches (`(x & 1) == 1 ⇒ x[0:0] == 1`, `ZeroExt(2, x) != c ⇒ x != c'`, `Concat(0, x) == c ⇒ false`,
`((x | y) & 1) != 0 ⇒ (x[0:0] | y[0:0]) != 0`, `Concat(0, If(c, 0, 3)) != 3 ⇒ c` …). -/
structure EqAtom where
  lhs : Bit
  rhs : Bit

instance : BEq EqAtom := ⟨fun a b => a.lhs == b.lhs && a.rhs == b.rhs⟩

inductive PairNF where
  | triv
  | absurd
  | atom (a : EqAtom)

def Bit.xorNeg (x : Bit) (n : Bool) : Bit := if n then x.not else x

/-- `x = y` on two bits: the complements are moved to the right-hand side; syntactically equal bits are trivially equal or
refute the equality; a literal goes to the right -/
def normPair (x y : Bit) : PairNF :=
  let (x', nx) := x.strip
  let (y', ny) := y.strip
  if x' == y' then (if nx == ny then .triv else .absurd)
  else match x' with
    | .c b0 => .atom ⟨y', .c (b0 ^^ nx ^^ ny)⟩
    | _ => .atom ⟨x', y'.xorNeg (nx ^^ ny)⟩

def zipPairs : List Bit → List Bit → Option (List PairNF)
  | [], [] => some []
  | a :: as, b :: bs => (zipPairs as bs).map (normPair a b :: ·)
  | _, _ => none

def PairNF.isAbsurd : PairNF → Bool
  | .absurd => true
  | _ => false

def atomsOf : List PairNF → List EqAtom
  | [] => []
  | .atom a :: ps => a :: atomsOf ps
  | _ :: ps => atomsOf ps

def dedupeAtoms : List EqAtom → List EqAtom
  | [] => []
  | a :: l => let r := dedupeAtoms l; if r.elem a then r else a :: r

/-- `neg ⊕ (all atoms hold)`, or a constant -/
inductive BoolNF where
  | const (b : Bool)
  | conj (neg : Bool) (atoms : List EqAtom)

def BoolNF.negate : BoolNF → BoolNF
  | .const b => .const (!b)
  | .conj n as => .conj (!n) as

/-- canonical polarity: no atoms is a constant; a negated single atom against a literal is the atom with the other literal -/
def BoolNF.canon : BoolNF → BoolNF
  | .conj n [] => .const (!n)
  | .conj true [⟨l, .c v⟩] => .conj false [⟨l, .c (!v)⟩]
  | x => x

def eqNF (a b : List Bit) : Option BoolNF :=
  (zipPairs a b).map fun ps => if ps.any PairNF.isAbsurd then .const false else .conj false (dedupeAtoms (atomsOf ps))

/-- normal form and opaque terms of a (dis)equality of bit-vectors, possibly under `Not` -/
def boolNF : Expr → Option (BoolNF × List Expr)
  | .boolv b => some (.const b, [])
  | .app .eq [a, b] =>
    match bits a, bits b with
    | some ba, some bb => (eqNF ba bb).map fun nf => (nf, opq a ++ opq b)
    | _, _ => none
  | .app .ne [a, b] =>
    match bits a, bits b with
    | some ba, some bb => (eqNF ba bb).map fun nf => (nf.negate, opq a ++ opq b)
    | _, _ => none
  | _ => none

def BoolNF.same : BoolNF → BoolNF → Bool
  | .const a, .const b => a == b
  | .conj n as, .conj m bs => n == m && as.isPerm bs
  | _, _ => false

/-- the right-hand side of a comparison rewrite may also be a bare Boolean term `c` (or `Not(c)`): the atom `c = 1` (`c = 0`).
This is what a comparison of an `If` between two literals with one of them collapses to. -/
def boolNFr (e : Expr) : Option (BoolNF × List Expr) :=
  match boolNF e with
  | some r => some r
  | none =>
    match e with
    | .app .not [c] => if c.width.isNone then some (.conj false [⟨.p c false, .c false⟩], [c]) else none
    | c => if c.width.isNone then some (.conj false [⟨.p c false, .c true⟩], [c]) else none

/-- is `lhs ⇒ rhs` a rewrite of a bit-vector (dis)equality into one with the same per-bit atoms? -/
def cmpEquiv (lhs rhs : Expr) : Bool :=
  match boolNF lhs, boolNFr rhs with
  | some (x, tl), some (y, tr) => x.canon.same y.canon && tr.all fun t => tl.elem t
  | _, _ => false

end Claripy.AST
