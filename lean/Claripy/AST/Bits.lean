import Claripy.AST.Expr
/-!
Bit-level normal form of the *bit-rearranging* operations (`Concat`, `Extract`, `ZeroExt`, `SignExt` over literals and
arbitrary other terms): every bit of the result is a literal bit or a named bit `t[i]` of a term `t` the normal form
does not look into.  Two expressions with the same list of bits (and whose terms are among the terms of the first) have
the same value — this decides the rewrites of `extract_simplifier`, `concat_simplifier`, `zeroext_simplifier`, … that only
move bits around (extract of concat, extract of extract, concat of adjacent extracts, extract of an extension, …).

`bitsEquiv lhs rhs` is the executable certificate check; `ClaripyProofs/Lemmas/AST/BitsSound.lean` proves it sound for every
width and assignment.
-/
namespace Claripy.AST

inductive Bit where
  | c (b : Bool)
  | of (t : Expr) (i : Nat)

def Bit.beq : Bit → Bit → Bool
  | .c a, .c b => a == b
  | .of t i, .of u j => t == u && i == j
  | _, _ => false

instance : BEq Bit := ⟨Bit.beq⟩

/-- all bits of a term the normal form does not look into (`none` if it reports no positive width) -/
def opaqueBits (e : Expr) : Option (List Bit) :=
  match e.width with
  | some w => if 0 < w then some ((List.range w).map fun i => Bit.of e i) else none
  | none => none

/-- `Concat(a, b, …)`: the first operand is the most significant; bits are listed least significant first -/
def concatBits : List (Option (List Bit)) → Option (List Bit)
  | [] => some []
  | some b :: rest => (concatBits rest).map (· ++ b)
  | none :: _ => none

/-- normal form of a node from the normal forms of its operands: (bits, terms treated as opaque) -/
def normApp (op : Op) (self : Expr) (subs : List (Option (List Bit) × List Expr)) : Option (List Bit) × List Expr :=
  match op, subs with
  | .concat, _ :: _ =>
    match concatBits (subs.map (·.1)) with
    | some r => (some r, subs.flatMap (·.2))
    | none => (opaqueBits self, [self])
  | .extract hi lo, [(some b, ts)] => (if lo ≤ hi ∧ hi < b.length then some ((b.drop lo).take (hi - lo + 1)) else none, ts)
  | .zeroExt n, [(some b, ts)] => (some (b ++ List.replicate n (Bit.c false)), ts)
  | .signExt n, [(some b, ts)] =>
    (match b.getLast? with
     | some m => some (b ++ List.replicate n m)
     | none => none, ts)
  | _, _ => (opaqueBits self, [self])

mutual
def norm : Expr → Option (List Bit) × List Expr
  | .bvv v w => (if 0 < w then some ((List.range w).map fun i => Bit.c (v.testBit i)) else none, [])
  | .bvs n w => (opaqueBits (.bvs n w), [.bvs n w])
  | .boolv b => (none, [.boolv b])
  | .bools n => (none, [.bools n])
  | .app op args => normApp op (.app op args) (normList args)
def normList : List Expr → List (Option (List Bit) × List Expr)
  | [] => []
  | e :: es => norm e :: normList es
end

def bits (e : Expr) : Option (List Bit) := (norm e).1
/-- the terms the normal form of an expression treats as opaque -/
def opq (e : Expr) : List Expr := (norm e).2

/-- is `lhs ⇒ rhs` a rewrite that only rearranges bits? -/
def bitsEquiv (lhs rhs : Expr) : Bool :=
  match bits lhs, bits rhs with
  | some a, some b => a == b && (opq rhs).all fun t => (opq lhs).elem t
  | _, _ => false

end Claripy.AST
