import Claripy.Solver.Stack
import Claripy.Solver.Spec
import Claripy.Solver.Structure
import Claripy.Solver.Composite
import Std.Data.HashMap
/-! Line-protocol driver for the Solver family (see harness/lib/solverrec.py for the protocol).
One request per line, one answer per line.  Imports only core-Lean model files. -/
open Claripy.Solver

namespace DriverSolver

structure Uni where
  nvars : Nat := 0
  widths : Array Nat := #[]
  strides : Array Nat := #[]
  dflts : Array Nat := #[]
  mods : Array Nat := #[]
  D : Nat := 1
  /-- varVal[v][x] = bit set of the assignments in which variable v has value x -/
  varVal : Array (Array Nat) := #[]
  deriving Inhabited

/-- Speed only: assignments produced by `Uni.asg` carry their own index (+1) in the pseudo-variable `nvars`, so
that table look-ups need not recompute it; any other assignment (completed cached models) has 0 there. -/
def Uni.index (u : Uni) (a : Asg) : Nat :=
  let t := a u.nvars
  if t != 0 then t - 1 else Id.run do
    let mut i := 0
    for v in [0:u.nvars] do
      i := i + (a v % u.mods[v]!) * u.strides[v]!
    return i

def Uni.asg (u : Uni) (i : Nat) : Asg :=
  let vals : Array Nat := (Array.range u.nvars).map fun v => (i / u.strides[v]!) % u.mods[v]!
  fun v => if v < u.nvars then vals[v]! else if v == u.nvars then i + 1 else 0

def Uni.full (u : Uni) : Nat := 2 ^ u.D - 1

inductive Event where
  | check (a : Answer)
  | pick (ts : List (List Nat))
  | simp (ids : List Nat)
  | cheap (b : Bool)
  | truth (b : Bool)
  deriving Inhabited

structure DState where
  uni : Uni := {}
  cons : Std.HashMap Nat (Con × Nat) := {}
  exps : Std.HashMap Nat Exp := {}
  builds : Std.HashMap String Nat := {}
  /-- Z3 AST id ↦ truth table -/
  zmask : Std.HashMap Nat Nat := {}
  dom : List Asg := []
  falseId : Nat := 0
  cls : SolverClass := .Solver
  world : World := {}
  /-- reference: per frontend the ids of the constraints the USER added -/
  added : Array (List Nat) := #[[]]
  /-- the CompositeFrontend model (`newc` / `cop`): the composite with its world of children, the constraints its user added -/
  comp : CSt := {}
  cadded : List Nat := []
  deriving Inhabited

def hexVal (c : Char) : Nat :=
  if c.isDigit then c.toNat - 48 else if c.toNat ≥ 97 then c.toNat - 87 else c.toNat - 55

def parseHex (s : String) : Nat := s.toList.foldl (fun n c => n * 16 + hexVal c) 0

def parseList (s : String) : List Nat :=
  if s == "-" || s == "" then [] else (s.splitOn ",").filterMap (·.toNat?)

def parseIntD (s : String) : Int := (s.toInt?).getD 0

def joinNat (l : List Nat) : String := ",".intercalate (l.map toString)

def sortNat (l : List Nat) : List Nat := l.mergeSort (· ≤ ·)

def lexLe : List Nat → List Nat → Bool
  | [], _ => true
  | _ :: _, [] => false
  | a :: as, b :: bs => if a < b then true else if a > b then false else lexLe as bs

def sortTuples (l : List (List Nat)) : List (List Nat) := l.mergeSort lexLe

/-- mask of a semantic function over the whole domain -/
def maskOf (u : Uni) (f : Asg → Bool) : Nat := Id.run do
  let mut m := 0
  for i in [0:u.D] do
    if f (u.asg i) then m := m ||| (1 <<< i)
  return m

def maskOfDom (dom : List Asg) (f : Asg → Bool) : Nat :=
  (dom.foldl (fun (acc : Nat × Nat) a => (if f a then acc.1 ||| (1 <<< acc.2) else acc.1, acc.2 + 1)) (0, 0)).1

def conOfMask (u : Uni) (id : Nat) (vars : List Nat) (isFalse : Bool) (conc : Option Bool)
    (triv : Option (Var × Nat × Nat)) (mask : Nat) (zid : Nat) : Con :=
  { id := id, zid := zid, vars := vars, sem := fun a => mask.testBit (u.index a), isFalse := isFalse, conc := conc, triv := triv }

def buildKeyStr : BuildKey → String
  | .ule e m => s!"ule:{e.id}:{m}"
  | .uge e m => s!"uge:{e.id}:{m}"
  | .sle e m => s!"sle:{e.id}:{m}"
  | .sge e m => s!"sge:{e.id}:{m}"
  | .ne e v => s!"ne:{e.id}:{v}"
  | .orEq e vs => s!"oreq:{e.id}:{joinNat (sortNat vs)}"

def missingId : Nat := 999999

def mkEnv (d : DState) (events : Array Event) : Env :=
  { dflt := fun v => d.uni.dflts.getD v 0
    oracle := fun _ k => match events[k]? with | some (.check a) => a | _ => .unknown
    build := fun key =>
      match d.builds.get? (buildKeyStr key) with
      | some cid => (match d.cons.get? cid with
          | some (c, _) => c
          | none => { id := missingId, vars := key.exp.vars, sem := key.sem })
      | none => { id := missingId, vars := key.exp.vars, sem := key.sem }
    falseCon := match d.cons.get? d.falseId with
      | some (c, _) => c
      | none => { id := d.falseId, vars := [], sem := fun _ => false, isFalse := true, conc := some false }
    cheapFalse := fun _ _ k => match events[k]? with | some (.cheap b) => b | _ => false
    truth := fun _ _ k => match events[k]? with | some (.truth b) => b | _ => false
    simp := fun _ k => match events[k]? with
      | some (.simp ids) => ids.filterMap fun i => (d.cons.get? i).map (·.1)
      | _ => []
    pick := fun _ _ k => match events[k]? with | some (.pick ts) => ts | _ => [] }

def parseEvent (tok : String) : Option Event :=
  match tok.splitOn ":" with
  | ["C", "S", vals, keys] => some (.check (.sat (parseList vals) (parseList keys)))
  | ["C", "U", core] => some (.check (.unsat (parseList core)))
  | ["C", "K"] => some (.check .unknown)
  | ["P", ts] => some (.pick (if ts == "-" then [] else (ts.splitOn "|").map fun t => (t.splitOn ".").filterMap (·.toNat?)))
  | ["S", ids] => some (.simp (parseList ids))
  | ["F", b] => some (.cheap (b == "1"))
  | ["T", b] => some (.truth (b == "1"))
  | _ => none

/-! ### state dump -/

def showModel (m : PModel) : String := ",".intercalate (m.map fun kv => s!"{kv.1}:{kv.2}")

def showFe (fe : Frontend) (letter : String) : String :=
  let models := (fe.models.map showModel).mergeSort (· ≤ ·)
  let core := match fe.cachedCore with | none => "-" | some cs => "[" ++ joinNat (cs.map Con.id) ++ "]"
  let sat := match fe.cachedSat with | none => "N" | some true => "T" | some false => "F"
  s!"cons=[{joinNat (fe.constraints.map Con.id)}];wo=[{joinNat (sortNat fe.woAnnot)}];vars=[{joinNat (sortNat fe.variables)}];" ++
  s!"fin={if fe.finalized then 1 else 0};solver={letter};toadd=[{joinNat (fe.toAdd.map Con.id)}];hashes=[{joinNat (sortNat fe.hashes)}];" ++
  s!"simp={if fe.simplified then 1 else 0};sat={sat};core={core};models=[{"|".intercalate models}];" ++
  s!"evalx=[{joinNat (sortNat fe.evalExh)}];maxx=[{joinNat (sortNat fe.maxExh)}];minx=[{joinNat (sortNat fe.minExh)}];" ++
  s!"maxsx=[{joinNat (sortNat fe.maxSExh)}];minsx=[{joinNat (sortNat fe.minSExh)}]"

def showTag : ZTag → String
  | .con id => if id == 0 then "?" else toString id
  | _ => "?"

def letterOf (k : Nat) : String := String.singleton (Char.ofNat (65 + k % 26)) ++ (if k ≥ 26 then toString (k / 26) else "")

def showWorld (w : World) : String := Id.run do
  let mut order : List Nat := []
  let mut parts : List String := []
  let mut i := 0
  for fe in w.fes do
    let letter ← match fe.solver with
      | none => pure "-"
      | some r =>
        if !order.contains r then order := order ++ [r]
        pure (letterOf ((order.idxOf r)))
    parts := parts ++ [s!"fe{i}" ++ "{" ++ showFe fe letter ++ "}"]
    i := i + 1
  let mut k := 0
  for r in order do
    let o := w.objs.getD r {}
    parts := parts ++ [letterOf k ++ "{" ++ s!"scopes={o.frames.length - 1};asserts=[{",".intercalate (o.asserted.map fun c => showTag c.tag)}]" ++ "}"]
    k := k + 1
  return " ".intercalate parts

def showOut : Out → String
  | .unit => "unit"
  | .bool b => s!"b:{if b then 1 else 0}"
  | .vals vs => s!"v:[{joinNat (sortNat vs)}]"
  | .tuples ts => "t:[" ++ "|".intercalate ((sortTuples ts).map fun t => ".".intercalate (t.map toString)) ++ "]"
  | .int i => s!"i:{i}"
  | .cons ids => s!"c:[{joinNat ids}]"
  | .newSolver i => s!"new:{i}"
  | .err e => "err:" ++ (match e with
      | .unsat => "unsat" | .giveUp => "giveup" | .value => "value" | .notImpl => "notimpl" | .badChoice => "badchoice")

/-! ### validation of the recorded oracle answers against the MODEL's queries -/

def zconMask (d : DState) (c : ZCon) : Nat :=
  match c.tag with
  | .con id => if id != 0 then (match d.zmask.get? id with | some m => m | none => maskOfDom d.dom c.sem) else maskOfDom d.dom c.sem
  | _ => maskOfDom d.dom c.sem

def queryMask (d : DState) (q : Query) : Nat :=
  q.all.foldl (fun m c => m &&& zconMask d c) d.uni.full

def exactOn (d : DState) (q : Query) (a : Answer) : Bool :=
  let qm := queryMask d q
  match a with
  | .unknown => true
  | .unsat _ => qm == 0
  | .sat vals keys =>
    let agree := keys.foldl (fun m k => m &&& ((d.uni.varVal.getD k #[]).getD (vals.getD k 0 % 2 ^ d.uni.widths.getD k 0) 0)) d.uni.full
    qm.testBit (d.uni.index (asgOf vals)) && (agree &&& (d.uni.full ^^^ qm)) == 0

/-! ### request handlers -/

def clsOfString : String → Option SolverClass
  | "Solver" => some .Solver | "SolverCacheless" => some .SolverCacheless | "SolverStrings" => some .SolverStrings
  | "SolverCompositeChild" => some .SolverCompositeChild
  | _ => none

def lookupCons (d : DState) (s : String) : List Con :=
  (parseList s).filterMap fun i => (d.cons.get? i).map (·.1)

def lookupExp (d : DState) (s : String) : Exp := (s.toNat?.bind d.exps.get?).getD default

def parseOp (d : DState) : List String → Option Op
  | ["add", cs] => some (.add (lookupCons d cs))
  | ["satisfiable", ex] => some (.satisfiable (lookupCons d ex))
  | ["eval", e, n, ex] => some (.eval (lookupExp d e) (n.toNat?.getD 1) (lookupCons d ex))
  | ["batch_eval", es, n, ex] => some (.batchEval ((parseList es).filterMap d.exps.get?) (n.toNat?.getD 1) (lookupCons d ex))
  | ["min", e, sg, ex] => some (.min (lookupExp d e) (lookupCons d ex) (sg == "1"))
  | ["max", e, sg, ex] => some (.max (lookupExp d e) (lookupCons d ex) (sg == "1"))
  | ["solution", e, v, ex] => some (.solution (lookupExp d e) (v.toNat?.getD 0) (lookupCons d ex))
  | ["is_true", c, ex] => (c.toNat?.bind d.cons.get?).map fun c => .isTrue c.1 (lookupCons d ex)
  | ["is_false", c, ex] => (c.toNat?.bind d.cons.get?).map fun c => .isFalse c.1 (lookupCons d ex)
  | ["unsat_core", ex] => some (.unsatCore (lookupCons d ex))
  | ["simplify"] => some .simplify
  | ["downsize"] => some .downsize
  | ["pickle"] => some .pickle
  | ["branch"] => some .branch
  | _ => none

def handleUni (d : DState) (args : List String) : DState × String :=
  -- uni <w0,w1,..> <d0,d1,..>
  match args with
  | [ws, ds] =>
    let widths := (parseList ws).toArray
    let dflts := (parseList ds).toArray
    let (strides, D) := widths.foldl (fun (acc : Array Nat × Nat) w => (acc.1.push acc.2, acc.2 * 2 ^ w)) (#[], 1)
    let u0 : Uni := { nvars := widths.size, widths, strides, dflts, D, mods := widths.map (2 ^ ·) }
    let varVal := (Array.range widths.size).map fun v =>
      (Array.range (2 ^ widths[v]!)).map fun x => maskOf u0 fun a => a v == x
    let u := { u0 with varVal }
    ({ d with uni := u, dom := (List.range u.D).map u.asg }, "ok")
  | _ => (d, "bad-uni")

def parseOptNat (s : String) : Option Nat := if s == "-" then none else s.toNat?

def handleCon (d : DState) (args : List String) : DState × String :=
  -- con <id> <vars> <isFalse> <conc> <triv> <maskhex> <z3canon>
  match args with
  | [id, vars, isF, conc, triv, mask, canon] =>
    let id := id.toNat?.getD 0
    let m := parseHex mask
    let triv := match triv.splitOn ":" with
      | [v, x, e] => (match v.toNat?, x.toNat?, e.toNat? with | some v, some x, some e => some (v, x, e) | _, _, _ => none)
      | _ => none
    let zid := canon.toNat?.getD id
    let c := conOfMask d.uni id (parseList vars) (isF == "1") ((parseOptNat conc).map (· == 1)) triv m zid
    let d := if d.zmask.contains zid then d else { d with zmask := d.zmask.insert zid m }
    ({ d with cons := d.cons.insert id (c, m) }, "ok")
  | _ => (d, "bad-con")

def handleExp (d : DState) (args : List String) : DState × String :=
  -- exp <id> <bits> <vars> <conc> <valhex: 2 hex digits per assignment>
  match args with
  | [id, bits, vars, conc, table] =>
    let id := id.toNat?.getD 0
    let chars := table.toList.toArray
    let tbl : Array Nat := (Array.range (chars.size / 2)).map fun i => hexVal chars[2 * i]! * 16 + hexVal chars[2 * i + 1]!
    let u := d.uni
    let e : Exp := { id := id, bits := bits.toNat?.getD 1, vars := parseList vars,
                     val := fun a => tbl.getD (u.index a) 0, conc := parseOptNat conc }
    ({ d with exps := d.exps.insert id e }, "ok")
  | _ => (d, "bad-exp")

def handleBld (d : DState) (args : List String) : DState × String :=
  -- bld <keystring> <conid>     checks that the AST claripy built means what the key says
  match args with
  | [key, cid] =>
    let cid := cid.toNat?.getD 0
    let d := { d with builds := d.builds.insert key cid }
    let parts := key.splitOn ":"
    let bk : Option BuildKey := match parts with
      | [k, e, a] =>
        (d.exps.get? (e.toNat?.getD 0)).bind fun x =>
          match k with
          | "ule" => some (.ule x (parseIntD a)) | "uge" => some (.uge x (parseIntD a))
          | "sle" => some (.sle x (parseIntD a)) | "sge" => some (.sge x (parseIntD a))
          | "ne" => some (.ne x (a.toNat?.getD 0)) | "oreq" => some (.orEq x (parseList a))
          | _ => none
      | _ => none
    match bk, d.cons.get? cid with
    | some bk, some (c, m) =>
      let ok := maskOfDom d.dom bk.sem == m && subsetB c.vars bk.exp.vars
      (d, if ok then "ok" else s!"build-mismatch {key}")
    | _, _ => (d, s!"bad-bld {key}")
  | _ => (d, "bad-bld")

def specDom (d : DState) : List Asg := d.dom

def handleOp (d : DState) (args : List String) : DState × String :=
  -- op <i> <name> <args...> ;; <events...>
  let (opToks, evToks) := args.span (· != ";;")
  let evToks := evToks.drop 1
  match opToks with
  | i :: rest =>
    let i := i.toNat?.getD 0
    match parseOp d rest with
    | none => (d, "bad-op")
    | some op =>
      let events := (evToks.filterMap parseEvent).toArray
      let badEv := events.size != evToks.length
      let E := mkEnv d events
      let w0 := { d.world with tick := 0, qlog := [] }
      let (out, w) := step E d.cls w0 i op
      -- reference list of user constraints
      let added := match op with
        | .add cs => d.added.modify i (· ++ cs.map (·.id))
        | .branch => d.added.push (d.added.getD i [])
        | _ => d.added
      let diags := Id.run do
        let mut ds : List String := []
        if badEv then ds := ds ++ ["bad-event"]
        if w.tick != events.size then ds := ds ++ [s!"events-consumed={w.tick}/{events.size}"]
        let mut k := w.qlog.length
        for (q, a) in w.qlog do
          k := k - 1
          if !exactOn d q a then ds := ds ++ [s!"inexact@{k}"]
        -- the property itself, on the model's answer, by the executable reference
        let userCons := (d.added.getD i []).filterMap fun c => (d.cons.get? c).map (·.1)
        let userCons := match op with | .add cs => userCons ++ cs | _ => userCons
        -- `modelsOn dom (userCons ++ extra)` computed through the bit-set tables (same list, faster)
        let mk := (userCons ++ op.extra).foldl (fun m c => m &&& zconMask d (ZCon.ofCon c)) d.uni.full
        let ms := (d.dom.foldl (fun (acc : List Asg × Nat) a => (if mk.testBit acc.2 then a :: acc.1 else acc.1, acc.2 + 1)) ([], 0)).1.reverse
        match judgeModels ms op out with
        | none => pure ()
        | some why => ds := ds ++ ["spec:" ++ why]
        return ds
      ({ d with world := w, added := added },
       showOut out ++ " ;; " ++ showWorld w ++ " ;; " ++ (if diags.isEmpty then "-" else ",".intercalate diags))
  | _ => (d, "bad-op")

/-! ### the CompositeFrontend model (Claripy/Solver/Composite.lean) -/

/-- canonical observation of the composite's bookkeeping: the children `_solvers` points to (`_solver_list`), sorted by their
sorted variable lists; `_unsat`; the composite's own constraint list; the keys of `_solvers`; which of the children (positions in
the sorted list) are in `_unchecked_solvers` / `_owned_solvers`; then the complete dump of every child (`showWorld`: constraints,
variables, caches, the Z3 objects they refer to) -/
def showComp (s : CSt) : String :=
  let kids := (s.c.solverList.map fun j => (sortNat (s.child j).variables, j)).mergeSort fun a b => lexLe a.1 b.1
  let pos (p : Nat → Bool) : List Nat := (kids.zipIdx.filter fun x => p x.1.2).map (·.2)
  let groups := "|".intercalate (kids.map fun k => joinNat k.1)
  let head := s!"unsat={if s.c.unsat then 1 else 0};own=[{joinNat (s.c.constraints.map Con.id)}];" ++
    s!"keys=[{joinNat (sortNat (s.c.solvers.map (·.1)))}];groups=[{groups}];un=[{joinNat (pos s.c.unchecked.contains)}];" ++
    s!"ow=[{joinNat (pos s.c.owned.contains)}]"
  head ++ " ;; " ++ showWorld { s.w with fes := kids.map fun k => s.child k.2 }

def handleCop (d : DState) (args : List String) : DState × String :=
  -- cop <name> <args...> ;; <events...>
  let (opToks, evToks) := args.span (· != ";;")
  let evToks := evToks.drop 1
  match parseOp d opToks with
  | none => (d, "bad-op")
  | some op =>
    let events := (evToks.filterMap parseEvent).toArray
    let badEv := events.size != evToks.length
    let E := mkEnv d events
    let s0 : CSt := { d.comp with w := { d.comp.w with tick := 0, qlog := [] } }
    let (out, s) := compStep E s0 op
    let cadded := match op with | .add cs => d.cadded ++ cs.map (·.id) | _ => d.cadded
    let diags := Id.run do
      let mut ds : List String := []
      if badEv then ds := ds ++ ["bad-event"]
      if s.w.tick != events.size then ds := ds ++ [s!"events-consumed={s.w.tick}/{events.size}"]
      let mut k := s.w.qlog.length
      for (q, a) in s.w.qlog do
        k := k - 1
        if !exactOn d q a then ds := ds ++ [s!"inexact@{k}"]
      -- the property itself on the model's answer: judged against ALL the constraints the user added to the composite
      let userCons := cadded.filterMap fun c => (d.cons.get? c).map (·.1)
      let mk := (userCons ++ op.extra).foldl (fun m c => m &&& zconMask d (ZCon.ofCon c)) d.uni.full
      let ms := (d.dom.foldl (fun (acc : List Asg × Nat) a => (if mk.testBit acc.2 then a :: acc.1 else acc.1, acc.2 + 1)) ([], 0)).1.reverse
      match judgeModels ms op out with
      | none => pure ()
      | some why => ds := ds ++ ["spec:" ++ why]
      return ds
    ({ d with comp := s, cadded := cadded },
     showOut out ++ " ;; " ++ showComp s ++ " ;; " ++ (if diags.isEmpty then "-" else ",".intercalate diags))

def dispatch (d : DState) (line : String) : DState × String :=
  match (line.trimAscii.toString.splitOn " ").filter (· ≠ "") with
  | "uni" :: args => handleUni d args
  | "con" :: args => handleCon d args
  | "exp" :: args => handleExp d args
  | "bld" :: args => handleBld d args
  | ["falsecon", id] => ({ d with falseId := id.toNat?.getD 0 }, "ok")
  | ["new", cls, track, reuse] =>
    (match clsOfString cls with
     | some c => ({ d with cls := c, world := World.init (track == "1") (reuse == "1"), added := #[[]] }, "ok")
     | none => (d, "bad-class"))
  | "op" :: args => handleOp d args
  | ["newc", track] => ({ d with comp := { c := { track := track == "1" }, w := { fes := [], reuse := false } }, cadded := [] }, "ok")
  | "cop" :: args => handleCop d args
  | ["split", arg] =>
    -- split <vars of constraint 0>|<vars of constraint 1>|...   ("-" = no variables)
    let varss := (arg.splitOn "|").map parseList
    let (groups, concrete) := splitConstraints varss
    let gs := (groups.map fun g => joinNat g.1 ++ ":" ++ joinNat g.2).mergeSort (· ≤ ·)
    (d, ";".intercalate gs ++ " concrete=" ++ joinNat concrete)
  | _ => (d, "bad-op")

end DriverSolver

partial def loop (h : IO.FS.Stream) (out : IO.FS.Stream) (d : DriverSolver.DState) : IO Unit := do
  let line ← h.getLine
  if line.isEmpty then return ()
  let (d', ans) := DriverSolver.dispatch d line
  out.putStrLn ans
  loop h out d'

def main : IO Unit := do
  let out ← IO.getStdout
  loop (← IO.getStdin) out {}
  out.flush
