import Claripy.AST.Rules
import Claripy.AST.Fold
import Claripy.AST.Meta
import Claripy.AST.Subst
import Claripy.AST.Truth
import Claripy.AST.ACNorm
import Claripy.AST.Bits
import Claripy.AST.IteReloc
import Claripy.AST.MinMax
/-! S-expression reader/printer and the `ev` / `fold` / `rules` requests of the line protocol. -/
namespace Driver.Expr
open Claripy.AST

def opOfString (s : String) : Option Op :=
  match s.splitOn ":" with
  | ["add"] => some .add | ["sub"] => some .sub | ["mul"] => some .mul | ["udiv"] => some .udiv
  | ["umod"] => some .umod | ["sdiv"] => some .sdiv | ["smod"] => some .smod
  | ["and"] => some .band | ["or"] => some .bor | ["xor"] => some .bxor
  | ["shl"] => some .shl | ["ashr"] => some .ashr | ["lshr"] => some .lshr | ["not"] => some .bnot | ["neg"] => some .neg
  | ["eq"] => some .eq | ["ne"] => some .ne | ["ult"] => some .ult | ["ule"] => some .ule | ["ugt"] => some .ugt
  | ["uge"] => some .uge | ["slt"] => some .slt | ["sle"] => some .sle | ["sgt"] => some .sgt | ["sge"] => some .sge
  | ["concat"] => some .concat | ["rotl"] => some .rotl | ["rotr"] => some .rotr | ["reverse"] => some .reverse
  | ["ite"] => some .ite | ["And"] => some .and | ["Or"] => some .or | ["Not"] => some .not
  | ["extract", hi, lo] => match hi.toNat?, lo.toNat? with | some h, some l => some (.extract h l) | _, _ => none
  | ["zext", n] => n.toNat?.map .zeroExt
  | ["sext", n] => n.toNat?.map .signExt
  | _ => none

def opToString : Op → String
  | .add => "add" | .sub => "sub" | .mul => "mul" | .udiv => "udiv" | .umod => "umod" | .sdiv => "sdiv" | .smod => "smod"
  | .band => "and" | .bor => "or" | .bxor => "xor" | .shl => "shl" | .ashr => "ashr" | .lshr => "lshr" | .bnot => "not"
  | .neg => "neg" | .eq => "eq" | .ne => "ne" | .ult => "ult" | .ule => "ule" | .ugt => "ugt" | .uge => "uge"
  | .slt => "slt" | .sle => "sle" | .sgt => "sgt" | .sge => "sge" | .concat => "concat"
  | .extract h l => s!"extract:{h}:{l}" | .zeroExt n => s!"zext:{n}" | .signExt n => s!"sext:{n}"
  | .rotl => "rotl" | .rotr => "rotr" | .reverse => "reverse" | .ite => "ite" | .and => "And" | .or => "Or" | .not => "Not"

partial def toSexpr : Expr → String
  | .bvv v w => s!"(bvv {v} {w})"
  | .bvs n w => s!"(bvs {n} {w})"
  | .boolv b => s!"(boolv {if b then 1 else 0})"
  | .bools n => s!"(bools {n})"
  | .app op args => "(" ++ opToString op ++ " " ++ " ".intercalate (args.map toSexpr) ++ ")"

def tokenize (s : String) : List String :=
  ((s.replace "(" " ( ").replace ")" " ) ").splitOn " " |>.filter (· ≠ "")

/-- recursive-descent parser; returns the expression and the remaining tokens -/
partial def parse : List String → Option (Expr × List String)
  | "(" :: "bvv" :: v :: w :: ")" :: rest => do pure (.bvv (← v.toNat?) (← w.toNat?), rest)
  | "(" :: "bvs" :: n :: w :: ")" :: rest => do pure (.bvs n (← w.toNat?), rest)
  | "(" :: "boolv" :: b :: ")" :: rest => some (.boolv (b == "1"), rest)
  | "(" :: "bools" :: n :: ")" :: rest => some (.bools n, rest)
  | "(" :: head :: rest => do
    let op ← opOfString head
    let rec args (toks : List String) (acc : List Expr) : Option (List Expr × List String) :=
      match toks with
      | ")" :: rest => some (acc.reverse, rest)
      | _ => do
        let (e, rest) ← parse toks
        args rest (e :: acc)
    let (as, rest') ← args rest []
    pure (.app op as, rest')
  | _ => none

def parseExpr (toks : List String) : Option Expr :=
  match parse toks with
  | some (e, []) => some e
  | _ => none

def showVal : Val → String
  | .bv w n => s!"bv {w} {n}"
  | .bool b => s!"bool {if b then 1 else 0}"
  | .err => "err"

def showErr : Claripy.BV.Err → String
  | .divZero => "err:divZero"
  | .reverseNonByte => "err:reverseNonByte"
  | .sizeMismatch => "err:sizeMismatch"
  | .crash w => s!"err:crash:{w}"

/-- `ev <sexpr> | name=val ...` -/
def handleEv (toks : List String) : String :=
  let (pre, post) := toks.span (· ≠ "|")
  match parseExpr pre with
  | none => "bad-op"
  | some e =>
    let binds := (post.drop 1).filterMap fun t => match t.splitOn "=" with
      | [n, v] => v.toNat?.map fun x => (n, x)
      | _ => none
    let env : Env := { bv := fun n => (binds.lookup n).getD 0, bool := fun n => (binds.lookup n).getD 0 != 0 }
    showVal (eval env e)

/-- `fold <sexpr>` : eager folding of a node whose arguments are constant leaves -/
def handleFold (toks : List String) : String :=
  match parseExpr toks with
  | some (.app op args) =>
    match fold op args with
    | none => "notconst"
    | some (.ok e) => toSexpr e
    | some (.error er) => showErr er
  | _ => "bad-op"

/-- `rules <sexpr>` : every (schema, rhs) whose lhs is this node -/
def handleRules (toks : List String) : String :=
  match parseExpr toks with
  | some t =>
    match candidates t with
    | [] => "none"
    | cs => " ;; ".intercalate (cs.map fun (n, e) => n ++ " => " ++ toSexpr e)
  | none => "bad-op"

/-- `ac <lhs> | <rhs>` : is `lhs ⇒ rhs` an associative-commutative rewrite of the node `lhs` (flattening, reordering, merged
literals, cancelled / dropped repeated operands)?  The operation is that of `lhs`, the width the one `lhs` reports. -/
def handleAc (toks : List String) : String :=
  let (pre, post) := toks.span (· ≠ "|")
  match parseExpr pre, parseExpr (post.drop 1) with
  | some (.app op args), some rhs =>
    match ACK.ofOp op, (Expr.app op args).width, BK.ofOp op with
    | some k, some w, _ => if acEquiv k w (.app op args) rhs then "1" else "0"
    | _, _, some k => if bcEquiv k (.app op args) rhs || (k == .and && andEqNeAuto (.app op args) rhs) then "1" else "0"
    | _, _, _ => "bad-op"
  | _, _ => "bad-op"

/-- `bits <lhs> | <rhs>` : is `lhs ⇒ rhs` a rewrite that only rearranges bits (Concat/Extract/ZeroExt/SignExt/…), or the signed min/max idiom? -/
def handleBits (toks : List String) : String :=
  let (pre, post) := toks.span (· ≠ "|")
  match parseExpr pre, parseExpr (post.drop 1) with
  | some lhs, some rhs => if bitsEquiv lhs rhs || minmaxEquiv lhs rhs then "1" else "0"
  | _, _ => "bad-op"

/-- `excavate <sexpr>` / `burrow <sexpr>` : the ITE relocation algorithms (excavate: rule-table constructor, so that intermediate `If` nodes are simplified as `claripy.If` does; burrow: raw constructor) with the `Not` simplifier
(the harness rebuilds the answer through the real constructors and requires the object the real algorithm returned) -/
partial def exprSize : Expr → Nat
  | .app _ args => 1 + (args.map exprSize).foldl (· + ·) 0
  | _ => 1
def handleExcavate (toks : List String) : String :=
  match parseExpr toks with
  | some e => toSexpr (excavate mkRules mkNotR e)
  | none => "bad-op"
def handleBurrow (toks : List String) : String :=
  match parseExpr toks with
  | some e => toSexpr (burrow (fun op args => .app op args) (exprSize e + 1) e)
  | none => "bad-op"

/-- `cmp <lhs> | <rhs>` : is `lhs ⇒ rhs` a rewrite of a bit-vector (dis)equality with the same per-bit atoms? -/
def handleCmp (toks : List String) : String :=
  let (pre, post) := toks.span (· ≠ "|")
  match parseExpr pre, parseExpr (post.drop 1) with
  | some lhs, some rhs => if cmpEquiv lhs rhs then "1" else "0"
  | _, _ => "bad-op"

/-- `meta <sexpr>` : width / variables / depth / symbolic as the model computes them -/
def handleMeta (toks : List String) : String :=
  match parseExpr toks with
  | some e =>
    let w := match e.width with | some w => toString w | none => "none"
    let vs := (e.vars.eraseDups.toArray.qsort (· < ·)).toList
    s!"w={w} vars={",".intercalate vs} depth={e.depth} sym={if e.symbolic then 1 else 0}"
  | none => "bad-op"

/-- `replace <name> <w> <r> | <e>` : claripy.replace(e, BVS(name,w), r) -/
def handleReplace (toks : List String) : String :=
  match toks with
  | name :: w :: rest =>
    let (pre, post) := rest.span (· ≠ "|")
    match w.toNat?, parseExpr pre, parseExpr (post.drop 1) with
    | some w, some r, some e =>
      match replaceBv name w r e with
      | .ok x => toSexpr x
      | .error er => showErr er
    | _, _, _ => "bad-op"
  | _ => "bad-op"

/-- `canon <e>` -/
def handleCanon (toks : List String) : String :=
  match parseExpr toks with
  | some e => toSexpr (canonicalize e)
  | none => "bad-op"

/-- `itedictplan k1 k2 ...` : the split keys `ite_dict` visits (keys already reduced to unsigned values) -/
def handlePlan (args : List String) : String :=
  match args.mapM String.toNat? with
  | some ks =>
    let d : List (Nat × Expr) := ks.map fun k => (k, Expr.boolv true)
    " ".intercalate ((iteDictPlan medianKey d.length d).map toString)
  | none => "bad-op"

/-- `truth T <e> ;; F <e> ;; ...` : answers of a history of is_true / is_false queries from empty caches -/
def handleTruth (toks : List String) : String :=
  let groups := toks.splitOn ";;"
  let qs := groups.filterMap fun g =>
    match g with
    | "T" :: rest => (parseExpr rest).map Query.isTrue
    | "F" :: rest => (parseExpr rest).map Query.isFalse
    | _ => none
  if qs.length != groups.length then "bad-op" else
  let (as, c) := runQueries {} qs
  String.join (as.map fun a => if a then "1" else "0") ++ s!" t={c.t.length} f={c.f.length}"

end Driver.Expr
