import Claripy.AST.Hashcons
/-! `intbytes <int>`, `pyhash <int>`, `aser <op> | <args> | <annotation hashes> | <length or ->` -/
namespace Driver.Hashcons
open Claripy.Hashcons

def hex (bs : List Nat) : String :=
  String.join (bs.map fun b =>
    let d := "0123456789abcdef".toList
    String.ofList [d[b / 16]!, d[b % 16]!])

def parseArg (s : String) : Option Arg :=
  match s.splitOn ":" with
  | ["c", h] => h.toNat?.map Arg.child
  | ["i", n] => n.toInt?.map Arg.int
  | ["f", b] => b.toNat?.map Arg.float
  | ["h", n] => n.toInt?.map Arg.hashed
  | ["s", hx] =>   -- hex encoded utf8
    let cs := hx.toList
    let rec go : List Char → List Nat → Option (List Nat)
      | [], acc => some acc.reverse
      | a :: b :: rest, acc =>
        let v := fun (c : Char) => if c.isDigit then some (c.toNat - 48) else if 'a' ≤ c ∧ c ≤ 'f' then some (c.toNat - 87) else none
        match v a, v b with
        | some x, some y => go rest ((16 * x + y) :: acc)
        | _, _ => none
      | _, _ => none
    (go cs []).map Arg.str
  | ["s"] => some (.str [])
  | ["N"] => some .none | ["T"] => some .true | ["F"] => some .false
  | _ => none

def handleIntBytes (args : List String) : String :=
  match args with
  | [n] => match n.toInt? with | some n => hex (intBytes n) | none => "bad-op"
  | _ => "bad-op"

def handlePyHash (args : List String) : String :=
  match args with
  | [n] => match n.toInt? with | some n => toString (pyHashInt n) | none => "bad-op"
  | _ => "bad-op"

def handleSer (toks : List String) : String :=
  match toks.splitOn "|" with
  | [[op], args, annos, [len]] =>
    match args.mapM parseArg, annos.mapM String.toInt? with
    | some as, some hs =>
      let l := if len == "-" then none else len.toNat?
      hex (astSerialize (op.toUTF8.toList.map (·.toNat)) as hs l)
    | _, _ => "bad-op"
  | _ => "bad-op"

end Driver.Hashcons
