import Driver.GcGuard
import Driver.Expr
import Driver.Anno
import Driver.Hashcons
/-! Line-protocol driver: one request per line, first token selects the model. -/

def dispatch (line : String) : String :=
  match (line.trimAscii.toString.splitOn " ").filter (· ≠ "") with
  | "gc" :: args => Driver.GcGuard.handle args
  | "gcbfs" :: args => Driver.GcGuard.handleBfs args
  | "ev" :: args => Driver.Expr.handleEv (Driver.Expr.tokenize (" ".intercalate args))
  | "fold" :: args => Driver.Expr.handleFold (Driver.Expr.tokenize (" ".intercalate args))
  | "ahandle" :: args => Driver.Anno.handleReq (Driver.Anno.tokenize (" ".intercalate args))
  | "aunelim" :: args => Driver.Anno.unelimReq (Driver.Anno.tokenize (" ".intercalate args))
  | "intbytes" :: args => Driver.Hashcons.handleIntBytes args
  | "pyhash" :: args => Driver.Hashcons.handlePyHash args
  | "aser" :: args => Driver.Hashcons.handleSer args
  | "replace" :: args => Driver.Expr.handleReplace (Driver.Expr.tokenize (" ".intercalate args))
  | "canon" :: args => Driver.Expr.handleCanon (Driver.Expr.tokenize (" ".intercalate args))
  | "itedictplan" :: args => Driver.Expr.handlePlan args
  | "truth" :: args => Driver.Expr.handleTruth (Driver.Expr.tokenize (" ".intercalate args))
  | "meta" :: args => Driver.Expr.handleMeta (Driver.Expr.tokenize (" ".intercalate args))
  | "ac" :: args => Driver.Expr.handleAc (Driver.Expr.tokenize (" ".intercalate args))
  | "bits" :: args => Driver.Expr.handleBits (Driver.Expr.tokenize (" ".intercalate args))
  | "excavate" :: args => Driver.Expr.handleExcavate (Driver.Expr.tokenize (" ".intercalate args))
  | "burrow" :: args => Driver.Expr.handleBurrow (Driver.Expr.tokenize (" ".intercalate args))
  | "cmp" :: args => Driver.Expr.handleCmp (Driver.Expr.tokenize (" ".intercalate args))
  | "rules" :: args => Driver.Expr.handleRules (Driver.Expr.tokenize (" ".intercalate args))
  | _ => "bad-op"

partial def loop (h : IO.FS.Stream) (out : IO.FS.Stream) : IO Unit := do
  let line ← h.getLine
  if line.isEmpty then return ()
  out.putStrLn (dispatch line)
  loop h out

def main : IO Unit := do
  let out ← IO.getStdout
  loop (← IO.getStdin) out
  out.flush
