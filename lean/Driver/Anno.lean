import Claripy.Anno.Model
/-! `ahandle` / `aunelim` requests: the annotation gate model on abstract annotated trees. -/
namespace Driver.Anno
open Claripy.Anno

def parseAnno (s : String) : Option Anno :=
  match (s.drop 1).toString.toNat? with
  | none => none
  | some n =>
    match s.front with
    | 'k' => some { id := n, elim := false, reloc := false }
    | 'a' => some { id := n, elim := false, reloc := false, avoid := true }
    | 'r' => some { id := n, elim := false, reloc := true }
    | 'e' => some { id := n, elim := true, reloc := false }
    | _ => none

def showAnno (a : Anno) : String :=
  (if a.avoid then "a" else if a.elim then "e" else if a.reloc then "r" else "k") ++ toString a.id

/-- `( tag [ annos ] children ... )` -/
partial def parse : List String → Option (AExpr × List String)
  | "(" :: tag :: "[" :: rest => do
    let (annToks, rest1) := rest.span (· ≠ "]")
    let annos ← annToks.mapM parseAnno
    let rec kids (toks : List String) (acc : List AExpr) : Option (List AExpr × List String) :=
      match toks with
      | ")" :: r => some (acc.reverse, r)
      | _ => do
        let (e, r) ← parse toks
        kids r (e :: acc)
    let (cs, rest2) ← kids (rest1.drop 1) []
    pure (.mk tag cs annos, rest2)
  | _ => none

partial def parseMany (toks : List String) (acc : List AExpr) : Option (List AExpr) :=
  match toks with
  | [] => some acc.reverse
  | _ => do
    let (e, r) ← parse toks
    parseMany r (e :: acc)

def tokenize (s : String) : List String :=
  ((((s.replace "(" " ( ").replace ")" " ) ").replace "[" " [ ").replace "]" " ] ").splitOn " " |>.filter (· ≠ "")

def sortedAnnos (l : List Anno) : String :=
  let strs := (l.map showAnno).eraseDups.toArray.qsort (· < ·)
  ",".intercalate strs.toList

/-- `ahandle <simp> | <args...>` -/
def handleReq (toks : List String) : String :=
  let (pre, post) := toks.span (· ≠ "|")
  match parseMany pre [], parseMany (post.drop 1) [] with
  | some [simp], some args =>
    match handle simp args with
    | none => "none"
    | some r => s!"annos={sortedAnnos r.annos} unelim={sortedAnnos r.unelim}"
  | _, _ => "bad-op"

/-- `aunelim <expr>` -/
def unelimReq (toks : List String) : String :=
  match parseMany toks [] with
  | some [e] => sortedAnnos e.unelim
  | _ => "bad-op"

end Driver.Anno
