import Claripy.Gen.GcGuard
import Std.Data.HashSet
namespace Driver.GcGuard
open Claripy.GcGuard

def parseAct (s : String) : Option (Nat × Act) :=
  match s.splitOn ":" with
  | [i, a] =>
    match i.toNat?, a with
    | some i, "E" => some (i, .callEnter)
    | some i, "X" => some (i, .callExit)
    | some i, "R" => some (i, .run)
    | some i, "F" => some (i, .envFlip)
    | _, _ => none
  | _ => none

def showState (s : State) : String :=
  let lk := match s.lock with | none => "-" | some i => toString i
  s!"{s.active},{if s.saved then 1 else 0},{if s.gc then 1 else 0},{lk}"

/-- `gc <nthreads> <gc0:0|1> <i:A> ...`  →  states after each step, `blocked` at the first disabled one.
Runs the *generated* programs. -/
def handle (args : List String) : String :=
  match args with
  | n :: g :: sched =>
    match n.toNat?, g.toNat? with
    | some n, some g =>
      let rec go (s : State) (l : List String) (acc : List String) : List String :=
        match l with
        | [] => acc.reverse
        | x :: rest =>
          match parseAct x with
          | none => ("bad-op" :: acc).reverse
          | some (i, a) =>
            match step Claripy.Gen.GcGuard.progs s i a with
            | none => ("blocked" :: acc).reverse
            | some s' => go s' rest (showState s' :: acc)
      ";".intercalate (go (initState n (g != 0)) sched [])
    | _, _ => "bad-op"
  | _ => "bad-op"


def actCode : Act → String
  | .callEnter => "E" | .callExit => "X" | .run => "R" | .envFlip => "F"

/-- Breadth-first exploration of the generated programs: `n` threads, nesting depth ≤ `maxDepth`.
Returns (states, transitions, schedules reaching every state, schedules reaching an unsafe state). -/
partial def bfs (n : Nat) (g : Bool) (maxDepth : Nat) (limit : Nat) :
    Nat × Nat × List String × List String := Id.run do
  let P := Claripy.Gen.GcGuard.progs
  let s0 := initState n g
  let mut seen : Std.HashSet State := {}
  seen := seen.insert s0
  let mut queue : Array (State × List String) := #[(s0, [])]
  let mut head := 0
  let mut trans := 0
  let mut scheds : List String := []
  let mut bad : List String := []
  while head < queue.size && seen.size < limit do
    let (s, path) := queue[head]!
    head := head + 1
    let mut leaf := true
    for i in List.range n do
      for a in [Act.callEnter, Act.callExit, Act.run] ++ (if i == 0 then [Act.envFlip] else []) do
        let allowed := match a, s.threads[i]? with
          | .callEnter, some t => t.depth + (if t.fn == 0 then 0 else 1) < maxDepth || (t.fn == 0 && t.depth < maxDepth)
          | _, _ => true
        if allowed then
          match step P s i a with
          | none => pure ()
          | some s' =>
            trans := trans + 1
            if seen.contains s' then
              scheds := " ".intercalate (s!"{i}:{actCode a}" :: path).reverse :: scheds
            else
              leaf := false
              seen := seen.insert s'
              let path' := s!"{i}:{actCode a}" :: path
              queue := queue.push (s', path')
              if !(decide (Safe s')) then
                bad := " ".intercalate path'.reverse :: bad
    if leaf && !path.isEmpty then
      scheds := " ".intercalate path.reverse :: scheds
  return (seen.size, trans, scheds, bad)

/-- `gcbfs <n> <g> <maxDepth> <limit>` -/
def handleBfs (args : List String) : String :=
  match args.map String.toNat? with
  | [some n, some g, some d, some lim] =>
    let (st, tr, scheds, bad) := bfs n (g != 0) d lim
    s!"states={st};transitions={tr};bad={"|".intercalate bad};scheds={"|".intercalate scheds}"
  | _ => "bad-op"

end Driver.GcGuard
