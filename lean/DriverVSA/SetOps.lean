import DriverVSA.SIOps
import Claripy.VSA.DSIS
/-! `ds <op> <w> ; <si> , <si> ... ; (D <si> , ... | S <si> | -) ; <ints> ; <order>` — operations on a set of intervals.
Members are listed in the Python set's iteration order; `<order>` is the recorded iteration order of the result set. -/
namespace DriverVSA
open Claripy.VSA

def splitOn (sep : String) (toks : List String) : List (List String) :=
  let rec go (l : List String) (cur : List String) (acc : List (List String)) : List (List String) :=
    match l with
    | [] => (cur.reverse :: acc).reverse
    | x :: rest => if x == sep then go rest [] (cur.reverse :: acc) else go rest (x :: cur) acc
  go toks [] []

def parseSI (toks : List String) : Option SI :=
  match parseArg toks with
  | some (.si s) => some s
  | _ => none

def parseSIs (toks : List String) : Option (List SI) :=
  if toks.isEmpty then some [] else (splitOn "," toks).mapM parseSI

def keyLt (a b : SI) : Bool :=
  -- bottoms first (Python canonical form uses stride -1 for them), then (stride, lb, ub)
  if a.bottom != b.bottom then a.bottom
  else if a.bottom then false
  else if a.stride != b.stride then a.stride < b.stride
  else if a.lb != b.lb then a.lb < b.lb
  else a.ub < b.ub

def insertSorted (x : SI) : List SI → List SI
  | [] => [x]
  | y :: ys => if keyLt x y then x :: y :: ys else y :: insertSorted x ys

def showSet (d : DSIS) : String :=
  let l := d.sis.foldl (fun acc x => insertSorted x acc) []
  s!"dsis {d.bits} : " ++ " , ".intercalate (l.map fun s => if s.bottom then s!"{s.bits} -1 0 0" else s!"{s.bits} {s.stride} {s.lb} {s.ub}")

def showVal (r : R Val) : String :=
  match r with
  | .ok (.si s) => "si " ++ showSI s
  | .ok (.ds d) => showSet d
  | .error e => "err:" ++ e.name

def showQ (r : R (Option Int)) : String :=
  match r with
  | .ok (some v) => s!"int {v}"
  | .ok none => "None"
  | .error e => "err:" ++ e.name

def cmpOp (op : String) (a b : SI) : Option (R BoolRes) :=
  match op with
  | "eq" => some (a.eq b) | "ne" => some (do return (← a.eq b).not)
  | "ULT" => some (a.ULT b) | "ULE" => some (a.ULE b) | "UGT" => some (a.UGT b) | "UGE" => some (a.UGE b)
  | "SLT" => some (a.SLT b) | "SLE" => some (a.SLE b) | "SGT" => some (a.SGT b) | "SGE" => some (a.SGE b)
  | _ => none

def binOp (op : String) : Option (SI → SI → R SI) :=
  match op with
  | "add" => some fun a b => pure (a.add b)
  | "sub" => some fun a b => pure (a.sub b)
  | "and" => some SI.bitwiseAnd
  | "or" => some SI.bitwiseOr
  | "xor" => some SI.bitwiseXor
  | "mod" => some SI.mod
  | "mul" => some SI.mul
  | "lshr" => some SI.rshiftLogical
  | "shl" => some SI.lshift
  | "ashr" => some SI.rshiftArith
  | "concat" => some SI.concat
  | _ => none

def handleDS (toks : List String) : String :=
  match toks with
  | op :: w :: ";" :: rest =>
    match w.toNat?, splitOn ";" rest with
    | some w, [aT, bT, exT, ordT] =>
      match parseSIs aT, exT.mapM String.toNat?, ordT.mapM String.toNat? with
      | some as, some extra, some order =>
        let a : DSIS := { bits := w, sis := as }
        -- second operand
        let bOpt : Option (Option (Bool × List SI)) :=
          match bT with
          | ["-"] => some none
          | "D" :: r => (parseSIs r).map fun l => some (true, l)
          | "S" :: r => (parseSI r).map fun s => some (false, [s])
          | _ => none
        match bOpt with
        | none => "bad-arg"
        | some b =>
          match op, b, extra with
          | "collapse", none, [] => showVal (do return .si (← a.collapse))
          | "normalize", none, [] => showVal a.normalize
          | "cardinality", none, [] => (match a.cardinality with | .ok n => s!"int {n}" | .error e => "err:" ++ e.name)
          | "min", none, [] => showQ (a.minQ false)
          | "max", none, [] => showQ (a.maxQ false)
          | "smin", none, [] => showQ (a.minQ true)
          | "smax", none, [] => showQ (a.maxQ true)
          | "opneg", none, [] => showVal (a.lift1 (fun s => pure s.neg) order)
          | "not", none, [] => showVal (a.lift1 SI.bitwiseNot order)
          | "zext", none, [n] => showVal (a.lift1 (fun s => s.zeroExtend n) order)
          | "sext", none, [n] => showVal (a.lift1 (fun s => s.signExtend n) order)
          | "extract", none, [hi, lo] => showVal (a.extract hi lo order)
          | "intersection", some (false, [s]), [] => showVal (a.meetSI s order)
          | _, some (isD, bs), [] =>
            match binOp op, (cmpOp op (SI.empty 1) (SI.empty 1)).isSome with
            | some f, _ => showVal (a.lift2 f bs order)
            | none, true =>
              -- comparisons collapse both operands first
              let r : R BoolRes := do
                let ca ← a.collapse
                let cb ← if isD then (DSIS.collapse { bits := w, sis := bs }) else (match bs with | [s] => pure s | _ => throw .assertion)
                match cmpOp op ca cb with
                | some r => r
                | none => throw .assertion
              showB r
            | none, false => "unmodelled"
          | _, _, _ => "unmodelled"
      | _, _, _ => "bad-arg"
    | _, _ => "bad-arg"
  | _ => "bad-op"

end DriverVSA
