import DriverVSA.SIOps
import DriverVSA.SetOps
import DriverVSA.ExprOps
import DriverVSA.BalOps
import DriverVSA.BalancerOps
import DriverVSA.SetOpsCmd
/-! Line-protocol driver for the VSA family: one request per line, first token selects the handler.
Imports only core-Lean model files under Claripy/ (never Mathlib), so it links as an executable. -/

def dispatch (line : String) : String :=
  match (line.trimAscii.toString.splitOn " ").filter (· ≠ "") with
  | "si" :: args => DriverVSA.handleSI args
  | "ds" :: args => DriverVSA.handleDS args
  | "so" :: args => DriverVSA.handleSO args
  | "vs" :: args => DriverVSA.handleVS args
  | "ex" :: args => DriverVSA.handleEx args
  | "bal" :: args => DriverVSA.handleBal args
  | "balance" :: args => DriverVSA.handleBalance args
  | _ => "bad-op"

partial def loop (h : IO.FS.Stream) (out : IO.FS.Stream) : IO Unit := do
  let line ← h.getLine
  if line.isEmpty then return ()
  out.putStrLn (dispatch line)
  loop h out

def main : IO Unit := do
  let out ← IO.getStdout
  loop (← IO.getStdin) out
  out.flush
