import Claripy.VSA.Shift
/-! `si <op> <arg> | <arg> ...` — one strided-interval operation of the model per request line.
arg = `w s lb ub` | `bottom w` | integer.  Answer: `w s lb ub` | `bottom w` | `bool:FT` | `err:<Kind>` | `unmodelled`. -/
namespace DriverVSA
open Claripy.VSA

inductive Arg where
  | si (s : SI)
  | num (n : Nat)

def parseArg (toks : List String) : Option Arg :=
  match toks with
  | ["bottom", w] => w.toNat?.map fun w => .si (SI.empty w)
  | [w, s, lb, ub] =>
    match w.toNat?, s.toNat?, lb.toNat?, ub.toNat? with
    | some w, some s, some lb, some ub => some (.si (SI.new w s lb ub))
    | _, _, _, _ => none
  | [n] => n.toNat?.map .num
  | _ => none

def splitArgs (toks : List String) : List (List String) :=
  let rec go (l : List String) (cur : List String) (acc : List (List String)) : List (List String) :=
    match l with
    | [] => (cur.reverse :: acc).reverse
    | "|" :: rest => go rest [] (cur.reverse :: acc)
    | x :: rest => go rest (x :: cur) acc
  go toks [] []

def showSI (s : SI) : String :=
  if s.bottom then s!"bottom {s.bits}" else s!"{s.bits} {s.stride} {s.lb} {s.ub}"

def showR (r : R SI) : String :=
  match r with
  | .ok s => showSI s
  | .error e => "err:" ++ e.name

def showB (r : R BoolRes) : String :=
  match r with
  | .ok .t => "bool:T" | .ok .f => "bool:F" | .ok .m => "bool:FT"
  | .error e => "err:" ++ e.name

def showInts (r : R (List Int)) : String :=
  match r with
  | .ok l => "list " ++ ",".intercalate (l.map toString)
  | .error e => "err:" ++ e.name

def showOptInt (r : R (Option Int)) : String :=
  match r with
  | .ok none => "none"
  | .ok (some v) => s!"int {v}"
  | .error e => "err:" ++ e.name

def nums? (l : List (Option Arg)) : Option (List Nat) :=
  l.mapM fun a => match a with | some (.num n) => some n | _ => none

def handleSI (toks : List String) : String :=
  match toks with
  | [] => "bad-op"
  | op :: rest =>
    match (splitArgs rest).map parseArg with
    | [some (.si a), some (.si b)] =>
      match op with
      | "add" => showSI (a.add b)
      | "sub" => showSI (a.sub b)
      | "and" => showR (a.bitwiseAnd b)
      | "or" => showR (a.bitwiseOr b)
      | "xor" => showR (a.bitwiseXor b)
      | "shl" => showR (a.lshift b)
      | "lshr" => showR (a.rshiftLogical b)
      | "ashr" => showR (a.rshiftArith b)
      | "ULT" => showB (a.ULT b) | "ULE" => showB (a.ULE b) | "UGT" => showB (a.UGT b) | "UGE" => showB (a.UGE b)
      | "SLT" => showB (a.SLT b) | "SLE" => showB (a.SLE b) | "SGT" => showB (a.SGT b) | "SGE" => showB (a.SGE b)
      | "union" => showR (a.union b)
      | "lub" => showR (leastUpperBound [a, b])
      | "concat" => showR (a.concat b)
      | "mul" => showR (a.mul b)
      | "mod" => showR (a.mod b)
      | "eq" => showB (a.eq b)
      | "ne" => showB (do return (← a.eq b).not)
      | "widen" => showR (a.widen b)
      | "intersection" => showR (a.intersection b)
      | _ => "unmodelled"
    | [some (.si a), some (.si b), some (.si c)] =>
      match op with
      | "lub3" => showR (leastUpperBound [a, b, c])
      | _ => "unmodelled"
    | [some (.si a)] =>
      match op with
      | "neg" => showSI a.neg
      | "opneg" => showSI a.neg
      | "not" => showR a.bitwiseNot
      | "cardinality" => (match a.cardinality with | .ok n => s!"int {n}" | .error e => "err:" ++ e.name)
      | _ => "unmodelled"
    | [some (.si a), some (.num n)] =>
      match op with
      | "zext" => showR (a.zeroExtend n)
      | "sext" => showR (a.signExtend n)
      | "solution" => (match a.solution n with | .ok b => (if b then "true" else "false") | .error e => "err:" ++ e.name)
      | "max" => showOptInt (a.max (n != 0))
      | "min" => showOptInt (a.min (n != 0))
      | _ => "unmodelled"
    | [some (.si a), some (.num hi), some (.num lo)] =>
      match op with
      | "extract" => showR (a.extract hi lo)
      | "eval" => showInts (a.eval hi (lo != 0))
      | _ => "unmodelled"
    | some (.si a) :: some (.si b) :: rest =>
      match nums? rest, op with
      | some order, "udiv" => showR (a.udiv b order)
      | some order, "sdiv" => showR (a.sdiv b order)
      | _, _ => "unmodelled"
    | l => if l.any Option.isNone then "bad-arg" else "unmodelled"

end DriverVSA
