import DriverVSA.SetOps
import Claripy.VSA.Backend
/-! `ex <anno> | <anno> ... ; <order> , <order> ... ; <prefix expression>` — abstract evaluation of an AST as the VSA
backend sees it.  Prefix syntax: `var i w`, `const v w`, `bin <op> A B`, `neg A`, `not A`, `zext k A`, `sext k A`,
`extract hi lo A`, `concat A B`, `ite C A B`; Boolean: `lit 0|1`, `cmp <op> A B`, `bnot C`, `band C D`, `bor C D`. -/
namespace DriverVSA
open Claripy.VSA

def binOf : String → Option BinOp
  | "add" => some .add | "sub" => some .sub | "mul" => some .mul | "udiv" => some .udiv | "mod" => some .urem
  | "and" => some .and | "or" => some .or | "xor" => some .xor | "shl" => some .shl | "lshr" => some .lshr | "ashr" => some .ashr
  | _ => none

def cmpOf : String → Option CmpOp
  | "ULT" => some .ult | "ULE" => some .ule | "UGT" => some .ugt | "UGE" => some .uge
  | "SLT" => some .slt | "SLE" => some .sle | "SGT" => some .sgt | "SGE" => some .sge
  | "eq" => some .eq | "ne" => some .ne
  | _ => none

mutual
partial def parseBV : List String → Option (BV × List String)
  | "var" :: i :: w :: r => do return (.var (← i.toNat?) (← w.toNat?), r)
  | "free" :: i :: w :: r => do return (.free (← i.toNat?) (← w.toNat?), r)
  | "const" :: v :: w :: r => do return (.const (← v.toNat?) (← w.toNat?), r)
  | "bin" :: op :: r => do
    let o ← binOf op
    let (a, r) ← parseBV r
    let (b, r) ← parseBV r
    return (.bin o a b, r)
  | "neg" :: r => do let (a, r) ← parseBV r; return (.neg a, r)
  | "not" :: r => do let (a, r) ← parseBV r; return (.not a, r)
  | "zext" :: k :: r => do let (a, r) ← parseBV r; return (.zext (← k.toNat?) a, r)
  | "sext" :: k :: r => do let (a, r) ← parseBV r; return (.sext (← k.toNat?) a, r)
  | "extract" :: hi :: lo :: r => do let (a, r) ← parseBV r; return (.extract (← hi.toNat?) (← lo.toNat?) a, r)
  | "concat" :: r => do
    let (a, r) ← parseBV r
    let (b, r) ← parseBV r
    return (.concat a b, r)
  | "ite" :: r => do
    let (c, r) ← parseB r
    let (a, r) ← parseBV r
    let (b, r) ← parseBV r
    return (.ite c a b, r)
  | _ => none
partial def parseB : List String → Option (BExp × List String)
  | "lit" :: b :: r => some (.lit (b == "1"), r)
  | "cmp" :: op :: r => do
    let o ← cmpOf op
    let (a, r) ← parseBV r
    let (b, r) ← parseBV r
    return (.cmp o a b, r)
  | "bnot" :: r => do let (c, r) ← parseB r; return (.not c, r)
  | "band" :: r => do
    let (c, r) ← parseB r
    let (d, r) ← parseB r
    return (.and c d, r)
  | "bor" :: r => do
    let (c, r) ← parseB r
    let (d, r) ← parseB r
    return (.or c d, r)
  | "ite" :: r => do
    let (c, r) ← parseB r
    let (a, r) ← parseB r
    let (b, r) ← parseB r
    return (.ite c a b, r)
  | _ => none
end

def handleEx (toks : List String) : String :=
  match splitOn ";" toks with
  | [annoT, ordT, exprT] =>
    let annos? : Option (List SI) := if annoT.isEmpty then some [] else (splitOn "|" annoT).mapM parseSI
    let orders? : Option (List (List Nat)) :=
      if ordT.isEmpty then some [] else (splitOn "," ordT).mapM fun l => l.mapM String.toNat?
    match annos?, orders? with
    | some annos, some orders =>
      let anno := fun i => annos.getD i (SI.empty 1)
      match exprT with
      | "B" :: rest =>
        match parseB rest with
        | some (e, []) => showB (do return (← convB anno e orders).1)
        | _ => "bad-expr"
      | "V" :: rest =>
        match parseBV rest with
        | some (e, []) => showR (do return (← convBV anno e orders).1.si)
        | _ => "bad-expr"
      | _ => "bad-expr"
    | _, _ => "bad-arg"
  | _ => "bad-op"

end DriverVSA
