import DriverVSA.ExprOps
import Claripy.VSA.BalancerModel
/-! `balance <anno> | <anno> ... ; <Boolean prefix expression>` — the model of `BackendVSA.constraint_to_si`
(`Claripy/VSA/BalancerModel.lean`).  Answer: `unsat` | `sat <target> = <mn> <mx> : <interval> ; … # <path info>` |
`raise:<Exception>` | `unmodelled:<why>`.  Targets are printed in the prefix syntax of `ex`. -/
namespace DriverVSA
open Claripy.VSA Claripy.VSA.Bal

def binName : BinOp → String
  | .add => "add" | .sub => "sub" | .mul => "mul" | .udiv => "udiv" | .urem => "mod" | .and => "and" | .or => "or"
  | .xor => "xor" | .shl => "shl" | .lshr => "lshr" | .ashr => "ashr"

def cmpName : CmpOp → String
  | .ult => "ULT" | .ule => "ULE" | .ugt => "UGT" | .uge => "UGE" | .slt => "SLT" | .sle => "SLE" | .sgt => "SGT" | .sge => "SGE"
  | .eq => "eq" | .ne => "ne"

mutual
partial def showBV : BV → String
  | .var i w => s!"var {i} {w}"
  | .free i w => s!"free {i} {w}"
  | .const v w => s!"const {v} {w}"
  | .bin op a b => s!"bin {binName op} {showBV a} {showBV b}"
  | .neg a => s!"neg {showBV a}"
  | .not a => s!"not {showBV a}"
  | .zext k a => s!"zext {k} {showBV a}"
  | .sext k a => s!"sext {k} {showBV a}"
  | .extract hi lo a => s!"extract {hi} {lo} {showBV a}"
  | .concat a b => s!"concat {showBV a} {showBV b}"
  | .ite c a b => s!"ite {showBExp c} {showBV a} {showBV b}"
partial def showBExp : BExp → String
  | .lit b => if b then "lit 1" else "lit 0"
  | .cmp op a b => s!"cmp {cmpName op} {showBV a} {showBV b}"
  | .not c => s!"bnot {showBExp c}"
  | .and c d => s!"band {showBExp c} {showBExp d}"
  | .or c d => s!"bor {showBExp c} {showBExp d}"
  | .ite c a b => s!"ite {showBExp c} {showBExp a} {showBExp b}"
end

def showOut (o : Option BalOut) : String :=
  match o with
  | none => "-"
  | some b => (if b.usedMod then "m" else "") ++ (if b.usedPt then "p" else "") ++ "." ++ showBV b.t.lhs

def handleBalance (toks : List String) : String :=
  match splitOn ";" toks with
  | [annoT, exprT] =>
    let annos? : Option (List SI) := if annoT.isEmpty then some [] else (splitOn "|" annoT).mapM parseSI
    match annos?, parseB exprT with
    | some annos, some (c, []) =>
      let anno := fun i => annos.getD i (SI.empty 1)
      match doit anno c with
      | .error (.raise e) => "raise:" ++ e.name
      | .error (.unmodelled why) => "unmodelled:" ++ why
      | .ok .unsat => "unsat"
      | .ok (.sat bs info) =>
        match replacements anno bs with
        | .error (.raise e) => "raise:" ++ e.name
        | .error (.unmodelled why) => "unmodelled:" ++ why
        | .ok l =>
          "sat " ++ " ; ".intercalate (l.map fun r => s!"{showBV r.e} = {r.mn} {r.mx} : {showSI r.si}") ++
            s!" # {showOut info.main} | {showOut info.assum}"
    | _, _ => "bad-arg"
  | _ => "bad-op"

end DriverVSA
