import Claripy.VSA.Balancer
/-! `bal <ule|ult|uge|ugt> <w> <c> <d>` → `lo hi` | `unsat` -/
namespace DriverVSA
open Claripy.VSA

def handleBal (toks : List String) : String :=
  match toks with
  | [op, w, c, d] =>
    match (match op with | "ULE" => some UCmp.ule | "ULT" => some .ult | "UGE" => some .uge | "UGT" => some .ugt | _ => none),
          w.toNat?, c.toNat?, d.toNat? with
    | some o, some w, some c, some d =>
      match balAddPair w o c d with
      | some (lo, hi) => s!"{lo} {hi}"
      | none => "unsat"
    | _, _, _, _ => "bad-arg"
  | _ => "bad-op"

end DriverVSA
