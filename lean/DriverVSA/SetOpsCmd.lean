import DriverVSA.ExprOps
import Claripy.VSA.SetOps
/-!
`so <fn> <w> ; <si> , <si> ... ; (D <si> , ... | S <si> | -) ; <ints> ; <order> / <order> ...` — the set-level functions of
`Claripy/VSA/SetOps.lean` (the terms the theorems of `Props/C23.lean` are stated about), one call per request line.  Members
are listed in the iteration order of the real Python set; every `<order>` is a recorded iteration order (of a result set, of
the set of partial results inside `udiv`/`sdiv`, of the integer set inside `eval`), in the order the function consumes them.

`vs <fn> <w> ; <region> <si> , ... ; <si> ; (S | V) ; <region> <si> , ... ; <si>` — the `ValueSet` functions: the regions of the
first operand in dict order, its summary interval, then the second operand (an interval: `S ; ; <si>`).
Answer: `vs <bits> : <region> <si> , ... | <si>` with the regions sorted by name.
-/
namespace DriverVSA
open Claripy.VSA

def parseOrders (toks : List String) : Option (List (List Nat)) :=
  (splitOn "/" toks).mapM fun l => l.mapM String.toNat?

def showSIv (r : R SI) : String := showVal (r >>= fun s => pure (.si s))

def handleSO (toks : List String) : String :=
  match toks with
  | fn :: w :: ";" :: rest =>
    match w.toNat?, splitOn ";" rest with
    | some w, [aT, bT, exT, ordT] =>
      match parseSIs aT, exT.mapM String.toNat?, parseOrders ordT with
      | some as, some extra, some orders =>
        let a : DSIS := { bits := w, sis := as }
        let bOpt : Option (Option Val) :=
          match bT with
          | ["-"] => some none
          | "D" :: r => (parseSIs r).map fun l => some (.ds { bits := w, sis := l })
          | "S" :: r => (parseSI r).map fun s => some (.si s)
          | _ => none
        match bOpt with
        | none => "bad-arg"
        | some b =>
          match fn, b, extra, orders with
          -- `__eq__` / `__ne__`: the term of `C23_dsis_eq`
          | "eq", some b, [], _ => showB (a.cmp SI.eq b)
          | "ne", some b, [], _ => showB (a.cmp SI.eq b >>= fun r => pure r.not)
          | "widen", some b, [], _ => showSIv (a.widen b)
          | "sdiv", some b, [], [o] => showSIv (a.sdiv b o)
          | "rsub", some (.si s), [], [o1, o2] => showVal (a.rsub s o1 o2)
          | "rudiv", some (.si s), [], [o] => showSIv (a.rudiv s o)
          | "rmod", some (.si s), [], _ => showSIv (a.rmod s)
          | "evalc", none, [n], _ => showInts (a.evalCandidates n)
          | "eval", none, [n], [o] => showInts (a.eval n o)
          | "unionSI", some (.si s), [], [o] => showVal (a.unionSI s o)
          | "unionDS", some (.ds d), [], os => showVal (a.unionDS d os)
          | "meetSI", some (.si s), [], [o] => showVal (a.meetSI s o)
          | "meetDS", some (.ds d), [], os =>
            (match os.reverse with
              | o :: ros => showVal (a.meetDS d ros.reverse o)
              | [] => "bad-arg")
          | "udiv", some b, [], os =>
            let bs := match b with | .si s => [s] | .ds d => d.sis
            (match os.reverse with
              | o :: ros => showVal (a.udivSet bs ros.reverse o)
              | [] => "bad-arg")
          | _, some b, [], _ =>
            -- the eight orderings: the term of `C23_dsis_orderings`
            match cmpOf fn with
            | some op =>
              if op = .eq ∨ op = .ne then "unmodelled"
              else showB (a.cmp (fun ca cb => applyCmp op { si := ca } { si := cb }) b)
            | none => "unmodelled"
          | _, _, _, _ => "unmodelled"
      | _, _, _ => "bad-arg"
    | _, _ => "bad-arg"
  | _ => "bad-op"

/-! value sets -/

def parseRegion (toks : List String) : Option (String × SI) :=
  match toks with
  | name :: r => (parseSI r).map fun s => (name, s)
  | [] => none

def parseRegions (toks : List String) : Option (List (String × SI)) :=
  if toks.isEmpty then some [] else (splitOn "," toks).mapM parseRegion

def insertRegion (x : String × SI) : List (String × SI) → List (String × SI)
  | [] => [x]
  | y :: ys => if x.1 < y.1 then x :: y :: ys else y :: insertRegion x ys

def showVS (r : R VS) : String :=
  match r with
  | .error e => "err:" ++ e.name
  | .ok v =>
    let l := v.regions.foldl (fun acc x => insertRegion x acc) []
    s!"vs {v.bits} : " ++ " , ".intercalate (l.map fun p => p.1 ++ " " ++ showSI p.2) ++ " | " ++ showSI v.si

def handleVS (toks : List String) : String :=
  match toks with
  | fn :: w :: ";" :: rest =>
    match w.toNat?, splitOn ";" rest with
    | some w, [aT, asT, [kind], bT, bsT] =>
      match parseRegions aT, parseSI asT, parseRegions bT, parseSI bsT with
      | some ar, some asi, some br, some bsi =>
        let a : VS := { bits := w, regions := ar, si := asi }
        let b : VS := { bits := w, regions := br, si := bsi }
        match kind, fn with
        -- `__add__`, `__sub__`, `__mod__` with an interval: the terms of `C23_valueset_arith`
        | "S", "add" => showVS (a.mapRegions (fun s => pure (s.add bsi)))
        | "S", "sub" => showVS (a.mapRegions (fun s => pure (s.sub bsi)))
        | "S", "mod" => showVS (a.mapRegions (fun s => s.mod bsi))
        | "S", "union" => showVS (a.unionSI bsi)
        | "S", "widen" => showVS (a.widenSI bsi)
        | "S", "intersection" => showVS (a.meetSI bsi)
        | "V", "union" => showVS (a.unionVS b)
        | "V", "widen" => showVS (a.widenVS b)
        | "V", "intersection" => showVS (a.meetVS b)
        | _, _ => "unmodelled"
      | _, _, _, _ => "bad-arg"
    | _, _ => "bad-arg"
  | _ => "bad-op"

end DriverVSA
