import Driver.Main
