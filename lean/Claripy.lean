import Claripy.Conc.GcGuard
import Claripy.Gen.GcGuard
