import ClaripyProofs.Props.C19
