import ClaripyProofs.Lemmas.VSA.Convert
import ClaripyProofs.Lemmas.VSA.ConvertProved
import ClaripyProofs.Lemmas.VSA.MinMax
import ClaripyProofs.Lemmas.VSA.ConvertAligned
/-!
# C24 — VSA evaluation of expressions over annotated variables over-approximates

`Claripy.VSA.convBV/convB` model `BackendVSA.convert` on the ASTs claripy hands to the backend: operator dispatch,
`apply_annotation` on leaves, `If` (join), `And/Or/Not` on BoolResult, name-based `eq`.  The model is tied to the real
backend by exact correspondence on ~14 k random ASTs per run (harness/props/C24.py).

The theorems are proved by structural induction for ALL ASTs, widths, assignments and set orders, *from* the bundle
`OpsOK` of per-operation obligations (C21/C22: closure under well-formedness and soundness on members).  `OpsOK` is a
hypothesis: its `add` component is proved (C21_add_sound); the remaining components are the open proof obligations of
C21/C22 and are at present established only by correspondence + bounded oracle.
-/
namespace Claripy.Props.C24
open Claripy.VSA

/-- the abstract value of a bit-vector AST is well formed, has the AST's width and contains its concrete value under
every assignment that respects the annotations; a name it still carries means "equal to that variable" -/
theorem C24_convert_sound (H : OpsOK) (anno : Nat → SI) (env : Nat → Nat)
    (hctx : ∀ i, (anno i).WF ∧ (anno i).mem (env i))
    (e : BV) (o o' : Orders) (av : AV) (hwt : WTBV anno env e) (h : convBV anno e o = .ok (av, o'))
    (v : Nat) (hv : evalBV env e = some v) : av.si.WF ∧ av.si.bits = wd e ∧ av.si.mem v :=
  let g := convBV_good H anno env hctx e o av o' hwt h
  ⟨g.1.1, g.1.2, (g.2 v hv).1⟩

/-- **names**: two abstract values that carry the same name (the name of a variable, or the fresh name of a shared
sub-AST that survived `ZeroExt` / non-negative `SignExt` / full `Extract` / a selecting `If`) have the same concrete value
under every assignment - which is what `==` / `!=` answer `True` / `False` on -/
theorem C24_same_name_same_value (H : OpsOK) (anno : Nat → SI) (env : Nat → Nat)
    (hctx : ∀ i, (anno i).WF ∧ (anno i).mem (env i))
    (e1 e2 : BV) (o1 o1' o2 o2' : Orders) (av1 av2 : AV) (hwt1 : WTBV anno env e1) (hwt2 : WTBV anno env e2)
    (h1 : convBV anno e1 o1 = .ok (av1, o1')) (h2 : convBV anno e2 o2 = .ok (av2, o2'))
    (hn : av1.name.isSome = true) (heq : av1.name = av2.name)
    (v1 v2 : Nat) (hv1 : evalBV env e1 = some v1) (hv2 : evalBV env e2 = some v2) : v1 = v2 :=
  nameOK_eq env av1.name v1 v2 hn ((convBV_good H anno env hctx e1 o1 av1 o1' hwt1 h1).2 v1 hv1).2
    (by rw [heq]; exact ((convBV_good H anno env hctx e2 o2 av2 o2' hwt2 h2).2 v2 hv2).2)

/-- Boolean ASTs: the abstract truth value admits every truth value that occurs -/
theorem C24_bool_sound (H : OpsOK) (anno : Nat → SI) (env : Nat → Nat)
    (hctx : ∀ i, (anno i).WF ∧ (anno i).mem (env i))
    (c : BExp) (o o' : Orders) (br : BoolRes) (hwt : WTB anno env c) (h : convB anno c o = .ok (br, o'))
    (b : Bool) (hb : evalB env c = some b) : br.has b = true :=
  convB_good H anno env hctx c o br o' hwt h b hb

/-- `If`: whichever branch the concrete condition selects, its value is in the result (a branch is dropped only when
the abstract condition excludes it); `fresh` = the name a join gets (any) -/
theorem C24_if_join (H : OpsOK) (cv : BoolRes) (x y r : AV) (c : Bool) (vx vy : Nat)
    (hx : x.si.WF ∧ x.si.mem vx) (hy : y.si.WF ∧ y.si.mem vy) (hbits : x.si.bits = y.si.bits)
    (hc : cv.has c = true) (fresh : Option NameKey) (h : iteBV cv x y fresh = .ok r) : r.si.mem (if c then vx else vy) := by
  unfold iteBV at h
  by_cases hT : (!cv.hasTrue) = true
  · rw [if_pos hT] at h
    have := pure_ok _ _ h
    subst this
    cases c with
    | true => simp [BoolRes.has] at hc; simp [hc] at hT
    | false => simpa using hy.2
  · rw [if_neg hT] at h
    by_cases hF : (!cv.hasFalse) = true
    · rw [if_pos hF] at h
      have := pure_ok _ _ h
      subst this
      cases c with
      | false => simp [BoolRes.has] at hc; simp [hc] at hF
      | true => simpa using hx.2
    · rw [if_neg hF] at h
      obtain ⟨u, hu, h⟩ := bind_ok _ _ _ h
      have := pure_ok _ _ h
      subst this
      have := (H.union x.si y.si u hx.1 hy.1 hbits hu).2
      cases c with
      | true => simpa using this vx (Or.inl hx.2)
      | false => simpa using this vy (Or.inr hy.2)

/-- the obligations on the interval queries that SolverVSA forwards to (C22) -/
structure QueriesOK : Prop where
  min : ∀ (s : SI) (m : Int) (x : Nat), s.WF → s.mem x → s.min false = .ok (some m) → m ≤ x
  max : ∀ (s : SI) (m : Int) (x : Nat), s.WF → s.mem x → s.max false = .ok (some m) → (x : Int) ≤ m

/-- `SolverVSA.min/max` (LightFrontend forwards to the backend, ignoring constraints) never exclude a value the
expression takes -/
theorem C24_light_min_max_over (H : OpsOK) (Q : QueriesOK) (anno : Nat → SI) (env : Nat → Nat)
    (hctx : ∀ i, (anno i).WF ∧ (anno i).mem (env i))
    (e : BV) (o o' : Orders) (av : AV) (hwt : WTBV anno env e) (h : convBV anno e o = .ok (av, o'))
    (v : Nat) (hv : evalBV env e = some v) :
    (∀ m, av.si.min false = .ok (some m) → m ≤ v) ∧ (∀ m, av.si.max false = .ok (some m) → (v : Int) ≤ m) := by
  obtain ⟨hw, _, hm⟩ := C24_convert_sound H anno env hctx e o o' av hwt h v hv
  exact ⟨fun m hmin => Q.min av.si m v hw hm hmin, fun m hmax => Q.max av.si m v hw hm hmax⟩

/-! ## with the proved interval operations discharged

EVERY interval operation the backend dispatches to is proved now (C21, C22): `add, sub, mul, udiv, urem, neg, not, and, or,
xor, concat, zero_extend, sign_extend, extract, shl, lshr, ashr`, the join of `If`, the eight orderings, `==` / `!=`.  `OpsRest` is
kept as a hypothesis slot of `convBV_rest_good` but no AST triggers it any more (`usesRestBV_false`), so `C24_sound` below has
no hypothesis on interval operations.  `==` / `!=` / `*` go through the meet, which is sound on ALIGNED operands only (open
findings `C2x/eq|ne|mul|intersection/unsound/unaligned-operand`): the guard `alBV` / `alB` says that the abstract operands at
every `==` / `!=` / `*` node are aligned; it is void for ASTs without these nodes (`alBV_of_noEq`).  `%` needs no guard any more
(`C21_mod_sound`: sound for every divisor).  ASTs here have a
value at every node (`DefBV`); the annotations are in the form the constructor returns (`Nrm`, which is the only form Python
holds), and the induction shows every intermediate abstract value has it too — that is what the signed orderings and the
meet need. -/

/-- bit-vector ASTs: only the obligations of the operations that are not proved remain, and only if the AST uses them -/
theorem C24_convert_sound_rest (anno : Nat → SI) (env : Nat → Nat)
    (hctx : ∀ i, (anno i).WF ∧ (anno i).mem (env i)) (hnrm : ∀ i, Nrm (anno i))
    (e : BV) (R : usesRestBV e = true → OpsRest) (hdef : DefBV env e)
    (o o' : Orders) (hal : alBV anno e o) (av : AV) (hwt : WTBV anno env e) (h : convBV anno e o = .ok (av, o'))
    (v : Nat) (hv : evalBV env e = some v) : av.si.WF ∧ av.si.bits = wd e ∧ av.si.mem v :=
  let g := (convBV_rest_good anno env hctx hnrm e o av o' R hal hdef hwt h).1
  ⟨g.1.1, g.1.2, (g.2 v hv).1⟩

/-- **unconditional on the interval operations** for ASTs built from the proved operations: variables with annotations,
constants, `+ - neg ~ & | ^`, `ZeroExt`, `SignExt`, `Extract`, `Concat`, `/u`, `<<`, `LShR`, `>>` (arithmetic), `If`, the
unsigned and signed orderings, the Boolean connectives, `%`, and `==` / `!=` / `*` under the alignment guard -/
theorem C24_fragment_sound (anno : Nat → SI) (env : Nat → Nat)
    (hctx : ∀ i, (anno i).WF ∧ (anno i).mem (env i)) (hnrm : ∀ i, Nrm (anno i))
    (e : BV) (hfrag : usesRestBV e = false) (hdef : DefBV env e)
    (o o' : Orders) (hal : alBV anno e o) (av : AV) (hwt : WTBV anno env e) (h : convBV anno e o = .ok (av, o'))
    (v : Nat) (hv : evalBV env e = some v) : av.si.WF ∧ av.si.bits = wd e ∧ av.si.mem v :=
  C24_convert_sound_rest anno env hctx hnrm e (fun hh => by rw [hfrag] at hh; cases hh) hdef o o' hal av hwt h v hv

/-- **every AST**: the abstract value contains the concrete value, under the alignment guard at `==` / `!=` / `*` nodes
(for ASTs with a value at every node, over normal annotations) -/
theorem C24_sound (anno : Nat → SI) (env : Nat → Nat)
    (hctx : ∀ i, (anno i).WF ∧ (anno i).mem (env i)) (hnrm : ∀ i, Nrm (anno i))
    (e : BV) (hdef : DefBV env e) (o o' : Orders) (hal : alBV anno e o) (av : AV) (hwt : WTBV anno env e)
    (h : convBV anno e o = .ok (av, o')) (v : Nat) (hv : evalBV env e = some v) :
    av.si.WF ∧ av.si.bits = wd e ∧ av.si.mem v :=
  C24_fragment_sound anno env hctx hnrm e (usesRestBV_false e) hdef o o' hal av hwt h v hv

/-- … and every Boolean AST -/
theorem C24_sound_bool (anno : Nat → SI) (env : Nat → Nat)
    (hctx : ∀ i, (anno i).WF ∧ (anno i).mem (env i)) (hnrm : ∀ i, Nrm (anno i))
    (c : BExp) (hdef : DefB env c) (o o' : Orders) (hal : alB anno c o) (br : BoolRes) (hwt : WTB anno env c)
    (h : convB anno c o = .ok (br, o')) (b : Bool) (hb : evalB env c = some b) : br.has b = true :=
  convB_rest_good anno env hctx hnrm c o br o' (fun hh => by rw [usesRestB_false c] at hh; cases hh) hal hdef hwt h b hb

/-- names, with the proved interval operations: no hypothesis on them left -/
theorem C24_same_name_same_value_proved (anno : Nat → SI) (env : Nat → Nat)
    (hctx : ∀ i, (anno i).WF ∧ (anno i).mem (env i)) (hnrm : ∀ i, Nrm (anno i))
    (e1 e2 : BV) (hdef1 : DefBV env e1) (hdef2 : DefBV env e2) (o1 o1' o2 o2' : Orders)
    (hal1 : alBV anno e1 o1) (hal2 : alBV anno e2 o2) (av1 av2 : AV) (hwt1 : WTBV anno env e1) (hwt2 : WTBV anno env e2)
    (h1 : convBV anno e1 o1 = .ok (av1, o1')) (h2 : convBV anno e2 o2 = .ok (av2, o2'))
    (hn : av1.name.isSome = true) (heq : av1.name = av2.name)
    (v1 v2 : Nat) (hv1 : evalBV env e1 = some v1) (hv2 : evalBV env e2 = some v2) : v1 = v2 :=
  nameOK_eq env av1.name v1 v2 hn
    (((convBV_rest_good anno env hctx hnrm e1 o1 av1 o1' (fun hh => by rw [usesRestBV_false e1] at hh; cases hh) hal1 hdef1 hwt1
      h1).1.2 v1 hv1).2)
    (by rw [heq]; exact ((convBV_rest_good anno env hctx hnrm e2 o2 av2 o2' (fun hh => by rw [usesRestBV_false e2] at hh; cases hh)
      hal2 hdef2 hwt2 h2).1.2 v2 hv2).2)

/-- … without any guard when the AST has no `==` / `!=` / `*` node -/
theorem C24_fragment_noeq_sound (anno : Nat → SI) (env : Nat → Nat)
    (hctx : ∀ i, (anno i).WF ∧ (anno i).mem (env i)) (hnrm : ∀ i, Nrm (anno i))
    (e : BV) (hfrag : usesRestBV e = false) (hnoeq : usesEqBV e = false) (hdef : DefBV env e)
    (o o' : Orders) (av : AV) (hwt : WTBV anno env e) (h : convBV anno e o = .ok (av, o'))
    (v : Nat) (hv : evalBV env e = some v) : av.si.WF ∧ av.si.bits = wd e ∧ av.si.mem v :=
  C24_fragment_sound anno env hctx hnrm e hfrag hdef o o' (alBV_of_noEq anno e o hnoeq) av hwt h v hv

/-- the same for Boolean ASTs -/
theorem C24_fragment_bool_sound (anno : Nat → SI) (env : Nat → Nat)
    (hctx : ∀ i, (anno i).WF ∧ (anno i).mem (env i)) (hnrm : ∀ i, Nrm (anno i))
    (c : BExp) (hfrag : usesRestB c = false) (hdef : DefB env c)
    (o o' : Orders) (hal : alB anno c o) (br : BoolRes) (hwt : WTB anno env c) (h : convB anno c o = .ok (br, o'))
    (b : Bool) (hb : evalB env c = some b) : br.has b = true :=
  convB_rest_good anno env hctx hnrm c o br o' (fun hh => by rw [hfrag] at hh; cases hh) hal hdef hwt h b hb

theorem C24_bool_sound_rest (anno : Nat → SI) (env : Nat → Nat)
    (hctx : ∀ i, (anno i).WF ∧ (anno i).mem (env i)) (hnrm : ∀ i, Nrm (anno i))
    (c : BExp) (R : usesRestB c = true → OpsRest) (hdef : DefB env c)
    (o o' : Orders) (hal : alB anno c o) (br : BoolRes) (hwt : WTB anno env c) (h : convB anno c o = .ok (br, o'))
    (b : Bool) (hb : evalB env c = some b) : br.has b = true :=
  convB_rest_good anno env hctx hnrm c o br o' R hal hdef hwt h b hb

/-- the query obligations are proved (C22_min_max_bound) -/
theorem queriesOK : QueriesOK := ⟨fun s m x hs hx h => min_le s m x hs hx h, fun s m x hs hx h => le_max s m x hs hx h⟩

/-- `SolverVSA.min/max` on an AST of the proved fragment: no hypothesis on interval operations left -/
theorem C24_fragment_min_max_over (anno : Nat → SI) (env : Nat → Nat)
    (hctx : ∀ i, (anno i).WF ∧ (anno i).mem (env i)) (hnrm : ∀ i, Nrm (anno i))
    (e : BV) (hfrag : usesRestBV e = false) (hdef : DefBV env e)
    (o o' : Orders) (hal : alBV anno e o) (av : AV) (hwt : WTBV anno env e) (h : convBV anno e o = .ok (av, o'))
    (v : Nat) (hv : evalBV env e = some v) :
    (∀ m, av.si.min false = .ok (some m) → m ≤ v) ∧ (∀ m, av.si.max false = .ok (some m) → (v : Int) ≤ m) := by
  obtain ⟨hw, _, hm⟩ := C24_fragment_sound anno env hctx hnrm e hfrag hdef o o' hal av hwt h v hv
  exact ⟨fun m hmin => min_le av.si m v hw hm hmin, fun m hmax => le_max av.si m v hw hm hmax⟩

/-- non-vacuity and a bounded sanity fact: `If(x <u 4, x + 1, 0)` with `x ∈ 1[2,6]` at 3 bits -/
def demoExpr : BV := .ite (.cmp .ult (.var 0 3) (.const 4 3)) (.bin .add (.var 0 3) (.const 1 3)) (.const 0 3)
def demoAnno : Nat → SI := fun _ => SI.new 3 1 2 6

theorem test_eval_example :
    (convBV demoAnno demoExpr []).map (fun p => p.1.si) = .ok (SI.new 3 1 3 0) ∧
    evalBV (fun _ => 3) demoExpr = some 4 ∧ evalBV (fun _ => 5) demoExpr = some 0 := by decide

/-- a shared derived node: `ZeroExt(2, x[4:2]) != SignExt(2, x[4:2])` with `x ∈ 1[0,8]` at 5 bits - `x[4:2] ∈ [0,2]` is
non-negative, both extensions keep the (fresh) name of the ONE object the backend holds for `x[4:2]`: `False`, not
`{False, True}`; two different nodes with the same interval still compare by value -/
def demoShared : BExp :=
  .cmp .ne (.zext 2 (.extract 4 2 (.var 0 5))) (.sext 2 (.extract 4 2 (.var 0 5)))

theorem test_shared_name :
    (convB (fun _ => SI.new 5 1 0 8) demoShared []).map (fun p => p.1) = .ok BoolRes.f ∧
    (convB (fun _ => SI.new 5 1 0 8) (.cmp .ne (.zext 2 (.extract 4 2 (.var 0 5))) (.sext 2 (.extract 4 2 (.var 1 5)))) []).map
      (fun p => p.1) = .ok BoolRes.m ∧
    (convBV (fun _ => SI.new 5 1 0 8) (.sext 2 (.extract 4 2 (.var 0 5))) []).map (fun p => p.1.name) =
      .ok (some (.node (.extract 4 2 (.var 0 5)))) := by decide

/-- non-vacuity of `C24_same_name_same_value`: two DIFFERENT ASTs whose abstract values carry the same (derived) name -/
example : (convBV (fun _ => SI.new 5 1 0 8) (.zext 2 (.extract 4 2 (.var 0 5))) []).map (fun p => p.1.name) =
      .ok (some (.node (.extract 4 2 (.var 0 5)))) ∧
    (convBV (fun _ => SI.new 5 1 0 8) (.sext 2 (.extract 4 2 (.var 0 5))) []).map (fun p => p.1.name) =
      .ok (some (.node (.extract 4 2 (.var 0 5)))) := by decide

example : WTBV demoAnno (fun _ => 3) demoExpr := by
  simp only [demoExpr, WTBV, WTB, wd, demoAnno, new_bits]
  decide

/-- a signed comparison is inside the proved fragment; annotations built by the constructor are normal -/
example : usesRestB (.cmp .slt (.var 0 3) (.bin .sub (.var 0 3) (.const 1 3))) = false ∧ Nrm (demoAnno 0) :=
  ⟨by decide, nrm_new _ _ _ _ (by decide)⟩

/-- the bitwise operations and `Concat` are inside the proved fragment -/
example : usesRestBV (.concat (.bin .xor (.bin .and (.var 0 3) (.const 5 3)) (.bin .or (.var 0 3) (.const 2 3))) (.var 1 2)) =
    false := by decide

/-- an `If` on an equality is inside the proved fragment; its guard holds for the aligned demo annotation -/
def demoEq : BV := .ite (.cmp .eq (.bin .and (.var 0 3) (.const 6 3)) (.const 4 3)) (.var 0 3) (.const 0 3)

example : usesRestBV demoEq = false ∧ alBV demoAnno demoEq [] := by
  refine ⟨by decide, ?_⟩
  simp only [demoEq, alBV, alB, true_and]
  refine ⟨⟨(fun _ _ _ _ => ⟨(fun he => (by cases he)), (fun he => (by cases he))⟩), ?_⟩, fun _ _ _ _ => trivial⟩
  intro p1 h1 _ p2 h2
  have e1 : p1 = (AV.mk { bits := 3, stride := 1, lb := 2, ub := 6 } (some (.node (.bin .and (.var 0 3) (.const 6 3)))), []) := by
    have : convBV demoAnno (.bin .and (.var 0 3) (.const 6 3)) [] =
        .ok (AV.mk { bits := 3, stride := 1, lb := 2, ub := 6 } (some (.node (.bin .and (.var 0 3) (.const 6 3)))), []) := by decide
    rw [this] at h1; cases h1; rfl
  subst e1
  have e2 : p2 = (AV.mk (SI.new 3 0 4 4) (some (.node (.const 4 3))), []) := by
    have : convBV demoAnno (.const 4 3) [] = .ok (AV.mk (SI.new 3 0 4 4) (some (.node (.const 4 3))), []) := by decide
    rw [this] at h2; cases h2; rfl
  subst e2
  decide

/-- the demo expression lies in the proved fragment and has a value at every node -/
example : usesRestBV demoExpr = false ∧ DefBV (fun _ => 3) demoExpr := by
  refine ⟨by decide, ?_⟩
  simp only [demoExpr, DefBV, DefB, true_and, and_true]
  exact ⟨4, by decide⟩

/-! ## the alignment guard discharged

EVERY interval operation the backend dispatches to returns an aligned interval (upper bound = a member) when its operands are
aligned and in constructor-normal form: `add, sub, neg, not, and, or, xor, mul, udiv, urem, shl, lshr, ashr, zero_extend,
sign_extend, extract, concat`, the join of `If` (`Lemmas/VSA/Aligned*.lean`, `C21_*_aligned`, `C22_*_aligned`); `neg, not, and, xor,
udiv` (and `mul`, `sub` w.r.t. the subtrahend, `urem` w.r.t. nothing but the dividend) do so whatever the operands are.  The only
interval operation of the class that can turn aligned operands into an unaligned result is `widen` (`C22.widen_breaks_alignment`),
which is not an operator of these ASTs.  Hence the guard `alBV` / `alB` follows from a SYNTACTIC condition on the AST and the
annotations, `guardFreeBV` / `guardFreeB`: below every `==` / `!=` / `*` operand, the annotations of the variables that reach that
position through `+ | % Concat If ZeroExt SignExt Extract` or as the LEFT operand of `- << LShR >>` are aligned (`alSrc`);
variables below a `neg ~ & ^ /u *` node, on the right of `- << LShR >>`, or in an `If` condition, need not be.
With all annotations aligned no condition is left at all (`C24_sound_aligned`). -/

/-- **no alignment guard**: bit-vector ASTs whose `==` / `!=` / `*` operand positions are fed from aligned annotations
(`guardFreeBV`; every operation of the AST language is allowed everywhere) -/
theorem C24_sound_aligned_fragment (anno : Nat → SI) (env : Nat → Nat)
    (hctx : ∀ i, (anno i).WF ∧ (anno i).mem (env i)) (hnrm : ∀ i, Nrm (anno i))
    (e : BV) (hgf : guardFreeBV anno e) (hdef : DefBV env e) (o o' : Orders) (av : AV) (hwt : WTBV anno env e)
    (h : convBV anno e o = .ok (av, o')) (v : Nat) (hv : evalBV env e = some v) :
    av.si.WF ∧ av.si.bits = wd e ∧ av.si.mem v :=
  C24_sound anno env hctx hnrm e hdef o o' (alBV_of_guardFree anno env hctx hnrm e o hgf hdef hwt).1 av hwt h v hv

/-- … Boolean ASTs -/
theorem C24_sound_aligned_fragment_bool (anno : Nat → SI) (env : Nat → Nat)
    (hctx : ∀ i, (anno i).WF ∧ (anno i).mem (env i)) (hnrm : ∀ i, Nrm (anno i))
    (c : BExp) (hgf : guardFreeB anno c) (hdef : DefB env c) (o o' : Orders) (br : BoolRes) (hwt : WTB anno env c)
    (h : convB anno c o = .ok (br, o')) (b : Bool) (hb : evalB env c = some b) : br.has b = true :=
  C24_sound_bool anno env hctx hnrm c hdef o o' (alB_of_guardFree anno env hctx hnrm c o hgf hdef hwt) br hwt h b hb

/-- **every AST over aligned annotations**: the evaluation over-approximates, no guard on the evaluation left (annotations well
formed, normal, aligned — e.g. everything `claripy.SI(...)` builds from a lower bound, a stride and a member count; the AST has a
value at every node) -/
theorem C24_sound_aligned (anno : Nat → SI) (env : Nat → Nat)
    (hctx : ∀ i, (anno i).WF ∧ (anno i).mem (env i)) (hnrm : ∀ i, Nrm (anno i)) (hall : ∀ i, (anno i).Aligned)
    (e : BV) (hdef : DefBV env e) (o o' : Orders) (av : AV) (hwt : WTBV anno env e)
    (h : convBV anno e o = .ok (av, o')) (v : Nat) (hv : evalBV env e = some v) :
    av.si.WF ∧ av.si.bits = wd e ∧ av.si.mem v :=
  C24_sound_aligned_fragment anno env hctx hnrm e (guardFreeBV_of_all anno hall e) hdef o o' av hwt h v hv

theorem C24_sound_aligned_bool (anno : Nat → SI) (env : Nat → Nat)
    (hctx : ∀ i, (anno i).WF ∧ (anno i).mem (env i)) (hnrm : ∀ i, Nrm (anno i)) (hall : ∀ i, (anno i).Aligned)
    (c : BExp) (hdef : DefB env c) (o o' : Orders) (br : BoolRes) (hwt : WTB anno env c)
    (h : convB anno c o = .ok (br, o')) (b : Bool) (hb : evalB env c = some b) : br.has b = true :=
  C24_sound_aligned_fragment_bool anno env hctx hnrm c (guardFreeB_of_all anno hall c) hdef o o' br hwt h b hb

/-- alignment is an invariant of the evaluation: the abstract value of an AST whose alignment-relevant leaves (`alSrc`) carry
aligned annotations is aligned — in particular `max` of it is attained (`C22_max_exact_aligned`) -/
theorem C24_value_aligned (anno : Nat → SI) (env : Nat → Nat)
    (hctx : ∀ i, (anno i).WF ∧ (anno i).mem (env i)) (hnrm : ∀ i, Nrm (anno i))
    (e : BV) (hgf : guardFreeBV anno e) (hsrc : alSrc anno e) (hdef : DefBV env e) (o o' : Orders) (av : AV)
    (hwt : WTBV anno env e) (h : convBV anno e o = .ok (av, o')) : av.si.Aligned :=
  (alBV_of_guardFree anno env hctx hnrm e o hgf hdef hwt).2 hsrc av o' h

/-- `SolverVSA.max` on such an AST is the greatest value of the abstract result (not just a bound) -/
theorem C24_max_attained_aligned (anno : Nat → SI) (env : Nat → Nat)
    (hctx : ∀ i, (anno i).WF ∧ (anno i).mem (env i)) (hnrm : ∀ i, Nrm (anno i))
    (e : BV) (hgf : guardFreeBV anno e) (hsrc : alSrc anno e) (hdef : DefBV env e) (o o' : Orders) (av : AV)
    (hwt : WTBV anno env e) (h : convBV anno e o = .ok (av, o')) (m : Int) (hm : av.si.max false = .ok (some m)) :
    ∃ x, av.si.mem x ∧ (x : Int) = m := by
  obtain ⟨v, hv⟩ := defBV_some env e hdef
  obtain ⟨hw, _, hmem⟩ := C24_sound_aligned_fragment anno env hctx hnrm e hgf hdef o o' av hwt h v hv
  exact max_attained av.si m hw hmem.1 (C24_value_aligned anno env hctx hnrm e hgf hsrc hdef o o' av hwt h) hm

/-- non-vacuity: `demoEq = If((x & 6) == 4, x, 0)` is guard-free over the aligned demo annotation … -/
example : guardFreeBV demoAnno demoEq ∧ alSrc demoAnno demoEq := by
  simp only [demoEq, guardFreeBV, guardFreeB, alSrc, needA, needB, restCmp, true_and, and_true, implies_true, and_self]
  decide

/-- … and stays guard-free when `x` carries the UNALIGNED annotation `2[0,5]` (the operand of `==` is an `&` node, which
re-aligns), whereas `x == 4` itself is not guard-free then -/
example : let anno : Nat → SI := fun _ => { bits := 3, stride := 2, lb := 0, ub := 5 }
    ¬ (anno 0).Aligned ∧ guardFreeB anno (.cmp .eq (.bin .and (.var 0 3) (.const 6 3)) (.const 4 3)) ∧
    ¬ guardFreeB anno (.cmp .eq (.var 0 3) (.const 4 3)) := by
  simp only [guardFreeBV, guardFreeB, alSrc, needA, needB, restCmp, true_and, and_true, implies_true, forall_const]
  decide

end Claripy.Props.C24
