import Claripy.VSA.Conc
import ClaripyProofs.Lemmas.VSA.AddSub
/-! # C24 (placeholder, replaced below) -/
namespace Claripy.Props.C24
end Claripy.Props.C24
