import ClaripyProofs.Lemmas.Solver.Independent
import ClaripyProofs.Lemmas.Solver.Extrema
import ClaripyProofs.Lemmas.Solver.CompositeHistory
import ClaripyProofs.Lemmas.Solver.CompositeQuery
import ClaripyProofs.Lemmas.Solver.CompositeQueries
import ClaripyProofs.Lemmas.Solver.CompositeReabsorb
import ClaripyProofs.Lemmas.Solver.CompositeKeep
import ClaripyProofs.Lemmas.Solver.CompositeReplace
import ClaripyProofs.Lemmas.Solver.CompositeExtrema
import ClaripyProofs.Lemmas.Solver.CompositeExtraQueries
import ClaripyProofs.Lemmas.Solver.CompositeBranch
import ClaripyProofs.Lemmas.Solver.CompositeChildKeeps
/-!
# C12 — SolverComposite answers like a monolithic solver

A SolverComposite keeps variable-disjoint children (class SolverCompositeChild: the C11 stack without the
filtering / expansion layers) and answers a query from the child (or the combination of children) that owns the
variables of the query.  Why that is right — for ANY constraints whose meaning depends only on their variables:
-/
namespace Claripy.Props.C12
open Claripy.Solver Claripy.Gen.SolverMro LayerName

/-- Tie: the children are this stack (the C11 L1/L2/L3 models and theorems apply to them unchanged). -/
theorem C12_mro_child : mro .SolverCompositeChild =
    [ConstraintDeduplicatorMixin, SatCacheMixin, SimplifySkipperMixin, ModelCacheMixin, FullFrontend,
     ConstrainedFrontend, Frontend] := by decide

theorem C12_mro_composite : mro .SolverComposite =
    [ConcreteHandlerMixin, EagerResolutionMixin, ConstraintFilterMixin, ConstraintDeduplicatorMixin, SatCacheMixin,
     SimplifySkipperMixin, SimplifyHelperMixin, ConstraintExpansionMixin, CompositedCacheMixin, CompositeFrontend,
     ConstrainedFrontend, Frontend] := by decide

/-- variable-disjoint constraint sets are jointly satisfiable iff each of them is (`check_satisfiability` checks
the children one by one) -/
theorem C12_independent_sat {A B : List Con} (wfA : ∀ c ∈ A, ConWf c) (wfB : ∀ c ∈ B, ConWf c)
    (hd : DisjointVars A B) : Satisfiable (A ++ B) ↔ Satisfiable A ∧ Satisfiable B :=
  satisfiable_append_iff wfA wfB hd

/-- a value of `e` is feasible for the whole constraint set iff it is feasible for the component owning the
variables of `e` and the other components are satisfiable (`eval`/`solution` ask only the owning child, after
`_ensure_sat`) -/
theorem C12_query_component {A B : List Con} (wfA : ∀ c ∈ A, ConWf c) (wfB : ∀ c ∈ B, ConWf c)
    (hd : DisjointVars A B) (e : Exp) (he : ExpDep e) (heB : ∀ v ∈ e.vars, v ∉ varsOf B) (x : Nat) :
    Feasible (A ++ B) e x ↔ Feasible A e x ∧ Satisfiable B :=
  feasible_component wfA wfB hd e he heB x

/-- … and so is the optimum (`min`/`max`) -/
theorem C12_optimum_component {A B : List Con} (wfA : ∀ c ∈ A, ConWf c) (wfB : ∀ c ∈ B, ConWf c)
    (hd : DisjointVars A B) (e : Exp) (he : ExpDep e) (heB : ∀ v ∈ e.vars, v ∉ varsOf B) (hB : Satisfiable B)
    (isMax signed : Bool) (i : Int) : IsOpt isMax signed (A ++ B) e i ↔ IsOpt isMax signed A e i :=
  isOpt_component wfA wfB hd e he heB hB isMax signed i

/-- non-vacuity: two independent one-variable constraints -/
example : DisjointVars [{ id := 1, vars := [0], sem := fun a => decide (a 0 < 3) }]
                       [{ id := 2, vars := [1], sem := fun a => decide (a 1 = 6) }] := by
  intro v hv; simp [varsOf] at hv ⊢; subst hv; decide

/-! ### the bookkeeping of the composite

`Claripy/Solver/Composite.lean` transcribes class `CompositeFrontend` (`_solvers`, `_unchecked_solvers`, `_owned_solvers`, `_unsat`,
`_solver_for_names`, `_claim`, `_store_child`, `_add`, `check_satisfiability`, the queries with `_reabsorb_solver`, `simplify` with
`_split_child`, `branch`, pickling) over a world of SolverCompositeChild frontends (the C11 model), with what the child class has
beyond the `Ops` table (`combine`, `split`, `update`, `check_satisfiability`).  `CInv` is its invariant. -/

variable {E : Env} {R : Con → Prop} {RE : Exp → Prop}

/-- **the children partition the composite's constraints into variable-disjoint groups.**  Whenever the invariant holds:
two different children that `_solvers` points to know no common variable; every constraint a child holds mentions variables of
that child only; and (unless `_unsat` is set, in which case the user's constraints are unsatisfiable) an assignment satisfies
what the user added iff it satisfies the constraints held by every child. -/
theorem C12_children_partition {U : List Con} {Us : List (List Con)} {s : CSt} (h : CInv R RE E U Us s) :
    (∀ i ∈ s.c.solverList, ∀ j ∈ s.c.solverList, i ≠ j → ∀ v ∈ (s.child i).variables, v ∉ (s.child j).variables) ∧
    (∀ j ∈ s.c.solverList, ∀ c ∈ (s.child j).constraints, ∀ v ∈ c.vars, v ∈ (s.child j).variables) ∧
    (s.c.unsat = false → ∀ a, Models U a ↔ ∀ j ∈ s.c.solverList, Models (s.child j).constraints a) ∧
    (s.c.unsat = true → ¬ Satisfiable U) := by
  have hlt : ∀ j ∈ s.c.solverList, j < s.w.fes.length := by
    intro j hj
    obtain ⟨v, hv⟩ := (mem_solverList' _ h.nodup j).mp hj
    exact (h.map v j hv).1
  refine ⟨fun i hi j hj hij => h.disjoint hi hj hij, fun j hj => h.child_vars (hlt j hj), fun hu a => ?_, h.unsatOk⟩
  rw [h.sem hu a]
  exact ⟨fun ha j hj => (h.child_models (hlt j hj) a).mpr (ha j hj), fun ha j hj => (h.child_models (hlt j hj) a).mp (ha j hj)⟩

/-- the empty composite satisfies the invariant -/
theorem C12_invariant_init (track : Bool) : CInv R RE E [] [] { c := { track := track }, w := { fes := [] } } :=
  cinv_init R RE E track

/-- **`add` keeps the partition** (`CompositeFrontend._add`: the new constraints are split into independent groups; for each group
the children owning one of its variables are found (`_solver_for_names`: the closure loop finds exactly those), merged, claimed
copy-on-write, given the constraints and stored, `_store_child` re-pointing every variable of the child; a concretely false
constraint sets `_unsat`).  The merged child is what `combine` builds: `C12_combine_correct`. -/
theorem C12_add_keeps_partition (H : SolverHyps R RE E) {U : List Con} {Us : List (List Con)} {s : CSt}
    (h : CInv R RE E U Us s) (cs : List Con) (hcs : ∀ c ∈ cs, R c) (hconc : ∀ c ∈ cs, c.vars = [] → c.conc ≠ none) :
    ∃ added Us' s', compAdd E cs s = (.ok added, s') ∧ CInv R RE E (U ++ cs) Us' s' :=
  compAdd_spec H (childFoot H) (combineSpec H (childFoot H)) h cs hcs hconc

/-- the step for one independent group (`_add_dependent_constraints`): the children owning a variable of the group are replaced
by one child holding their constraints and the new ones; the other children are not touched -/
theorem C12_add_dependent_keeps_partition (H : SolverHyps R RE E) {U : List Con}
    {Us : List (List Con)} {s : CSt} (h : CInv R RE E U Us s) (names : List Var) (cs : List Con) (hcs : ∀ c ∈ cs, R c)
    (hcv : ∀ c ∈ cs, ∀ v ∈ c.vars, v ∈ names) (hne : cs ≠ []) (hvne : ∀ c ∈ cs, c.vars ≠ []) :
    ∃ added Us' s', addDependent E names cs s = (.ok added, s') ∧ (∀ c ∈ added, c ∈ cs) ∧ CInv R RE E (U ++ cs) Us' s' :=
  addDependent_spec H (childFoot H) (combineSpec H (childFoot H)) h names cs hcs hcv hne hvne

/-- **`satisfiable()` answers for the whole constraint list** (no extra constraints): the unchecked children are asked one by one
(`check_satisfiability` of the child class: cached verdict, trivial-constraint shortcut, backend); independent children have a
joint model (`children_joint_model`, the n-ary form of `C12_independent_sat`), so the composite is satisfiable iff all are -/
theorem C12_satisfiable_correct (H : SolverHyps R RE E) {U : List Con} {Us : List (List Con)} {s : CSt}
    (h : CInv R RE E U Us s) :
    match compSatisfiable E [] s with
    | (.ok b, s') => (b = true ↔ Satisfiable U) ∧ CInv R RE E U Us s'
    | (.error e, s') => IsGiveUp E e ∧ CInv R RE E U Us s' :=
  compSatisfiable_spec H (childFoot H) h

/-- the children's footprint the bookkeeping relies on (their queries never change `variables` / `constraints`; cached models
mention the child's variables only) -/
theorem C12_child_footprint (H : SolverHyps R RE E) : ChildFoot R RE E := childFoot H

/-- **`combine` delivers the merged child** (`ConstrainedFrontend.combine` + `ModelCacheMixin.combine`, called by
`_solver_for_names` when the names are owned by several children `j :: rest`): a new child that satisfies the C11 invariant
for the conjunction of the parts' constraints, knows exactly their variables, and whose cached models (the first
`len(self._models)` products of one cached model per part, in whatever order `itertools.product` walks the sets) are all
valid; nobody else changes.  This was the hypothesis `CombineSpec` of the earlier rounds. -/
theorem C12_combine_correct (H : SolverHyps R RE E) : CombineSpec R RE E := combineSpec H (childFoot H)

/-- the reason the cache part is right: cached models are dicts over the child's own variables (`KeysInv`, part of `CInv`), the
children share no variable, so the product of one cached model per child agrees on each child's variables with the model
taken from that child and satisfies every child's constraints -/
theorem C12_combine_models_valid (H : SolverHyps R RE E) {U : List Con} {Us : List (List Con)} {s : CSt}
    (h : CInv R RE E U Us s) (L : List Nat) (hnd : L.Nodup) (hin : ∀ j ∈ L, j ∈ s.c.solverList) (t : List PModel)
    (ht : List.Forall₂ (fun m j => m ∈ (s.child j).models) t L) :
    ∀ j ∈ L, Models (s.child j).constraints ((PModel.combine t).complete E.dflt) :=
  combine_valid H.reg h L hnd hin t ht

/-- **histories of `add` / `satisfiable()`** on one CompositeFrontend, from the empty one: every answer is the one the property
statement demands for ALL the constraints added so far (or an honest give-up of a child's backend) -/
theorem C12_composite_partial (H : SolverHyps R RE E) (track : Bool) (hist : List Op)
    (hok : ∀ op ∈ hist, InScopeCP R op) :
    ∀ x ∈ runComp E { c := { track := track }, w := { fes := [] } } [] hist, JudgeOrGiveUp E x.1 x.2.1 x.2.2 :=
  comp_hist H hist _ _ _ (cinv_init R RE E track) hok

/-- non-vacuity: the hypotheses hold in the consistent environment of C11, for a history that constrains, asks, pins, asks,
adds a concretely false constraint, asks -/
example : SolverHyps cR cRE cEnv ∧ ∀ op ∈ cCompHist, InScopeCP cR op :=
  ⟨cHyps, cCompHist_ok⟩

example : ∀ x ∈ runComp cEnv { c := {}, w := { fes := [] } } [] cCompHist, JudgeOrGiveUp cEnv x.1 x.2.1 x.2.2 :=
  C12_composite_partial cHyps false cCompHist cCompHist_ok

/-! ### the other queries: the child owning the variables answers for everything -/

/-- what `_solver_for_names(names)` hands back (`Merged`: one of the children, a blank one, or the `combine` of several), seen
from everything the user added: every model of `U` is a model of the merged child, and — when every child is satisfiable, which
`_ensure_sat` has just checked — every model of the merged child extends to a model of `U` without changing `names` or the
child's variables (n-ary `C12_query_component`: `children_joint_model` over `C12_children_partition`) -/
theorem C12_merged_child_vs_all (H : SolverHyps R RE E) {U : List Con} {Us Us1 : List (List Con)} {s s1 : CSt}
    (h : CInv R RE E U Us s) (names : List Var) (m : Nat) (hm : Merged R RE E Us Us1 s s1 names m) (hu : s.c.unsat = false) :
    (∀ a, Models U a → Models (Us1.getD m []) a) ∧
    ((∀ j ∈ s.c.solverList, Satisfiable (Us.getD j [])) → Equi names U (Us1.getD m [])) :=
  merged_equi H h names m hm hu

/-- **`eval(e, n)` of the composite answers for ALL the constraints added** (registered symbolic `e`, no extra constraints), in any
state satisfying the invariant: `_ensure_sat` (`C12_satisfiable_correct`), the merged solver of the variables of `e`
(`C12_combine_correct`), the child's answer (`C11_child_step`), the transfer (`C12_merged_child_vs_all`); `_reabsorb_solver` does
not raise (`C12_reabsorb_never_raises`).  A give-up of a child's backend is reported as such. -/
theorem C12_eval_correct (H : SolverHyps R RE E) {U : List Con} {Us : List (List Con)} {s : CSt} (h : CInv R RE E U Us s)
    (e : Exp) (n : Nat) (he : RE e) (hc : e.conc = none) (hn : 1 ≤ n) :
    JudgeOrGiveUp E U (.eval e n []) (compStep E s (.eval e n [])).1 :=
  compEval_judge H h e n he hc hn

/-- **`is_true` / `is_false` of the composite** with any extra constraints: a `True` is right for all the constraints added -/
theorem C12_is_true_correct (H : SolverHyps R RE E) {U : List Con} {Us : List (List Con)} {s : CSt} (h : CInv R RE E U Us s)
    (c : Con) (extra : List Con) : JudgeOrGiveUp E U (.isTrue c extra) (compStep E s (.isTrue c extra)).1 :=
  compTruth_judge H h true c extra

theorem C12_is_false_correct (H : SolverHyps R RE E) {U : List Con} {Us : List (List Con)} {s : CSt} (h : CInv R RE E U Us s)
    (c : Con) (extra : List Con) : JudgeOrGiveUp E U (.isFalse c extra) (compStep E s (.isFalse c extra)).1 :=
  compTruth_judge H h false c extra

/-- **`batch_eval(es, n)` of the composite answers for ALL the constraints added** (registered symbolic expressions, no extra
constraints), in any state satisfying the invariant: the generic query theorem `compQuery_judge` (the shape `_ensure_sat`, merged
solver, the child's answer, `_reabsorb_solver`) with the footprint of the child's `batch_eval` (`child_batchEval_foot`) and the
transfer of tuples (`Equi.judge_batchEval`). -/
theorem C12_batch_eval_correct (H : SolverHyps R RE E) {U : List Con} {Us : List (List Con)} {s : CSt} (h : CInv R RE E U Us s)
    (es : List Exp) (n : Nat) (hne : es ≠ []) (hes : ∀ e ∈ es, RE e ∧ e.conc = none) (hn : 1 ≤ n) :
    JudgeOrGiveUp E U (.batchEval es n []) (compStep E s (.batchEval es n [])).1 :=
  compBatchEval_judge H h es n hne hes hn

/-- **`solution(e, x)` of the composite answers for ALL the constraints added** (registered symbolic `e`, an integer `x` in range,
no extra constraints): footprint `child_solution_foot`, transfer `Equi.judge_solution` -/
theorem C12_solution_correct (H : SolverHyps R RE E) {U : List Con} {Us : List (List Con)} {s : CSt} (h : CInv R RE E U Us s)
    (e : Exp) (x : Nat) (he : RE e) (hc : e.conc = none) (hx : x < 2 ^ e.bits) :
    JudgeOrGiveUp E U (.solution e x []) (compStep E s (.solution e x [])).1 :=
  compSolution_judge H h e x he hc hx

/-- the footprints of the child calls used (`variables` / `constraints` unchanged, cached models stay over the variables) -/
theorem C12_child_footprint_batch_solution (H : SolverHyps R RE E) (G : St → Prop) (U : List Con) :
    (∀ es n extra s, SI R RE E G U s → FootQ s ((childOps E).batchEval es n extra s).2) ∧
    (∀ e x extra s, SI R RE E G U s → FootQ s ((childOps E).solution e x extra s).2) :=
  ⟨fun es n extra s hs => child_batchEval_foot H es n extra s hs, fun e x extra s hs => child_solution_foot H e x extra s hs⟩

/-- `_reabsorb_solver(m)` does not raise when every variable of `m` is a key of `_solvers` (`split()` of the temporary child
succeeds; the least variable of every part is a key) -/
theorem C12_reabsorb_never_raises (H : SolverHyps R RE E) {Us : List (List Con)} {s : CSt} (hw : TInvS R RE E Us s.w)
    (hre : s.w.reuse = false) (m : Nat) (hm : m < s.w.fes.length)
    (hkeys : ∀ v ∈ (s.child m).variables, ∃ t, alGet? s.c.solvers v = some t) : ∃ s', reabsorb E m s = (.ok (), s') :=
  reabsorb_ok H hw hre m hm hkeys

/-- **any history of `add` / `satisfiable()` followed by one query** (`eval` without extra constraints, `is_true` / `is_false`
with any): the query is answered as the property statement demands for all the constraints added -/
theorem C12_query_after_history_partial (H : SolverHyps R RE E) (track : Bool) (hist : List Op)
    (hok : ∀ op ∈ hist, InScopeCP R op) (op : Op) (hop : InScopeCQ RE op) :
    JudgeOrGiveUp E (usersAfterOps [] hist) op
      (compStep E (compRun E { c := { track := track }, w := { fes := [] } } hist) op).1 := by
  obtain ⟨Us', hinv⟩ := comp_hist_inv H hist _ [] [] (cinv_init R RE E track) hok
  exact comp_query_step H hinv op hop

/-- non-vacuity: constrain, ask, pin, then `eval` of the variable -/
example : JudgeOrGiveUp cEnv (usersAfterOps [] [.add [cCon], .satisfiable [], .add [cEq]]) (.eval cExp 2 [])
    (compStep cEnv (compRun cEnv { c := {}, w := { fes := [] } } [.add [cCon], .satisfiable [], .add [cEq]]) (.eval cExp 2 [])).1 :=
  C12_query_after_history_partial cHyps false _
    (fun op hop => cCompHist_ok op (by
      simp only [List.mem_cons, List.not_mem_nil, or_false] at hop
      rcases hop with rfl | rfl | rfl <;> simp [cCompHist]))
    _ ⟨rfl, rfl, by decide, rfl⟩

/-- **any history of `add` / `satisfiable()` followed by one query** — `eval`, `batch_eval`, `solution` without extra constraints,
`is_true` / `is_false` with any -/
theorem C12_value_query_after_history_partial (H : SolverHyps R RE E) (track : Bool) (hist : List Op)
    (hok : ∀ op ∈ hist, InScopeCP R op) (op : Op) (hop : InScopeCQ2 RE op) :
    JudgeOrGiveUp E (usersAfterOps [] hist) op
      (compStep E (compRun E { c := { track := track }, w := { fes := [] } } hist) op).1 := by
  obtain ⟨Us', hinv⟩ := comp_hist_inv H hist _ [] [] (cinv_init R RE E track) hok
  exact comp_query_step2 H hinv op hop

/-- non-vacuity: constrain, ask, pin, then `batch_eval` / `solution` of the variable -/
example : InScopeCQ2 cRE (.batchEval [cExp] 2 []) ∧ InScopeCQ2 cRE (.solution cExp 1 []) :=
  ⟨⟨by simp, fun e he => by simp at he; subst he; exact ⟨rfl, rfl⟩, by decide, rfl⟩, ⟨rfl, rfl, by decide, rfl⟩⟩

/-! ### `simplify` does NOT keep the partition (the code as written; answers are not affected)

A child's `variables` only grows: when `simplify()` rewrites `x + (y & ~y) < 3` to `x < 3` the child still lists `y`.  A later constraint
connecting `x` with another child makes `_solver_for_names` combine the two; the combined child knows `x` and `z`, `_store_child`
re-points those, `_solvers["y"]` keeps the old child alive — two children now share `x` (and the constraint `x < 3`).  Same
observation as the open finding of C15 (overlapping parts from `split()`); replayed on the real classes CompositeFrontend and
SolverComposite (design_notes/C12.md). -/

def sCxy : Con := { id := 1, vars := [0, 1], sem := fun a => decide (a 0 % 256 < 3) }
def sCx : Con := { id := 4, vars := [0], sem := fun a => decide (a 0 % 256 < 3) }
def sCz : Con := { id := 2, vars := [2], sem := fun a => decide (a 2 % 256 < 9) }
def sLink : Con := { id := 3, vars := [0, 2], sem := fun a => decide ((a 0 + 1) % 256 = a 2 % 256) }
/-- a simplifier that is an equivalence and invents no variable: it drops the variable `sCxy` does not depend on -/
def sEnv : Env :=
  { dflt := fun _ => 0, oracle := fun _ _ => .unknown, build := fun _ => default, falseCon := default,
    cheapFalse := fun _ _ _ => false, truth := fun _ _ _ => false,
    simp := fun cs _ => cs.map fun c => if c.id = 1 then sCx else c, pick := fun all n _ => all.take n }

def stateAfter (E : Env) : CSt → List Op → CSt
  | s, [] => s
  | s, op :: rest => stateAfter E (compStep E s op).2 rest

/-- two different children of the list know a common variable -/
def childrenOverlap (s : CSt) : Bool :=
  s.c.solverList.any fun i => s.c.solverList.any fun j => i != j && (s.child i).variables.any (s.child j).variables.contains

/-- the simplifier used is semantically the identity -/
example : ∀ a, sCx.sem a = sCxy.sem a := fun _ => rfl

/-- **witness**: add, add, simplify, add — the children then overlap; without the `simplify` they do not -/
theorem C12_simplify_breaks_partition :
    childrenOverlap (stateAfter sEnv {} [.add [sCxy], .add [sCz], .simplify, .add [sLink]]) = true ∧
    childrenOverlap (stateAfter sEnv {} [.add [sCxy], .add [sCz], .add [sLink]]) = false := by decide +kernel

/-- towards `_reabsorb_solver`, case `len(parts) == len(old)`: **a model that `update` hands to an old child is a model of that
child's constraints** — it is the restriction to the part's variables of a model `m` of all the merged constraints `Um` (which imply
the child's `Ut`), and `update` accepts it only when its key set is the child's variable set, so it agrees with `m` wherever `Ut`
looks.  No assumption on how the parts relate to the old children ("every child is connected" is not needed). -/
theorem C12_update_accepts_valid (dflt : Var → Nat) {Um Ut : List Con} (hwf : ∀ c ∈ Ut, ConWf c) (tvars pvars : List Var)
    (hvars : ∀ v ∈ varsOf Ut, v ∈ tvars) (himp : ∀ a, Models Um a → Models Ut a) (m : PModel)
    (hm : Models Um (m.complete dflt)) (hacc : sameSet (modelKeys (m.restrict pvars)) tvars = true) :
    Models Ut ((m.restrict pvars).complete dflt) :=
  update_accepts_valid dflt hwf tvars pvars hvars himp m hm hacc

/-- non-vacuity: the model `{x: 5, y: 7}` of `[x == 5, y-tautology]`, the part `{x}`, the child `x == 5` over `{x}` -/
example : sameSet (modelKeys (PModel.restrict [(0, 5), (1, 7)] [0])) [0] = true := by decide

/-! ### a record with exhausted-markers and NO cached model (why the marker clauses of C11's `MCInv` are guarded)

`CInv.kids` demands the C11 invariant of EVERY record of the world of children, the parts that `split()` creates inside
`_reabsorb_solver` included.  `ModelCacheMixin.split` gives a part the filtered models of the solver that was split — replacing what
the part's own `add` cached.  A part whose only constraint is `BVS == BVV` got, from `_trivial_model_optimization` in that `add`, the
five exhausted-markers for the variable AND the trivial model; after the replacement it keeps the markers, and holds no model at all
when the split solver had none (the merged solver answered without a Z3 model to cache: `solution()` answered `False` here).
Reading a marker as "every feasible value is the value of a cached model" (the form `MCInv` had) is false for that record
(`C12_reabsorb_marker_without_model`).  The real class is not wrong about anything: every use of a marker is guarded by
`len(results) > 0` / `len(cached) > 0` (batch_eval, min, max).  Reproduced on the real class with `_model_hook` silenced
(design_notes/C12.md).  `MCInv` now says what the code maintains and needs: a marked expression has one value at most under the
constraints, or all its values are cached — under the guard of the code (some model cached) that IS the old reading
(`C12_marker_guarded`), it holds of this record, and it survives the caching of any valid model later on. -/

def wCx : Con := { id := 1, vars := [0], sem := fun a => decide (a 0 = 5), triv := some (0, 5, 100) }
/-- a constraint on `y` that every value satisfies (so that Z3 need not mention `y` in a model) -/
def wCy : Con := { id := 2, vars := [1], sem := fun _ => true }
/-- the expression `BVS x` -/
def wX : Exp := { id := 100, bits := 8, vars := [0], val := fun a => a 0 }
/-- an expression over `x` and `y` -/
def wE : Exp := { id := 7, bits := 8, vars := [0, 1], val := fun a => a 0 }
def wA0 : Asg := fun v => if v = 0 then 5 else 0
/-- Z3 answers every query of the run exactly (`sat` with the model `x = 5`, which mentions `x` only; `unsat` for `x == 7`); the set of
the two children is listed `y`-child first -/
def wEnv : Env :=
  { dflt := fun _ => 0, oracle := fun q _ => if q.holds wA0 then .sat [5, 0] [0] else .unsat [],
    build := fun _ => default, falseCon := default,
    cheapFalse := fun _ _ _ => false, truth := fun _ _ _ => false,
    simp := fun cs _ => cs, pick := fun all n _ => (all.take n).reverse }

def wHist : List Op := [.add [wCx], .add [wCy], .solution wE 7 []]

/-- record 5 of the world (the part for `x` that `split()` made inside `_reabsorb_solver`): no cached model, an eval-exhausted
marker, one constraint, which `x = 5` satisfies; the children `_solvers` points to are records 1 and 3 -/
def wCheck (s : CSt) : Bool :=
  decide (5 < s.w.fes.length) && (s.w.fes.getD 5 {}).models.isEmpty && (s.w.fes.getD 5 {}).evalExh == [100] &&
  (match (s.w.fes.getD 5 {}).constraints with | [c] => c.sem wA0 | _ => false) && s.c.solverList == [1, 3]

theorem test_wCheck : wCheck (stateAfter wEnv {} wHist) = true := by decide +kernel

/-- **witness**: after `add(x == 5)`, `add(<tautology about y>)`, `solution(<x, y>, 7)` record 5 of the world carries the
eval-exhausted marker of `BVS x` and no model, while `x = 5` is feasible for it: the unguarded reading of the marker ("every feasible
value is the value of a cached model") is false in every state-invariant, whatever the ghost lists -/
theorem C12_reabsorb_marker_without_model (R : Con → Prop) (RE : Exp → Prop) (U : List Con) (Us : List (List Con))
    (h : CInv R RE wEnv U Us (stateAfter wEnv {} wHist)) :
    wX.id ∈ ((stateAfter wEnv {} wHist).w.fes.getD 5 {}).evalExh ∧ ((stateAfter wEnv {} wHist).w.fes.getD 5 {}).models = [] ∧
    ¬ (∀ v, Feasible (Us.getD 5 []) wX v →
        ∃ m ∈ ((stateAfter wEnv {} wHist).w.fes.getD 5 {}).models, wX.val (m.complete wEnv.dflt) = v) := by
  have hchk := test_wCheck
  generalize stateAfter wEnv {} wHist = s at h hchk
  simp only [wCheck, Bool.and_eq_true, decide_eq_true_eq, List.isEmpty_iff, beq_iff_eq] at hchk
  obtain ⟨⟨⟨⟨hlt, hmod⟩, hexh⟩, hcons⟩, _⟩ := hchk
  have hsi := h.kids.each 5 hlt
  have hfe : (stOfI s.w 5).fe = s.w.fes.getD 5 {} := rfl
  have hm : Models (Us.getD 5 []) wA0 := by
    refine (hsi.base.models_iff wA0).mp ?_
    rw [hfe]
    split at hcons
    · rename_i c hc
      rw [hc]
      intro c' hc'
      simp only [List.mem_singleton] at hc'
      subst hc'; exact hcons
    · cases hcons
  refine ⟨by rw [hexh]; simp [wX], hmod, fun hall => ?_⟩
  obtain ⟨m, hmem, _⟩ := hall (wX.val wA0) ⟨wA0, hm, rfl⟩
  rw [hmod] at hmem
  cases hmem

/-- **under the guard of the code the marker means what it meant**: with some model cached, every value a marked expression can
take is the value of a cached model (what `batch_eval` uses), and no value beats all cached ones (what `min` / `max` use) -/
theorem C12_marker_guarded {RE : Exp → Prop} {E : Env} {U : List Con} {fe : Frontend} (h : MCInv RE E U fe)
    (hne : fe.models ≠ []) (e : Exp) (he : RE e) :
    (e.id ∈ fe.evalExh → ∀ v, Feasible U e v → ∃ m ∈ fe.models, e.val (m.complete E.dflt) = v) ∧
    (∀ isMax signed, e.id ∈ optFlags isMax signed fe → ∀ v, Feasible U e v →
      ∃ m ∈ fe.models, Beats isMax signed e.bits (e.val (m.complete E.dflt)) v) :=
  ⟨fun hi v hv => h.evalExh hne e he hi v hv, fun isMax signed hi v hv => h.opt hne isMax signed e he hi v hv⟩

/-- without the guard: one value at most, or all values cached -/
theorem C12_marker_unguarded {RE : Exp → Prop} {E : Env} {U : List Con} {fe : Frontend} (h : MCInv RE E U fe) (e : Exp)
    (he : RE e) (hi : e.id ∈ fe.evalExh) :
    ConstUnder U e ∨ ∀ v, Feasible U e v → ∃ m ∈ fe.models, e.val (m.complete E.dflt) = v := h.evalExhW e he hi

/-- the answers of that history are the right ones -/
theorem test_wAnswers : (runComp wEnv {} [] wHist).map (·.2.2) = [.cons [1], .cons [2], .bool false] := by decide +kernel

/-! ### histories that go on after a query

`_solver_for_names` puts a merged child into the world that `_solvers` does not point to; the child's query fills its caches;
`_reabsorb_solver` hands the findings back.  `CInv` is kept by the first two whatever the query (`CInv.of_world`), and by the third
  * when the names of the query belong to ONE child at most (then `_solver_for_names` returns that child, or a blank one, and
    `_reabsorb_solver` returns at once: `C12_reabsorb_noop`) — statically: all names of the query are one variable (`OneName`);
  * in general: `ReabsorbKeeps` — proved (`C12_reabsorb_keeps_invariant`, Lemmas/Solver/CompositeSplit / CompositeUpdate /
    CompositeReplace.lean): `split()` makes parts that satisfy the C11 invariant (their markers are those of
    `_trivial_model_optimization`: one value at most — the corrected `MCInv`), know pairwise disjoint variable sets covering the
    merged child's variables and hold all its constraints that have variables; in the branch `len(parts) == len(old)` `update`
    hands models (`C12_update_accepts_valid`) and markers (`part_marker_const`) to the old children, in the other branch the parts
    replace the children (`storeAll`); the variable-less constraints of the merged child are dropped there, harmlessly: the merged
    child is satisfiable, so they are true. -/

/-- `_reabsorb_solver(m)` does nothing when `m` knows no variable, or is the child `_solvers` has for its least variable -/
theorem C12_reabsorb_noop (E : Env) (s : CSt) (m : Nat)
    (h : (s.child m).variables = [] ∨ alGet? s.c.solvers (minVar (s.child m).variables) = some m) :
    reabsorb E m s = (.ok (), s) := reabsorb_noop s m h

/-- **one call keeps the invariant and is answered as `Judge` demands**: `add`, `satisfiable()`, `eval` / `batch_eval` /
`solution` (no extra constraints; name sets allowed by `K`: one child at most owns them in this state — `UniqOwner`, e.g. all names
are one variable —, or `ReabsorbKeeps`), `is_true` / `is_false` (any extra constraints) -/
theorem C12_call_keeps_invariant {E : Env} {R : Con → Prop} {RE : Exp → Prop} (H : SolverHyps R RE E) {K : List Var → Prop}
    {U : List Con} {Us : List (List Con)} {s : CSt} (hK : ∀ names, K names → UniqOwner s.c names ∨ ReabsorbKeeps R RE E)
    (h : CInv R RE E U Us s) (op : Op) (hop : InScopeCH R RE K op) :
    JudgeOrGiveUp E (usersAfter U op) op (compStep E s op).1 ∧ ∃ Us', CInv R RE E (usersAfter U op) Us' (compStep E s op).2 :=
  comp_step2 H hK h op hop

/-- **ANY history** of `add` / `satisfiable()` / `eval` / `batch_eval` / `solution` / `is_true` / `is_false` on one
CompositeFrontend, from the empty composite, the value queries about one variable each (any number of constraints over any
variables in between: the children merge and grow as the constraints connect them): EVERY answer of the model is the one `Judge`
demands for all the constraints added so far (or an honest give-up of a child's backend).  No hypothesis besides `SolverHyps`.
Superseded by `C12_composite_history` (any variables), kept because its proof does not go through `_reabsorb_solver` at all. -/
theorem C12_composite_history_partial {E : Env} {R : Con → Prop} {RE : Exp → Prop} (H : SolverHyps R RE E) (track : Bool)
    (hist : List Op) (hok : ∀ op ∈ hist, InScopeCH R RE OneName op) :
    ∀ x ∈ runComp E { c := { track := track }, w := { fes := [] } } [] hist, JudgeOrGiveUp E x.1 x.2.1 x.2.2 :=
  comp_hist2 H (fun _ hk => Or.inl hk) hist _ [] [] (cinv_init R RE E track) hok

/-- the invariant holds at the end of such a history (so: at every point of it) -/
theorem C12_composite_history_invariant {E : Env} {R : Con → Prop} {RE : Exp → Prop} (H : SolverHyps R RE E) (track : Bool)
    (hist : List Op) (hok : ∀ op ∈ hist, InScopeCH R RE OneName op) :
    ∃ Us, CInv R RE E (usersAfterOps [] hist) Us (compRun E { c := { track := track }, w := { fes := [] } } hist) :=
  comp_hist2_inv H (fun _ hk => Or.inl hk) hist _ [] [] (cinv_init R RE E track) hok

/-- **ANY history in which every value query finds its names within ONE child** (`OwnersOk`: at the moment of the query the
variables of its expressions were connected by constraints added before, or are one variable, or are unknown — a condition on the
dict `_solvers` along the run, checkable by running the model; `ownersOk_of_oneName`: one-variable queries satisfy it in every run):
every answer is the one `Judge` demands.  Expressions over any number of variables. -/
theorem C12_composite_history_one_owner_partial {E : Env} {R : Con → Prop} {RE : Exp → Prop} (H : SolverHyps R RE E)
    (track : Bool) (hist : List Op) (hok : ∀ op ∈ hist, InScopeCH R RE (fun _ => True) op)
    (hown : OwnersOk E { c := { track := track }, w := { fes := [] } } hist) :
    ∀ x ∈ runComp E { c := { track := track }, w := { fes := [] } } [] hist, JudgeOrGiveUp E x.1 x.2.1 x.2.2 :=
  comp_hist3 H hist _ [] [] (cinv_init R RE E track) hok hown

/-- non-vacuity: the history `cCompHist2` below satisfies `OwnersOk` in every run -/
example (s : CSt) (hist : List Op) (h : ∀ op ∈ hist, InScopeCH cR cRE OneName op) : OwnersOk cEnv s hist :=
  ownersOk_of_oneName hist s h

/-- **`_reabsorb_solver(m)` re-establishes the bookkeeping invariant** — both branches — when it is called, with the invariant in
force, on a child `m` that holds exactly the constraints of the children owning its variables, those children being satisfiable
(the situation after `_ensure_sat`, `_solver_for_names` and the child's query) -/
theorem C12_reabsorb_keeps_invariant {E : Env} {R : Con → Prop} {RE : Exp → Prop} (H : SolverHyps R RE E)
    (U : List Con) (Us : List (List Con)) (s : CSt) (m : Nat) (h : CInv R RE E U Us s) (hm : m < s.w.fes.length)
    (hkeys : ∀ v ∈ (s.child m).variables, ∃ t, alGet? s.c.solvers v = some t)
    (hsup : ∀ t ∈ s.c.solversFor (s.child m).variables, ∀ v ∈ (s.child t).variables, v ∈ (s.child m).variables)
    (hsem : ∀ a, Models (Us.getD m []) a ↔ ∀ t ∈ s.c.solversFor (s.child m).variables, Models (Us.getD t []) a)
    (hsat : ∀ t ∈ s.c.solversFor (s.child m).variables, Satisfiable (Us.getD t [])) (hun : s.c.unsat = false)
    (s' : CSt) (hrun : reabsorb E m s = (.ok (), s')) : ∃ Us', CInv R RE E U Us' s' :=
  reabsorbKeeps H U Us s m h hm hkeys hsup hsem hsat hun s' hrun

/-- **`max(e)` of the composite** (registered symbolic expression, no extra constraints) in ANY state satisfying the invariant: the
optimum over ALL constraints added, in the requested signedness (or an honest give-up); the invariant holds again afterwards -/
theorem C12_max_correct {E : Env} {R : Con → Prop} {RE : Exp → Prop} (H : SolverHyps R RE E) {U : List Con}
    {Us : List (List Con)} {s : CSt} (h : CInv R RE E U Us s) (e : Exp) (he : RE e) (hc : e.conc = none) (signed : Bool) :
    JudgeOrGiveUp E U (.max e [] signed) (compStep E s (.max e [] signed)).1 ∧
    ∃ Us', CInv R RE E U Us' (compStep E s (.max e [] signed)).2 :=
  compExtremum_step H h true e he hc signed

/-- **`min(e)` of the composite**, likewise -/
theorem C12_min_correct {E : Env} {R : Con → Prop} {RE : Exp → Prop} (H : SolverHyps R RE E) {U : List Con}
    {Us : List (List Con)} {s : CSt} (h : CInv R RE E U Us s) (e : Exp) (he : RE e) (hc : e.conc = none) (signed : Bool) :
    JudgeOrGiveUp E U (.min e [] signed) (compStep E s (.min e [] signed)).1 ∧
    ∃ Us', CInv R RE E U Us' (compStep E s (.min e [] signed)).2 :=
  compExtremum_step H h false e he hc signed

/-- the footprint of the child's `min` / `max` (what `_reabsorb_solver` and the bookkeeping need of the call): `variables` and
`constraints` unchanged, cached models within the variables -/
theorem C12_child_footprint_extrema {E : Env} {R : Con → Prop} {RE : Exp → Prop} (H : SolverHyps R RE E) {G : St → Prop}
    {U : List Con} (isMax : Bool) (e : Exp) (he : RE e) (hc : e.conc = none) (extra : List Con) (signed : Bool) :
    FootSpec R RE E G U (if isMax then (childOps E).max e extra signed else (childOps E).min e extra signed) :=
  child_extremum_foot H isMax e he hc extra signed

/-- **C12 for whole histories of CompositeFrontend**: ANY history of `add` / `satisfiable()` / `eval` / `batch_eval` / `min` / `max` /
`solution` (registered symbolic expressions over ANY variables, no extra constraints) / `is_true` / `is_false` (any extra
constraints) on one composite, from the empty one: EVERY answer of the model is the one `Judge` demands for all the constraints
added so far (or an honest give-up of a child's backend).  No hypothesis besides `SolverHyps`. -/
theorem C12_composite_history {E : Env} {R : Con → Prop} {RE : Exp → Prop} (H : SolverHyps R RE E) (track : Bool)
    (hist : List Op) (hok : ∀ op ∈ hist, InScopeCX R RE op) :
    ∀ x ∈ runComp E { c := { track := track }, w := { fes := [] } } [] hist, JudgeOrGiveUp E x.1 x.2.1 x.2.2 :=
  comp_histX H hist _ [] [] (cinv_init R RE E track) hok

/-- non-vacuity: the ten calls of `cCompHist2` (below), then the extrema of the variable -/
example : InScopeCX cR cRE (.max cExp [] false) ∧ InScopeCX cR cRE (.min cExp [] true) :=
  ⟨⟨rfl, rfl, rfl⟩, ⟨rfl, rfl, rfl⟩⟩

example (op : Op) (h : InScopeCH cR cRE (fun _ => True) op) : InScopeCX cR cRE op := by
  cases op <;> first | exact h | exact h.elim

/-- the bookkeeping invariant holds at the end of every such history (so: at every point of it) -/
theorem C12_composite_history_keeps_invariant {E : Env} {R : Con → Prop} {RE : Exp → Prop} (H : SolverHyps R RE E)
    (track : Bool) (hist : List Op) (hok : ∀ op ∈ hist, InScopeCH R RE (fun _ => True) op) :
    ∃ Us, CInv R RE E (usersAfterOps [] hist) Us (compRun E { c := { track := track }, w := { fes := [] } } hist) :=
  comp_hist2_inv H (fun _ _ => Or.inr (reabsorbKeeps H)) hist _ [] [] (cinv_init R RE E track) hok

/-- one call in ANY state satisfying the invariant: right answer, invariant again -/
theorem C12_call_correct {E : Env} {R : Con → Prop} {RE : Exp → Prop} (H : SolverHyps R RE E)
    {U : List Con} {Us : List (List Con)} {s : CSt} (h : CInv R RE E U Us s) (op : Op)
    (hop : InScopeCX R RE op) :
    JudgeOrGiveUp E (usersAfter U op) op (compStep E s op).1 ∧ ∃ Us', CInv R RE E (usersAfter U op) Us' (compStep E s op).2 :=
  comp_stepX H h op hop

/-- non-vacuity: the history `cCompHist2` (below) is in scope -/
example (op : Op) (h : InScopeCH cR cRE OneName op) : InScopeCH cR cRE (fun _ => True) op :=
  h.mono (fun _ _ _ => trivial)

/-- any history, any name sets, GIVEN that `_reabsorb_solver` re-establishes the invariant (`ReabsorbKeeps` — now a theorem:
`C12_reabsorb_keeps_invariant`; this is the conditional form `C12_composite_history` instantiates) -/
theorem C12_composite_history_given_reabsorb_partial {E : Env} {R : Con → Prop} {RE : Exp → Prop} (H : SolverHyps R RE E)
    (hRK : ReabsorbKeeps R RE E) (track : Bool) (hist : List Op) (hok : ∀ op ∈ hist, InScopeCH R RE (fun _ => True) op) :
    ∀ x ∈ runComp E { c := { track := track }, w := { fes := [] } } [] hist, JudgeOrGiveUp E x.1 x.2.1 x.2.2 :=
  comp_hist2 H (fun _ _ => Or.inr hRK) hist _ [] [] (cinv_init R RE E track) hok

/-- non-vacuity: in the consistent environment of C11 (`cHyps`) — constrain, ask for values, pin, ask whether a value is
possible, ask again, contradict, ask: a history with calls AFTER value queries -/
def cCompHist2 : List Op :=
  [.add [cCon], .eval cExp 2 [], .satisfiable [], .add [cEq], .solution cExp 1 [], .batchEval [cExp] 2 [], .isTrue cCon [cEq],
   .add [cFalse], .satisfiable [], .eval cExp 1 []]

example : ∀ op ∈ cCompHist2, InScopeCH cR cRE OneName op := by
  have hc : cR cCon := Or.inr (Or.inl rfl)
  have hq : cR cEq := Or.inr (Or.inr (Or.inl rfl))
  have hf : cR cFalse := Or.inl rfl
  have h1 : OneName (namesFor [cExp.vars]) := oneName_namesFor (x := 0) (by simp [cExp])
  have h2 : OneName (namesFor ([cExp].map (·.vars))) := oneName_namesFor (x := 0) (by simp [cExp])
  intro op hop
  simp only [cCompHist2, List.mem_cons, List.not_mem_nil, or_false] at hop
  rcases hop with rfl | rfl | rfl | rfl | rfl | rfl | rfl | rfl | rfl | rfl
  · exact ⟨fun c hc' => by simp at hc'; subst hc'; exact hc, fun c hc' hv => by simp at hc'; subst hc'; simp [cCon] at hv⟩
  · exact ⟨rfl, rfl, by decide, rfl, h1⟩
  · rfl
  · exact ⟨fun c hc' => by simp at hc'; subst hc'; exact hq, fun c hc' hv => by simp at hc'; subst hc'; simp [cEq] at hv⟩
  · exact ⟨rfl, rfl, by decide, rfl, h1⟩
  · exact ⟨by simp, fun e he => by simp at he; subst he; exact ⟨rfl, rfl⟩, by decide, rfl, h2⟩
  · trivial
  · exact ⟨fun c hc' => by simp at hc'; subst hc'; exact hf, fun c hc' _ => by simp at hc'; subst hc'; simp [cFalse]⟩
  · rfl
  · exact ⟨rfl, rfl, by decide, rfl, h1⟩

/-! ### extra constraints: `satisfiable(extra_constraints)`, the value queries with extras, histories with extras everywhere -/

/-- **`_reabsorb_solver(m)`: the invariant AND the frame facts** (`ReabsorbPost`): under the hypotheses of
`C12_reabsorb_keeps_invariant`, afterwards the invariant holds for some partition `Us'`, the `_unsat` flag is still off, the merged
child keeps its variables, a variable the merged child does not know keeps its entry of `_solvers`, and every child of the new
partition that shares a variable with the merged child is implied by the merged constraints (both branches: `update` of the old
children / the parts replace them) -/
theorem C12_reabsorb_frames {E : Env} {R : Con → Prop} {RE : Exp → Prop} (H : SolverHyps R RE E)
    (U : List Con) (Us : List (List Con)) (s : CSt) (m : Nat) (h : CInv R RE E U Us s) (hm : m < s.w.fes.length)
    (hkeys : ∀ v ∈ (s.child m).variables, ∃ t, alGet? s.c.solvers v = some t)
    (hsup : ∀ t ∈ s.c.solversFor (s.child m).variables, ∀ v ∈ (s.child t).variables, v ∈ (s.child m).variables)
    (hsem : ∀ a, Models (Us.getD m []) a ↔ ∀ t ∈ s.c.solversFor (s.child m).variables, Models (Us.getD t []) a)
    (hsat : ∀ t ∈ s.c.solversFor (s.child m).variables, Satisfiable (Us.getD t [])) (hun : s.c.unsat = false)
    (s' : CSt) (hrun : reabsorb E m s = (.ok (), s')) : ∃ Us', ReabsorbPost R RE E U Us Us' s s' m :=
  reabsorbFrames H U Us s m h hm hkeys hsup hsem hsat hun s' hrun

/-- the loop of `check_satisfiability(extra)` over the unchecked children, those sharing a variable with the extra solver
skipped: `True` means every listed live child that is not skipped is satisfiable, `False` that some child is not; the children's
variables and the composite's record do not change along the loop -/
theorem C12_check_loop_skip {E : Env} {R : Con → Prop} {RE : Exp → Prop} (H : SolverHyps R RE E) {U : List Con}
    {Us : List (List Con)} (sv : List Var) (l : List Nat) (s : CSt) (h : CInv R RE E U Us s) :
    match checkLoop E (some sv) l s with
    | (.ok b, s') => CInv R RE E U Us s' ∧ s'.c = s.c ∧ (∀ i, (s'.child i).variables = (s.child i).variables) ∧
        (b = true → ∀ j ∈ l, j ∈ s.c.solverList → (s.child j).variables.any sv.contains = false →
          Satisfiable (Us.getD j [])) ∧
        (b = false → ∃ j ∈ s.c.solverList, ¬ Satisfiable (Us.getD j []))
    | (.error e, s') => IsGiveUp E e ∧ CInv R RE E U Us s' ∧ s'.c = s.c :=
  checkLoop_skip_spec H (childFoot H) sv l s h

/-- **`satisfiable(extra_constraints)` answers for everything added plus the extras** (any registered extras, in ANY state
satisfying the invariant): the merged solver of the extras' names is asked under the extras, reabsorbed, the other unchecked
children are asked one by one; the answer is exact for `U ++ extra` (or a child's backend gave up), and the invariant holds
afterwards (for a possibly different partition: `_reabsorb_solver` may have replaced children by the parts of `split()`) -/
theorem C12_satisfiable_extra_correct {E : Env} {R : Con → Prop} {RE : Exp → Prop} (H : SolverHyps R RE E) {U : List Con}
    {Us : List (List Con)} {s : CSt} (h : CInv R RE E U Us s) (extra : List Con) (hex : ∀ c ∈ extra, R c) :
    match compSatisfiable E extra s with
    | (.ok b, s') => (b = true ↔ Satisfiable (U ++ extra)) ∧ ∃ Us', CInv R RE E U Us' s'
    | (.error e, s') => IsGiveUp E e ∧ ∃ Us', CInv R RE E U Us' s' := by
  by_cases hne : extra = []
  · subst hne
    have hs := compSatisfiable_spec H (childFoot H) h
    revert hs
    generalize compSatisfiable E [] s = res
    obtain ⟨r, s'⟩ := res
    cases r with
    | ok b => exact fun hs => ⟨by rw [List.append_nil]; exact hs.1, Us, hs.2⟩
    | error e => exact fun hs => ⟨hs.1, Us, hs.2⟩
  · exact compSatisfiable_extra H h extra hne (fun c hc => H.reg.wf c (hex c hc))

/-- **`eval(e, n, extra_constraints)`** in ANY state satisfying the invariant (registered symbolic expression, non-empty registered
extras): `_ensure_sat(extra)`, the merged solver of the variables of `e` and of the extras, its answer under the extras,
`_reabsorb_solver`: the answer `Judge` demands for everything added plus the extras; the invariant again -/
theorem C12_eval_extra_correct {E : Env} {R : Con → Prop} {RE : Exp → Prop} (H : SolverHyps R RE E) {U : List Con}
    {Us : List (List Con)} {s : CSt} (h : CInv R RE E U Us s) (e : Exp) (n : Nat) (extra : List Con) (hne : extra ≠ [])
    (hex : ∀ c ∈ extra, R c) (he : RE e) (hc : e.conc = none) (hn : 1 ≤ n) :
    JudgeOrGiveUp E U (.eval e n extra) (compStep E s (.eval e n extra)).1 ∧
    ∃ Us', CInv R RE E U Us' (compStep E s (.eval e n extra)).2 :=
  compEvalX_step H h e n extra hne (fun c hc' => H.reg.wf c (hex c hc')) he hc hn

/-- **`batch_eval(es, n, extra_constraints)`**, likewise -/
theorem C12_batch_eval_extra_correct {E : Env} {R : Con → Prop} {RE : Exp → Prop} (H : SolverHyps R RE E) {U : List Con}
    {Us : List (List Con)} {s : CSt} (h : CInv R RE E U Us s) (es : List Exp) (n : Nat) (extra : List Con) (hne : extra ≠ [])
    (hex : ∀ c ∈ extra, R c) (hnes : es ≠ []) (hes : ∀ e ∈ es, RE e ∧ e.conc = none) (hn : 1 ≤ n) :
    JudgeOrGiveUp E U (.batchEval es n extra) (compStep E s (.batchEval es n extra)).1 ∧
    ∃ Us', CInv R RE E U Us' (compStep E s (.batchEval es n extra)).2 :=
  compBatchEvalX_step H h es n extra hne (fun c hc' => H.reg.wf c (hex c hc')) hnes hes hn

/-- **`solution(e, x, extra_constraints)`**, likewise -/
theorem C12_solution_extra_correct {E : Env} {R : Con → Prop} {RE : Exp → Prop} (H : SolverHyps R RE E) {U : List Con}
    {Us : List (List Con)} {s : CSt} (h : CInv R RE E U Us s) (e : Exp) (x : Nat) (extra : List Con) (hne : extra ≠ [])
    (hex : ∀ c ∈ extra, R c) (he : RE e) (hc : e.conc = none) (hx : x < 2 ^ e.bits) :
    JudgeOrGiveUp E U (.solution e x extra) (compStep E s (.solution e x extra)).1 ∧
    ∃ Us', CInv R RE E U Us' (compStep E s (.solution e x extra)).2 :=
  compSolutionX_step H h e x extra hne (fun c hc' => H.reg.wf c (hex c hc')) he hc hx

/-- **`max(e, extra_constraints)`**, likewise -/
theorem C12_max_extra_correct {E : Env} {R : Con → Prop} {RE : Exp → Prop} (H : SolverHyps R RE E) {U : List Con}
    {Us : List (List Con)} {s : CSt} (h : CInv R RE E U Us s) (e : Exp) (signed : Bool) (extra : List Con) (hne : extra ≠ [])
    (hex : ∀ c ∈ extra, R c) (he : RE e) (hc : e.conc = none) :
    JudgeOrGiveUp E U (.max e extra signed) (compStep E s (.max e extra signed)).1 ∧
    ∃ Us', CInv R RE E U Us' (compStep E s (.max e extra signed)).2 :=
  compMaxX_step H h e signed extra hne (fun c hc' => H.reg.wf c (hex c hc')) he hc

/-- **`min(e, extra_constraints)`**, likewise -/
theorem C12_min_extra_correct {E : Env} {R : Con → Prop} {RE : Exp → Prop} (H : SolverHyps R RE E) {U : List Con}
    {Us : List (List Con)} {s : CSt} (h : CInv R RE E U Us s) (e : Exp) (signed : Bool) (extra : List Con) (hne : extra ≠ [])
    (hex : ∀ c ∈ extra, R c) (he : RE e) (hc : e.conc = none) :
    JudgeOrGiveUp E U (.min e extra signed) (compStep E s (.min e extra signed)).1 ∧
    ∃ Us', CInv R RE E U Us' (compStep E s (.min e extra signed)).2 :=
  compMinX_step H h e signed extra hne (fun c hc' => H.reg.wf c (hex c hc')) he hc

/-- one call in ANY state satisfying the invariant, extras allowed on every query: right answer, invariant again -/
theorem C12_call_correct_extras {E : Env} {R : Con → Prop} {RE : Exp → Prop} (H : SolverHyps R RE E)
    {U : List Con} {Us : List (List Con)} {s : CSt} (h : CInv R RE E U Us s) (op : Op) (hop : InScopeCE R RE op) :
    JudgeOrGiveUp E (usersAfter U op) op (compStep E s op).1 ∧ ∃ Us', CInv R RE E (usersAfter U op) Us' (compStep E s op).2 :=
  comp_stepE H h op hop

/-- **C12 for whole histories of CompositeFrontend, extra constraints everywhere**: ANY history of `add` / `satisfiable` / `eval` /
`batch_eval` / `min` / `max` / `solution` / `is_true` / `is_false` on one composite, from the empty one, EVERY query with any
registered extra constraints (registered symbolic expressions over ANY variables): EVERY answer of the model is the one `Judge`
demands for all the constraints added so far plus the extras of the call (or an honest give-up of a child's backend).  No
hypothesis besides `SolverHyps`.  Extends `C12_composite_history` (`InScopeCX.toCE`). -/
theorem C12_composite_history_extras {E : Env} {R : Con → Prop} {RE : Exp → Prop} (H : SolverHyps R RE E) (track : Bool)
    (hist : List Op) (hok : ∀ op ∈ hist, InScopeCE R RE op) :
    ∀ x ∈ runComp E { c := { track := track }, w := { fes := [] } } [] hist, JudgeOrGiveUp E x.1 x.2.1 x.2.2 :=
  comp_histE H hist _ [] [] (cinv_init R RE E track) hok

/-- the bookkeeping invariant holds at the end of every such history (so: at every point of it) -/
theorem C12_composite_history_extras_keeps_invariant {E : Env} {R : Con → Prop} {RE : Exp → Prop} (H : SolverHyps R RE E)
    (track : Bool) (hist : List Op) (hok : ∀ op ∈ hist, InScopeCE R RE op) :
    ∃ Us, CInv R RE E (usersAfterOps [] hist) Us (compRun E { c := { track := track }, w := { fes := [] } } hist) :=
  comp_histE_inv H hist _ [] [] (cinv_init R RE E track) hok

/-- non-vacuity: every history of `C12_composite_history` is in scope -/
example (op : Op) (h : InScopeCX cR cRE op) : InScopeCE cR cRE op := h.toCE

/-- non-vacuity, in the consistent environment of C11 (`cHyps`): extras on every kind of query, adds in between -/
def cCompHistE : List Op :=
  [.add [cCon], .satisfiable [cEq], .eval cExp 2 [cEq], .add [cEq], .max cExp [cCon] false, .min cExp [cEq] true,
   .solution cExp 1 [cCon], .batchEval [cExp] 2 [cEq, cCon], .isTrue cCon [cEq], .satisfiable [cFalse], .eval cExp 1 [cFalse]]

theorem cCompHistE_ok : ∀ op ∈ cCompHistE, InScopeCE cR cRE op := by
  have hc : cR cCon := Or.inr (Or.inl rfl)
  have hq : cR cEq := Or.inr (Or.inr (Or.inl rfl))
  have hf : cR cFalse := Or.inl rfl
  have h1 : ∀ c ∈ [cEq], cR c := fun c hc' => by simp at hc'; subst hc'; exact hq
  have h2 : ∀ c ∈ [cCon], cR c := fun c hc' => by simp at hc'; subst hc'; exact hc
  have h3 : ∀ c ∈ [cFalse], cR c := fun c hc' => by simp at hc'; subst hc'; exact hf
  have h4 : ∀ c ∈ [cEq, cCon], cR c := fun c hc' => by
    simp at hc'; rcases hc' with rfl | rfl
    · exact hq
    · exact hc
  intro op hop
  simp only [cCompHistE, List.mem_cons, List.not_mem_nil, or_false] at hop
  rcases hop with rfl | rfl | rfl | rfl | rfl | rfl | rfl | rfl | rfl | rfl | rfl
  · exact ⟨fun c hc' => by simp at hc'; subst hc'; exact hc, fun c hc' hv => by simp at hc'; subst hc'; simp [cCon] at hv⟩
  · exact h1
  · exact ⟨rfl, rfl, by decide, h1⟩
  · exact ⟨fun c hc' => by simp at hc'; subst hc'; exact hq, fun c hc' hv => by simp at hc'; subst hc'; simp [cEq] at hv⟩
  · exact ⟨rfl, rfl, h2⟩
  · exact ⟨rfl, rfl, h1⟩
  · exact ⟨rfl, rfl, by decide, h2⟩
  · exact ⟨by simp, fun e he => by simp at he; subst he; exact ⟨rfl, rfl⟩, by decide, h4⟩
  · trivial
  · exact h3
  · exact ⟨rfl, rfl, by decide, h3⟩

example : ∀ x ∈ runComp cEnv { c := {}, w := { fes := [] } } [] cCompHistE, JudgeOrGiveUp cEnv x.1 x.2.1 x.2.2 :=
  C12_composite_history_extras cHyps false cCompHistE cCompHistE_ok

/-! ### `branch()` of the composite: children shared copy-on-write (Lemmas/Solver/CompositeBranch.lean) -/

/-- **`branch()`** (`_blank_copy` + `_copy`): parent and copy both satisfy the bookkeeping invariant for the SAME constraint list,
in the same world of children; NEITHER owns a child afterwards (`_owned_solvers` is replaced by an empty set on both sides: every
shared child is owned by nobody); both have the parent's `_solvers` / constraints; every child record keeps its fields except
`_finalized` -/
theorem C12_branch_keeps_invariant {E : Env} {R : Con → Prop} {RE : Exp → Prop} {U : List Con} {Us : List (List Con)} {s : CSt}
    (h : CInv R RE E U Us s) :
    CInv R RE E U Us (compBranch s).2 ∧ CInv R RE E U Us { c := (compBranch s).1, w := (compBranch s).2.w } ∧
    (compBranch s).1.owned = [] ∧ (compBranch s).2.c.owned = [] ∧
    (compBranch s).1.solvers = s.c.solvers ∧ (compBranch s).2.c.solvers = s.c.solvers ∧
    (compBranch s).1.constraints = s.c.constraints ∧ (compBranch s).2.c.constraints = s.c.constraints ∧
    (compBranch s).2.w.fes.length = s.w.fes.length ∧
    ∀ k, FinRel (s.child k) ((compBranch s).2.child k) :=
  compBranch_spec h

/-- **`_claim(j)` is copy-on-write**: a child the composite owns is handed back (nothing happens); a child it does not own is
branched - the copy is the next record, owned, with the constraints and variables of `j`; record `j` is only finalized and no
other record changes -/
theorem C12_claim_copy_on_write {E : Env} {R : Con → Prop} {RE : Exp → Prop} {Us : List (List Con)} (s : CSt)
    (hw : TInvS R RE E Us s.w) (j : Nat) (hj : j < s.w.fes.length) :
    (j ∈ s.c.owned ∧ claim E j s = (.ok j, s)) ∨
    (j ∉ s.c.owned ∧ ∃ s', claim E j s = (.ok s.w.fes.length, s') ∧
      s'.c = { s.c with owned := listInsert s.c.owned s.w.fes.length } ∧
      s'.w.fes.length = s.w.fes.length + 1 ∧
      (s'.child s.w.fes.length).constraints = (s.child j).constraints ∧
      (s'.child s.w.fes.length).variables = (s.child j).variables ∧
      (∀ k, k < s.w.fes.length → FinRel (s.child k) (s'.child k)) ∧
      TInvS R RE E (Us ++ [Us.getD j []]) s'.w) :=
  claim_spec s hw j hj

/-- **the frame rule (semantic half)**: the invariant of a composite reads the records ITS `_solvers` points to only.  If another
composite `ci` acted (its invariant holds in the new world `w'`) and those records keep `constraints` and `variables`, then `cj`
satisfies `CInv` for its own, unchanged constraint list in `w'` -/
theorem C12_invariant_frame {E : Env} {R : Con → Prop} {RE : Exp → Prop} {Uj Ui : List Con} {Us Us' : List (List Con)}
    {cj ci : Comp} {w w' : World}
    (hj : CInv R RE E Uj Us { c := cj, w := w }) (hi : CInv R RE E Ui Us' { c := ci, w := w' })
    (hlen : w.fes.length ≤ w'.fes.length)
    (hfr : ∀ k ∈ cj.solverList, (w'.fes.getD k {}).constraints = (w.fes.getD k {}).constraints ∧
      (w'.fes.getD k {}).variables = (w.fes.getD k {}).variables) :
    CInv R RE E Uj Us' { c := cj, w := w' } :=
  hj.frame hi hlen hfr

/-- **one call on one composite of a tree of branched composites**, GIVEN the footprint `CompFrames` of the calls (a call leaves
`constraints` / `variables` of every child record the composite does not own alone; what it owns / points to afterwards it owned /
pointed to before, or is a new record): the answer is the one `Judge` demands for the constraints of the composite that was ASKED
(`branch` included), and the tree invariant holds again: EVERY composite satisfies `CInv` for its own constraint list, a child owned
by one composite is in no other composite's `_solvers` -/
theorem C12_composite_tree_step_partial {E : Env} {R : Con → Prop} {RE : Exp → Prop} (H : SolverHyps R RE E)
    (hF : CompFrames R RE E) {UU Us : List (List Con)} {t : TSt} (ht : TreeInv R RE E UU Us t) (i : Nat) (hi : i < t.cs.length)
    (op : Op) (hop : op = .branch ∨ InScopeCE R RE op) :
    JudgeOrGiveUp E ((usersAll UU i op).getD i []) op (treeStep E t i op).1 ∧
      ∃ Us', TreeInv R RE E (usersAll UU i op) Us' (treeStep E t i op).2 :=
  tree_step H hF ht i hi op hop

/-- **any history over a tree of branched composites** (calls of `C12_composite_history_extras` on any composite of the tree, and
`branch` of any of them, interleaved at will), GIVEN `CompFrames`: every answer is the one `Judge` demands for the constraints of
the composite that was asked (what ITS user added, on it or on the ancestors before the branch) -/
theorem C12_composite_tree_history_partial {E : Env} {R : Con → Prop} {RE : Exp → Prop} (H : SolverHyps R RE E)
    (hF : CompFrames R RE E) (track : Bool) (hist : List (Nat × Op)) (hok : HistOkT R RE 1 hist) :
    ∀ x ∈ runTree E { cs := [{ track := track }], w := { fes := [] } } [[]] hist, JudgeOrGiveUp E x.1 x.2.1 x.2.2 :=
  tree_hist H hF hist _ [[]] [] (treeInv_init R RE E track) hok

/-- **the query methods of class SolverCompositeChild never write `constraints` / `variables` of the record they run on**
(`check_satisfiability`, `eval`, `batch_eval`, `max`, `min`, `solution`, `is_true`, `is_false`, any arguments, ANY state - no
invariant): a walk through the Z3 algorithms of the backend, `_get_solver`, FullFrontend, ModelCacheMixin, SatCacheMixin (the other
two mixins inherit the queries), late binding by induction on the unrolling depth -/
theorem C12_child_queries_keep_constraints (E : Env) : ChildKeeps E := childKeeps E

/-- **the footprint of one public call on a composite** (`add`, `satisfiable`, `eval`, `batch_eval`, `min`, `max`, `solution`,
`is_true`, `is_false`; any arguments, ANY state - no invariant, no `SolverHyps`): the world of child records only grows; a record
the composite does not own keeps `constraints` and `variables`; what it owns afterwards it owned before or is a new record; what
`_solvers` points to afterwards it pointed to before or is a new record.  (`publicAdd` runs on the result of `_claim` only;
`update` writes caches; `combine` / `split` / `blank_copy` / the child's `branch` append records; `_store_child` is called on a
claimed child, a merged child or a part of `split`.)  NOT for `simplify` (it rewrites a shared child in place, see design notes). -/
theorem C12_step_footprint (E : Env) (s : CSt) (op : Op) (hop : op ≠ .simplify ∧ op ≠ .downsize ∧ op ≠ .pickle) :
    StepFrame s (compStep E s op).2 :=
  stepFrame_compStep (childKeeps E) s op hop

/-- the hypothesis of `C12_composite_tree_step_partial` / `C12_composite_tree_history_partial` holds -/
theorem C12_comp_frames (R : Con → Prop) (RE : Exp → Prop) (E : Env) : CompFrames R RE E := compFrames R RE E

/-- **one call on one composite of a tree of branched composites**: the answer is the one `Judge` demands for the constraints of
the composite that was ASKED, and the tree invariant holds again -/
theorem C12_composite_tree_step {E : Env} {R : Con → Prop} {RE : Exp → Prop} (H : SolverHyps R RE E)
    {UU Us : List (List Con)} {t : TSt} (ht : TreeInv R RE E UU Us t) (i : Nat) (hi : i < t.cs.length)
    (op : Op) (hop : op = .branch ∨ InScopeCE R RE op) :
    JudgeOrGiveUp E ((usersAll UU i op).getD i []) op (treeStep E t i op).1 ∧
      ∃ Us', TreeInv R RE E (usersAll UU i op) Us' (treeStep E t i op).2 :=
  tree_step H (compFrames R RE E) ht i hi op hop

/-- **branch isolation for composites, the full statement**: in ANY interleaving of add / satisfiable / eval / batch_eval / min /
max / solution / is_true / is_false (any registered extra constraints) and `branch` over a TREE of branched composites (children
shared copy-on-write), every answer is the one `Judge` demands for the constraints of the composite that was asked - what ITS user
added, on it or on its ancestors before the branch.  (`C12_composite_tree_history_partial` with `CompFrames` discharged by
`C12_comp_frames`.) -/
theorem C12_composite_tree_history :
    ∀ (E : Env) (R : Con → Prop) (RE : Exp → Prop), SolverHyps R RE E → ∀ (track : Bool) (hist : List (Nat × Op)),
    HistOkT R RE 1 hist →
    ∀ x ∈ runTree E { cs := [{ track := track }], w := { fes := [] } } [[]] hist, JudgeOrGiveUp E x.1 x.2.1 x.2.2 :=
  fun E R RE H track hist hok => C12_composite_tree_history_partial H (compFrames R RE E) track hist hok

/-- non-vacuity: a tree history in scope in the environment of C11 (branch, the two sides learn different things, both are asked) -/
def cTreeHist : List (Nat × Op) :=
  [(0, .add [cCon]), (0, .branch), (1, .add [cEq]), (0, .eval cExp 2 []), (1, .eval cExp 2 [cCon]), (1, .branch),
   (2, .satisfiable [cFalse]), (0, .add [cEq]), (2, .max cExp [] false)]

theorem cTreeHist_ok : HistOkT cR cRE 1 cTreeHist := by
  have hc : cR cCon := Or.inr (Or.inl rfl)
  have hq : cR cEq := Or.inr (Or.inr (Or.inl rfl))
  have hf : cR cFalse := Or.inl rfl
  have h1 : ∀ c ∈ [cEq], cR c := fun c hc' => by simp at hc'; subst hc'; exact hq
  have h2 : ∀ c ∈ [cCon], cR c := fun c hc' => by simp at hc'; subst hc'; exact hc
  have h3 : ∀ c ∈ [cFalse], cR c := fun c hc' => by simp at hc'; subst hc'; exact hf
  have h0 : ∀ c ∈ ([] : List Con), cR c := fun c hc' => by cases hc'
  have a1 : InScopeCE cR cRE (.add [cCon]) :=
    ⟨fun c hc' => by simp at hc'; subst hc'; exact hc, fun c hc' hv => by simp at hc'; subst hc'; simp [cCon] at hv⟩
  have a2 : InScopeCE cR cRE (.add [cEq]) :=
    ⟨fun c hc' => by simp at hc'; subst hc'; exact hq, fun c hc' hv => by simp at hc'; subst hc'; simp [cEq] at hv⟩
  refine ⟨by decide, Or.inr a1, by decide, Or.inl rfl, by decide, Or.inr a2, by decide, Or.inr ⟨rfl, rfl, by decide, h0⟩,
    by decide, Or.inr ⟨rfl, rfl, by decide, h2⟩, by decide, Or.inl rfl, by decide, Or.inr h3, by decide, Or.inr a2,
    by decide, Or.inr ⟨rfl, rfl, h0⟩, trivial⟩

/-- non-vacuity of the tree invariant: the tree of one empty composite; and of the footprint: the empty `add` -/
example : TreeInv cR cRE cEnv [[]] [] { cs := [{}], w := { fes := [] } } := treeInv_init cR cRE cEnv false
example (s : CSt) : StepFrame s (compStep cEnv s (.add [])).2 := StepFrame.refl s

/-- non-vacuity of `C12_composite_tree_history`: its hypotheses hold for the 9 calls of `cTreeHist` on 3 composites in the
environment of C11, so every answer of that tree history is judged right; and of `C12_step_footprint` (a call that is not `simplify`) -/
example : SolverHyps cR cRE cEnv ∧ HistOkT cR cRE 1 cTreeHist := ⟨cHyps, cTreeHist_ok⟩
example : ∀ x ∈ runTree cEnv { cs := [{ track := false }], w := { fes := [] } } [[]] cTreeHist, JudgeOrGiveUp cEnv x.1 x.2.1 x.2.2 :=
  C12_composite_tree_history cEnv cR cRE cHyps false cTreeHist cTreeHist_ok
example (s : CSt) : StepFrame s (compStep cEnv s (.eval cExp 2 [cCon])).2 :=
  C12_step_footprint cEnv s _ ⟨by simp, by simp, by simp⟩

/-- **The full statement**: every history of public calls on a CompositeFrontend (hence, with the mixin layers of C11 on top, on
a SolverComposite) is answered as the property statement demands for all the constraints added.  Proved: **`C12_composite_history`**
— ANY history of add / satisfiable() / eval / batch_eval / min / max / solution (no extra constraints) / is_true / is_false (any
extra constraints), expressions over any variables, is answered right at EVERY step, and the bookkeeping invariant `CInv` holds at every
step (`C12_call_correct`, `C12_composite_history_keeps_invariant`); **`C12_composite_history_extras`** — the same with ANY registered
extra constraints on EVERY query (`C12_satisfiable_extra_correct`, `C12_eval_extra_correct`, ..., `C12_call_correct_extras`,
`C12_composite_history_extras_keeps_invariant`; `_reabsorb_solver` exports its frame facts: `C12_reabsorb_frames`); `combine` (`C12_combine_correct`), `split` / `update` /
`_reabsorb_solver` (`C12_reabsorb_keeps_invariant`) are proved.  The invariant is the one the code maintains: the marker clauses of
C11's `MCInv` hold under the guard the code uses (`C12_marker_guarded`; `C12_reabsorb_marker_without_model` is the record that made
the old form false).  Missing:
  * `simplify` (a child's `variables` may keep a variable its constraints lost: `ExactVars` fails, see design_notes/C12.md),
    pickling of the composite; `branch` of the composite: `C12_branch_keeps_invariant`, `C12_claim_copy_on_write`,
    `C12_invariant_frame` are proved, and whole trees of branched composites are PROVED: `C12_composite_tree_history` (the
    footprint of the calls: `C12_step_footprint`, from `C12_child_queries_keep_constraints`);
  * the mixins of class SolverComposite above CompositeFrontend, CompositedCacheMixin among them. -/
def C12_full : Prop :=
  ∀ (E : Env) (R : Con → Prop) (RE : Exp → Prop), SolverHyps R RE E → ∀ (track : Bool) (hist : List Op),
    (∀ op ∈ hist, InScopeS R RE op ∧ op ≠ .branch) →
    ∀ x ∈ runComp E { c := { track := track }, w := { fes := [] } } [] hist, JudgeOrGiveUp E x.1 x.2.1 x.2.2

end Claripy.Props.C12
