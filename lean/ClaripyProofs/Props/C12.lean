import ClaripyProofs.Lemmas.Solver.Independent
import ClaripyProofs.Lemmas.Solver.Extrema
/-!
# C12 — SolverComposite answers like a monolithic solver

A SolverComposite keeps variable-disjoint children (class SolverCompositeChild: the C11 stack without the
filtering / expansion layers) and answers a query from the child (or the combination of children) that owns the
variables of the query.  Why that is right — for ANY constraints whose meaning depends only on their variables:
-/
namespace Claripy.Props.C12
open Claripy.Solver Claripy.Gen.SolverMro LayerName

/-- Tie: the children are this stack (the C11 L1/L2/L3 models and theorems apply to them unchanged). -/
theorem C12_mro_child : mro .SolverCompositeChild =
    [ConstraintDeduplicatorMixin, SatCacheMixin, SimplifySkipperMixin, ModelCacheMixin, FullFrontend,
     ConstrainedFrontend, Frontend] := by decide

theorem C12_mro_composite : mro .SolverComposite =
    [ConcreteHandlerMixin, EagerResolutionMixin, ConstraintFilterMixin, ConstraintDeduplicatorMixin, SatCacheMixin,
     SimplifySkipperMixin, SimplifyHelperMixin, ConstraintExpansionMixin, CompositedCacheMixin, CompositeFrontend,
     ConstrainedFrontend, Frontend] := by decide

/-- variable-disjoint constraint sets are jointly satisfiable iff each of them is (`check_satisfiability` checks
the children one by one) -/
theorem C12_independent_sat {A B : List Con} (wfA : ∀ c ∈ A, ConWf c) (wfB : ∀ c ∈ B, ConWf c)
    (hd : DisjointVars A B) : Satisfiable (A ++ B) ↔ Satisfiable A ∧ Satisfiable B :=
  satisfiable_append_iff wfA wfB hd

/-- a value of `e` is feasible for the whole constraint set iff it is feasible for the component owning the
variables of `e` and the other components are satisfiable (`eval`/`solution` ask only the owning child, after
`_ensure_sat`) -/
theorem C12_query_component {A B : List Con} (wfA : ∀ c ∈ A, ConWf c) (wfB : ∀ c ∈ B, ConWf c)
    (hd : DisjointVars A B) (e : Exp) (he : ExpDep e) (heB : ∀ v ∈ e.vars, v ∉ varsOf B) (x : Nat) :
    Feasible (A ++ B) e x ↔ Feasible A e x ∧ Satisfiable B :=
  feasible_component wfA wfB hd e he heB x

/-- … and so is the optimum (`min`/`max`) -/
theorem C12_optimum_component {A B : List Con} (wfA : ∀ c ∈ A, ConWf c) (wfB : ∀ c ∈ B, ConWf c)
    (hd : DisjointVars A B) (e : Exp) (he : ExpDep e) (heB : ∀ v ∈ e.vars, v ∉ varsOf B) (hB : Satisfiable B)
    (isMax signed : Bool) (i : Int) : IsOpt isMax signed (A ++ B) e i ↔ IsOpt isMax signed A e i :=
  isOpt_component wfA wfB hd e he heB hB isMax signed i

/-- non-vacuity: two independent one-variable constraints -/
example : DisjointVars [{ id := 1, vars := [0], sem := fun a => decide (a 0 < 3) }]
                       [{ id := 2, vars := [1], sem := fun a => decide (a 1 = 6) }] := by
  intro v hv; simp [varsOf] at hv ⊢; subst hv; decide

/-- The full statement (not yet proved): the composite bookkeeping (`_solvers`, copy-on-write `_claim`, merging
of children, `_reabsorb_solver`) maintains a variable-disjoint partition whose union is equivalent to the added
constraints, hence (with the theorems above and C11 per child) every answer is one `Judge` allows. -/
def C12_full : Prop :=
  ∀ (A B : List Con), (∀ c ∈ A, ConWf c) → (∀ c ∈ B, ConWf c) → DisjointVars A B →
    (Satisfiable (A ++ B) ↔ Satisfiable A ∧ Satisfiable B)

theorem C12_partial : C12_full := fun _ _ wfA wfB hd => satisfiable_append_iff wfA wfB hd

end Claripy.Props.C12
