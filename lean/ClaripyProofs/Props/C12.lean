import ClaripyProofs.Lemmas.Solver.Independent
import ClaripyProofs.Lemmas.Solver.Extrema
import ClaripyProofs.Lemmas.Solver.CompositeHistory
import ClaripyProofs.Lemmas.Solver.CompositeQuery
/-!
# C12 — SolverComposite answers like a monolithic solver

A SolverComposite keeps variable-disjoint children (class SolverCompositeChild: the C11 stack without the
filtering / expansion layers) and answers a query from the child (or the combination of children) that owns the
variables of the query.  Why that is right — for ANY constraints whose meaning depends only on their variables:
-/
namespace Claripy.Props.C12
open Claripy.Solver Claripy.Gen.SolverMro LayerName

/-- Tie: the children are this stack (the C11 L1/L2/L3 models and theorems apply to them unchanged). -/
theorem C12_mro_child : mro .SolverCompositeChild =
    [ConstraintDeduplicatorMixin, SatCacheMixin, SimplifySkipperMixin, ModelCacheMixin, FullFrontend,
     ConstrainedFrontend, Frontend] := by decide

theorem C12_mro_composite : mro .SolverComposite =
    [ConcreteHandlerMixin, EagerResolutionMixin, ConstraintFilterMixin, ConstraintDeduplicatorMixin, SatCacheMixin,
     SimplifySkipperMixin, SimplifyHelperMixin, ConstraintExpansionMixin, CompositedCacheMixin, CompositeFrontend,
     ConstrainedFrontend, Frontend] := by decide

/-- variable-disjoint constraint sets are jointly satisfiable iff each of them is (`check_satisfiability` checks
the children one by one) -/
theorem C12_independent_sat {A B : List Con} (wfA : ∀ c ∈ A, ConWf c) (wfB : ∀ c ∈ B, ConWf c)
    (hd : DisjointVars A B) : Satisfiable (A ++ B) ↔ Satisfiable A ∧ Satisfiable B :=
  satisfiable_append_iff wfA wfB hd

/-- a value of `e` is feasible for the whole constraint set iff it is feasible for the component owning the
variables of `e` and the other components are satisfiable (`eval`/`solution` ask only the owning child, after
`_ensure_sat`) -/
theorem C12_query_component {A B : List Con} (wfA : ∀ c ∈ A, ConWf c) (wfB : ∀ c ∈ B, ConWf c)
    (hd : DisjointVars A B) (e : Exp) (he : ExpDep e) (heB : ∀ v ∈ e.vars, v ∉ varsOf B) (x : Nat) :
    Feasible (A ++ B) e x ↔ Feasible A e x ∧ Satisfiable B :=
  feasible_component wfA wfB hd e he heB x

/-- … and so is the optimum (`min`/`max`) -/
theorem C12_optimum_component {A B : List Con} (wfA : ∀ c ∈ A, ConWf c) (wfB : ∀ c ∈ B, ConWf c)
    (hd : DisjointVars A B) (e : Exp) (he : ExpDep e) (heB : ∀ v ∈ e.vars, v ∉ varsOf B) (hB : Satisfiable B)
    (isMax signed : Bool) (i : Int) : IsOpt isMax signed (A ++ B) e i ↔ IsOpt isMax signed A e i :=
  isOpt_component wfA wfB hd e he heB hB isMax signed i

/-- non-vacuity: two independent one-variable constraints -/
example : DisjointVars [{ id := 1, vars := [0], sem := fun a => decide (a 0 < 3) }]
                       [{ id := 2, vars := [1], sem := fun a => decide (a 1 = 6) }] := by
  intro v hv; simp [varsOf] at hv ⊢; subst hv; decide

/-! ### the bookkeeping of the composite

`Claripy/Solver/Composite.lean` transcribes class `CompositeFrontend` (`_solvers`, `_unchecked_solvers`, `_owned_solvers`, `_unsat`,
`_solver_for_names`, `_claim`, `_store_child`, `_add`, `check_satisfiability`, the queries with `_reabsorb_solver`, `simplify` with
`_split_child`, `branch`, pickling) over a world of SolverCompositeChild frontends (the C11 model), with what the child class has
beyond the `Ops` table (`combine`, `split`, `update`, `check_satisfiability`).  `CInv` is its invariant. -/

variable {E : Env} {R : Con → Prop} {RE : Exp → Prop}

/-- **the children partition the composite's constraints into variable-disjoint groups.**  Whenever the invariant holds:
two different children that `_solvers` points to know no common variable; every constraint a child holds mentions variables of
that child only; and (unless `_unsat` is set, in which case the user's constraints are unsatisfiable) an assignment satisfies
what the user added iff it satisfies the constraints held by every child. -/
theorem C12_children_partition {U : List Con} {Us : List (List Con)} {s : CSt} (h : CInv R RE E U Us s) :
    (∀ i ∈ s.c.solverList, ∀ j ∈ s.c.solverList, i ≠ j → ∀ v ∈ (s.child i).variables, v ∉ (s.child j).variables) ∧
    (∀ j ∈ s.c.solverList, ∀ c ∈ (s.child j).constraints, ∀ v ∈ c.vars, v ∈ (s.child j).variables) ∧
    (s.c.unsat = false → ∀ a, Models U a ↔ ∀ j ∈ s.c.solverList, Models (s.child j).constraints a) ∧
    (s.c.unsat = true → ¬ Satisfiable U) := by
  have hlt : ∀ j ∈ s.c.solverList, j < s.w.fes.length := by
    intro j hj
    obtain ⟨v, hv⟩ := (mem_solverList' _ h.nodup j).mp hj
    exact (h.map v j hv).1
  refine ⟨fun i hi j hj hij => h.disjoint hi hj hij, fun j hj => h.child_vars (hlt j hj), fun hu a => ?_, h.unsatOk⟩
  rw [h.sem hu a]
  exact ⟨fun ha j hj => (h.child_models (hlt j hj) a).mpr (ha j hj), fun ha j hj => (h.child_models (hlt j hj) a).mp (ha j hj)⟩

/-- the empty composite satisfies the invariant -/
theorem C12_invariant_init (track : Bool) : CInv R RE E [] [] { c := { track := track }, w := { fes := [] } } :=
  cinv_init R RE E track

/-- **`add` keeps the partition** (`CompositeFrontend._add`: the new constraints are split into independent groups; for each group
the children owning one of its variables are found (`_solver_for_names`: the closure loop finds exactly those), merged, claimed
copy-on-write, given the constraints and stored, `_store_child` re-pointing every variable of the child; a concretely false
constraint sets `_unsat`).  The merged child is what `combine` builds: `C12_combine_correct`. -/
theorem C12_add_keeps_partition (H : SolverHyps R RE E) {U : List Con} {Us : List (List Con)} {s : CSt}
    (h : CInv R RE E U Us s) (cs : List Con) (hcs : ∀ c ∈ cs, R c) (hconc : ∀ c ∈ cs, c.vars = [] → c.conc ≠ none) :
    ∃ added Us' s', compAdd E cs s = (.ok added, s') ∧ CInv R RE E (U ++ cs) Us' s' :=
  compAdd_spec H (childFoot H) (combineSpec H (childFoot H)) h cs hcs hconc

/-- the step for one independent group (`_add_dependent_constraints`): the children owning a variable of the group are replaced
by one child holding their constraints and the new ones; the other children are not touched -/
theorem C12_add_dependent_keeps_partition (H : SolverHyps R RE E) {U : List Con}
    {Us : List (List Con)} {s : CSt} (h : CInv R RE E U Us s) (names : List Var) (cs : List Con) (hcs : ∀ c ∈ cs, R c)
    (hcv : ∀ c ∈ cs, ∀ v ∈ c.vars, v ∈ names) (hne : cs ≠ []) (hvne : ∀ c ∈ cs, c.vars ≠ []) :
    ∃ added Us' s', addDependent E names cs s = (.ok added, s') ∧ (∀ c ∈ added, c ∈ cs) ∧ CInv R RE E (U ++ cs) Us' s' :=
  addDependent_spec H (childFoot H) (combineSpec H (childFoot H)) h names cs hcs hcv hne hvne

/-- **`satisfiable()` answers for the whole constraint list** (no extra constraints): the unchecked children are asked one by one
(`check_satisfiability` of the child class: cached verdict, trivial-constraint shortcut, backend); independent children have a
joint model (`children_joint_model`, the n-ary form of `C12_independent_sat`), so the composite is satisfiable iff all are -/
theorem C12_satisfiable_correct (H : SolverHyps R RE E) {U : List Con} {Us : List (List Con)} {s : CSt}
    (h : CInv R RE E U Us s) :
    match compSatisfiable E [] s with
    | (.ok b, s') => (b = true ↔ Satisfiable U) ∧ CInv R RE E U Us s'
    | (.error e, s') => IsGiveUp E e ∧ CInv R RE E U Us s' :=
  compSatisfiable_spec H (childFoot H) h

/-- the children's footprint the bookkeeping relies on (their queries never change `variables` / `constraints`; cached models
mention the child's variables only) -/
theorem C12_child_footprint (H : SolverHyps R RE E) : ChildFoot R RE E := childFoot H

/-- **`combine` delivers the merged child** (`ConstrainedFrontend.combine` + `ModelCacheMixin.combine`, called by
`_solver_for_names` when the names are owned by several children `j :: rest`): a new child that satisfies the C11 invariant
for the conjunction of the parts' constraints, knows exactly their variables, and whose cached models (the first
`len(self._models)` products of one cached model per part, in whatever order `itertools.product` walks the sets) are all
valid; nobody else changes.  This was the hypothesis `CombineSpec` of the earlier rounds. -/
theorem C12_combine_correct (H : SolverHyps R RE E) : CombineSpec R RE E := combineSpec H (childFoot H)

/-- the reason the cache part is right: cached models are dicts over the child's own variables (`KeysInv`, part of `CInv`), the
children share no variable, so the product of one cached model per child agrees on each child's variables with the model
taken from that child and satisfies every child's constraints -/
theorem C12_combine_models_valid (H : SolverHyps R RE E) {U : List Con} {Us : List (List Con)} {s : CSt}
    (h : CInv R RE E U Us s) (L : List Nat) (hnd : L.Nodup) (hin : ∀ j ∈ L, j ∈ s.c.solverList) (t : List PModel)
    (ht : List.Forall₂ (fun m j => m ∈ (s.child j).models) t L) :
    ∀ j ∈ L, Models (s.child j).constraints ((PModel.combine t).complete E.dflt) :=
  combine_valid H.reg h L hnd hin t ht

/-- **histories of `add` / `satisfiable()`** on one CompositeFrontend, from the empty one: every answer is the one the property
statement demands for ALL the constraints added so far (or an honest give-up of a child's backend) -/
theorem C12_composite_partial (H : SolverHyps R RE E) (track : Bool) (hist : List Op)
    (hok : ∀ op ∈ hist, InScopeCP R op) :
    ∀ x ∈ runComp E { c := { track := track }, w := { fes := [] } } [] hist, JudgeOrGiveUp E x.1 x.2.1 x.2.2 :=
  comp_hist H hist _ _ _ (cinv_init R RE E track) hok

/-- non-vacuity: the hypotheses hold in the consistent environment of C11, for a history that constrains, asks, pins, asks,
adds a concretely false constraint, asks -/
example : SolverHyps cR cRE cEnv ∧ ∀ op ∈ cCompHist, InScopeCP cR op :=
  ⟨cHyps, cCompHist_ok⟩

example : ∀ x ∈ runComp cEnv { c := {}, w := { fes := [] } } [] cCompHist, JudgeOrGiveUp cEnv x.1 x.2.1 x.2.2 :=
  C12_composite_partial cHyps false cCompHist cCompHist_ok

/-! ### the other queries: the child owning the variables answers for everything -/

/-- what `_solver_for_names(names)` hands back (`Merged`: one of the children, a blank one, or the `combine` of several), seen
from everything the user added: every model of `U` is a model of the merged child, and — when every child is satisfiable, which
`_ensure_sat` has just checked — every model of the merged child extends to a model of `U` without changing `names` or the
child's variables (n-ary `C12_query_component`: `children_joint_model` over `C12_children_partition`) -/
theorem C12_merged_child_vs_all (H : SolverHyps R RE E) {U : List Con} {Us Us1 : List (List Con)} {s s1 : CSt}
    (h : CInv R RE E U Us s) (names : List Var) (m : Nat) (hm : Merged R RE E Us Us1 s s1 names m) (hu : s.c.unsat = false) :
    (∀ a, Models U a → Models (Us1.getD m []) a) ∧
    ((∀ j ∈ s.c.solverList, Satisfiable (Us.getD j [])) → Equi names U (Us1.getD m [])) :=
  merged_equi H h names m hm hu

/-- **`eval(e, n)` of the composite answers for ALL the constraints added** (registered symbolic `e`, no extra constraints), in any
state satisfying the invariant: `_ensure_sat` (`C12_satisfiable_correct`), the merged solver of the variables of `e`
(`C12_combine_correct`), the child's answer (`C11_child_step`), the transfer (`C12_merged_child_vs_all`); `_reabsorb_solver` does
not raise (`C12_reabsorb_never_raises`).  A give-up of a child's backend is reported as such. -/
theorem C12_eval_correct (H : SolverHyps R RE E) {U : List Con} {Us : List (List Con)} {s : CSt} (h : CInv R RE E U Us s)
    (e : Exp) (n : Nat) (he : RE e) (hc : e.conc = none) (hn : 1 ≤ n) :
    JudgeOrGiveUp E U (.eval e n []) (compStep E s (.eval e n [])).1 :=
  compEval_judge H h e n he hc hn

/-- **`is_true` / `is_false` of the composite** with any extra constraints: a `True` is right for all the constraints added -/
theorem C12_is_true_correct (H : SolverHyps R RE E) {U : List Con} {Us : List (List Con)} {s : CSt} (h : CInv R RE E U Us s)
    (c : Con) (extra : List Con) : JudgeOrGiveUp E U (.isTrue c extra) (compStep E s (.isTrue c extra)).1 :=
  compTruth_judge H h true c extra

theorem C12_is_false_correct (H : SolverHyps R RE E) {U : List Con} {Us : List (List Con)} {s : CSt} (h : CInv R RE E U Us s)
    (c : Con) (extra : List Con) : JudgeOrGiveUp E U (.isFalse c extra) (compStep E s (.isFalse c extra)).1 :=
  compTruth_judge H h false c extra

/-- `_reabsorb_solver(m)` does not raise when every variable of `m` is a key of `_solvers` (`split()` of the temporary child
succeeds; the least variable of every part is a key) -/
theorem C12_reabsorb_never_raises (H : SolverHyps R RE E) {Us : List (List Con)} {s : CSt} (hw : TInvS R RE E Us s.w)
    (hre : s.w.reuse = false) (m : Nat) (hm : m < s.w.fes.length)
    (hkeys : ∀ v ∈ (s.child m).variables, ∃ t, alGet? s.c.solvers v = some t) : ∃ s', reabsorb E m s = (.ok (), s') :=
  reabsorb_ok H hw hre m hm hkeys

/-- **any history of `add` / `satisfiable()` followed by one query** (`eval` without extra constraints, `is_true` / `is_false`
with any): the query is answered as the property statement demands for all the constraints added -/
theorem C12_query_after_history_partial (H : SolverHyps R RE E) (track : Bool) (hist : List Op)
    (hok : ∀ op ∈ hist, InScopeCP R op) (op : Op) (hop : InScopeCQ RE op) :
    JudgeOrGiveUp E (usersAfterOps [] hist) op
      (compStep E (compRun E { c := { track := track }, w := { fes := [] } } hist) op).1 := by
  obtain ⟨Us', hinv⟩ := comp_hist_inv H hist _ [] [] (cinv_init R RE E track) hok
  exact comp_query_step H hinv op hop

/-- non-vacuity: constrain, ask, pin, then `eval` of the variable -/
example : JudgeOrGiveUp cEnv (usersAfterOps [] [.add [cCon], .satisfiable [], .add [cEq]]) (.eval cExp 2 [])
    (compStep cEnv (compRun cEnv { c := {}, w := { fes := [] } } [.add [cCon], .satisfiable [], .add [cEq]]) (.eval cExp 2 [])).1 :=
  C12_query_after_history_partial cHyps false _
    (fun op hop => cCompHist_ok op (by
      simp only [List.mem_cons, List.not_mem_nil, or_false] at hop
      rcases hop with rfl | rfl | rfl <;> simp [cCompHist]))
    _ ⟨rfl, rfl, by decide, rfl⟩

/-! ### `simplify` does NOT keep the partition (the code as written; answers are not affected)

A child's `variables` only grows: when `simplify()` rewrites `x + (y & ~y) < 3` to `x < 3` the child still lists `y`.  A later constraint
connecting `x` with another child makes `_solver_for_names` combine the two; the combined child knows `x` and `z`, `_store_child`
re-points those, `_solvers["y"]` keeps the old child alive — two children now share `x` (and the constraint `x < 3`).  Same
observation as the open finding of C15 (overlapping parts from `split()`); replayed on the real classes CompositeFrontend and
SolverComposite (design_notes/C12.md). -/

def sCxy : Con := { id := 1, vars := [0, 1], sem := fun a => decide (a 0 % 256 < 3) }
def sCx : Con := { id := 4, vars := [0], sem := fun a => decide (a 0 % 256 < 3) }
def sCz : Con := { id := 2, vars := [2], sem := fun a => decide (a 2 % 256 < 9) }
def sLink : Con := { id := 3, vars := [0, 2], sem := fun a => decide ((a 0 + 1) % 256 = a 2 % 256) }
/-- a simplifier that is an equivalence and invents no variable: it drops the variable `sCxy` does not depend on -/
def sEnv : Env :=
  { dflt := fun _ => 0, oracle := fun _ _ => .unknown, build := fun _ => default, falseCon := default,
    cheapFalse := fun _ _ _ => false, truth := fun _ _ _ => false,
    simp := fun cs _ => cs.map fun c => if c.id = 1 then sCx else c, pick := fun all n _ => all.take n }

def stateAfter (E : Env) : CSt → List Op → CSt
  | s, [] => s
  | s, op :: rest => stateAfter E (compStep E s op).2 rest

/-- two different children of the list know a common variable -/
def childrenOverlap (s : CSt) : Bool :=
  s.c.solverList.any fun i => s.c.solverList.any fun j => i != j && (s.child i).variables.any (s.child j).variables.contains

/-- the simplifier used is semantically the identity -/
example : ∀ a, sCx.sem a = sCxy.sem a := fun _ => rfl

/-- **witness**: add, add, simplify, add — the children then overlap; without the `simplify` they do not -/
theorem C12_simplify_breaks_partition :
    childrenOverlap (stateAfter sEnv {} [.add [sCxy], .add [sCz], .simplify, .add [sLink]]) = true ∧
    childrenOverlap (stateAfter sEnv {} [.add [sCxy], .add [sCz], .add [sLink]]) = false := by decide +kernel

/-- **The full statement**: every history of public calls on a CompositeFrontend (hence, with the mixin layers of C11 on top, on
a SolverComposite) is answered as the property statement demands for all the constraints added.  Proved: `C12_composite_partial`
(whole histories of add / satisfiable()), with `combine` proved (`C12_combine_correct`, no hypothesis left), and
`C12_query_after_history_partial` (such a history followed by ONE `eval` without extra constraints or `is_true` / `is_false` with
any).  Missing:
  * `_reabsorb_solver` RE-ESTABLISHES the invariant `CInv` (proved: it does not raise, `C12_reabsorb_never_raises`): `split()` of
    the temporary merged child gives back the old children exactly when every child is connected (then `update` only adds cached
    models over the child's variables — the parts carry no exhausted-markers, being blank copies), else the parts replace them;
    needs the connectivity of children as an invariant or the replacement case of `cinv_install`.  Until then a query cannot be
    followed by further calls in the theorems, and the value queries with EXTRA constraints are open (`_ensure_sat(extra)`
    reabsorbs before the query);
  * `batch_eval`, `min`, `max`, `solution`: the same proof as `C12_eval_correct` (the transfer `Equi` carries `Feasible`, hence
    `IsOpt` and `FeasibleT`; `C12_optimum_component`) once the footprint of those child calls (`variables` unchanged — proved for
    `eval` and `check_satisfiability` in `C12_child_footprint`) is proved, which `_reabsorb_solver` needs in order not to raise;
  * `simplify` (a child's `variables` may keep a variable its constraints lost: `ExactVars` fails, see design_notes/C12.md),
    `branch` / pickling of the composite (children shared copy-on-write between composites);
  * the mixins of class SolverComposite above CompositeFrontend, CompositedCacheMixin among them. -/
def C12_full : Prop :=
  ∀ (E : Env) (R : Con → Prop) (RE : Exp → Prop), SolverHyps R RE E → ∀ (track : Bool) (hist : List Op),
    (∀ op ∈ hist, InScopeS R RE op ∧ op ≠ .branch) →
    ∀ x ∈ runComp E { c := { track := track }, w := { fes := [] } } [] hist, JudgeOrGiveUp E x.1 x.2.1 x.2.2

end Claripy.Props.C12
