import Claripy.AST.Truth
import ClaripyProofs.Props.C05
/-!
# C10 — cheap truth checks never claim a truth value that does not hold (expression level)

`claripy.is_true(e)` / `is_false(e)` (and the `Bool` methods) for ANY history of queries, answered from caches or not:
a True answer implies that `e` denotes true (resp. false) under EVERY assignment.  A False answer promises nothing.
The solver-level versions (`Solver.is_true`) are handled with the solver family.
-/
namespace Claripy.Props.C10
open Claripy.AST

def Valid (e : Expr) : Prop := ∀ env : Env, eval env e = .bool true
def Unsat (e : Expr) : Prop := ∀ env : Env, eval env e = .bool false

theorem beq_val_true {v : Val} (h : (v == Val.bool true) = true) : v = .bool true := by
  simpa using h
theorem beq_val_false {v : Val} (h : (v == Val.bool false) = true) : v = .bool false := by
  simpa using h

theorem isTrueCore_sound (e : Expr) (h : isTrueCore e = true) : Valid e := by
  simp only [isTrueCore, Bool.and_eq_true] at h
  intro env
  have hsym : e.symbolic = false := by simp [Expr.symbolic, h.1]
  rw [Claripy.Props.C05.C05_concrete e hsym env env0]
  exact beq_val_true h.2

theorem isFalseCore_sound (e : Expr) (h : isFalseCore e = true) : Unsat e := by
  simp only [isFalseCore, Bool.and_eq_true] at h
  intro env
  have hsym : e.symbolic = false := by simp [Expr.symbolic, h.1]
  rw [Claripy.Props.C05.C05_concrete e hsym env env0]
  exact beq_val_false h.2

/-! structural equality test is sound -/
mutual
theorem beq_eq : ∀ (a b : Expr), Expr.beq a b = true → a = b
  | .bvv v w, .bvv v' w', h => by simp [Expr.beq] at h; simp [h]
  | .bvs n w, .bvs n' w', h => by simp [Expr.beq] at h; simp [h]
  | .boolv b, .boolv b', h => by simp [Expr.beq] at h; simp [h]
  | .bools n, .bools n', h => by simp [Expr.beq] at h; simp [h]
  | .app op args, .app op' args', h => by
    simp [Expr.beq] at h
    rw [h.1, beqList_eq args args' h.2]
  | .bvv _ _, .bvs _ _, h | .bvv _ _, .boolv _, h | .bvv _ _, .bools _, h | .bvv _ _, .app _ _, h
  | .bvs _ _, .bvv _ _, h | .bvs _ _, .boolv _, h | .bvs _ _, .bools _, h | .bvs _ _, .app _ _, h
  | .boolv _, .bvv _ _, h | .boolv _, .bvs _ _, h | .boolv _, .bools _, h | .boolv _, .app _ _, h
  | .bools _, .bvv _ _, h | .bools _, .bvs _ _, h | .bools _, .boolv _, h | .bools _, .app _ _, h
  | .app _ _, .bvv _ _, h | .app _ _, .bvs _ _, h | .app _ _, .boolv _, h | .app _ _, .bools _, h => by
    simp [Expr.beq] at h
theorem beqList_eq : ∀ (as bs : List Expr), Expr.beqList as bs = true → as = bs
  | [], [], _ => rfl
  | a :: as, b :: bs, h => by
    simp [Expr.beqList] at h
    rw [beq_eq a b h.1, beqList_eq as bs h.2]
  | [], _ :: _, h | _ :: _, [], h => by simp [Expr.beqList] at h
end

/-- every positive cache entry is a correct verdict -/
def CacheInv (c : Caches) : Prop :=
  (∀ kv ∈ c.t, kv.2 = true → Valid kv.1) ∧ (∀ kv ∈ c.f, kv.2 = true → Unsat kv.1)

theorem lookup_mem (l : List (Expr × Bool)) (e : Expr) (v : Bool) (h : lookup l e = some v) : (e, v) ∈ l := by
  unfold lookup at h
  cases hf : l.find? (fun kv => kv.1 == e) with
  | none => simp [hf] at h
  | some kv =>
    simp [hf] at h
    have hm := List.mem_of_find?_eq_some hf
    have hp := List.find?_some hf
    have : kv.1 = e := beq_eq _ _ hp
    cases kv
    simp_all

theorem isTrue_step (c : Caches) (e : Expr) (hc : CacheInv c) :
    ((isTrue c e).1 = true → Valid e) ∧ CacheInv (isTrue c e).2 := by
  unfold Claripy.AST.isTrue
  cases hl : lookup c.t e with
  | some v =>
    refine ⟨fun hv => hc.1 (e, v) (lookup_mem _ _ _ hl) hv, hc⟩
  | none =>
    simp only
    refine ⟨fun hv => isTrueCore_sound e hv, ?_, ?_⟩
    · intro kv hkv ht
      simp only [List.mem_cons] at hkv
      rcases hkv with rfl | hkv
      · exact isTrueCore_sound _ ht
      · exact hc.1 kv hkv ht
    · intro kv hkv hf
      split at hkv
      · simp only [List.mem_cons] at hkv
        rcases hkv with rfl | hkv
        · simp at hf
        · exact hc.2 kv hkv hf
      · exact hc.2 kv hkv hf

theorem isFalse_step (c : Caches) (e : Expr) (hc : CacheInv c) :
    ((isFalse c e).1 = true → Unsat e) ∧ CacheInv (isFalse c e).2 := by
  unfold Claripy.AST.isFalse
  cases hl : lookup c.f e with
  | some v =>
    refine ⟨fun hv => hc.2 (e, v) (lookup_mem _ _ _ hl) hv, hc⟩
  | none =>
    simp only
    refine ⟨fun hv => isFalseCore_sound e hv, ?_, ?_⟩
    · intro kv hkv ht
      split at hkv
      · simp only [List.mem_cons] at hkv
        rcases hkv with rfl | hkv
        · simp at ht
        · exact hc.1 kv hkv ht
      · exact hc.1 kv hkv ht
    · intro kv hkv hf
      simp only [List.mem_cons] at hkv
      rcases hkv with rfl | hkv
      · exact isFalseCore_sound _ hf
      · exact hc.2 kv hkv hf

/-- what a True answer to a query means -/
def Holds : Query → Prop
  | .isTrue e => Valid e
  | .isFalse e => Unsat e

/-- **C10**: for ANY history of `is_true` / `is_false` queries starting from empty caches, every True answer is
correct (the i-th answer true ⇒ the i-th queried expression is valid, resp. unsatisfiable). -/
theorem C10_history (c : Caches) (hc : CacheInv c) : ∀ (qs : List Query),
    (∀ i (h : i < qs.length), (runQueries c qs).1[i]? = some true → Holds qs[i]) ∧ CacheInv (runQueries c qs).2
  | [] => ⟨fun i h => absurd h (by simp), hc⟩
  | q :: qs => by
    have hstep : ((answer c q).1 = true → Holds q) ∧ CacheInv (answer c q).2 := by
      cases q with
      | isTrue e => exact isTrue_step c e hc
      | isFalse e => exact isFalse_step c e hc
    obtain ⟨ih1, ih2⟩ := C10_history (answer c q).2 hstep.2 qs
    simp only [runQueries]
    refine ⟨?_, ih2⟩
    intro i hi ha
    cases i with
    | zero => simp at ha; exact hstep.1 ha
    | succ j =>
      simp at ha
      exact ih1 j (by simpa using hi) ha

theorem C10_from_empty (qs : List Query) :
    ∀ i (h : i < qs.length), (runQueries {} qs).1[i]? = some true → Holds qs[i] :=
  (C10_history {} ⟨by intro kv h; simp at h, by intro kv h; simp at h⟩ qs).1

/-- non-vacuity: an unfolded concrete expression is recognised, a symbolic tautology is (allowed to be) not -/
example : isTrueCore (.app .eq [.app .add [.bvv 3 8, .bvv 4 8], .bvv 7 8]) = true := by decide
example : isTrueCore (.app .eq [.bvs "x" 8, .bvs "x" 8]) = false := by decide

end Claripy.Props.C10
