import ClaripyProofs.Lemmas.FP.FoldD2
import ClaripyProofs.Lemmas.FP.RoundModes
import ClaripyProofs.Lemmas.FP.FoldF
import ClaripyProofs.Lemmas.FP.IntConv
import ClaripyProofs.Lemmas.FP.MulF
import ClaripyProofs.Lemmas.FP.AddF
import ClaripyProofs.Lemmas.FP.SubDR
import ClaripyProofs.Lemmas.FP.DivFull
import ClaripyProofs.Lemmas.FP.SqrtFull
/-!
# C02 — IEEE-754 meaning of floating-point folding in every rounding mode

`Claripy.FP` (Spec.lean) is a soft-float specification over exact integers/rationals with ONE rounding per operation in
the five SMT-LIB modes; `Claripy.FP.Fold` models `backends/backend_concrete/fp.py` + `ast/fp.py:FPV` ("one binary64 RNE
rounding per Python float operation, one more binary32 rounding for FLOAT", rounding-mode argument ignored).
`Claripy.Gen.rmToDecimal` is regenerated from `claripy/fp.py` on every run.

Proved for all operands: for DOUBLE and round-to-nearest-even the fold IS the specification for add, sub, mul, div
(including the `ZeroDivisionError` branch), sqrt, neg, abs, all comparisons, isNaN/isInf; the generated table is the
SMT-LIB one and `decimal`'s rounding under it is `roundToIntegral`, so `fpToSBV/fpToUBV` of a DOUBLE give the SMT-LIB value
wherever it is specified, in all five modes.  FLOAT arithmetic (one binary64 rounding, then `struct.pack('f')`) is the
specification under RNE as well, for every operand of add, sub, mul, div, sqrt: the double rounding 53 → 24 bits is
innocuous (`double_rounding_innocuous_*`, `fold_float_rne`; no hypothesis left).  For the other modes the statement is
FALSE on the current code (open findings): negations with concrete witnesses below.
-/
namespace Claripy.Props.C02
open Claripy.FP Claripy.FP.Fold

/-! ## the rounding function is correct with respect to the exact value, in every mode, for every format

Reading (see `Lemmas/FP/Round.lean`): a finite magnitude `g` has the real value `sval f g / 2^q`; the input of
`roundScaled` denotes `x = (sc/den) / 2^q` (`x > 0`).  `sval f g * den ≤ sc` says `value g ≤ x`; `infMag` has the value
`2^(emax+1)`.  All statements hold for every well-formed format (in particular binary32, binary64), every `sc`, `den > 0`.-/

/-- overflow happens exactly when the exact value reaches `2^(emax+1)`; the result is then the mode's overflow value -/
theorem round_overflow_spec (f : Fmt) (wf : WF f) (rm : RM) (neg : Bool) (sc den : Nat) (hden : 0 < den)
    (h : sval f f.infMag * den ≤ sc) : roundScaled f rm neg sc den = overflowMag f rm neg :=
  roundScaled_overflow f rm neg sc den (fun hR => by have := (inRange_iff f wf sc den hden).1 hR; omega)

/-- below overflow: `floorMag` is THE float with `value ≤ x < value of its successor`, and every mode returns it or its successor -/
theorem round_floor_spec (f : Fmt) (wf : WF f) (rm : RM) (neg : Bool) (sc den : Nat) (hden : 0 < den)
    (h : sc < sval f f.infMag * den) :
    sval f (floorMag f sc den) * den ≤ sc ∧ sc < sval f (floorMag f sc den + 1) * den ∧
    (∀ g, sval f g * den ≤ sc → sc < sval f (g + 1) * den → g = floorMag f sc den) ∧
    (roundScaled f rm neg sc den = floorMag f sc den ∨ roundScaled f rm neg sc den = floorMag f sc den + 1) :=
  have hR := (inRange_iff f wf sc den hden).2 h
  ⟨(floor_law f sc den hden).1, (floor_law f sc den hden).2,
   fun g h1 h2 => (floor_unique f sc den g hden h1 h2).symm, round_floor_or_succ f rm neg sc den hR⟩

/-- RTZ truncates; RTP/RTN truncate on the side pointing to zero and otherwise keep exact values and go to the successor -/
theorem round_directed_spec (f : Fmt) (wf : WF f) (neg : Bool) (sc den : Nat) (hden : 0 < den)
    (h : sc < sval f f.infMag * den) :
    roundScaled f .RTZ neg sc den = floorMag f sc den ∧
    roundScaled f .RTP true sc den = floorMag f sc den ∧ roundScaled f .RTN false sc den = floorMag f sc den ∧
    roundScaled f .RTP false sc den =
      (if sc = sval f (floorMag f sc den) * den then floorMag f sc den else floorMag f sc den + 1) ∧
    roundScaled f .RTN true sc den =
      (if sc = sval f (floorMag f sc den) * den then floorMag f sc den else floorMag f sc den + 1) :=
  have hR := (inRange_iff f wf sc den hden).2 h
  ⟨round_rtz f neg sc den hR, round_toward f .RTP true sc den hR (Or.inl ⟨rfl, rfl⟩),
   round_toward f .RTN false sc den hR (Or.inr ⟨rfl, rfl⟩),
   round_away f .RTP false sc den hden hR (Or.inl ⟨rfl, rfl⟩), round_away f .RTN true sc den hden hR (Or.inr ⟨rfl, rfl⟩)⟩

/-- RNA / RNE: below the midpoint → floor, above → successor, at the midpoint → away from zero resp. to the even one -/
theorem round_nearest_spec (f : Fmt) (wf : WF f) (neg : Bool) (sc den : Nat) (hden : 0 < den)
    (h : sc < sval f f.infMag * den) :
    let lo := floorMag f sc den
    let mid := (sval f lo + sval f (lo + 1)) * den
    roundScaled f .RNA neg sc den = (if 2 * sc < mid then lo else lo + 1) ∧
    roundScaled f .RNE neg sc den =
      (if 2 * sc < mid then lo else if 2 * sc > mid then lo + 1 else if lo % 2 = 0 then lo else lo + 1) :=
  have hR := (inRange_iff f wf sc den hden).2 h
  ⟨round_rna f neg sc den hden hR, round_rne f wf neg sc den hden hR⟩

/-- a representable value is returned unchanged in every mode (so every operation whose exact result is a float is exact) -/
theorem round_exact_spec (f : Fmt) (wf : WF f) (rm : RM) (neg : Bool) (g den : Nat) (hden : 0 < den) (hg : g < f.infMag) :
    roundScaled f rm neg (sval f g * den) den = g := round_exact f wf rm neg g den hden hg

/-- the float order is the order of the values, and distinct floats have distinct values -/
theorem value_order_spec (f : Fmt) (a b : Nat) : (a < b → sval f a < sval f b) ∧ (sval f a = sval f b → a = b) :=
  ⟨sval_strictMono f, sval_injective f⟩

-- non-vacuity: 1/3 in binary64 (sc = 2^q, den = 3): floor, RNE = floor, RTP = floor + 1
example : floorMag binary64 (2 ^ 1074) 3 = 0x3FD5555555555555 ∧
    roundScaled binary64 .RNE false (2 ^ 1074) 3 = 0x3FD5555555555555 ∧
    roundScaled binary64 .RTP false (2 ^ 1074) 3 = 0x3FD5555555555556 := by decide +kernel

/-! ## translator tie: the generated table -/

/-- the table in `claripy/fp.py` (as regenerated now) maps every SMT-LIB mode to the decimal constant that implements it -/
theorem gen_table_is_smtlib : Claripy.Gen.rmToDecimal = smtlibDecimal := by
  funext rm; cases rm <;> rfl

/-- `roundToIntegral` table law: under the generated table, `decimal` rounds exactly as the SMT-LIB mode says -/
theorem decimal_mode_spec (rm : RM) (neg odd : Bool) (rem dd : Nat) :
    decRoundUp (Claripy.Gen.rmToDecimal rm) neg odd rem dd = roundUp rm neg odd rem dd := by
  rw [gen_table_is_smtlib]; exact decRoundUp_smtlib rm neg odd rem dd

/-- float → bit-vector conversions of a DOUBLE, all five modes: the SMT-LIB value wherever SMT-LIB specifies one -/
theorem to_bv_spec (rm : RM) (a w v : Nat) (ha : a < 2 ^ 64) :
    (toSBV D rm a w = some v → fpToBV D rm a w = v) ∧ (toUBV D rm a w = some v → fpToBV D rm a w = v) :=
  ⟨fpToBV_sbv_D rm a w v ha gen_table_is_smtlib, fpToBV_ubv_D rm a w v ha gen_table_is_smtlib⟩

-- non-vacuity: 2.5 under RNE/RNA/RTZ (8 bits) and -1.5 under RTP
example : toSBV D .RNE 0x4004000000000000 8 = some 2 ∧ toSBV D .RNA 0x4004000000000000 8 = some 3 ∧
    toSBV D .RTZ 0x4004000000000000 8 = some 2 ∧ toSBV D .RTP 0xBFF8000000000000 8 = some 255 := by decide +kernel

/-! ## fold = specification, DOUBLE, round to nearest even (the default mode) — every operand -/

theorem fold_add_double_rne (a b : Nat) (ha : a < 2 ^ 64) (hb : b < 2 ^ 64) : fpAdd D .RNE a b = add D .RNE a b :=
  fpAdd_D .RNE a b ha hb
theorem fold_sub_double_rne (a b : Nat) (ha : a < 2 ^ 64) (hb : b < 2 ^ 64) : fpSub D .RNE a b = sub D .RNE a b :=
  fpSub_D .RNE a b ha hb
theorem fold_mul_double_rne (a b : Nat) (ha : a < 2 ^ 64) (hb : b < 2 ^ 64) : fpMul D .RNE a b = mul D .RNE a b :=
  fpMul_D .RNE a b ha hb
/-- including x/±0, 0/0, NaN/0, ±inf/±0 (Python raises ZeroDivisionError there; `_div_by_zero` supplies the IEEE result) -/
theorem fold_div_double_rne (a b : Nat) (ha : a < 2 ^ 64) (hb : b < 2 ^ 64) : fpDiv D .RNE a b = div D .RNE a b :=
  fpDiv_D .RNE a b ha hb
theorem fold_sqrt_double_rne (a : Nat) (ha : a < 2 ^ 64) : fpSqrt D .RNE a = sqrt D .RNE a := fpSqrt_D .RNE a ha
/-- NaN operands excepted only because their bit pattern is unspecified -/
theorem fold_neg_abs_double (a : Nat) (ha : a < 2 ^ 64) (hn : isNaN D a = false) :
    fpNeg D a = neg D a ∧ fpAbs D a = abs D a := ⟨fpNeg_D a ha hn, fpAbs_D a ha hn⟩
theorem fold_cmp_double (a b : Nat) (ha : a < 2 ^ 64) (hb : b < 2 ^ 64) :
    fpEQ D a b = feq D a b ∧ fpNEQ D a b = fneq D a b ∧ fpLT D a b = flt D a b ∧ fpLEQ D a b = fleq D a b ∧
    fpGT D a b = fgt D a b ∧ fpGEQ D a b = fgeq D a b ∧ fpIsNaN D a = isNaN D a ∧ fpIsInf D a = isInf D a :=
  let ⟨h1, h2, h3, h4, h5, h6⟩ := cmp_D a b ha hb
  ⟨h1, h2, h3, h4, h5, h6, (class_D a ha).1, (class_D a ha).2⟩

/-- the repaired `ZeroDivisionError` branch is IEEE-754 division by a zero, in every mode -/
theorem div_by_zero_spec (rm : RM) (a b : Nat) (hb : isZero D b = true) (ha : isNaN D a = false) :
    divByZero a b = div D rm a b := divByZero_spec rm a b hb ha

example : div D .RNE 0 0 = D.nanBits ∧ div D .RNE 0xFFF0000000000000 0 = 0xFFF0000000000000 := by decide +kernel

/-! ## FLOAT: one binary64 rounding followed by a binary32 rounding -/

/-- "double rounding 53 → 24 is innocuous" for a binary operation (Figueroa 1995): the operation carried out in binary64 (RNE) on
the widened operands and rounded again to binary32 (RNE) is the binary32 operation (RNE), for ALL bit patterns.  Proved below for
add, sub, mul, div (`double_rounding_innocuous_*`); validated against Z3 on every FLOAT case of every run as well. -/
def DoubleRoundingInnocuous (op : Fmt → RM → Nat → Nat → Nat) : Prop :=
  ∀ a b : Nat, narrow (op D .RNE (widen a) (widen b)) = op F .RNE a b

/-- the same for a unary operation (sqrt) -/
def DoubleRoundingInnocuous1 (op : Fmt → RM → Nat → Nat) : Prop :=
  ∀ a : Nat, narrow (op D .RNE (widen a)) = op F .RNE a

/-! ### proved for FLOAT without any hypothesis: everything that does not round, and everything that rounds only once -/

/-- FLOAT → DOUBLE is exact, so the ignored rounding-mode argument does no harm: fold = specification in ALL FIVE modes -/
theorem fold_widen_all_modes (rm : RM) (a : Nat) : fpToFP_fp F D rm a = cvt F D rm a := fpToFP_widen rm a

/-- comparisons and classification of FLOATs (the fold compares the widened Python floats), every operand -/
theorem fold_cmp_float (a b : Nat) :
    fpEQ F a b = feq F a b ∧ fpNEQ F a b = fneq F a b ∧ fpLT F a b = flt F a b ∧ fpLEQ F a b = fleq F a b ∧
    fpGT F a b = fgt F a b ∧ fpGEQ F a b = fgeq F a b ∧ fpIsNaN F a = isNaN F a ∧ fpIsInf F a = isInf F a := cmp_F a b

theorem fold_neg_abs_float (a : Nat) (hn : isNaN F a = false) : fpNeg F a = neg F a ∧ fpAbs F a = abs F a :=
  ⟨fpNeg_F a hn, fpAbs_F a hn⟩

/-- `fpToIEEEBV` returns the bit pattern for every non-NaN value of both sorts -/
theorem fold_to_ieee_bv (a : Nat) :
    (a < 2 ^ 64 → isNaN D a = false → fpToIEEEBV D a = a) ∧ (a < 2 ^ 32 → isNaN F a = false → fpToIEEEBV F a = a) :=
  fpToIEEEBV_ok a

/-- float → bit-vector conversions of a FLOAT, all five modes -/
theorem to_bv_spec_float (rm : RM) (a w v : Nat) :
    (toSBV F rm a w = some v → fpToBV F rm a w = v) ∧ (toUBV F rm a w = some v → fpToBV F rm a w = v) :=
  fpToBV_F rm a w v gen_table_is_smtlib

/-- DOUBLE → FLOAT under RNE is the single `struct.pack('f')` rounding -/
theorem fold_narrow_rne (a : Nat) (ha : a < 2 ^ 64) (hn : isNaN D a = false) : fpToFP_fp D F .RNE a = cvt D F .RNE a := by
  unfold fpToFP_fp lower narrow; rw [if_pos rfl, lift_D_notnan a ha hn]

/-- integer → DOUBLE under RNE (bit-vectors of up to 1023 bits): `float(int)` is the specification's `to_fp` /
`to_fp_unsigned`, finite in every case (no OverflowError); `fpToFP(rm, bv, DOUBLE)` wraps exactly this value -/
theorem fold_int_to_double_rne (w v : Nat) (hw : w ≤ 1023) :
    pyFloatOfInt false (v % 2 ^ w) = some (ofUBV D .RNE w v) ∧
    (if v % 2 ^ w ≥ 2 ^ (w - 1) then pyFloatOfInt true (2 ^ w - v % 2 ^ w) else pyFloatOfInt false (v % 2 ^ w))
      = some (ofSBV D .RNE w v) := int_to_double_rne w v hw

/-! ### the two cancellation rewrites of simplifications.py -/

/-- `fpToIEEEBV(fpToFP(bv, sort)) ⇒ bv` (`fptobv_simplifier`): reinterpreting bits and reading them back is the identity for
every non-NaN pattern; for NaN patterns SMT-LIB leaves `fp.to_ieee_bv` unspecified (exempt) -/
theorem cancel_fptobv_fptofp (f : Fmt) (b : Nat) (hb : b < 2 ^ f.width) (hn : isNaN f b = false) : toIEEE f b = some b := by
  unfold toIEEE; rw [hn]; simp [Nat.mod_eq_of_lt hb]

/-- `fpToFP(fpToIEEEBV(x), sort) ⇒ x` (`fptofp_simplifier`): whatever pattern `to_ieee_bv` yields for `x` — the pattern of `x`
itself, or any NaN pattern `p` if `x` is NaN — reinterpreting it gives `x` back as a value -/
theorem cancel_fptofp_fptobv (f : Fmt) (x p : Nat) (hx : x < 2 ^ f.width)
    (h : toIEEE f x = some p ∨ (isNaN f x = true ∧ isNaN f p = true)) :
    (isNaN f x = false → p = x) ∧ (isNaN f x = true → isNaN f p = true) := by
  rcases h with h | ⟨hx1, hp⟩
  · unfold toIEEE at h
    cases hn : isNaN f x
    · simp [hn, Nat.mod_eq_of_lt hx] at h; exact ⟨fun _ => h.symm, fun h' => absurd h' (by simp)⟩
    · simp [hn] at h
  · exact ⟨fun h' => by rw [hx1] at h'; exact absurd h' (by simp), fun _ => hp⟩

/-- full statement for FLOAT: under RNE the fold of every arithmetic operation is the specification, for all bit patterns -/
def fold_float_rne_full : Prop :=
  ∀ a b : Nat, fpAdd F .RNE a b = add F .RNE a b ∧ fpSub F .RNE a b = sub F .RNE a b ∧ fpMul F .RNE a b = mul F .RNE a b ∧
    fpDiv F .RNE a b = div F .RNE a b ∧ fpSqrt F .RNE a = sqrt F .RNE a

/-- FLOAT MULTIPLICATION, no hypothesis: the binary64 product of two binary32 values is exact (≤ 48 significant bits, exponent
inside the binary64 range), so the fold rounds once — fold = specification under RNE for every pair of operands -/
theorem fold_mul_float_rne (a b : Nat) : fpMul F .RNE a b = mul F .RNE a b := fpMul_F .RNE a b

/-- FLOAT ADDITION when the exact sum of the two binary32 values is itself a binary64 value — in particular whenever it has at
most 53 significant bits (`sum_representable_of_53_bits`; always true when the operands' exponents differ by at most 29): the
Python float addition is exact and the fold rounds once.  (Superseded by `fold_add_float_rne`, kept as the easy half.) -/
theorem fold_add_float_partial (a b : Nat) (h : SumRepresentable a b) : fpAdd F .RNE a b = add F .RNE a b :=
  fpAdd_F_of_representable .RNE a b h

theorem sum_representable_of_53_bits (a b M k : Nat) (hfa : magOf F a < F.infMag) (hfb : magOf F b < F.infMag)
    (hS : (sintOf F a + sintOf F b).natAbs = M * 2 ^ k) (hM : M < 2 ^ 53) : SumRepresentable a b :=
  sumRepresentable_of_53_bits a b M k hfa hfb hS hM

-- non-vacuity: 1.0f + 2^-20f (exponents 20 apart; the binary32 sum is inexact, the binary64 sum exact)
example : SumRepresentable 0x3F800000 0x35800000 := ⟨0x3FF0000100000000, by decide, by decide +kernel⟩

/-- rounding depends only on the rational value of the input (a common factor of `sc` and `den` cancels) -/
theorem round_scale_invariant (f : Fmt) (rm : RM) (neg : Bool) (sc den k : Nat) (hden : 0 < den) (hk : 0 < k) :
    roundScaled f rm neg (sc * k) (den * k) = roundScaled f rm neg sc den := roundScaled_scale f rm neg sc den k hden hk

/-- the FLOAT statement follows from the innocuous-double-rounding statements (multiplication needs none: it is exact) -/
theorem fold_float_rne_partial (hadd : DoubleRoundingInnocuous add) (hsub : DoubleRoundingInnocuous sub)
    (hdiv : DoubleRoundingInnocuous div) (hsqrt : DoubleRoundingInnocuous1 sqrt) : fold_float_rne_full := by
  intro a b
  refine ⟨?_, ?_, fold_mul_float_rne a b, ?_, ?_⟩
  · have := hadd a b; unfold fpAdd pyAdd lift lower; simpa using this
  · have := hsub a b; unfold fpSub pySub lift lower; simpa using this
  · rw [fpDiv_F_narrow]; exact hdiv a b
  · rw [fpSqrt_F_narrow]; exact hsqrt a

/-! ### the double rounding is innocuous (Figueroa 1995, `53 ≥ 2·24 + 2`) — proved for the model's definitions, all bit patterns

Common part (`Lemmas/FP/Mono.lean`, `DoubleRound.lean`, `NarrowRound.lean`): rounding is monotone and the identity on
representable values; binary32 values and the midpoints of adjacent binary32 values are binary64 values; hence the second
rounding can only go wrong if the first one lands on a binary32 midpoint that the exact result is not (`NoFalseTie`), and that
is excluded when the exact result keeps a distance of 2^-28 binary32 ulp from the midpoint (`no_false_tie_of_gap`: the
binary64 values `mid ± 2^-28 ulp` separate).  Signs, zero results, binary32 overflow to infinity and binary32 subnormal results
(binary64 normals) are inside `narrow_roundS`; NaN / infinity / zero operands are the case analysis of each operation. -/

/-- ADDITION: a sum that is not itself a binary64 value has operands whose quanta are ≥ 30 binary places apart, so it lies within
2^-6 binary32 ulp of the larger operand — a binary32 value — and cannot be rounded to a midpoint (`AddDR.lean`) -/
theorem double_rounding_innocuous_add : DoubleRoundingInnocuous add := narrow_add_widen

/-- SUBTRACTION: `a - b = a + (-b)` in both formats; widening commutes with negation (`SubDR.lean`) -/
theorem double_rounding_innocuous_sub : DoubleRoundingInnocuous sub := narrow_sub_widen

/-- MULTIPLICATION: the binary64 product is exact -/
theorem double_rounding_innocuous_mul : DoubleRoundingInnocuous mul := by
  intro a b
  have := fpMul_F .RNE a b
  unfold fpMul pyMul lift lower at this; simpa using this

/-- DIVISION: `2x - M·2^sh = Δ/den` with `Δ = pa·2^(ka+1) - M·pb·2^(eb+sh)` divisible by a large power of two; a non-zero `Δ` is
at least `2^-27 · den·2^sh` (`div_gap`, `DivDR.lean`); x/±0, 0/0, ±inf/… as IEEE-754 says (`DivFull.lean`) -/
theorem double_rounding_innocuous_div : DoubleRoundingInnocuous div := narrow_div_widen

/-- SQUARE ROOT: both formats round the sticky proxy `(2·isqrt(w·4^k) + sticky)/2^(k+1)`, which compares with every half-integer
like `sqrt w` itself, so the binary32 rounding does not depend on `k` (`round_congr`); `|n - A²|` is divisible by a large power of
two, which keeps `sqrt n` 2^-28 ulp away from a midpoint `A` (`sqrt_gap`); -0, negative operands, +inf (`SqrtFull.lean`) -/
theorem double_rounding_innocuous_sqrt : DoubleRoundingInnocuous1 sqrt := narrow_sqrt_widen

/-- FLOAT ADDITION, no hypothesis, every pair of operands: fold = specification under RNE -/
theorem fold_add_float_rne (a b : Nat) : fpAdd F .RNE a b = add F .RNE a b := fpAdd_F .RNE a b
/-- FLOAT SUBTRACTION -/
theorem fold_sub_float_rne (a b : Nat) : fpSub F .RNE a b = sub F .RNE a b := fpSub_F .RNE a b
/-- FLOAT DIVISION, division by zero included -/
theorem fold_div_float_rne (a b : Nat) : fpDiv F .RNE a b = div F .RNE a b := fpDiv_F .RNE a b
/-- FLOAT SQUARE ROOT -/
theorem fold_sqrt_float_rne (a : Nat) : fpSqrt F .RNE a = sqrt F .RNE a := fpSqrt_F .RNE a

/-- THE FULL FLOAT STATEMENT, unconditionally: under RNE the fold of add, sub, mul, div, sqrt is the specification for all operands -/
theorem fold_float_rne : fold_float_rne_full :=
  fold_float_rne_partial double_rounding_innocuous_add double_rounding_innocuous_sub double_rounding_innocuous_div
    double_rounding_innocuous_sqrt

/-- … and since the rounding-mode argument is ignored, in EVERY mode the FLOAT fold returns the RNE result of the specification
(this is the exact content of the open findings `C02/<op>/rounding-mode-ignored`: nothing else is wrong with these folds) -/
theorem fold_float_is_rne_in_every_mode (rm : RM) (a b : Nat) :
    fpAdd F rm a b = add F .RNE a b ∧ fpSub F rm a b = sub F .RNE a b ∧ fpMul F rm a b = mul F .RNE a b ∧
    fpDiv F rm a b = div F .RNE a b ∧ fpSqrt F rm a = sqrt F .RNE a :=
  ⟨fpAdd_F rm a b, fpSub_F rm a b, fpMul_F rm a b, fpDiv_F rm a b, fpSqrt_F rm a⟩

-- non-vacuity / samples where the binary64 result is inexact AND the binary32 rounding is not the truncation:
-- 1 + 2^-24 + 2^-60-ish operands cannot be written in binary32, so: 1.0f + (2^-24 + 2^-47)f (just above a tie), 1/3, sqrt 2
example : fpAdd F .RNE 0x3F800000 0x33800001 = 0x3F800001 ∧ add F .RNE 0x3F800000 0x33800001 = 0x3F800001 ∧
    fpAdd F .RNE 0x3F800000 0x33800000 = 0x3F800000 ∧
    fpDiv F .RNE 0x3F800000 0x40400000 = 0x3EAAAAAB ∧ div F .RNE 0x3F800000 0x40400000 = 0x3EAAAAAB ∧
    fpSqrt F .RNE 0x40000000 = 0x3FB504F3 ∧ sqrt F .RNE 0x40000000 = 0x3FB504F3 ∧
    fpSub F .RNE 0x00000001 0x7F7FFFFF = 0xFF7FFFFF ∧ fpDiv F .RNE 0x00000001 0x7F7FFFFF = 0 := by decide +kernel

/-! ## the statement is false outside RNE (open findings) — witnesses, replayed on the real code -/

/-- the rounding-mode argument is ignored: 1 + 2^-60 toward +∞ folds to 1, the specification gives the next double -/
theorem fold_ignores_rm_witness :
    fpAdd D .RTP 0x3FF0000000000000 0x3C30000000000000 = 0x3FF0000000000000 ∧
    add D .RTP 0x3FF0000000000000 0x3C30000000000000 = 0x3FF0000000000001 := by decide +kernel

/-- 2^53 + 2^29 + 1 as a 64-bit integer to FLOAT: `float(int)` rounds to 2^53 + 2^29 (a tie for binary32), the second
rounding goes to even; one rounding gives the upper neighbour -/
theorem int_to_float_double_rounding_witness :
    fpToFP_sbv F .RNE 64 9007199791611905 = .fp F 1509949440 ∧ ofSBV F .RNE 64 9007199791611905 = 1509949441 := by
  decide +kernel

/-- RNA was mapped to ROUND_UP before the fix: that is not ties-away -/
theorem rna_round_up_wrong : decRoundUp .up false false 1 5 ≠ roundUp .RNA false false 1 5 := roundUp_up_ne_rna

/-! ## bounded tests written in Lean -/
theorem test_spec_samples :
    add D .RNE 0x3FF0000000000000 0x3FF0000000000000 = 0x4000000000000000 ∧
    div D .RTP 0x3FF0000000000000 0x4008000000000000 = 0x3FD5555555555556 ∧
    div D .RNE 0x3FF0000000000000 0x4008000000000000 = 0x3FD5555555555555 ∧
    mul F .RTZ 0x7F7FFFFF 0x7F7FFFFF = 0x7F7FFFFF ∧ mul F .RNE 0x7F7FFFFF 0x7F7FFFFF = 0x7F800000 ∧
    sub D .RTN 0x3FF0000000000000 0x3FF0000000000000 = 0x8000000000000000 ∧
    cvt D F .RNE 0x36A0000000000000 = 1 ∧ cvt D F .RNE 0x3690000000000000 = 0 := by decide +kernel

end Claripy.Props.C02
