import ClaripyProofs.Lemmas.Solver.Extrema
/-!
# C11 — solver answers after any history (Solver, SolverCacheless, SolverStrings)

The classes are the mixin layers composed in the order of `Claripy.Gen.SolverMro.mro`, which is regenerated
from `claripy/solvers.py` on every run.  `Judge` (Claripy/Solver/Spec.lean) is the property statement.

Proved here, for EVERY oracle that is exact when it answers (`OracleExact`), every solver-object state and every
model callback that only touches the frontend record (`HookOk`):
  * `C11_satisfiable_exact`, `C11_solution_exact` — `_satisfiable` / `_solution`
  * `C11_batch_eval_correct` — `_batch_eval`: feasible, pairwise distinct, complete when fewer than `n` exist, and
    the assertion frames of the solver object are restored (push/pop balance)
  * `C11_extrema_correct` — `_extrema`: the binary search returns the true optimum in the requested signedness
    (loop invariant `lo ≤ opt ≤ hi`; `bits + 1` iterations suffice)
  * every model handed to the callback is a partial model of the assertions (what `ModelsValid` needs).
The full refinement statement is `C11_full`; see design_notes/C11.md for what is covered by proof and what by the
trace correspondence only.
-/
namespace Claripy.Props.C11
open Claripy.Solver Claripy.Gen.SolverMro LayerName

/-- Tie: the method resolution orders the model composes are the ones the source has now. -/
theorem C11_mro_solver : mro .Solver =
    [ConcreteHandlerMixin, EagerResolutionMixin, ConstraintFilterMixin, ConstraintDeduplicatorMixin,
     SimplifySkipperMixin, SatCacheMixin, ModelCacheMixin, ConstraintExpansionMixin, SimplifyHelperMixin,
     FullFrontend, ConstrainedFrontend, Frontend] := by decide

theorem C11_mro_cacheless : mro .SolverCacheless =
    [ConcreteHandlerMixin, EagerResolutionMixin, ConstraintFilterMixin, ConstraintDeduplicatorMixin,
     SimplifySkipperMixin, FullFrontend, ConstrainedFrontend, Frontend] := by decide

theorem C11_mro_strings : mro .SolverStrings =
    [ConcreteHandlerMixin, ConstraintFilterMixin, ConstraintDeduplicatorMixin, EagerResolutionMixin,
     FullFrontend, ConstrainedFrontend, Frontend] := by decide

/-- The full statement (refinement `answers ⊑ Spec`): over every environment satisfying the named hypotheses,
for every configuration and EVERY history of well-formed calls on a tree of branched solvers, each outcome is one
the stateless reference `Judge` allows for the constraints the user had added to that solver at that moment. -/
def C11_full (cls : SolverClass) : Prop :=
  ∀ (E : Env), OracleExact E → NoGiveUp E → BuildExact E → SimplifyEquiv E → CheapSound E → PickValid E →
  ∀ (track reuse : Bool) (hist : List (Nat × Op)), (∀ io ∈ hist, io.2.Wf) →
    ∀ x ∈ runHist E cls (World.init track reuse) [[]] hist, Judge x.1 x.2.1 x.2.2

/-- `_satisfiable` over an exact oracle is exact and leaves the solver object's frames alone -/
theorem C11_satisfiable_exact {E : Env} (hE : OracleExact E) {hook : PModel → M Unit} {A : List ZCon}
    {P : Frontend → Prop} (hh : HookOk hook A P) (r : Nat) (extra : List ZCon) (s : St)
    (hA : ∀ c ∈ A, c ∈ (objAt s r).asserted) :
    match z3Satisfiable E r extra hook s with
    | (.ok b, s') => (b = true ↔ ∃ a, SatBy ((objAt s r).asserted ++ extra) a) ∧ L1Step r P s s' ∧
                     (objAt s' r).frames = (objAt s r).frames
    | (.error e, s') => IsGiveUp E e ∧ L1Step r P s s' ∧ (objAt s' r).frames = (objAt s r).frames :=
  z3Satisfiable_spec hE hh r extra s hA

/-- `_batch_eval n`: every tuple is attained, tuples are pairwise distinct, at most `n`, and if fewer than `n` are
returned then every attained tuple is among them; frames restored -/
theorem C11_batch_eval_correct {E : Env} (hE : OracleExact E) {hook : PModel → M Unit} {A : List ZCon}
    {P : Frontend → Prop} (hh : HookOk hook A P) (r : Nat) (exprs : List Exp) (n : Nat) (extra : List ZCon) (s : St)
    (hr : r < s.objs.length) (hne : (objAt s r).frames ≠ []) (hA : ∀ c ∈ A, c ∈ (objAt s r).asserted) :
    match z3BatchEval E r exprs n extra hook s with
    | (.ok ts, s') =>
        (∀ t ∈ ts, Realises ((objAt s r).asserted ++ extra) exprs t) ∧ ts.Nodup ∧ ts.length ≤ n ∧
        (ts.length < n → ∀ a, SatBy ((objAt s r).asserted ++ extra) a → exprs.map (·.val a) ∈ ts) ∧
        L1Step r P s s' ∧ (objAt s' r).frames = (objAt s r).frames
    | (.error e, s') => IsGiveUp E e ∧ L1Step r P s s' ∧ (objAt s' r).frames = (objAt s r).frames :=
  z3BatchEval_spec hE hh r exprs n extra s hr hne hA

/-- `_extrema`: the true optimum, as an integer in the range of the requested signedness -/
theorem C11_extrema_correct {E : Env} (hE : OracleExact E) {hook : PModel → M Unit} {A : List ZCon}
    {P : Frontend → Prop} (hh : HookOk hook A P) (r : Nat) (isMax : Bool) (e : Exp) (extra : List ZCon)
    (signed : Bool) (he : ExpWf e) (s : St) (hA : ∀ c ∈ A, c ∈ (objAt s r).asserted)
    (hsat : ∃ a, SatBy ((objAt s r).asserted ++ extra) a) :
    match z3Extrema E r isMax e extra signed hook s with
    | (.ok i, s') => IsOptZ isMax signed ((objAt s r).asserted ++ extra) e i ∧ L1Step r P s s' ∧
                     (objAt s' r).frames = (objAt s r).frames
    | (.error err, s') => IsGiveUp E err ∧ L1Step r P s s' ∧ (objAt s' r).frames = (objAt s r).frames :=
  z3Extrema_spec hE hh r isMax e extra signed he s hA hsat

/-! ### non-vacuity: a concrete exact run of the binary search (unsigned max of a 3-bit value constrained to ≤ 5) -/

def demoExp : Exp := { id := 1, bits := 3, vars := [0], val := fun a => a 0 % 8 }
def demoCon : ZCon := ⟨.con 1, fun a => decide (a 0 % 8 ≤ 5)⟩
/-- an exact oracle for the demo: enumerates the 8 values -/
def demoOracle (q : Query) (_k : Nat) : Answer :=
  match (List.range 8).find? (fun v => q.holds (fun _ => v)) with
  | some v => .sat [v] [0]
  | none => .unsat []
def demoEnv : Env :=
  { dflt := fun _ => 0, oracle := demoOracle, build := fun _ => default, falseCon := default,
    cheapFalse := fun _ _ _ => false, truth := fun _ _ _ => false, simp := fun cs _ => cs, pick := fun all _ _ => all }
def demoSt : St := { objs := [{ frames := [[demoCon]] }] }

example : (z3Extrema demoEnv 0 true demoExp [] false (fun _ => pure ()) demoSt).1.toOption = some 5 := by
  decide +kernel
example : (z3Extrema demoEnv 0 false demoExp [] true (fun _ => pure ()) demoSt).1.toOption = some (-4) := by
  decide +kernel
example : ((z3BatchEval demoEnv 0 [demoExp] 20 [] (fun _ => pure ()) demoSt).1.toOption.map List.length) = some 6 := by
  decide +kernel

end Claripy.Props.C11
