import Claripy.Solver.Spec
/-!
# C11 — solver answers after any history (Solver, SolverCacheless, SolverStrings)

The classes are the mixin layers composed in the order of `Claripy.Gen.SolverMro.mro`, which is regenerated
from `claripy/solvers.py` on every run.
-/
namespace Claripy.Props.C11
open Claripy.Solver Claripy.Gen.SolverMro LayerName

/-- Tie: the method resolution orders the model composes are the ones the source has now. -/
theorem C11_mro_solver : mro .Solver =
    [ConcreteHandlerMixin, EagerResolutionMixin, ConstraintFilterMixin, ConstraintDeduplicatorMixin,
     SimplifySkipperMixin, SatCacheMixin, ModelCacheMixin, ConstraintExpansionMixin, SimplifyHelperMixin,
     FullFrontend, ConstrainedFrontend, Frontend] := by decide

theorem C11_mro_cacheless : mro .SolverCacheless =
    [ConcreteHandlerMixin, EagerResolutionMixin, ConstraintFilterMixin, ConstraintDeduplicatorMixin,
     SimplifySkipperMixin, FullFrontend, ConstrainedFrontend, Frontend] := by decide

theorem C11_mro_strings : mro .SolverStrings =
    [ConcreteHandlerMixin, ConstraintFilterMixin, ConstraintDeduplicatorMixin, EagerResolutionMixin,
     FullFrontend, ConstrainedFrontend, Frontend] := by decide

end Claripy.Props.C11
