import ClaripyProofs.Lemmas.Solver.CachelessHistory
import ClaripyProofs.Lemmas.Solver.SolverConsistent
import ClaripyProofs.Lemmas.Solver.StringsHistory
import ClaripyProofs.Lemmas.Solver.SolverChildHistory
/-!
# C11 — solver answers after any history (Solver, SolverCacheless, SolverStrings)

The classes are the mixin layers composed in the order of `Claripy.Gen.SolverMro.mro`, which is regenerated
from `claripy/solvers.py` on every run.  `Judge` (Claripy/Solver/Spec.lean) is the property statement.

Proved here, for EVERY oracle that is exact when it answers (`OracleExact`), every solver-object state and every
model callback that only touches the frontend record (`HookOk`):
  * `C11_satisfiable_exact`, `C11_solution_exact` — `_satisfiable` / `_solution`
  * `C11_batch_eval_correct` — `_batch_eval`: feasible, pairwise distinct, complete when fewer than `n` exist, and
    the assertion frames of the solver object are restored (push/pop balance)
  * `C11_extrema_correct` — `_extrema`: the binary search returns the true optimum in the requested signedness
    (loop invariant `lo ≤ opt ≤ hi`; `bits + 1` iterations suffice)
  * every model handed to the callback is a partial model of the assertions (what `ModelsValid` needs).
The full refinement statement is `C11_full`; see design_notes/C11.md for what is covered by proof and what by the
trace correspondence only.

Whole histories over trees of branched solvers: `C11_cacheless_refines` (class SolverCacheless) and `C11_solver_refines`
(the caching class `Solver`: ModelCacheMixin, SatCacheMixin, ConstraintExpansionMixin, SimplifyHelperMixin on top).  The
invariant of ModelCacheMixin's state is `MCInv`; `C11_modelcache_*` say that every operation of the mixin keeps it given
that the rest of the MRO answers as specified, `C11_cache_*_fast` that answers served from the cache are allowed answers.
-/
namespace Claripy.Props.C11
open Claripy.Solver Claripy.Gen.SolverMro LayerName

/-- Tie: the method resolution orders the model composes are the ones the source has now. -/
theorem C11_mro_solver : mro .Solver =
    [ConcreteHandlerMixin, EagerResolutionMixin, ConstraintFilterMixin, ConstraintDeduplicatorMixin,
     SimplifySkipperMixin, SatCacheMixin, ModelCacheMixin, ConstraintExpansionMixin, SimplifyHelperMixin,
     FullFrontend, ConstrainedFrontend, Frontend] := by decide

theorem C11_mro_cacheless : mro .SolverCacheless =
    [ConcreteHandlerMixin, EagerResolutionMixin, ConstraintFilterMixin, ConstraintDeduplicatorMixin,
     SimplifySkipperMixin, FullFrontend, ConstrainedFrontend, Frontend] := by decide

theorem C11_mro_strings : mro .SolverStrings =
    [ConcreteHandlerMixin, ConstraintFilterMixin, ConstraintDeduplicatorMixin, EagerResolutionMixin,
     FullFrontend, ConstrainedFrontend, Frontend] := by decide

/-- The full statement (refinement `answers ⊑ Spec`) for the three classes of the property: over every environment
satisfying the named hypotheses (`SolverHyps`: `Reg`, `OracleExact`, `SimpOn`, `SimpVars`, `CheapSound`, `PickOk`, `ExpReg`,
`EvalComplete`, `TrivOk`, `BuildOn`, `ZidFaithful` — all relative to the registries `R` / `RE` of the constraints and expressions of the run;
the absolute forms `BuildExact`, `SimplifyEquiv`, `NoGiveUp` of Basic.lean are inconsistent with `OracleExact` and `PickValid`
is unsatisfiable by itself, which would make the statement vacuous), for EVERY configuration (`track`, `reuse_z3_solver`) and
every history of calls in scope on a tree of branched solvers, each outcome is one the stateless reference `Judge` allows for
the constraints the user had added to that solver at that moment, or the give-up error after the backend did give up. -/
def C11_full : Prop :=
  ∀ cls ∈ [SolverClass.Solver, SolverClass.SolverCacheless, SolverClass.SolverStrings],
  ∀ (E : Env) (R : Con → Prop) (RE : Exp → Prop), SolverHyps R RE E →
  ∀ (track reuse : Bool) (hist : List (Nat × Op)), HistOkS R RE 1 hist →
    ∀ x ∈ runHist E cls (World.init track reuse) [[]] hist, JudgeOrGiveUp E x.1 x.2.1 x.2.2

/-- what is proved of `C11_full`: the caching class `Solver`, tracked or not, `reuse_z3_solver` off, every history in scope
(`C11_solver_refines_or_gives_up`).  MISSING: `reuse = true` (one Z3 object shared by all frontends and reset at every query:
the invariant "the object referred to asserts the constraints" does not hold between calls); for SolverCacheless and
SolverStrings tracking and the calls `batch_eval` / pickle round trips inside a history (`C11_cacheless_refines`,
`C11_strings_refines` cover the other calls, untracked); `unsat_core` is outside `Judge`. -/
theorem C11_full_partial {E : Env} {R : Con → Prop} {RE : Exp → Prop} (H : SolverHyps R RE E) (track : Bool)
    (hist : List (Nat × Op)) (hok : HistOkS R RE 1 hist) :
    ∀ x ∈ runHist E .Solver (World.init track false) [[]] hist, JudgeOrGiveUp E x.1 x.2.1 x.2.2 :=
  sol_hist_giveup H hist _ _ (tinvS_init R RE E track) hok

example : ∀ x ∈ runHist cEnv .Solver (World.init true false) [[]] cHist, JudgeOrGiveUp cEnv x.1 x.2.1 x.2.2 :=
  C11_full_partial cHyps true cHist cHist_ok

/-- `_satisfiable` over an exact oracle is exact and leaves the solver object's frames alone -/
theorem C11_satisfiable_exact {E : Env} (hE : OracleExact E) {hook : PModel → M Unit} {A : List ZCon}
    {P : Frontend → Prop} (hh : HookOk hook A P) (r : Nat) (extra : List ZCon) (s : St)
    (hA : ∀ c ∈ A, c ∈ (objAt s r).asserted) :
    match z3Satisfiable E r extra hook s with
    | (.ok b, s') => (b = true ↔ ∃ a, SatBy ((objAt s r).asserted ++ extra) a) ∧ L1Step r P s s' ∧
                     (objAt s' r).frames = (objAt s r).frames
    | (.error e, s') => IsGiveUp E e ∧ L1Step r P s s' ∧ (objAt s' r).frames = (objAt s r).frames :=
  z3Satisfiable_spec hE hh r extra s hA

/-- `_batch_eval n`: every tuple is attained, tuples are pairwise distinct, at most `n`, and if fewer than `n` are
returned then every attained tuple is among them; frames restored -/
theorem C11_batch_eval_correct {E : Env} (hE : OracleExact E) {hook : PModel → M Unit} {A : List ZCon}
    {P : Frontend → Prop} (hh : HookOk hook A P) (r : Nat) (exprs : List Exp) (n : Nat) (extra : List ZCon) (s : St)
    (hr : r < s.objs.length) (hne : (objAt s r).frames ≠ []) (hA : ∀ c ∈ A, c ∈ (objAt s r).asserted) :
    match z3BatchEval E r exprs n extra hook s with
    | (.ok ts, s') =>
        (∀ t ∈ ts, Realises ((objAt s r).asserted ++ extra) exprs t) ∧ ts.Nodup ∧ ts.length ≤ n ∧
        (ts.length < n → ∀ a, SatBy ((objAt s r).asserted ++ extra) a → exprs.map (·.val a) ∈ ts) ∧
        L1Step r P s s' ∧ (objAt s' r).frames = (objAt s r).frames
    | (.error e, s') => IsGiveUp E e ∧ L1Step r P s s' ∧ (objAt s' r).frames = (objAt s r).frames :=
  z3BatchEval_spec hE hh r exprs n extra s hr hne hA

/-- `_extrema`: the true optimum, as an integer in the range of the requested signedness -/
theorem C11_extrema_correct {E : Env} (hE : OracleExact E) {hook : PModel → M Unit} {A : List ZCon}
    {P : Frontend → Prop} (hh : HookOk hook A P) (r : Nat) (isMax : Bool) (e : Exp) (extra : List ZCon)
    (signed : Bool) (he : ExpWf e) (s : St) (hA : ∀ c ∈ A, c ∈ (objAt s r).asserted)
    (hsat : ∃ a, SatBy ((objAt s r).asserted ++ extra) a) :
    match z3Extrema E r isMax e extra signed hook s with
    | (.ok i, s') => IsOptZ isMax signed ((objAt s r).asserted ++ extra) e i ∧ L1Step r P s s' ∧
                     (objAt s' r).frames = (objAt s r).frames
    | (.error err, s') => IsGiveUp E err ∧ L1Step r P s s' ∧ (objAt s' r).frames = (objAt s r).frames :=
  z3Extrema_spec hE hh r isMax e extra signed he s hA hsat

/-! ### SolverCacheless, whole histories over trees of branched solvers -/

/-- **SolverCacheless refines the specification.** Start from a fresh `SolverCacheless()` (no tracking, Z3 solver not
reused) and make ANY sequence of add / satisfiable / eval / min / max / solution / is_true / is_false / simplify /
downsize / branch calls on any of the solvers alive (`HistOk`: the solver called exists, arguments in scope). If the
oracle answers exactly when it answers (`OracleExact`), the simplifier returns equivalent constraints on the constraints
of the run (`SimpOn`), the cheap `is_true`/`is_false` are sound and equal ids mean equal constraints (`Reg`), then every
answer of the model — the complete mixin stack, composed from the generated MRO, the solvers of the tree sharing Z3
objects as `_copy` makes them — other than the give-up error is one the property statement allows for the constraints
added so far TO THE SOLVER THAT WAS ASKED (inherited from its parent at `branch`). -/
theorem C11_cacheless_refines {E : Env} {R : Con → Prop} (hR : Reg R E) (hE : OracleExact E)
    (hS : SimpOn R E) (hT : CheapSound E) (hist : List (Nat × Op)) (hok : HistOk R 1 hist) :
    ∀ x ∈ runHist E .SolverCacheless (World.init false false) [[]] hist,
      x.2.2 ≠ .err .giveUp → Judge x.1 x.2.1 x.2.2 :=
  cl_hist hR hE hS hT hist _ _ (tinv_init R) hok

/-- the same with the give-up case spelled out: an answer is allowed, or it is the give-up error and the oracle did
answer `unknown`; answers after a give-up are covered like all others (C17) -/
theorem C11_cacheless_refines_or_gives_up {E : Env} {R : Con → Prop} (hR : Reg R E) (hE : OracleExact E)
    (hS : SimpOn R E) (hT : CheapSound E) (hist : List (Nat × Op)) (hok : HistOk R 1 hist) :
    ∀ x ∈ runHist E .SolverCacheless (World.init false false) [[]] hist,
      JudgeOrGiveUp E x.1 x.2.1 x.2.2 :=
  cl_hist_giveup hR hE hS hT hist _ _ (tinv_init R) hok

/-- one call on solver `i`: answers as allowed for that solver's constraints (or gives up honestly) and keeps the invariant
of the whole world -/
theorem C11_cacheless_step {E : Env} {R : Con → Prop} (hR : Reg R E) (hE : OracleExact E) (hS : SimpOn R E)
    (hT : CheapSound E) (w : World) (Us : List (List Con)) (hw : TInv R Us w) (i : Nat) (hi : i < w.fes.length)
    (op : Op) (hop : InScope R op) :
    JudgeOrGiveUp E (usersAfter (Us.getD i []) op) op (step E .SolverCacheless w i op).1 ∧
    TInv R (usersAll Us i op) (step E .SolverCacheless w i op).2 :=
  cl_step hR hE hS hT w Us hw i hi op hop

/-- frontend `is_true` / `is_false` (solver half of C10): a `True` answer is never wrong, whatever the backend's cheap
test does as long as it is sound -/
theorem C11_is_true_false_sound {G : St → Prop} {E : Env} (hT : CheapSound E) {self : Ops}
    (hs : SelfOk self) (U : List Con) (s : St) (h : CLInv G U s) (isTrue : Bool) (c : Con) (hc : ConWf c)
    (extra : List Con) (wf : ∀ c ∈ extra, ConWf c) :
    match clTruth E self isTrue c extra s with
    | (.ok b, s') => (b = true → ∀ a, Models (U ++ extra) a → c.sem a = isTrue) ∧ CLInv G U s'
    | (.error err, s') => ErrOk E (U ++ extra) err ∧ CLInv G U s' :=
  clTruth_spec hT hs U s h isTrue c hc extra wf

/-! ### SolverStrings (bit-vector alphabets), whole histories over trees of branched solvers -/

/-- **SolverStrings refines the specification** — the class ConcreteHandler, ConstraintFilter, ConstraintDeduplicator,
EagerResolution over FullFrontend (generated MRO), same scope and hypotheses as `C11_cacheless_refines`.  Expressions and
constraints are the opaque records of the model (a value per assignment): what Z3's string theory answers is part of the
oracle. -/
theorem C11_strings_refines {E : Env} {R : Con → Prop} (hR : Reg R E) (hE : OracleExact E)
    (hS : SimpOn R E) (hT : CheapSound E) (hist : List (Nat × Op)) (hok : HistOk R 1 hist) :
    ∀ x ∈ runHist E .SolverStrings (World.init false false) [[]] hist,
      x.2.2 ≠ .err .giveUp → Judge x.1 x.2.1 x.2.2 :=
  st_hist hR hE hS hT hist _ _ (tinv_init R) hok

theorem C11_strings_refines_or_gives_up {E : Env} {R : Con → Prop} (hR : Reg R E) (hE : OracleExact E)
    (hS : SimpOn R E) (hT : CheapSound E) (hist : List (Nat × Op)) (hok : HistOk R 1 hist) :
    ∀ x ∈ runHist E .SolverStrings (World.init false false) [[]] hist, JudgeOrGiveUp E x.1 x.2.1 x.2.2 :=
  st_hist_giveup hR hE hS hT hist _ _ (tinv_init R) hok

theorem C11_strings_step {E : Env} {R : Con → Prop} (hR : Reg R E) (hE : OracleExact E) (hS : SimpOn R E)
    (hT : CheapSound E) (w : World) (Us : List (List Con)) (hw : TInv R Us w) (i : Nat) (hi : i < w.fes.length)
    (op : Op) (hop : InScope R op) :
    JudgeOrGiveUp E (usersAfter (Us.getD i []) op) op (step E .SolverStrings w i op).1 ∧
    TInv R (usersAll Us i op) (step E .SolverStrings w i op).2 :=
  st_step hR hE hS hT w Us hw i hi op hop

/-! ### ModelCacheMixin: the invariant of the cache, every operation of the mixin, the fast paths -/

/-- **the invariant is established by `__init__`** (and by `_blank_copy`, `__setstate__`: an empty cache) -/
theorem C11_modelcache_init (RE : Exp → Prop) (E : Env) (U : List Con) : MCInv RE E U ({} : Frontend) :=
  mcInv_init RE E U _ rfl rfl rfl rfl rfl rfl

/-- **`_model_hook`** keeps it: a model Z3 hands out for assertions that mean the user's constraints, restricted to the
variables the frontend knows and completed with claripy's defaults, still satisfies the constraints; the flags stay right
because the cache only grows -/
theorem C11_modelcache_hook {RE : Exp → Prop} {E : Env} {U : List Con} {fe : Frontend} (h : MCInv RE E U fe) (m : PModel)
    (cs : List Con) (wf : ∀ c ∈ cs, ConWf c) (hv : ∀ c ∈ cs, ∀ v ∈ c.vars, v ∈ fe.variables)
    (heq : ∀ a, Models cs a ↔ Models U a) (hm : ∀ a, Agrees a m → Models cs a) : MCInv RE E U (mcHookFe m fe) :=
  mcHookFe_inv h m cs wf hv heq hm

/-- **`_add`** (trivial-model optimisation, re-validation of the cached models, clearing of the flags) keeps it for the
constraints the user then has — provided `super()._add` reports what it added (`LowAdd0`, proved of FullFrontend over
ConstrainedFrontend: `fc_add_low`) and, for `invalidate_cache=False`, the added constraints are implied by the old ones -/
theorem C11_modelcache_add {R : Con → Prop} {RE : Exp → Prop} {E : Env} {G : St → Prop} {U : List Con} (hR : Reg R E)
    (hT : TrivOk R RE) {self sup : Ops} (hsup : LowAdd0 sup.add) (s : St) (hb : BInv R G U s) (hmc : MCInv RE E U s.fe)
    (cs : List Con) (inv : Bool) (hcs : ∀ c ∈ cs, R c) (himp : inv = false → ∀ a, Models U a → Models cs a) :
    ∃ new s', (modelCacheLayer E self sup).add cs inv s = (.ok new, s') ∧ AddRel s s' cs new ∧
      MCInv RE E (U ++ new) s'.fe ∧ KeepAdd E s s' cs ∧ s'.fe.cachedSat = s.fe.cachedSat ∧ s'.fe.hashes = s.fe.hashes :=
  mc_add_spec hR hT hsup s hb hmc cs inv hcs himp

/-- **`satisfiable`** through the mixin: right answer, invariant kept, if the layers below do the same -/
theorem C11_modelcache_satisfiable {R : Con → Prop} {RE : Exp → Prop} {E : Env} {G : St → Prop} {U : List Con}
    {self sup : Ops} (extra : List Con) (hsup : SatSpec R RE E G U extra (sup.satisfiable extra)) :
    SatSpec R RE E G U extra ((modelCacheLayer E self sup).satisfiable extra) := mc_satisfiable_spec extra hsup

/-- **`batch_eval`** (cached tuples, blocking constraint, flagging as eval-exhausted) -/
theorem C11_modelcache_batch_eval {R : Con → Prop} {RE : Exp → Prop} {E : Env} {G : St → Prop} {U : List Con}
    (hP : PickOk E) (hRE : ExpReg RE) {sup : Ops} (asts : List Exp) (hre : ∀ e ∈ asts, RE e) (n : Nat) (hn : 1 ≤ n)
    (extra : List Con)
    (hsup : ∀ n' extra', 1 ≤ n' → BatchSpec R RE E G U asts n' extra' (sup.batchEval asts n' extra')) :
    BatchSpec R RE E G U asts n extra (modelCacheBatchEval E sup asts n extra) :=
  mc_batchEval_spec hP hRE asts hre n hn extra hsup

/-- **`eval`** -/
theorem C11_modelcache_eval {R : Con → Prop} {RE : Exp → Prop} {E : Env} {G : St → Prop} {U : List Con}
    (hP : PickOk E) (hRE : ExpReg RE) {self sup : Ops} (e : Exp) (he : RE e) (hc : e.conc = none) (n : Nat) (hn : 1 ≤ n)
    (extra : List Con)
    (hsup : ∀ n' extra', 1 ≤ n' → BatchSpec R RE E G U [e] n' extra' (sup.batchEval [e] n' extra')) :
    EvalSpec R RE E G U e n extra ((modelCacheLayer E self sup).eval e n extra) :=
  mc_eval_spec hP hRE e he hc n hn extra hsup

/-- **`min` / `max`** (cached optimum, flagging as max/min-exhausted per signedness) -/
theorem C11_modelcache_extremum {R : Con → Prop} {RE : Exp → Prop} {E : Env} {G : St → Prop} {U : List Con}
    (hRE : ExpReg RE) {sup : Ops} (isMax : Bool) (e : Exp) (he : RE e) (extra : List Con) (signed : Bool)
    (hsup : OptSpec R RE E G U isMax e extra signed (if isMax then sup.max e extra signed else sup.min e extra signed)) :
    OptSpec R RE E G U isMax e extra signed (modelCacheExtremum E sup isMax e extra signed) :=
  mc_extremum_spec hRE isMax e he extra signed hsup

/-- **`solution`** -/
theorem C11_modelcache_solution {R : Con → Prop} {RE : Exp → Prop} {E : Env} {G : St → Prop} {U : List Con}
    {self sup : Ops} (e : Exp) (hc : e.conc = none) (v : Nat) (extra : List Con)
    (hsup : SolSpec R RE E G U e v extra (sup.solution e v extra)) :
    SolSpec R RE E G U e v extra ((modelCacheLayer E self sup).solution e v extra) := mc_solution_spec e hc v extra hsup

/-- **`branch`** (`_copy`) hands the cache to the copy, **pickling** empties it, **`simplify`** empties it only when the
constraints contain a literal `false` -/
theorem C11_modelcache_copy_pickle_simplify {RE : Exp → Prop} {E : Env} {U : List Con} {fe : Frontend} (h : MCInv RE E U fe) :
    (∀ c : Frontend, MCInv RE E U { c with models := fe.models, evalExh := fe.evalExh, maxExh := fe.maxExh,
                                           minExh := fe.minExh, maxSExh := fe.maxSExh, minSExh := fe.minSExh }) ∧
    (∀ new : Frontend, MCInv RE E U (pickleLayer .ModelCacheMixin fe new)) ∧
    (¬ Satisfiable U → MCInv RE E U { fe with models := [] }) :=
  ⟨fun _ => mcInv_copy h, fun new => mcInv_pickle fe new, fun hun => mcInv_clear_models hun⟩

/-- **fast path, `satisfiable`**: some cached model satisfies the extra constraints — `True`, without asking anybody -/
theorem C11_cache_satisfiable_fast {RE : Exp → Prop} {E : Env} {U : List Con} {self sup : Ops} {s : St}
    (h : MCInv RE E U s.fe) (extra : List Con) (hne : (getModels E s.fe extra).isEmpty = false) :
    (modelCacheLayer E self sup).satisfiable extra s = (.ok true, s) ∧ Judge U (.satisfiable extra) (.bool true) :=
  mc_satisfiable_fast h extra hne

/-- **fast path, `eval`**: enough cached values, or the expression is flagged eval-exhausted -/
theorem C11_cache_eval_fast {RE : Exp → Prop} {E : Env} {U : List Con} {self sup : Ops} {s : St} (hP : PickOk E)
    (h : MCInv RE E U s.fe) (e : Exp) (he : RE e) (hc : e.conc = none) (n : Nat) (extra : List Con)
    (hfast : BatchFast E s.fe [e] n extra) :
    ∃ vs, (modelCacheLayer E self sup).eval e n extra s = (.ok vs, { s with tick := s.tick + 1 }) ∧
      Judge U (.eval e n extra) (.vals vs) :=
  mc_eval_fast hP h e he hc n extra hfast

/-- **fast path, `min` / `max`**: the expression is flagged (eval- or optimum-exhausted in the signedness asked for), no
extra constraints, a model is cached -/
theorem C11_cache_extremum_fast {RE : Exp → Prop} {E : Env} {U : List Con} {sup : Ops} {s : St} (hR : ExpReg RE)
    (h : MCInv RE E U s.fe) (isMax signed : Bool) (e : Exp) (he : RE e) (hc : e.conc = none)
    (hfl : e.id ∈ s.fe.evalExh ∨ e.id ∈ optFlags isMax signed s.fe) (hne : s.fe.models ≠ []) :
    ∃ i, modelCacheExtremum E sup isMax e [] signed s = (.ok i, s) ∧
      Judge U (if isMax then .max e [] signed else .min e [] signed) (.int i) :=
  mc_extremum_fast hR h isMax signed e he hc hfl hne

/-- **fast path, `solution`**: some cached model that satisfies the extra constraints gives the value -/
theorem C11_cache_solution_fast {RE : Exp → Prop} {E : Env} {U : List Con} {self sup : Ops} {s : St}
    (h : MCInv RE E U s.fe) (e : Exp) (hc : e.conc = none) (v : Nat) (extra : List Con)
    (hin : ((allBatchSolutions E s.fe [e] extra true).map fun t => t.headD 0).contains v = true) :
    (modelCacheLayer E self sup).solution e v extra s = (.ok true, s) ∧ Judge U (.solution e v extra) (.bool true) :=
  mc_solution_fast h e hc v extra hin

/-! ### the caching class `Solver`, whole histories over trees of branched solvers -/

/-- **Solver refines the specification.** Start from a fresh `Solver(track=…)` (tracked or not; Z3 solver not reused) and make ANY
sequence of add / satisfiable / eval / batch_eval / min / max / solution / is_true / is_false / simplify / downsize / branch /
pickle-round-trip calls on any of the solvers alive (`HistOkS`: the solver called exists; added constraints from the registry
`R`, queried symbolic expressions from the registry `RE`).  Under the hypotheses `SolverHyps` (those of the cacheless theorem, plus: `EvalComplete` — the models of
`sat` answers determine the registered expressions —, `PickOk`, `TrivOk`, `BuildOn`, `SimpVars`), every answer of the model —
the complete mixin stack composed from the generated MRO, model cache, satisfiability cache and constraint expansion
included, the solvers of the tree sharing Z3 objects as `_copy` makes them and inheriting each other's caches — other than the
give-up error is one the property statement allows for the constraints added so far to the solver that was asked. -/
theorem C11_solver_refines {E : Env} {R : Con → Prop} {RE : Exp → Prop} (H : SolverHyps R RE E) (track : Bool)
    (hist : List (Nat × Op)) (hok : HistOkS R RE 1 hist) :
    ∀ x ∈ runHist E .Solver (World.init track false) [[]] hist, x.2.2 ≠ .err .giveUp → Judge x.1 x.2.1 x.2.2 :=
  sol_hist H hist _ _ (tinvS_init R RE E track) hok

/-- the same with the give-up case spelled out -/
theorem C11_solver_refines_or_gives_up {E : Env} {R : Con → Prop} {RE : Exp → Prop} (H : SolverHyps R RE E)
    (track : Bool) (hist : List (Nat × Op)) (hok : HistOkS R RE 1 hist) :
    ∀ x ∈ runHist E .Solver (World.init track false) [[]] hist, JudgeOrGiveUp E x.1 x.2.1 x.2.2 :=
  sol_hist_giveup H hist _ _ (tinvS_init R RE E track) hok

/-- one call on solver `i` of a tree of caching solvers: answers as allowed for that solver's constraints (or gives up
honestly) and keeps the invariant of the whole world (`TInvS`: every frontend satisfies `SI = BInv ∧ MCInv ∧ SCInv` for its
own user's constraints; shared Z3 objects are referred to by finalized frontends only) -/
theorem C11_solver_step {E : Env} {R : Con → Prop} {RE : Exp → Prop} (H : SolverHyps R RE E) (w : World)
    (Us : List (List Con)) (hw : TInvS R RE E Us w) (i : Nat) (hi : i < w.fes.length) (op : Op) (hop : InScopeS R RE op) :
    JudgeOrGiveUp E (usersAfter (Us.getD i []) op) op (step E .Solver w i op).1 ∧
    TInvS R RE E (usersAll Us i op) (step E .Solver w i op).2 :=
  sol_step H w Us hw i hi op hop

/-- the hypotheses of `C11_solver_refines` are jointly satisfiable, with a registry holding a real constraint (`x <= 5`) and
a queried expression (`x`), and a history in scope that adds, optimises, branches, enumerates, … -/
theorem C11_solver_hypotheses_consistent :
    ∃ (E : Env) (R : Con → Prop) (RE : Exp → Prop), SolverHyps R RE E ∧ R cCon ∧ RE cExp ∧ HistOkS R RE 1 cHist :=
  ⟨cEnv, cR, cRE, cHyps, Or.inr (Or.inl rfl), rfl, cHist_ok⟩

/-- non-vacuity: the theorem applies to that environment and history -/
example : ∀ x ∈ runHist cEnv .Solver (World.init false false) [[]] cHist, JudgeOrGiveUp cEnv x.1 x.2.1 x.2.2 :=
  C11_solver_refines_or_gives_up cHyps false cHist cHist_ok

/-! ### SolverCompositeChild (what SolverComposite keeps per group of variables), whole histories -/

/-- **SolverCompositeChild refines the specification**: ConstraintDeduplicator, SatCache, SimplifySkipper, ModelCache over
FullFrontend (generated MRO) — the caching layers of `Solver` in another order, no constraint filter, no concrete handler (so
the queried expressions are symbolic: `InScopeC`), no expansion.  Same hypotheses and world invariant as `C11_solver_refines`. -/
theorem C11_child_refines {E : Env} {R : Con → Prop} {RE : Exp → Prop} (H : SolverHyps R RE E) (track : Bool)
    (hist : List (Nat × Op)) (hok : HistOkC R RE 1 hist) :
    ∀ x ∈ runHist E .SolverCompositeChild (World.init track false) [[]] hist,
      x.2.2 ≠ .err .giveUp → Judge x.1 x.2.1 x.2.2 :=
  ch_hist H hist _ _ (tinvS_init R RE E track) hok

theorem C11_child_refines_or_gives_up {E : Env} {R : Con → Prop} {RE : Exp → Prop} (H : SolverHyps R RE E)
    (track : Bool) (hist : List (Nat × Op)) (hok : HistOkC R RE 1 hist) :
    ∀ x ∈ runHist E .SolverCompositeChild (World.init track false) [[]] hist, JudgeOrGiveUp E x.1 x.2.1 x.2.2 :=
  ch_hist_giveup H hist _ _ (tinvS_init R RE E track) hok

theorem C11_child_step {E : Env} {R : Con → Prop} {RE : Exp → Prop} (H : SolverHyps R RE E) (w : World)
    (Us : List (List Con)) (hw : TInvS R RE E Us w) (i : Nat) (hi : i < w.fes.length) (op : Op) (hop : InScopeC R RE op) :
    JudgeOrGiveUp E (usersAfter (Us.getD i []) op) op (step E .SolverCompositeChild w i op).1 ∧
    TInvS R RE E (usersAll Us i op) (step E .SolverCompositeChild w i op).2 :=
  ch_step H w Us hw i hi op hop

/-- non-vacuity: a history in scope for the child class in the consistent environment -/
example : ∀ x ∈ runHist cEnv .SolverCompositeChild (World.init false false) [[]]
      [(0, .add [cEq]), (0, .max cExp [] true), (0, .branch), (1, .batchEval [cExp] 3 []), (1, .add [cCon]),
       (0, .pickle), (0, .eval cExp 2 [cCon])], JudgeOrGiveUp cEnv x.1 x.2.1 x.2.2 := by
  refine C11_child_refines_or_gives_up cHyps false _ ?_
  have hc : cR cCon := Or.inr (Or.inl rfl)
  have hq : cR cEq := Or.inr (Or.inr (Or.inl rfl))
  have he : cRE cExp := rfl
  simp only [HistOkC, InScopeC, List.mem_singleton, forall_eq, and_true]
  exact ⟨by omega, hq, by omega, ⟨he, rfl⟩, by omega, trivial, by omega, ⟨by simp, ⟨he, rfl⟩, by omega⟩, by omega, hc,
    by omega, trivial, by omega, he, rfl, by omega⟩

/-! ### why `EvalComplete` is a hypothesis

The oracle of the model returns, with a `sat` answer, the key set of the Z3 model AS `_generic_model` READS IT.  `_batch_eval`
evaluates the expressions with `model_completion=True` first, which adds the constants the evaluator visits to the model
object — so in the real code the model handed to `_model_hook` mentions a variable of the expression and gives it the value
reported.  An oracle that is exact but leaves the variable out (below: the first answer of a run mentions no constant) makes
the MODEL flag the expression eval-exhausted with one value missing from the cache; the next `eval` is answered from the
cache and is incomplete.  On the real code the same history answers all 8 values twice (the cache holds 8 models). -/

def tCon : Con := { id := 2, vars := [0], sem := fun _ => true }
def tOracle (q : Query) (_k : Nat) : Answer :=
  match (List.range 8).find? (fun v => q.holds (fun _ => v)) with
  | some v => .sat [v] (if q.asserted.length + q.assumptions.length ≤ 1 then [] else [0])
  | none => .unsat []
def tEnv : Env :=
  { dflt := fun _ => 0, oracle := tOracle, build := fun _ => default, falseCon := cFalse,
    cheapFalse := fun _ _ _ => false, truth := fun _ _ _ => false, simp := fun cs _ => cs, pick := fun all n _ => all.take n }

example : (runHist tEnv .Solver (World.init false false) [[]]
      [(0, .add [tCon]), (0, .eval cExp 20 []), (0, .eval cExp 20 [])]).map (·.2.2) =
    [.cons [2], .vals [0, 1, 2, 3, 4, 5, 6, 7], .vals [1, 2, 3, 4, 5, 6, 7]] := by decide +kernel

example : ¬ Judge [tCon] (.eval cExp 20 []) (.vals [1, 2, 3, 4, 5, 6, 7]) := by
  intro h
  have h0 : Feasible ([tCon] ++ []) cExp 0 := ⟨fun _ => 0, by simp [Models, tCon], by simp [cExp]⟩
  simp only [Judge, cExp] at h
  have := h.2.2.2 0 h0
  simp at this

/-! ### the hypotheses are jointly satisfiable -/

/-- an oracle that answers `sat` whenever some finitely described partial model forces the query, `unsat` whenever
nothing satisfies it, and gives up only on the rest (queries no finite model description settles) -/
noncomputable def idealOracle (q : Query) (_k : Nat) : Answer :=
  open Classical in
  if h : ∃ p : List Nat × List Var, ∀ a : Asg, (∀ v ∈ p.2, a v = asgOf p.1 v) → q.holds a = true then
    .sat (Classical.choose h).1 (Classical.choose h).2
  else if ∀ a : Asg, q.holds a = false then .unsat [] else .unknown

def regFalse : Con := { id := 0, vars := [], sem := fun _ => false, isFalse := true, conc := some false }
def regCon : Con := { id := 1, vars := [0], sem := fun a => decide (a 0 % 8 ≤ 5) }

noncomputable def idealEnv : Env :=
  { dflt := fun _ => 0, oracle := idealOracle, build := fun _ => default, falseCon := regFalse,
    cheapFalse := fun _ _ _ => false, truth := fun _ _ _ => false, simp := fun cs _ => cs, pick := fun all _ _ => all }

theorem C11_hypotheses_consistent :
    ∃ (E : Env) (R : Con → Prop), Reg R E ∧ OracleExact E ∧ SimpOn R E ∧ CheapSound E ∧ R regCon := by
  refine ⟨idealEnv, fun c => c = regFalse ∨ c = regCon, ⟨?_, ?_, ?_, ?_, Or.inl rfl, fun _ => rfl⟩, ?_, fun _ _ _ _ => rfl,
    ⟨fun _ _ _ h => by simp [idealEnv] at h, fun _ _ h => by simp [idealEnv] at h, fun _ _ h => by simp [idealEnv] at h⟩,
    Or.inr rfl⟩
  · rintro c c' (rfl | rfl) (rfl | rfl) hid a <;> first | rfl | (simp [regFalse, regCon] at hid)
  · rintro c c' (rfl | rfl) (rfl | rfl) hid <;> first | rfl | (simp [regFalse, regCon] at hid)
  · rintro c (rfl | rfl)
    · exact ⟨fun _ _ _ => rfl, fun _ _ => rfl, fun b hb a => by simp [regFalse] at hb ⊢; exact hb, fun _ _ _ h => by simp [regFalse] at h⟩
    · exact ⟨fun a a' h => by simp [regCon, h 0 (by simp [regCon])], fun h => by simp [regCon] at h,
             fun b hb => by simp [regCon] at hb, fun _ _ _ h => by simp [regCon] at h⟩
  · intro cs k h c hc; exact h c hc
  · intro q k
    show match idealOracle q k with
      | .sat vals keys => ∀ a : Asg, (∀ v ∈ keys, a v = asgOf vals v) → q.holds a = true
      | .unsat _ => ∀ a : Asg, q.holds a = false
      | .unknown => True
    unfold idealOracle
    by_cases h : ∃ p : List Nat × List Var, ∀ a : Asg, (∀ v ∈ p.2, a v = asgOf p.1 v) → q.holds a = true
    · rw [dif_pos h]; exact Classical.choose_spec h
    · rw [dif_neg h]
      by_cases h2 : ∀ a : Asg, q.holds a = false
      · rw [if_pos h2]; exact h2
      · rw [if_neg h2]; trivial

/-! ### non-vacuity: a concrete exact run of the binary search (unsigned max of a 3-bit value constrained to ≤ 5) -/

def demoExp : Exp := { id := 1, bits := 3, vars := [0], val := fun a => a 0 % 8 }
def demoCon : ZCon := ⟨.con 1, fun a => decide (a 0 % 8 ≤ 5)⟩
/-- an exact oracle for the demo: enumerates the 8 values -/
def demoOracle (q : Query) (_k : Nat) : Answer :=
  match (List.range 8).find? (fun v => q.holds (fun _ => v)) with
  | some v => .sat [v] [0]
  | none => .unsat []
def demoEnv : Env :=
  { dflt := fun _ => 0, oracle := demoOracle, build := fun _ => default, falseCon := default,
    cheapFalse := fun _ _ _ => false, truth := fun _ _ _ => false, simp := fun cs _ => cs, pick := fun all _ _ => all }
def demoSt : St := { objs := [{ frames := [[demoCon]] }] }

example : (z3Extrema demoEnv 0 true demoExp [] false (fun _ => pure ()) demoSt).1.toOption = some 5 := by
  decide +kernel
example : (z3Extrema demoEnv 0 false demoExp [] true (fun _ => pure ()) demoSt).1.toOption = some (-4) := by
  decide +kernel
example : ((z3BatchEval demoEnv 0 [demoExp] 20 [] (fun _ => pure ()) demoSt).1.toOption.map List.length) = some 6 := by
  decide +kernel

end Claripy.Props.C11
