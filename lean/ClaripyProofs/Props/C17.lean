import Claripy.Solver.Spec
/-!
# C17 — a solver stays correct after the backend gives up
-/
namespace Claripy.Props.C17
open Claripy.Solver Claripy.Gen.SolverMro LayerName

theorem C17_mro_solver : mro .Solver =
    [ConcreteHandlerMixin, EagerResolutionMixin, ConstraintFilterMixin, ConstraintDeduplicatorMixin,
     SimplifySkipperMixin, SatCacheMixin, ModelCacheMixin, ConstraintExpansionMixin, SimplifyHelperMixin,
     FullFrontend, ConstrainedFrontend, Frontend] := by decide

end Claripy.Props.C17
