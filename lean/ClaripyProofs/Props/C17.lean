import ClaripyProofs.Lemmas.Solver.CachelessHistory
/-!
# C17 — a solver stays correct after the backend gives up

Proved:
  * L1 (every class): when `_satisfiable` / `_batch_eval` / `_extrema` end in the give-up error, the oracle did answer
    `unknown`, the frontend record is as the model callbacks left it and the assertion frames of the solver object
    are restored (`z3Satisfiable_spec`, `z3BatchEval_spec`, `z3Extrema_spec`, error branches).
  * SolverCacheless, whole stack: a call that gives up leaves the frontend invariant intact
    (`C17_giveup_keeps_invariant`), hence in any history every answer — in particular those AFTER a give-up — is
    one the property statement allows or is itself an honest give-up (`C17_cacheless_after_giveup`).
The caching classes are covered by fault injection on the real code plus the trace correspondence (design_notes/C17.md).
-/
namespace Claripy.Props.C17
open Claripy.Solver Claripy.Gen.SolverMro LayerName

theorem C17_mro_solver : mro .Solver =
    [ConcreteHandlerMixin, EagerResolutionMixin, ConstraintFilterMixin, ConstraintDeduplicatorMixin,
     SimplifySkipperMixin, SatCacheMixin, ModelCacheMixin, ConstraintExpansionMixin, SimplifyHelperMixin,
     FullFrontend, ConstrainedFrontend, Frontend] := by decide

/-- whatever a call does — answer, raise unsat, give up — the invariant all later answers (of every solver of the tree)
rest on holds afterwards -/
theorem C17_giveup_keeps_invariant {E : Env} {R : Con → Prop} (hR : Reg R E) (hE : OracleExact E) (hS : SimpOn R E)
    (hT : CheapSound E) (w : World) (Us : List (List Con)) (hw : TInv R Us w) (i : Nat) (hi : i < w.fes.length)
    (op : Op) (hop : InScope R op) :
    TInv R (usersAll Us i op) (step E .SolverCacheless w i op).2 :=
  (cl_step hR hE hS hT w Us hw i hi op hop).2

/-- no hypothesis that the backend answers: every outcome of every history on a tree of branched solvers is allowed, or is
the give-up error with the oracle having answered `unknown` -/
theorem C17_cacheless_after_giveup {E : Env} {R : Con → Prop} (hR : Reg R E) (hE : OracleExact E) (hS : SimpOn R E)
    (hT : CheapSound E) (hist : List (Nat × Op)) (hok : HistOk R 1 hist) :
    ∀ x ∈ runHist E .SolverCacheless (World.init false false) [[]] hist,
      Judge x.1 x.2.1 x.2.2 ∨ (x.2.2 = .err .giveUp ∧ GaveUp E) := by
  intro x hx
  rcases cl_hist_giveup hR hE hS hT hist _ _ (tinv_init R) hok x hx with h | ⟨e, he, hg⟩
  · exact Or.inl h
  · exact Or.inr ⟨by rw [he, hg.1], hg.2⟩

end Claripy.Props.C17
