import ClaripyProofs.Lemmas.Solver.CachelessHistory
import ClaripyProofs.Lemmas.Solver.SolverGiveUp
/-!
# C17 — a solver stays correct after the backend gives up

Proved:
  * L1 (every class): when `_satisfiable` / `_batch_eval` / `_extrema` end in the give-up error, the oracle did answer
    `unknown`, the frontend record is as the model callbacks left it and the assertion frames of the solver object
    are restored (`z3Satisfiable_spec`, `z3BatchEval_spec`, `z3Extrema_spec`, error branches).
  * SolverCacheless, whole stack: a call that gives up leaves the frontend invariant intact
    (`C17_giveup_keeps_invariant`), hence in any history every answer — in particular those AFTER a give-up — is
    one the property statement allows or is itself an honest give-up (`C17_cacheless_after_giveup`).
  * the caching class `Solver`, whole stack with all its caches: the same (`C17_solver_giveup_keeps_invariant`,
    `C17_solver_after_giveup`, `C17_solver_later_answers_after_giveup`); the hypotheses of the refinement theorem do not
    exclude give-ups (`C17_hypotheses_allow_giveups`), and `gEnv` / `gHist` is an environment meeting them whose backend really
    gives up on the first call of a history.
The other classes are covered by fault injection on the real code plus the trace correspondence (design_notes/C17.md).
-/
namespace Claripy.Props.C17
open Claripy.Solver Claripy.Gen.SolverMro LayerName

theorem C17_mro_solver : mro .Solver =
    [ConcreteHandlerMixin, EagerResolutionMixin, ConstraintFilterMixin, ConstraintDeduplicatorMixin,
     SimplifySkipperMixin, SatCacheMixin, ModelCacheMixin, ConstraintExpansionMixin, SimplifyHelperMixin,
     FullFrontend, ConstrainedFrontend, Frontend] := by decide

/-- whatever a call does — answer, raise unsat, give up — the invariant all later answers (of every solver of the tree)
rest on holds afterwards -/
theorem C17_giveup_keeps_invariant {E : Env} {R : Con → Prop} (hR : Reg R E) (hE : OracleExact E) (hS : SimpOn R E)
    (hT : CheapSound E) (w : World) (Us : List (List Con)) (hw : TInv R Us w) (i : Nat) (hi : i < w.fes.length)
    (op : Op) (hop : InScope R op) :
    TInv R (usersAll Us i op) (step E .SolverCacheless w i op).2 :=
  (cl_step hR hE hS hT w Us hw i hi op hop).2

/-- no hypothesis that the backend answers: every outcome of every history on a tree of branched solvers is allowed, or is
the give-up error with the oracle having answered `unknown` -/
theorem C17_cacheless_after_giveup {E : Env} {R : Con → Prop} (hR : Reg R E) (hE : OracleExact E) (hS : SimpOn R E)
    (hT : CheapSound E) (hist : List (Nat × Op)) (hok : HistOk R 1 hist) :
    ∀ x ∈ runHist E .SolverCacheless (World.init false false) [[]] hist,
      Judge x.1 x.2.1 x.2.2 ∨ (x.2.2 = .err .giveUp ∧ GaveUp E) := by
  intro x hx
  rcases cl_hist_giveup hR hE hS hT hist _ _ (tinv_init R) hok x hx with h | ⟨e, he, hg⟩
  · exact Or.inl h
  · exact Or.inr ⟨by rw [he, hg.1], hg.2⟩

/-! ### the caching class `Solver`

A give-up can strike in the middle of `_batch_eval` (blocking clauses pushed, some models already handed to `_model_hook` and
cached), of the binary search of `_extrema`, of the satisfiability pre-check of `min`/`max`, or after ConstraintExpansionMixin
/ SimplifyHelperMixin already changed the constraint list.  The invariant `SI = BInv ∧ MCInv ∧ SCInv` holds at every `raise`:
the specifications of all layers (`SatSpec`, `BatchSpec`, `OptSpec`, `SolSpec`) say so for the error branch too. -/

variable {E : Env} {R : Con → Prop} {RE : Exp → Prop}

/-- whatever a call on a `Solver` does — answer, raise `UnsatError`, give up — the invariant all later answers of every solver
of the tree rest on holds afterwards: cached models still satisfy the user's constraints, the exhausted tables are still
right, the cached satisfiability verdict is still right, the Z3 object asserts (with what is pending) exactly the constraints -/
theorem C17_solver_giveup_keeps_invariant (H : SolverHyps R RE E) (w : World) (Us : List (List Con))
    (hw : TInvS R RE E Us w) (i : Nat) (hi : i < w.fes.length) (op : Op) (hop : InScopeS R RE op) :
    TInvS R RE E (usersAll Us i op) (step E .Solver w i op).2 :=
  (sol_step H w Us hw i hi op hop).2

/-- no hypothesis that the backend answers: every outcome of every history on a tree of branched caching solvers is allowed,
or is the give-up error with the oracle having answered `unknown` -/
theorem C17_solver_after_giveup (H : SolverHyps R RE E) (track : Bool) (hist : List (Nat × Op))
    (hok : HistOkS R RE 1 hist) :
    ∀ x ∈ runHist E .Solver (World.init track false) [[]] hist,
      Judge x.1 x.2.1 x.2.2 ∨ (x.2.2 = .err .giveUp ∧ GaveUp E) := by
  intro x hx
  rcases sol_hist_giveup H hist _ _ (tinvS_init R RE E track) hok x hx with h | ⟨e, he, hg⟩
  · exact Or.inl h
  · exact Or.inr ⟨by rw [he, hg.1], hg.2⟩

/-- **after a give-up.** In any world of the tree, if the call `op` on solver `i` ends in the give-up error, then the backend did
answer `unknown`; no user's constraint list changed; the invariant holds; and whatever is done afterwards (any history in scope,
on the same solver, on branches made before or after, on any other solver) every answer is allowed for the constraints of the
solver asked, or is again an honest give-up. -/
theorem C17_solver_later_answers_after_giveup (H : SolverHyps R RE E) (w : World) (Us : List (List Con))
    (hw : TInvS R RE E Us w) (i : Nat) (hi : i < w.fes.length) (op : Op) (hop : InScopeS R RE op)
    (hg : (step E .Solver w i op).1 = .err .giveUp) :
    GaveUp E ∧ TInvS R RE E Us (step E .Solver w i op).2 ∧
    ∀ rest, HistOkS R RE w.fes.length rest →
      ∀ x ∈ runHist E .Solver (step E .Solver w i op).2 Us rest,
        Judge x.1 x.2.1 x.2.2 ∨ (x.2.2 = .err .giveUp ∧ GaveUp E) := by
  obtain ⟨hj, hw'⟩ := sol_step H w Us hw i hi op hop
  obtain ⟨hU, hn⟩ := sol_error_users H w Us hw i hi op hop _ hg
  have hlen := sol_step_length H w Us hw i hi op hop
  rw [hU] at hw'
  rw [hn] at hlen
  have hgave : GaveUp E := by
    rw [hg] at hj
    rcases hj with hj | ⟨e, _, hge⟩
    · cases op <;> exact hj.elim
    · exact hge.2
  refine ⟨hgave, hw', fun rest hrest x hx => ?_⟩
  rcases sol_hist_giveup H rest _ _ hw' (by rw [hlen]; exact hrest) x hx with h | ⟨e, he, hge⟩
  · exact Or.inl h
  · exact Or.inr ⟨by rw [he, hge.1], hge.2⟩

/-- the hypotheses of the refinement theorems cannot exclude give-ups: turning any answers of the backend into `unknown`
keeps all of them -/
theorem C17_hypotheses_allow_giveups (H : SolverHyps R RE E) (o' : Query → Nat → Answer)
    (ho : ∀ q k, o' q k = E.oracle q k ∨ o' q k = .unknown) : SolverHyps R RE { E with oracle := o' } :=
  H.giveUpMore o' ho

/-- non-vacuity: `gEnv` satisfies the hypotheses, its backend gives up, the history `gHist` is in scope … -/
example : SolverHyps cR cRE gEnv ∧ GaveUp gEnv ∧ HistOkS cR cRE 1 gHist := ⟨gHyps, gEnv_gaveUp, gHist_ok⟩

/-- … its first call (`satisfiable()` on the empty solver) really ends in the give-up error, and the calls after it — `add(x == 5)`,
`eval`, `branch`, `max` on the branch, `solution` on the parent, `add` on the branch, `eval` — are answered -/
example : (runHist gEnv .Solver (World.init false false) [[]] (gHist.take 8)).map (·.2.2) =
    [.err .giveUp, .cons [2], .vals [5], .newSolver 1, .int 5, .bool true, .cons [1], .vals [5]] := gHist_outputs

/-- … and the theorems apply to it: every answer of the whole history (also those after the pickle round trip, which the
backend is asked for) is allowed or an honest give-up -/
example : ∀ x ∈ runHist gEnv .Solver (World.init false false) [[]] gHist,
    Judge x.1 x.2.1 x.2.2 ∨ (x.2.2 = .err .giveUp ∧ GaveUp gEnv) :=
  C17_solver_after_giveup gHyps false gHist gHist_ok

example : (step gEnv .Solver (World.init false false) 0 (.satisfiable [])).1 = .err .giveUp ∧
    ∀ rest, HistOkS cR cRE 1 rest →
      ∀ x ∈ runHist gEnv .Solver (step gEnv .Solver (World.init false false) 0 (.satisfiable [])).2 [[]] rest,
        Judge x.1 x.2.1 x.2.2 ∨ (x.2.2 = .err .giveUp ∧ GaveUp gEnv) := by
  have hg : (step gEnv .Solver (World.init false false) 0 (.satisfiable [])).1 = .err .giveUp := by decide +kernel
  exact ⟨hg, (C17_solver_later_answers_after_giveup gHyps _ _ (tinvS_init cR cRE gEnv false) 0 (by decide)
    (.satisfiable []) (by simp [InScopeS]) hg).2.2⟩

end Claripy.Props.C17
