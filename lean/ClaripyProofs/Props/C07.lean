import Claripy.Anno.Model
import ClaripyProofs.Lemmas.Anno.Carrier
/-!
# C07 — annotations survive rewriting as the annotation contract promises

The contract is enforced in ONE place: `_handle_annotations` gates every simplifier proposal (after the
`fix:` commits also those of `If` and of the Concat-part extraction).  The theorems below are about that
gate and hold for ANY proposal a simplifier may make — present or future rules alike — and any tree:

* `C07_handle_unelim`  — an accepted proposal contains every non-eliminatable, non-relocatable annotation
  reachable in any argument (so a sub-expression carrying one is never removed: the rewrite is skipped instead);
* `C07_handle_reloc`   — every relocatable annotation carried by an argument is present on the accepted result;
* `C07_carrier_kept_partial` — the statement about the SUB-EXPRESSION itself: when the annotation sits on one
  sub-expression only and the proposal puts non-eliminatable annotations only on sub-expressions of the arguments
  (it builds no new node that carries one), the accepted result contains that very sub-expression.  Both premises
  are needed: `C07_carrier_shared_removed` (the open finding C07-shared-annotation-carrier) and
  `C07_carrier_moved_accepted` (the repaired defect of `bitwise_sub_simplifier`, which copied the annotations of
  the sum onto a new sum) are accepted by the gate although the carrier is gone.  The second premise is a fact about
  the simplifiers, not about the gate: the correspondence check watches it on every real rewrite;
* `C07_build`          — the same two facts for whatever `_op` returns (accepted proposal or plain node);
* `C07_simplify`       — explicit simplification keeps the top annotations and the direct arguments' relocatable ones;
* `C07_frontend_simplify` — a solver never hands a constraint with a simplification-avoidance annotation to the rewriter
  and keeps it verbatim.
-/
namespace Claripy.Props.C07
open Claripy.Anno

theorem annos_appendAnno (e : AExpr) (a : Anno) : (e.appendAnno a).annos = e.annos ++ [a] := by
  cases e; rfl

theorem unelim_appendAnno (e : AExpr) (a u : Anno) (h : u ∈ e.unelim) : u ∈ (e.appendAnno a).unelim := by
  cases e with
  | mk t as an =>
    simp only [AExpr.appendAnno, AExpr.unelim, List.mem_append, List.filter_append] at h ⊢
    rcases h with h | h
    · exact Or.inl (Or.inl h)
    · exact Or.inr h

/-- monotonicity of a state transformer on the proposal -/
def Mono (s s' : AExpr) : Prop := (∀ u, u ∈ s.unelim → u ∈ s'.unelim) ∧ (∀ a, a ∈ s.annos → a ∈ s'.annos)

theorem Mono.refl (s : AExpr) : Mono s s := ⟨fun _ h => h, fun _ h => h⟩
theorem Mono.trans {a b c : AExpr} (h1 : Mono a b) (h2 : Mono b c) : Mono a c :=
  ⟨fun u h => h2.1 u (h1.1 u h), fun x h => h2.2 x (h1.2 x h)⟩
theorem Mono.append (s : AExpr) (a : Anno) : Mono s (s.appendAnno a) :=
  ⟨fun u h => unelim_appendAnno s a u h, fun x h => by rw [annos_appendAnno]; exact List.mem_append_left _ h⟩

theorem relocateFrom_spec (preserved : List Anno) (l : List Anno) (s : AExpr) (rel : List Anno)
    (hinv : ∀ x ∈ rel, x ∈ s.annos) :
    let r := relocateFrom preserved l (s, rel)
    Mono s r.1 ∧ (∀ x ∈ r.2, x ∈ r.1.annos) ∧ (∀ x ∈ rel, x ∈ r.2) ∧
    (∀ oa ∈ l, oa ∈ preserved ∨ oa ∈ r.2) := by
  induction l generalizing s rel with
  | nil => simp [relocateFrom]; exact ⟨Mono.refl s, hinv⟩
  | cons oa rest ih =>
    simp only [relocateFrom]
    split
    · rename_i hc
      obtain ⟨m, i1, i2, i3⟩ := ih s rel hinv
      refine ⟨m, i1, i2, ?_⟩
      intro x hx
      rcases List.mem_cons.mp hx with rfl | hx
      · simp only [Bool.or_eq_true, List.contains_iff_mem] at hc
        rcases hc with hc | hc
        · exact Or.inl hc
        · exact Or.inr (i2 _ hc)
      · exact i3 x hx
    · have hinv' : ∀ x ∈ oa :: rel, x ∈ (s.appendAnno oa).annos := by
        intro x hx
        rw [annos_appendAnno]
        rcases List.mem_cons.mp hx with rfl | hx
        · simp
        · exact List.mem_append_left _ (hinv x hx)
      obtain ⟨m, i1, i2, i3⟩ := ih (s.appendAnno oa) (oa :: rel) hinv'
      refine ⟨Mono.trans (Mono.append s oa) m, i1, fun x hx => i2 x (List.mem_cons_of_mem _ hx), ?_⟩
      intro x hx
      rcases List.mem_cons.mp hx with rfl | hx
      · exact Or.inr (i2 _ (by simp))
      · exact i3 x hx

/-- the loop of `_handle_annotations` as a fold; invariant carried through all arguments -/
def hstep (preserved : List Anno) (st : AExpr × List Anno × Nat) (aa : AExpr) : AExpr × List Anno × Nat :=
  let (s, relocated, bad) := st
  let (s', relocated') := relocateFrom preserved aa.relocs (s, relocated)
  let lost := aa.unelim.filter fun u => !s'.unelim.contains u
  (s', relocated', bad + lost.length)

theorem handle_eq (simp : AExpr) (args : List AExpr) :
    handle simp args =
      (let r := args.foldl (hstep simp.relocs) (simp, [], 0); if r.2.2 = 0 then some r.1 else none) := by
  rfl

theorem hfold_spec (preserved : List Anno) (args : List AExpr) (s : AExpr) (rel : List Anno) (bad : Nat)
    (hinv : ∀ x ∈ rel, x ∈ s.annos) :
    let r := args.foldl (hstep preserved) (s, rel, bad)
    Mono s r.1 ∧ bad ≤ r.2.2 ∧
    (r.2.2 = bad → ∀ a ∈ args, (∀ u ∈ a.unelim, u ∈ r.1.unelim) ∧
        (∀ oa ∈ a.relocs, oa ∈ preserved ∨ oa ∈ r.1.annos)) := by
  induction args generalizing s rel bad with
  | nil => simp; exact Mono.refl s
  | cons aa rest ih =>
    simp only [List.foldl]
    obtain ⟨m1, j1, j2, j3⟩ := relocateFrom_spec preserved aa.relocs s rel hinv
    -- unfold one step
    have hstep_eq : hstep preserved (s, rel, bad) aa =
        ((relocateFrom preserved aa.relocs (s, rel)).1, (relocateFrom preserved aa.relocs (s, rel)).2,
          bad + (aa.unelim.filter fun u => !(relocateFrom preserved aa.relocs (s, rel)).1.unelim.contains u).length) := by
      simp [hstep]
    rw [hstep_eq]
    obtain ⟨m2, k1, k2⟩ := ih (relocateFrom preserved aa.relocs (s, rel)).1 (relocateFrom preserved aa.relocs (s, rel)).2
      (bad + (aa.unelim.filter fun u => !(relocateFrom preserved aa.relocs (s, rel)).1.unelim.contains u).length) j1
    refine ⟨Mono.trans m1 m2, by omega, ?_⟩
    intro hbad a ha
    have hlost : (aa.unelim.filter fun u => !(relocateFrom preserved aa.relocs (s, rel)).1.unelim.contains u).length = 0 := by
      omega
    have hrest := k2 (by omega)
    rcases List.mem_cons.mp ha with rfl | ha
    · constructor
      · intro u hu
        have : u ∉ (a.unelim.filter fun u => !(relocateFrom preserved a.relocs (s, rel)).1.unelim.contains u) := by
          rw [List.length_eq_zero_iff.mp hlost]; simp
        have hin : u ∈ (relocateFrom preserved a.relocs (s, rel)).1.unelim := by
          by_cases hc : u ∈ (relocateFrom preserved a.relocs (s, rel)).1.unelim
          · exact hc
          · exfalso; apply this
            simp [List.mem_filter, hu, hc]
        exact m2.1 u hin
      · intro oa hoa
        rcases j3 oa hoa with h | h
        · exact Or.inl h
        · exact Or.inr (m2.2 _ (j1 _ h))
    · exact hrest a ha

/-- **C07 (gate, non-eliminatable)**: whatever rewrite result `simp` a simplifier proposes, if
`_handle_annotations` accepts it then every non-eliminatable, non-relocatable annotation reachable in any
argument is still reachable in the result. -/
theorem C07_handle_unelim (simp : AExpr) (args : List AExpr) (r : AExpr) (h : handle simp args = some r) :
    ∀ a ∈ args, ∀ u ∈ a.unelim, u ∈ r.unelim := by
  rw [handle_eq] at h
  simp only at h
  split at h
  · rename_i hb
    cases h
    intro a ha
    exact ((hfold_spec simp.relocs args simp [] 0 (by simp)).2.2 hb a ha).1
  · cases h

/-- **C07 (gate, relocatable)**: every relocatable annotation carried by an argument is on the accepted result. -/
theorem C07_handle_reloc (simp : AExpr) (args : List AExpr) (r : AExpr) (h : handle simp args = some r) :
    ∀ a ∈ args, ∀ oa ∈ a.relocs, oa ∈ r.annos := by
  rw [handle_eq] at h
  simp only at h
  split at h
  · rename_i hb
    cases h
    intro a ha oa hoa
    have spec := hfold_spec simp.relocs args simp [] 0 (by simp)
    rcases (spec.2.2 hb a ha).2 oa hoa with hp | hp
    · apply spec.1.2
      simp only [AExpr.relocs, List.mem_filter] at hp
      exact hp.1
    · exact hp
  · cases h

/-- **C07 (gate, the annotated sub-expression itself) — partial**: `c` is the only sub-expression of the arguments
carrying the non-eliminatable, non-relocatable annotation `u`, and every node of the proposal that carries such an
annotation is a sub-expression of some argument.  Then an accepted proposal contains `c`, and what is returned is the
proposal with the same operator and arguments (only relocatable annotations were added on top).
Partial: without either premise the conclusion fails (`C07_carrier_shared_removed`, `C07_carrier_moved_accepted`). -/
theorem C07_carrier_kept_partial (simp : AExpr) (args : List AExpr) (r : AExpr) (h : handle simp args = some r)
    (c : AExpr) (u : Anno) (hu : isUnelim u = true)
    (hc : ∃ a ∈ args, c ∈ a.subterms) (huc : u ∈ c.annos)
    (huniq : ∀ a ∈ args, ∀ n ∈ a.subterms, u ∈ n.annos → n = c)
    (hold : ∀ n ∈ simp.subterms, ∀ v ∈ n.annos, isUnelim v = true → ∃ a ∈ args, n ∈ a.subterms) :
    c ∈ simp.subterms ∧ r.tag = simp.tag ∧ r.args = simp.args := by
  obtain ⟨a0, ha0, hca0⟩ := hc
  have htop := handle_topOnly simp args r h
  have hur : u ∈ r.unelim := by
    apply C07_handle_unelim simp args r h a0 ha0
    -- u is reachable in a0 because it sits on c
    have : ∀ (e : AExpr), c ∈ e.subterms → u ∈ e.unelim := by
      intro e he
      exact mem_unelim_of_carrier e c u he huc hu
    exact this a0 hca0
  have hus : u ∈ simp.unelim := htop.2.2 u hur
  obtain ⟨n, hn, hun, _⟩ := unelim_carrier simp u hus
  obtain ⟨a, ha, hna⟩ := hold n hn u hun hu
  have : n = c := huniq a ha n hna hun
  exact ⟨this ▸ hn, htop.1, htop.2.1⟩

/-- the first premise is needed: one annotation on two sub-expressions, the proposal keeps only one of them
(`(x | y)[k] & 3[k] ⇒ (x | y)[k]`) — accepted, and no node of the result is the literal that carried `k`.  Open finding
C07-shared-annotation-carrier; replayed on the real code by the check. -/
theorem C07_carrier_shared_removed :
    let k : Anno := { id := 1, elim := false, reloc := false }
    let xy : AExpr := .mk "or" [.mk "x" [] [], .mk "y" [] []] [k]
    let lit : AExpr := .mk "3" [] [k]
    (handle xy [xy, lit]).map (fun r => r.subterms.map AExpr.tag) = some ["or", "x", "y"] := by decide

/-- the second premise is needed: a proposal that copies the annotation onto a NEW node
(`(x + y + 1)[k] - 2 ⇒ (x + y + 255)[k]`, the defect repaired in `bitwise_sub_simplifier`) passes the gate: the
result carries `k` on its top node, and the sum that carried it (it has the operand `1`) is not part of it. -/
theorem C07_carrier_moved_accepted :
    let k : Anno := { id := 1, elim := false, reloc := false }
    let sum : AExpr := .mk "add" [.mk "x" [] [], .mk "y" [] [], .mk "1" [] []] [k]
    let sum' : AExpr := .mk "add" [.mk "x" [] [], .mk "y" [] [], .mk "255" [] []] [k]
    (handle sum' [sum, .mk "2" [] []]).map (fun r => (r.subterms.map AExpr.tag, r.annos))
      = some (["add", "x", "y", "255"], [k]) := by decide

theorem unelimList_mem (args : List AExpr) (a : AExpr) (ha : a ∈ args) (u : Anno) (hu : u ∈ a.unelim) :
    u ∈ AExpr.unelimList args := by
  induction args with
  | nil => simp at ha
  | cons b bs ih =>
    simp only [AExpr.unelimList, List.mem_append]
    rcases List.mem_cons.mp ha with rfl | ha
    · exact Or.inl hu
    · exact Or.inr (ih ha)

theorem mkNode_contract (tag : String) (args : List AExpr) (annos : List Anno) :
    (∀ a ∈ args, ∀ u ∈ a.unelim, u ∈ (mkNode tag args annos).unelim) ∧
    (∀ a ∈ args, ∀ oa ∈ a.relocs, oa ∈ (mkNode tag args annos).annos) := by
  constructor
  · intro a ha u hu
    simp only [mkNode, AExpr.unelim, List.mem_append]
    exact Or.inr (unelimList_mem args a ha u hu)
  · intro a ha oa hoa
    simp only [mkNode, AExpr.annos, List.mem_eraseDups, List.mem_append, List.mem_flatMap]
    exact Or.inr ⟨a, ha, hoa⟩

/-- **C07 (construction)**: for every operation, argument list and simplifier proposal, what `_op` returns
keeps the non-eliminatable annotations of all arguments reachable and carries their relocatable ones. -/
theorem C07_build (tag : String) (args : List AExpr) (proposal : Option AExpr) :
    (∀ a ∈ args, ∀ u ∈ a.unelim, u ∈ (buildOp tag args proposal).unelim) ∧
    (∀ a ∈ args, ∀ oa ∈ a.relocs, oa ∈ (buildOp tag args proposal).annos) := by
  unfold buildOp
  cases proposal with
  | none => exact mkNode_contract tag args []
  | some s =>
    simp only
    cases h : handle s args with
    | none => exact mkNode_contract tag args []
    | some r => exact ⟨C07_handle_unelim s args r h, C07_handle_reloc s args r h⟩

/-- **C07 (explicit simplification)**: the result of `claripy.simplify` carries the annotations attached to the
top of the original and the relocatable annotations of its direct arguments. -/
theorem C07_simplify (expr simplified : AExpr) (hne : expr.annos ≠ []) :
    (∀ a ∈ expr.annos, a ∈ (simplifyAnnos expr simplified).annos) ∧
    (∀ x ∈ expr.args, ∀ oa ∈ x.relocs, oa ∈ (simplifyAnnos expr simplified).annos) := by
  have he : expr.annos.isEmpty = false := by
    cases h : expr.annos with
    | nil => exact absurd h hne
    | cons _ _ => rfl
  unfold simplifyAnnos
  rw [he]
  cases simplified with
  | mk t as an =>
    simp only [Bool.false_eq_true, if_false, AExpr.annos, List.mem_eraseDups, List.mem_append, List.mem_flatMap]
    exact ⟨fun a ha => Or.inr ha, fun x hx oa hoa => Or.inl ⟨x, hx, hoa⟩⟩

/-- **C07 (solver)**: for any rewriter, a constraint with a simplification-avoidance annotation is never given to it
and stays in the constraint list verbatim. -/
theorem C07_frontend_simplify (constraints : List AExpr) (rewriter : List AExpr → List AExpr) :
    (∀ c ∈ constraints.filter (fun c => !hasAvoid c), hasAvoid c = false) ∧
    (∀ c ∈ constraints, hasAvoid c = true → c ∈ frontendSimplify constraints rewriter) := by
  constructor
  · intro c hc
    simp only [List.mem_filter, Bool.not_eq_eq_eq_not, Bool.not_true] at hc
    exact hc.2
  · intro c hc ha
    unfold frontendSimplify
    simp only
    split
    · exact hc
    · exact List.mem_append_left _ (List.mem_filter.mpr ⟨hc, ha⟩)

/-- non-vacuity: a proposal that drops an argument carrying a Keep annotation is rejected; one that keeps it,
with a relocatable annotation to move, is accepted and re-annotated -/
def keep1 : Anno := { id := 1, elim := false, reloc := false }
def rel2 : Anno := { id := 2, elim := false, reloc := true }
def xk : AExpr := .mk "x" [] [keep1]
def yr : AExpr := .mk "y" [] [rel2]
example : handle (.mk "y" [] []) [xk, yr] = none := by decide
example : (handle xk [xk, yr]).map AExpr.annos = some [keep1, rel2] := by decide
/-- non-vacuity of `C07_carrier_kept_partial`: `x & y[k] ⇒ y[k]`-shaped proposal, all premises hold -/
example : (handle xk [.mk "z" [] [], xk]).map (fun r => (r.subterms.map AExpr.tag, r.annos)) = some (["x"], [keep1]) := by decide

end Claripy.Props.C07
