import ClaripyProofs.Lemmas.Str.Numeral
import ClaripyProofs.Lemmas.Str.CodecOut
import ClaripyProofs.Lemmas.FP.Encoded
import ClaripyProofs.Lemmas.FP.ExtractF
/-!
# C26 — values extracted from models are the values the model holds

Models of the extraction functions of `backends/backend_z3.py`: bit-vector numerals (`_abstract_bv_val`, both paths,
`str_to_int_unlimited`), the `Concat` quirk, strings (`z3_string_to_python ∘ as_string`), floats (`_abstract_fp_val`,
`_abstract_fp_encoded_val`).  What Z3 reports for a numeral (uint64 / decimal string; sign, decimal significand string,
exponent; escaped text) is transcribed from observed Z3 4.13 behaviour and validated on every run.
-/
namespace Claripy.Props.C26
open Claripy.Str Claripy.Str.Numeral Claripy.Str.Codec Claripy.FP Claripy.FP.Extract

/-- bit-vector numerals of ANY width come back exactly, through the uint64 path and through the chunked decimal path,
for every chunk size (CPython's digit limit) -/
theorem bv_extract_ok (chunk : Nat) (hc : 0 < chunk) (v : Nat) : abstractBvVal chunk v = v := abstractBvVal_eq chunk hc v

example : abstractBvVal 4300 (2 ^ 200 + 12345) = 2 ^ 200 + 12345 := bv_extract_ok _ (by decide) _

/-- `str_to_int_unlimited` is the decimal value for every digit string and every chunk size -/
theorem str_to_int_unlimited_ok (chunk : Nat) (hc : 0 < chunk) (s : S) : strToIntUnlimited chunk s = Spec.decVal s :=
  strToIntUnlimited_eq chunk hc s

/-- the `Concat` quirk: in-range fields, no negated zero ⇒ the concatenated value -/
theorem concat_quirk_ok (parts : List Part) (h : ∀ p ∈ parts, p.val < 2 ^ p.size ∧ (p.neg = true → 0 < p.val)) :
    concatQuirk parts = concatVal parts := concatQuirk_eq parts h

example : concatQuirk [⟨1, 0, false⟩, ⟨8, 255, false⟩, ⟨23, 1, true⟩] = 0x7FFFFFFF := by decide

/-- … and it is wrong for a negated zero field (`(1 << size) - 0` spills into the next field); Z3 never prints `bvneg 0` -/
theorem concat_quirk_neg_zero_wrong : concatQuirk [⟨8, 2, false⟩, ⟨8, 0, true⟩] ≠ concatVal [⟨8, 2, false⟩, ⟨8, 0, true⟩] := by
  decide

/-- strings: every string Python can hold comes back as the characters Z3 holds (shared with C03) -/
theorem str_extract_ok (s : S) (h : ∀ c ∈ s, c ≤ pyMaxChar) : claripyDecode (z3Print s) = s := extract_roundtrip' s h

/-- without the decoding step (the code before the fix) NUL,`z` came back as the text `\u{0}z` -/
theorem str_extract_undecoded_wrong : z3Print [0, 122] ≠ [0, 122] := by
  simp [z3Print, braceEscape, toHex_eq, hexChar, bslash, chU, lbrace, rbrace]

/-- floats, encoded path (`fpToIEEEBV` quirk): the fields reassemble to the bit pattern, for every non-NaN value of both formats -/
theorem fp_encoded_ok (b : Nat) :
    (isNaN binary64 b = false → abstractFpEncodedVal binary64 b = b % 2 ^ 64) ∧
    (isNaN binary32 b = false → abstractFpEncodedVal binary32 b = b % 2 ^ 32) :=
  ⟨encoded_eq binary64 (by decide) b, encoded_eq binary32 (by decide) b⟩

/-- FLOATS, value path (`_abstract_fp_val`): the Python float computed as `fp_sign * float(sig_string) * 2**fp_exp` — three
binary64 round-to-nearest operations, each of which is proved exact — packed in the sort's format, is the bit pattern of the
numeral: for EVERY non-NaN value of binary64 and binary32 (zeros, subnormals, normals, infinities). -/
theorem fp_extract_ok :
    (∀ b, b < 2 ^ 64 → isNaN binary64 b = false → abstractFpVal binary64 b = b) ∧
    (∀ b, b < 2 ^ 32 → isNaN binary32 b = false → Fold.lower binary32 (abstractFpVal binary32 b) = b) :=
  ⟨abstractFpVal_D, abstractFpVal_F⟩

/-- NaN comes back as NaN (its payload is unspecified) -/
theorem fp_extract_nan (f : Fmt) (b : Nat) (h : isNaN f b = true) : isNaN binary64 (abstractFpVal f b) = true := by
  unfold abstractFpVal; simp only [h, if_true]; decide

example : abstractFpVal binary64 1 = 1 ∧ Fold.lower binary32 (abstractFpVal binary32 0x807FFFFF) = 0x807FFFFF :=
  ⟨fp_extract_ok.1 1 (by decide) (by decide), fp_extract_ok.2 _ (by decide) (by decide)⟩

/-- bounded: subnormals, extremes and ties of both formats reconstruct exactly -/
theorem test_fp_extract_samples :
    ([1, 0x000FFFFFFFFFFFFF, 0x0010000000000000, 0x3FF0000000000001, 0x7FEFFFFFFFFFFFFF, 0xBFF8000000000000,
      0x8000000000000001, 0x4340000000000001].all fun b => abstractFpVal binary64 b == b) = true ∧
    ([1, 0x007FFFFF, 0x00800000, 0x3F800001, 0x7F7FFFFF, 0xBFC00000, 0x80000001].all
      fun b => Fold.lower binary32 (abstractFpVal binary32 b) == b) = true := by decide +kernel

end Claripy.Props.C26
