import Claripy.VSA.Conc
import ClaripyProofs.Lemmas.VSA.AddSub
import ClaripyProofs.Lemmas.VSA.Lub
import ClaripyProofs.Lemmas.VSA.Members
import ClaripyProofs.Lemmas.VSA.MinMax
import ClaripyProofs.Lemmas.VSA.EvalExact
import ClaripyProofs.Lemmas.VSA.EvalSigned
import ClaripyProofs.Lemmas.VSA.MeetFinal
import ClaripyProofs.Lemmas.VSA.AlignedMul
import ClaripyProofs.Lemmas.VSA.MeetTwoPieces
/-!
# C22 — joins, meets, widening and queries agree with the members

Full statements are kept as `def … : Prop`; what is false on the code has a negation with a concrete witness
(replayed on the real code by the check); proved parts are theorems for all widths.
-/
namespace Claripy.Props.C22
open Claripy.VSA

/-- the result of a join-like operation contains both operands -/
def JoinSound (op : SI → SI → R SI) (guard : SI → SI → Prop) : Prop :=
  ∀ (a b r : SI) (x : Nat), a.WF → b.WF → a.bits = b.bits → guard a b → (a.mem x ∨ b.mem x) → op a b = .ok r → r.mem x

/-- the result of a meet contains every common member -/
def MeetSound (op : SI → SI → R SI) (guard : SI → SI → Prop) : Prop :=
  ∀ (a b r : SI) (x : Nat), a.WF → b.WF → a.bits = b.bits → guard a b → a.mem x → b.mem x → op a b = .ok r → r.mem x

def noGuard : SI → SI → Prop := fun _ _ => True
def bothAligned : SI → SI → Prop := fun a b => a.Aligned ∧ b.Aligned

/-! ## `top` and the constructor -/

/-- `top` contains every value of its width -/
theorem C22_top_mem (w x : Nat) : (SI.top w).mem x ↔ x < 2 ^ w := mem_top w x

/-- membership in a freshly constructed (normalised) interval: normalisation (singleton → stride 0, full circle →
`[0, 2^w - 1]`) does not change the member set -/
theorem C22_new_mem (b s : Nat) (l u : Int) (x : Nat) :
    (SI.new b s l u).mem x ↔ x < 2 ^ b ∧ cd (2 ^ b) (imod l b) x ≤ cd (2 ^ b) (imod l b) (imod u b) ∧
      (if s = 0 then cd (2 ^ b) (imod l b) x = 0 else cd (2 ^ b) (imod l b) x % s = 0) := mem_new b s l u x

/-! ## joins: `pseudo_join`, `least_upper_bound`, `union` contain their operands (all widths) -/

/-- `pseudo_join(a, b, smart_join)` is well formed, keeps the width and contains both operands — for both settings
of `smart_join`, wrapping or not, aligned or not -/
theorem C22_pseudo_join_sup (w : Nat) (a b : SI) (smart : Bool) (ha : a.WF ∧ a.bits = w) (hb : b.WF ∧ b.bits = w) :
    ((pseudoJoin a b smart).WF ∧ (pseudoJoin a b smart).bits = w) ∧
      ∀ x, (a.mem x ∨ b.mem x) → (pseudoJoin a b smart).mem x :=
  pseudoJoin_ok w a b ha hb smart

/-- `least_upper_bound(*intervals)` (one, two or more arguments: sorted, every rotation joined in order, the candidate
with the fewest values picked) contains every argument -/
theorem C22_lub_sup (w : Nat) (l : List SI) (r : SI) (hP : ∀ s, s ∈ l → s.WF ∧ s.bits = w)
    (h : leastUpperBound l = .ok r) : (r.WF ∧ r.bits = w) ∧ ∀ x, memL l x → r.mem x :=
  lub_sup w l r hP h

/-- `union` contains both operands: `JoinSound` without any guard -/
theorem C22_union_sup : JoinSound SI.union noGuard := by
  intro a b r x ha hb hbits _ hx h
  exact (union_sup a.bits a b r ⟨ha, rfl⟩ ⟨hb, hbits.symm⟩ h).2 x hx

/-- non-vacuity: a wrapping and a non-wrapping operand -/
example : (SI.new 4 3 14 4).WF ∧ (SI.new 4 2 5 9).WF ∧ (SI.new 4 3 14 4).mem 1 ∧
    SI.union (SI.new 4 3 14 4) (SI.new 4 2 5 9) = .ok (SI.new 4 1 14 9) := by decide

/-! ## queries: cardinality, membership test (exact for every well-formed interval) -/

/-- the member list (`lb, lb + stride, …` modulo `2^bits`) is exactly the member set, without repetitions -/
theorem C22_members_exact (s : SI) (hw : s.WF) : s.members.Nodup ∧ ∀ x, x ∈ s.members ↔ s.mem x :=
  ⟨members_nodup s hw, mem_members s hw⟩

/-- `cardinality` equals the number of members -/
theorem C22_cardinality_exact (s : SI) (hw : s.WF) : s.cardinality = .ok s.members.length :=
  cardinality_exact s hw

/-- `solution(v)` agrees with the member set (aligned or not, wrapping or not) -/
theorem C22_solution_exact (s : SI) (hw : s.WF) (hnb : s.bottom = false) (v : Nat) (hv : v < 2 ^ s.bits) :
    (s.solution (v : Int) = .ok true ∧ s.mem v) ∨ (s.solution (v : Int) = .ok false ∧ ¬ s.mem v) :=
  solution_exact s hw hnb v hv

example : (SI.new 4 5 13 7).members = [13, 2, 7] ∧ (SI.new 4 5 13 7).cardinality = .ok 3 ∧
    (SI.new 4 5 13 7).solution 2 = .ok true ∧ (SI.new 4 5 13 7).solution 3 = .ok false := by decide

/-! ## widen — false on the code (findings C22-widen-lower, -wrap, -upper, -unaligned) -/

/-! ## eval -/

/-- `eval(n)` (unsigned) returns exactly the first `n` entries of the member list: no repetition, nothing that is not a
member, and all members once `n` reaches the cardinality -/
theorem C22_eval_exact (s : SI) (n : Nat) (l : List Int) (hs : s.WF) (hnb : s.bottom = false) (h : s.eval n false = .ok l) :
    l = (s.members.take n).map (fun (v : Nat) => (v : Int)) ∧
    (s.members.length ≤ n → ∀ x, s.mem x → (x : Int) ∈ l) := by
  have he := eval_exact s n l hs hnb h
  refine ⟨he, ?_⟩
  intro hn x hx
  rw [he, List.take_of_length_le hn]
  exact List.mem_map.2 ⟨x, (mem_members s hs x).2 hx, rfl⟩

/-- non-vacuity: a wrapping interval, fewer values requested than there are -/
example : (SI.new 4 5 13 7).eval 2 false = .ok [13, 2] ∧ (SI.new 4 5 13 7).eval 9 false = .ok [13, 2, 7] := by decide

/-- `eval(n, signed=True)` returns exactly the SIGNED values of the first `n` entries of the member list (the pieces of
`_nsplit` are visited in order, each from its lower bound upwards — which is the member-list order): no repetition, nothing that
is not a member, and all members once `n` reaches the cardinality (interval in constructor-normal form) -/
theorem C22_eval_signed_exact (s : SI) (n : Nat) (l : List Int) (hs : s.WF) (hnb : s.bottom = false) (hn : s.renorm = s)
    (h : s.eval n true = .ok l) :
    l = (s.members.take n).map (fun (v : Nat) => Conc.toInt s.bits v) ∧
    (s.members.length ≤ n → ∀ x, s.mem x → Conc.toInt s.bits x ∈ l) := by
  have he := eval_signed_exact s n l hs hnb hn h
  refine ⟨he, ?_⟩
  intro hn' x hx
  rw [he, List.take_of_length_le hn']
  exact List.mem_map.2 ⟨x, (mem_members s hs x).2 hx, rfl⟩

/-- non-vacuity: an interval straddling both poles (two pieces), fewer values requested than there are -/
example : (SI.new 4 3 6 1).renorm = SI.new 4 3 6 1 ∧ (SI.new 4 3 6 1).members = [6, 9, 12, 15] ∧
    (SI.new 4 3 6 1).eval 3 true = .ok [6, -7, -4] ∧ (SI.new 4 3 6 1).eval 9 true = .ok [6, -7, -4, -1] := by decide

/-! ## min / max -/

/-- unsigned `min` / `max` bound every member (any well-formed interval, aligned or not, wrapping or not) -/
theorem C22_min_max_bound (s : SI) (x : Nat) (hs : s.WF) (hx : s.mem x) :
    (∀ m, s.min false = .ok (some m) → m ≤ x) ∧ (∀ m, s.max false = .ok (some m) → (x : Int) ≤ m) :=
  ⟨fun m h => min_le s m x hs hx h, fun m h => le_max s m x hs hx h⟩

/-- the unsigned minimum is attained (it is a member), hence exact; `max` is exact for aligned intervals only
(`C22_max_exact_aligned`, `max_unaligned_wrong`) -/
theorem C22_min_exact (s : SI) (m : Int) (hs : s.WF) (hnb : s.bottom = false) (h : s.min false = .ok (some m)) :
    (∃ x, s.mem x ∧ (x : Int) = m) ∧ ∀ y, s.mem y → m ≤ y :=
  ⟨min_attained s m hs hnb h, fun y hy => min_le s m y hs hy h⟩

/-- the unsigned maximum of an ALIGNED interval (its upper bound is a member) is attained, hence exact -/
theorem C22_max_exact_aligned (s : SI) (m : Int) (hs : s.WF) (hnb : s.bottom = false) (hal : s.Aligned)
    (h : s.max false = .ok (some m)) :
    (∃ x, s.mem x ∧ (x : Int) = m) ∧ ∀ y, s.mem y → (y : Int) ≤ m :=
  ⟨max_attained s m hs hnb hal h, fun y hy => le_max s m y hs hy h⟩

/-- signed `min` / `max` bound the signed value of every member (interval in constructor-normal form) -/
theorem C22_signed_min_max_bound (s : SI) (x : Nat) (hs : s.WF) (hn : s.renorm = s) (hx : s.mem x) :
    (∀ m, s.min true = .ok (some m) → m ≤ Conc.toInt s.bits x) ∧
    (∀ m, s.max true = .ok (some m) → Conc.toInt s.bits x ≤ m) :=
  ⟨fun m h => smin_le s m x hs hn hx h, fun m h => le_smax s m x hs hn hx h⟩

/-- non-vacuity: a wrapping interval with an odd stride -/
example : (SI.new 4 3 13 6).WF ∧ (SI.new 4 3 13 6).min false = .ok (some 0) ∧ (SI.new 4 3 13 6).max false = .ok (some 13) ∧
    (SI.new 4 3 13 6).min true = .ok (some (-3)) ∧ (SI.new 4 3 13 6).max true = .ok (some 6) ∧ (SI.new 4 3 13 6).mem 0 := by decide

def C22_widen_full : Prop := JoinSound SI.widen noGuard

/-- `widen({1}, {0}) = {1}` at 1 bit: the lower bound is extrapolated to the signed minimum (1 = -1). -/
theorem widen_unsound : ¬ C22_widen_full := by
  intro h
  have := h (SI.new 1 0 1 1) (SI.new 1 0 0 0) (SI.new 1 0 1 1) 0
    (by decide) (by decide) (by decide) trivial (by decide) (by decide)
  exact absurd this (by decide)

/-- even without extrapolating the lower bound: `widen({0}, 1[3,0]) = {0}` (raw bounds of a wrapping operand) -/
theorem widen_wrap_unsound :
    ¬ JoinSound SI.widen (fun a b => a.Aligned ∧ b.Aligned ∧ a.lb ≤ b.lb) := by
  intro h
  have := h (SI.new 2 0 0 0) (SI.new 2 1 3 0) (SI.new 2 0 0 0) 3
    (by decide) (by decide) (by decide) (by decide) (by decide) (by decide)
  exact absurd this (by decide)

/-- and without wrapping: `widen({0}, 2[1,3]) = 2[0,2]` (the offset between the lower bounds is ignored) -/
theorem widen_offset_unsound :
    ¬ JoinSound SI.widen (fun a b => a.Aligned ∧ b.Aligned ∧ a.lb ≤ b.lb ∧ a.lb ≤ a.ub ∧ b.lb ≤ b.ub) := by
  intro h
  have := h (SI.new 2 0 0 0) (SI.new 2 2 1 3) (SI.new 2 2 0 2) 1
    (by decide) (by decide) (by decide) (by decide) (by decide) (by decide)
  exact absurd this (by decide)

/-! ## intersection — false when an upper bound is not a member (finding C22-meet-unaligned) -/

def C22_meet_full : Prop := MeetSound SI.intersection noGuard

/-- `2[2,3]` and `3[2,0]` both are `{2}` at 2 bits; their intersection is computed as empty. -/
theorem meet_unaligned_unsound : ¬ C22_meet_full := by
  intro h
  have := h { bits := 2, stride := 2, lb := 2, ub := 3 } { bits := 2, stride := 3, lb := 2, ub := 0 } (SI.empty 2) 2
    (by decide) (by decide) (by decide) trivial (by decide) (by decide) (by decide)
  exact absurd this (by decide)

/-- aligned operands in the form the constructor returns (`renorm` is the identity: a full circle with stride 1 is
written `[0, 2^w - 1]` — the only form Python can hold) -/
def alignedNormal : SI → SI → Prop := fun a b => a.Aligned ∧ b.Aligned ∧ a.renorm = a ∧ b.renorm = b

/-- **`intersection` contains every common member of aligned operands**, for every width: the seven configurations of
`_multi_valued_intersection` (`Lemmas/VSA/MeetTop.lean`), `_minimal_common_integer` over the pieces of `_ssplit`
(`MeetMin.lean`) and `diop_natural_solution_linear` returning the least natural solution (`MeetDiop.lean`) -/
theorem C22_meet_aligned : MeetSound SI.intersection alignedNormal := by
  intro a b r x ha hb hbits hg hx hy h
  obtain ⟨hA, hB, nA, nB⟩ := hg
  exact (meet_sound a.bits a b r ⟨ha, rfl⟩ ⟨hb, hbits.symm⟩ hx.1 hy.1 hA hB nA nB h).2 x hx hy

/-- closure of `intersection` on such operands -/
theorem C22_meet_closed (a b r : SI) (ha : a.WF) (hb : b.WF) (hbits : a.bits = b.bits) (hab : a.bottom = false)
    (hbb : b.bottom = false) (hg : alignedNormal a b) (h : a.intersection b = .ok r) : r.WF ∧ r.bits = a.bits :=
  (meet_sound a.bits a b r ⟨ha, rfl⟩ ⟨hb, hbits.symm⟩ hab hbb hg.1 hg.2.1 hg.2.2.1 hg.2.2.2 h).1

/-- non-vacuity: two wrapping operands whose arcs overlap at both ends (two partial results, joined) -/
example : alignedNormal (SI.new 4 3 11 4) (SI.new 4 2 4 12) ∧ (SI.new 4 3 11 4).mem 14 ∧ (SI.new 4 2 4 12).mem 4 ∧
    (∃ r, (SI.new 4 3 11 4).intersection (SI.new 4 2 4 12) = .ok r ∧ r.mem 4 ∧ ¬ r.mem 14) := by
  refine ⟨by unfold alignedNormal; decide, by decide, by decide, ⟨_, rfl, by decide, by decide⟩⟩

/-- what the proof of the meet actually uses instead of alignment: **every wrapping operand splits into two pieces at the south
pole** (it has a member after the pole).  Alignment implies it; it is void for non-wrapping operands.  The only operands left
out are wrapping intervals whose upper bound is not a member AND that have no member after the pole (like `3[2,0]` in
`meet_unaligned_unsound`). -/
def splitsInTwo : SI → SI → Prop := fun a b =>
  (a.ub < a.lb → TwoPieces a) ∧ (b.ub < b.lb → TwoPieces b) ∧ a.renorm = a ∧ b.renorm = b

theorem C22_meet_two_pieces : MeetSound SI.intersection splitsInTwo := by
  intro a b r x ha hb hbits hg hx hy h
  obtain ⟨hA, hB, nA, nB⟩ := hg
  exact (meet_sound_tp a.bits a b r ⟨ha, rfl⟩ ⟨hb, hbits.symm⟩ hx.1 hy.1 hA hB nA nB h).2 x hx hy

/-- **`intersection` is sound on ALL non-wrapping operands**, aligned or not (constructor-normal form) -/
theorem C22_meet_nonwrapping :
    MeetSound SI.intersection (fun a b => a.lb ≤ a.ub ∧ b.lb ≤ b.ub ∧ a.renorm = a ∧ b.renorm = b) := by
  intro a b r x ha hb hbits hg hx hy h
  obtain ⟨hA, hB, nA, nB⟩ := hg
  exact (meet_sound_nowrap a.bits a b r ⟨ha, rfl⟩ ⟨hb, hbits.symm⟩ hx.1 hy.1 hA hB nA nB h).2 x hx hy

/-- non-vacuity: two UNALIGNED non-wrapping operands, `3[1,12]` = {1,4,7,10} and `4[2,13]` = {2,6,10}; common member 10 -/
example : let a : SI := { bits := 4, stride := 3, lb := 1, ub := 12 }
    let b : SI := { bits := 4, stride := 4, lb := 2, ub := 13 }
    ¬ a.Aligned ∧ ¬ b.Aligned ∧ a.renorm = a ∧ b.renorm = b ∧ a.mem 10 ∧ b.mem 10 ∧
    (∃ r, a.intersection b = .ok r ∧ r.mem 10) := by
  refine ⟨by decide, by decide, by decide, by decide, by decide, by decide, ⟨_, rfl, by decide⟩⟩

/-- the normal form is part of the guard: on the model a full circle written `1[5, 4]` (which the Python constructor
would rewrite to `[0, 15]`) makes `_is_surrounded` answer "top" while `_minimal_common_integer` still splits it at 5, and
the common member 2 is lost.  Not reachable through the constructor of the real class. -/
theorem meet_nonnormal_unsound : ¬ MeetSound SI.intersection bothAligned := by
  intro h
  have := h { bits := 4, stride := 3, lb := 2, ub := 11 } { bits := 4, stride := 1, lb := 5, ub := 4 }
    (SI.new 4 3 5 11) 2 (by decide) (by decide) (by decide) (by unfold bothAligned; decide) (by decide) (by decide) (by decide)
  exact absurd this (by decide)

/-! ## alignment (the upper bound is a member) under joins, meets and widening -/

/-- the joins keep alignment: `pseudo_join` (both settings), `least_upper_bound` (any arity), `union` -/
theorem C22_join_aligned (w : Nat) :
    (∀ (a b : SI) (smart : Bool), a.WF ∧ a.bits = w → b.WF ∧ b.bits = w → a.Aligned → b.Aligned →
      (pseudoJoin a b smart).Aligned) ∧
    (∀ (l : List SI) (r : SI), (∀ s, s ∈ l → (s.WF ∧ s.bits = w) ∧ s.Aligned) → leastUpperBound l = .ok r → r.Aligned) ∧
    (∀ (a b r : SI), a.WF ∧ a.bits = w → b.WF ∧ b.bits = w → a.Aligned → b.Aligned → a.union b = .ok r → r.Aligned) :=
  ⟨fun a b smart ha hb ala alb => pseudoJoin_aligned a b smart ha.1 hb.1 (by rw [ha.2, hb.2]) ala alb,
   fun l r hP h => lub_aligned w l r hP h,
   fun a b r ha hb ala alb h => union_aligned w a b r ha hb ala alb h⟩

/-- every partial result of `_multi_valued_intersection` is aligned WHATEVER the operands are (it ends at the last multiple
of the new stride), so `intersection` never hands an unaligned interval on -/
theorem C22_meet_result_aligned (w : Nat) (a b : SI) (ha : a.WF ∧ a.bits = w) (hb : b.WF ∧ b.bits = w)
    (hab : a.bottom = false) (hbb : b.bottom = false) :
    (∀ l, a.multiMeet b = .ok l → ∀ r, r ∈ l → r.Aligned) ∧
    (alignedNormal a b → ∀ r, a.intersection b = .ok r → r.Aligned) :=
  ⟨fun l h => multiMeet_aligned w a b ha hb hab hbb l h,
   fun hg r h => meet_aligned w a b r ha hb hab hbb hg.1 hg.2.1 hg.2.2.1 hg.2.2.2 h⟩

/-- full statement for `widen` -/
def C22_widen_keeps_aligned : Prop :=
  ∀ (a b r : SI), a.WF → b.WF → a.bits = b.bits → a.Aligned → b.Aligned → a.widen b = .ok r → r.Aligned

/-- `widen` is the one interval operation that turns aligned operands into an unaligned result: `widen(3[1,0], {0}) = 3[2,0]`
at 2 bits (`3[1,0]` is `{1,0}`; the result's upper bound 0 is at distance 2 from 2).  On the real code every such instance found
(widths ≤ 4) is at the same time an instance of the open `C22/widen/unsound/…` findings. -/
theorem widen_breaks_alignment : ¬ C22_widen_keeps_aligned := by
  intro h
  have := h (SI.new 2 3 1 0) (SI.new 2 0 0 0) { bits := 2, stride := 3, lb := 2, ub := 0 }
    (by decide) (by decide) (by decide) (by decide) (by decide) (by decide)
  exact absurd this (by decide)

/-- non-vacuity: joins of aligned wrapping operands -/
example : (SI.new 4 3 14 4).Aligned ∧ (SI.new 4 2 5 9).Aligned ∧
    (∃ r, SI.union (SI.new 4 3 14 4) (SI.new 4 2 5 9) = .ok r ∧ r.Aligned) ∧
    (∃ r, leastUpperBound [SI.new 4 3 14 4, SI.new 4 2 5 9, SI.new 4 0 11 11] = .ok r ∧ r.Aligned) := by
  refine ⟨by decide, by decide, ⟨_, rfl, by decide⟩, ⟨_, rfl, by decide⟩⟩

/-! ## max — wrong when the upper bound is not a member (finding C22-max-unaligned, D20) -/

/-- `max` returns the greatest member (unsigned) -/
def C22_max_full : Prop :=
  ∀ (a : SI) (v : Int), a.WF → a.max false = .ok (some v) → (∃ x : Nat, v = x ∧ a.mem x) ∧ ∀ y, a.mem y → (y : Int) ≤ v

/-- `max(2[0,1]) = 1`, which is not a member (`2[0,1]` is `{0}`). -/
theorem max_unaligned_wrong : ¬ C22_max_full := by
  intro h
  have := (h { bits := 2, stride := 2, lb := 0, ub := 1 } 1 (by decide) (by decide)).1
  obtain ⟨x, hx, hm⟩ := this
  have : x = 1 := by omega
  subst this
  exact absurd hm (by decide)

/-! ## bounded tests (not theorems) -/

theorem test_join_example : pseudoJoin (SI.new 8 0 3 3) (SI.new 8 0 9 9) = SI.new 8 6 3 9 := by decide

end Claripy.Props.C22
