import ClaripyProofs.Lemmas.VSA.Balancer
import ClaripyProofs.Lemmas.VSA.BalancerUnsat
import ClaripyProofs.Lemmas.VSA.BalancerUnsatSigned
import ClaripyProofs.Lemmas.VSA.BalancerNoLit
import ClaripyProofs.Lemmas.VSA.BalancerSignedArms
import ClaripyProofs.Lemmas.VSA.BalancerSignedLoop
/-!
# C25 — constraint_to_si never cuts off a satisfying assignment

What is proved (all widths): the arithmetic the balancer relies on, in the shape the design calls for — *pre-images of
wrapped intervals*.  A recorded (lower, upper) pair denotes `W[lo, hi]`; `C25_preimage_add` (rotation) and
`C25_pair_exact` show that the pair produced for `x ± c OP d` from the truism and its implicit assumption is exactly the
set of satisfying `x`; `C25_lone_bound_not_a_preimage` shows that one of the two bounds alone is not a consequence — the
root cause of the remaining open finding (a partner assumption is missing when the addition sits under an
Extract/ZeroExt/Concat/shift/mask/If).  For the arms that drop bits (Extract(k,0,·), left shift) the repaired code keeps
exactly the comparison operators for which the arm is a consequence (`C25_extract_uge`, `C25_extract_ne`, `C25_shl_uge`);
the negations with witnesses show why `==`, `≤`, `<` had to go.

Second part (below, "the model of the AST rewriting"): `Claripy/VSA/BalancerModel.lean` transcribes `Balancer._doit` on one
comparison (alignment, the arms of `_balance`, `_get_assumptions`, the work list, the handlers) and is tied to the real
`constraint_to_si` by exact correspondence (harness/props/C25.py).  Proved for ALL widths, ASTs and annotations:
every arm other than `+` / `-` keeps "the truism holds" (`C25_step_holds`), `+` / `-` rotate the truism (`C25_add_rot`,
`C25_sub_rot`), the alignment keeps the value (`C25_align_sound`), the loop keeps both (`C25_balance_holds`,
`C25_balance_rot`), the handlers turn a truism that holds into plain bounds (`C25_handle_sound`), and the composite
`C25_balancer_sound`: the bounds `_doit` records contain the value of their expression under every satisfying assignment
— for unsigned orderings on whose two paths (truism, implicit assumption) no constant is moved across `+` / `-`, and for
`==` / `!=` on every path; and `C25_pair_sound`: when both paths ONLY move constants across `+` / `-` and end at the same
expression, the two recorded bounds form a wrapped interval that contains the value (all four unsigned orderings;
`C25_balancer_sound_pair` is the same at the level of `_doit`); `C25_unsat_sound`: "unsatisfiable" is only reported for an
unsigned ordering that no assignment satisfies.  The guard is needed: `C25_mixed_path_cuts_off_model` is a concrete constraint (`ZeroExt(4, x) + 3 <= 5`)
where the model — and the real code — bound `ZeroExt(4, x)` by the empty set although `x = 0` satisfies it (open finding).
-/
namespace Claripy.Props.C25
open Claripy.VSA

theorem C25_preimage_add (m lo hi x c : Nat) (hlo : lo < m) (hhi : hi < m) (hx : x < m) (hc : c < m) :
    Win m lo hi ((x + c) % m) ↔ Win m ((lo + m - c) % m) ((hi + m - c) % m) x :=
  Win_preimage_add m lo hi x c hlo hhi hx hc

theorem C25_pair_exact (w : Nat) (op : UCmp) (x c d : Nat) (hx : x < 2 ^ w) (hc : c < 2 ^ w) (hd : d < 2 ^ w) :
    match balAddPair w op c d with
    | some (lo, hi) => (ucmpHolds op ((x + c) % 2 ^ w) d ↔ Win (2 ^ w) lo hi x)
    | none => ¬ ucmpHolds op ((x + c) % 2 ^ w) d :=
  balAddPair_exact w op x c d hx hc hd

theorem C25_lone_bound_not_a_preimage :
    ¬ ∀ (x c d : Nat), x < 16 → c < 16 → d < 16 → d ≤ (x + c) % 16 → (d + 16 - c) % 16 ≤ x :=
  lone_bound_not_a_preimage

theorem C25_extract_uge (x k c : Nat) (h : c ≤ x % 2 ^ k) : c ≤ x := extract_uge_pre x k c h
theorem C25_extract_ne (x k c : Nat) (hc : c < 2 ^ k) (h : x % 2 ^ k ≠ c) : x ≠ c := extract_ne_pre x k c hc h
theorem C25_extract_eq_not_pre : ¬ ∀ x : Nat, x < 8 → x % 4 = 2 → x = 2 := extract_eq_not_pre
theorem C25_extract_ule_not_pre : ¬ ∀ x : Nat, x < 32 → x % 16 ≤ 15 → x ≤ 15 := extract_ule_not_pre
theorem C25_shl_uge (m x n c : Nat) (h : c * 2 ^ n ≤ (x * 2 ^ n) % m) : c ≤ x := shl_uge_pre m x n c h
theorem C25_shl_ule_not_pre : ¬ ∀ y : Nat, y < 8 → (y * 2) % 8 ≤ 0 → y ≤ 0 := shl_ule_not_pre
theorem C25_combine_bounds (x l1 u1 l2 u2 : Nat) (h1 : l1 ≤ x ∧ x ≤ u1) (h2 : l2 ≤ x ∧ x ≤ u2) :
    Nat.max l1 l2 ≤ x ∧ x ≤ Nat.min u1 u2 := combine_bounds x l1 u1 l2 u2 h1 h2

/-- non-vacuity of the pair theorem: `x + 1 ≤ 5` at 8 bits is `W[255, 4]` -/
theorem test_pair_example : balAddPair 8 .ule 1 5 = some (255, 4) ∧ Win 256 255 4 255 ∧ Win 256 255 4 3 ∧ ¬ Win 256 255 4 5 := by
  decide


/-! ## the model of `Balancer._doit` -/
open Claripy.VSA.Bal

set_option linter.unusedSectionVars false
section
variable (anno : Nat → SI) (env : Nat → Nat) (hctx : ∀ i, (anno i).WF ∧ (anno i).mem (env i)) (hnrm : ∀ i, Nrm (anno i))
include hctx hnrm

/-- `_align_truism`: operator and other side unchanged, the left side keeps its value (and stays well typed) -/
theorem C25_align_sound (t ta : Tru) (hok : TruOK anno env t) (h : alignTru anno t = .ok ta) :
    ta.op = t.op ∧ ta.r = t.r ∧ ta.w = t.w ∧ evalBV env ta.lhs = evalBV env t.lhs ∧ TruOK anno env ta :=
  let ⟨h1, h2, h3, h4, h5, _⟩ := alignTru_spec anno env t ta hok h
  ⟨h1, h2, h3, h4, h5⟩

/-- **per-step soundness**: one arm of `_balance` (`ZeroExt`, `SignExt`, `Extract`, `Concat`, `__and__`, `__lshift__`; `+` / `-`
for `==` and `!=`) turns a truism that holds into one that holds — unsigned orderings, `==`, `!=`, every width -/
theorem C25_step_holds (ta t' : Tru) (hok : TruOK anno env ta) (hconv : ∃ p, convBV anno ta.lhs [] = .ok p)
    (hop : unsOp ta.op = true) (hh : ta.holds env) (h : balStep anno ta = .ok t') (hs : symBV t'.lhs = true)
    (hallow : isModLhs ta.lhs = true → (ta.op = .eq ∨ ta.op = .ne)) : TruOK anno env t' ∧ t'.op = ta.op ∧ t'.holds env :=
  balStep_holds anno env hctx hnrm ta t' hok hconv hop hh h hs (by
    by_cases hm : isModLhs ta.lhs = true
    · rw [if_pos hm]; exact hallow hm
    · rw [if_neg hm]; trivial)

/-- `_balance_add`: nothing happens, or the truism is rotated by the constant (`value(lhs) = value(lhs') + c`, `r' = r - c`) -/
theorem C25_add_rot (t t' : Tru) (a b : BV) (hl : t.lhs = .bin .add a b) (hok : TruOK anno env t)
    (hconv : ∃ p, convBV anno t.lhs [] = .ok p) (h : balAdd t a b = .ok t') (hs : symBV t'.lhs = true) :
    t' = t ∨ (TruOK anno env t' ∧ Rot env t t') :=
  (balAdd_rot anno env hctx hnrm t t' a b hl hok hconv h hs).imp_right fun ⟨h1, h2, _⟩ => ⟨h1, h2⟩

theorem C25_sub_rot (t t' : Tru) (a b : BV) (hl : t.lhs = .bin .sub a b) (hok : TruOK anno env t)
    (hconv : ∃ p, convBV anno t.lhs [] = .ok p) (h : balSub t a b = .ok t') (hs : symBV t'.lhs = true) :
    t' = t ∨ (TruOK anno env t' ∧ Rot env t t') :=
  (balSub_rot anno env hctx hnrm t t' a b hl hok hconv h hs).imp_right fun ⟨h1, h2, _⟩ => ⟨h1, h2⟩

/-- the loop `_balance` keeps "the truism holds" when no constant is moved across `+` / `-` (always for `==`, `!=`) -/
theorem C25_balance_holds (t : Tru) (out : BalOut) (hok : TruOK anno env t) (hop : unsOp t.op = true) (hh : t.holds env)
    (h : balance1 anno t = .ok out) (hs : symBV out.t.lhs = true)
    (hcov : out.usedMod = true → (t.op = .eq ∨ t.op = .ne)) :
    TruOK anno env out.t ∧ out.t.op = t.op ∧ out.t.holds env :=
  balance1_holds anno env hctx hnrm t out hok hop hh h hs hcov

/-- the loop `_balance` that only moves constants across `+` / `-` rotates the truism -/
theorem C25_balance_rot (t : Tru) (out : BalOut) (hok : TruOK anno env t)
    (hrange : ∀ v, evalBV env t.lhs = some v → v < 2 ^ t.w)
    (h : balance1 anno t = .ok out) (hs : symBV out.t.lhs = true) (hcov : out.usedPt = false) :
    TruOK anno env out.t ∧ Rot env t out.t :=
  let ⟨h1, h2, _⟩ := balance1_rot anno env hctx hnrm t out hok hrange h hs hcov
  ⟨h1, h2⟩

/-- `_handle` (`_handle_eq`, `_handle_ne`, `_handle_comparison`): a truism that holds yields bounds that hold -/
theorem C25_handle_sound (t : Tru) (bs bs' : Bounds) (hok : TruOK anno env t) (hop : unsOp t.op = true) (hh : t.holds env)
    (hps : PSound env bs) (h : handle anno t bs = .ok bs') : PSound env bs' :=
  handle_pt anno env hctx hnrm t bs bs' hok hop hh hps h

/-- **composite**: if the model of `_doit` returns the bounds `bs` for the comparison `a op b` and the assignment satisfies
it, every recorded pair contains the value of its expression (as the wrapped interval `_replacements_iter` builds from
it) — for unsigned orderings on whose two balancing paths no constant is moved across `+` / `-`, and for `==` / `!=` on
every path (`CoveredPt`) -/
theorem C25_balancer_sound (op : CmpOp) (a b : BV) (bs : Bounds) (info : PathInfo)
    (hoa : ExprOK anno env a) (hob : ExprOK anno env b) (hwab : wd a = wd b) (hop : unsOp op = true)
    (hsym : ∀ r w, b = .const r w → symBV a = true)
    (h : doit anno (.cmp op a b) = .ok (.sat bs info)) (hcov : CoveredPt op info)
    (hsat : evalB env (.cmp op a b) = some true) : Sound env bs :=
  psound_sound env bs (doit_pt anno env hctx hnrm op a b bs info hoa hob hwab hop hsym h hcov hsat)

/-- **the pair**: a truism `T0` whose left side is a sum / difference and its implicit assumption `A0`, both balanced only
across `+` / `-` down to the same expression (exactly what `_doit` does with the two: `processTru`), record a lower and an
upper bound that — read as the wrapped interval `_replacements_iter` builds — contain the value under every assignment
satisfying `T0`.  This is the case in which each bound alone is NOT a consequence (`C25_lone_bound_not_a_preimage`). -/
theorem C25_pair_sound (T0 A0 : Tru) (p1 p2 : Bounds × BalOut) (hokT : TruOK anno env T0) (hop : uOrd T0.op)
    (hmod : isModLhs T0.lhs = true) (hconv : ∃ o p, convBV anno T0.lhs o = .ok p) (hhT : T0.holds env)
    (hA : assumption T0 = some (.tru A0)) (h1 : processTru anno T0 [] = .ok p1) (h2 : processTru anno A0 p1.1 = .ok p2)
    (hptT : p1.2.usedPt = false) (hptA : p2.2.usedPt = false) (hsame : p1.2.t.lhs = p2.2.t.lhs) : Sound env p2.1 := by
  unfold processTru at h1 h2
  obtain ⟨oT, hbT, h1⟩ := bindM_ok h1
  obtain ⟨bs1, hh1, h1⟩ := bindM_ok h1
  have := pureM_ok h1; subst this
  obtain ⟨oA, hbA, h2⟩ := bindM_ok h2
  obtain ⟨bs2, hh2, h2⟩ := bindM_ok h2
  have := pureM_ok h2; subst this
  exact pair_sound anno env hctx hnrm T0 A0 oT oA bs1 bs2 hokT hop hmod hconv hhT hA hbT hbA hptT hptA hsame hh1 hh2

/-- the pair theorem at the level of `_doit`: an unsigned ordering of a sum / difference against a literal (either order);
both paths only across `+` / `-`, same final expression -/
theorem C25_balancer_sound_pair (op : CmpOp) (a b : BV) (bs : Bounds) (oT oA : BalOut) (hoa : ExprOK anno env a)
    (hob : ExprOK anno env b) (hwab : wd a = wd b) (hord : uOrd op) (hsym : ∀ r w, b = .const r w → symBV a = true)
    (hma : ∀ r w, b = .const r w → isModLhs a = true) (hmb : ∀ r w, a = .const r w → isModLhs b = true)
    (h : doit anno (.cmp op a b) = .ok (.sat bs ⟨some oT, some oA⟩))
    (hptT : oT.usedPt = false) (hptA : oA.usedPt = false) (hsame : oT.t.lhs = oA.t.lhs)
    (hsat : evalB env (.cmp op a b) = some true) : Sound env bs :=
  doit_pair anno env hctx hnrm op a b bs oT oA hoa hob hwab hord hsym hma hmb h hptT hptA hsame hsat

/-- **the satisfiable flag**: when the model of `_doit` reports an unsigned ordering as unsatisfiable (the `is_false` test on
the truism, or on its implicit assumption), no assignment satisfies it -/
theorem C25_unsat_sound (op : CmpOp) (a b : BV) (hoa : ExprOK anno env a) (hob : ExprOK anno env b) (hwab : wd a = wd b)
    (hord : uOrd op) (hsym : ∀ r w, b = .const r w → symBV a = true)
    (h : doit anno (.cmp op a b) = .ok .unsat) : evalB env (.cmp op a b) ≠ some true :=
  doit_unsat_sound anno env hctx hnrm op a b hoa hob hwab hord hsym h

/-! ### signed orderings (`SLT`, `SLE`, `SGT`, `SGE`)

`_handle_comparison` records SIGNED integers for them (signed minimum / maximum of the left side, the signed value of the
literal), `_replacements_iter` reduces them modulo `2^w`.  A lone signed bound is read with the unsigned default of the other
side (`x <s 5` alone: `[0, 4]`), so the bound of the truism is only sound TOGETHER with the bound of its implicit assumption
(`x >=s int_min`: lower bound `int_min`, i.e. `2^(w-1)`): the pair is the wrapped interval `[2^(w-1), 4]`. -/

/-- what `_handle_comparison` records for a signed ordering: the signed extremes of the left side and the signed value of
the literal (`cmpResS`) -/
theorem C25_handle_signed_char (t : Tru) (bs bs' : Bounds) (hok : TruOK anno env t) (hop : sOrd t.op)
    (h : handleCmp anno t bs = .ok bs') :
    ∃ pl lmin lmax, convBV anno t.lhs [] = .ok pl ∧ siMin pl.1.si true = .ok lmin ∧ siMax pl.1.si true = .ok lmax ∧
      bs' = cmpResS t bs lmin lmax :=
  handleCmp_char_s anno env hctx hnrm t bs bs' hok hop h

/-- **the signed pair**: a signed truism `T0` and its implicit assumption `A0`, both balanced only across `+` / `-` (or not
changed at all) down to the same expression — exactly what `_doit` does with the two (`processTru`) — record a lower and an
upper bound that, read as the wrapped interval `_replacements_iter` builds, contain the value under every assignment
satisfying `T0` -/
theorem C25_pair_sound_signed (T0 A0 : Tru) (p1 p2 : Bounds × BalOut) (hokT : TruOK anno env T0) (hop : sOrd T0.op)
    (hconv : ∃ o p, convBV anno T0.lhs o = .ok p) (hhT : T0.holds env)
    (hA : assumption T0 = some (.tru A0)) (h1 : processTru anno T0 [] = .ok p1) (h2 : processTru anno A0 p1.1 = .ok p2)
    (hptT : p1.2.usedPt = false) (hptA : p2.2.usedPt = false) (hsame : p1.2.t.lhs = p2.2.t.lhs) : Sound env p2.1 := by
  unfold processTru at h1 h2
  obtain ⟨oT, hbT, h1⟩ := bindM_ok h1
  obtain ⟨bs1, hh1, h1⟩ := bindM_ok h1
  have := pureM_ok h1; subst this
  obtain ⟨oA, hbA, h2⟩ := bindM_ok h2
  obtain ⟨bs2, hh2, h2⟩ := bindM_ok h2
  have := pureM_ok h2; subst this
  exact pair_sound_s anno env hctx hnrm T0 A0 oT oA bs1 bs2 hokT hop hconv hhT hA hbT hbA hptT hptA hsame hh1 hh2

/-- **composite, signed orderings**: if the model of `_doit` returns the bounds `bs` for `a OP b` (`SLT`, `SLE`, `SGT`, `SGE`,
either side the literal) and the assignment satisfies the comparison, every recorded pair contains the value of its
expression — when neither the truism nor its implicit assumption goes through an arm other than `+` / `-` and both end at
the same expression (88 % of the signed inputs of the correspondence: 1440 of 1749 at seed 0) -/
theorem C25_balancer_sound_signed (op : CmpOp) (a b : BV) (bs : Bounds) (info : PathInfo) (oT oA : BalOut)
    (hoa : ExprOK anno env a) (hob : ExprOK anno env b) (hwab : wd a = wd b) (hord : sOrd op)
    (hsym : ∀ r w, b = .const r w → symBV a = true)
    (h : doit anno (.cmp op a b) = .ok (.sat bs info)) (hmain : info.main = some oT) (hassum : info.assum = some oA)
    (hptT : oT.usedPt = false) (hptA : oA.usedPt = false) (hsame : oT.t.lhs = oA.t.lhs)
    (hsat : evalB env (.cmp op a b) = some true) : Sound env bs :=
  doit_pair_s anno env hctx hnrm op a b bs info oT oA hoa hob hwab hord hsym h hmain hassum hptT hptA hsame hsat

/-- **the satisfiable flag, signed orderings** -/
theorem C25_unsat_sound_signed (op : CmpOp) (a b : BV) (hoa : ExprOK anno env a) (hob : ExprOK anno env b) (hwab : wd a = wd b)
    (hord : sOrd op) (hsym : ∀ r w, b = .const r w → symBV a = true)
    (h : doit anno (.cmp op a b) = .ok .unsat) : evalB env (.cmp op a b) ≠ some true :=
  doit_unsat_sound_s anno env hctx hnrm op a b hoa hob hwab hord hsym h

/-- **the satisfiable flag, `==` / `!=`** — proved when the abstract values of the two sides are aligned (the guard of the
abstract equality in C24); the full statement is `C25_unsat_sound_eqne_full` below -/
theorem C25_unsat_sound_eqne_partial (op : CmpOp) (a b : BV) (hoa : ExprOK anno env a) (hob : ExprOK anno env b)
    (hwab : wd a = wd b) (hop : op = .eq ∨ op = .ne)
    (hal2 : ∀ p1 p2, convBV anno a [] = .ok p1 → convBV anno b p1.2 = .ok p2 → p1.1.si.Aligned ∧ p2.1.si.Aligned)
    (h : doit anno (.cmp op a b) = .ok .unsat) : evalB env (.cmp op a b) ≠ some true :=
  doit_unsat_sound_eqne anno env hctx hnrm op a b hoa hob hwab hop hal2 h

/-! ### the arms on signed orderings

`_balance_add` / `_balance_sub` (rotation, covered by the pair theorem above), `_balance_zeroext`, `_balance_signext`,
`_balance_concat`, `_balance_and`, the scaling branch of `_balance_extract` and `_balance_lshift` with a shift by 0 accept the
signed operators.  `_balance_zeroext` / `_balance_concat` are not meaning-preserving for them (witness below); what they keep
is the UNSIGNED reading of the truism, and that is enough for the lone bound recorded afterwards. -/

/-- `_balance_zeroext` on a signed ordering (`k ≥ 1` extension bits): unchanged, or the UNSIGNED reading of the new truism
holds — whether the old truism held in its signed or in its unsigned reading -/
theorem C25_step_signed_zext (t : Tru) (k : Nat) (e : BV) (hl : t.lhs = .zext k e) (hk : 0 < k) (hok : TruOK anno env t)
    (hop : sOrd t.op) (hconv : ∃ p, convBV anno t.lhs [] = .ok p) (hh : t.holds env ∨ t.holdsU env)
    (hs : symBV (balZext t k e).lhs = true) :
    balZext t k e = t ∨ (TruOK anno env (balZext t k e) ∧ (balZext t k e).op = t.op ∧ (balZext t k e).holdsU env) :=
  balZext_s anno env hctx hnrm t k e hl hk hok hop hconv hh hs

/-- `_balance_concat` (known-zero high part) on a signed ordering: the same -/
theorem C25_step_signed_concat (t t' : Tru) (a b : BV) (hl : t.lhs = .concat a b) (hok : TruOK anno env t) (hop : sOrd t.op)
    (hconv : ∃ p, convBV anno t.lhs [] = .ok p) (hh : t.holds env ∨ t.holdsU env)
    (h : balConcat anno t a b = .ok t') (hs : symBV t'.lhs = true) :
    t' = t ∨ (TruOK anno env t' ∧ t'.op = t.op ∧ t'.holdsU env) :=
  balConcat_s anno env hctx hnrm t t' a b hl hok hop hconv hh h hs

/-- **`_handle_comparison` on a signed ordering whose UNSIGNED reading holds**: the lone signed bound it records, reduced
modulo `2^w` and read with the unsigned default of the other side, contains the value -/
theorem C25_handle_sound_signed_unsigned_reading (t : Tru) (bs' : Bounds) (hok : TruOK anno env t) (hop : sOrd t.op)
    (hh : t.holdsU env) (h : handleCmp anno t [] = .ok bs') : Sound env bs' :=
  handleCmp_U_lone anno env hctx hnrm t bs' hok hop hh h

/-! ### the other arms on signed orderings, the dispatch and the loop (round 5)

`_balance_signext` behaves like `_balance_zeroext`: NOT meaning-preserving in the signed reading
(`C25_sext_signed_not_meaning_preserving`), the unsigned reading of the new truism holds.  `_balance_and`, the scaling branch of
`_balance_extract` (the only branch open to a signed operator) and `__lshift__` by 0 keep BOTH readings. -/

/-- `_balance_signext` on a signed ordering (`k ≥ 1` extension bits): unchanged, or the UNSIGNED reading of the new truism
holds — whether the old truism held in its signed or in its unsigned reading -/
theorem C25_step_signed_sext (t t' : Tru) (k : Nat) (e : BV) (hl : t.lhs = .sext k e) (hk : 0 < k) (hok : TruOK anno env t)
    (hop : sOrd t.op) (hh : t.holds env ∨ t.holdsU env) (h : balSext anno t k e = .ok t') (hs : symBV t'.lhs = true) :
    t' = t ∨ (TruOK anno env t' ∧ t'.op = t.op ∧ t'.holdsU env) :=
  balSext_s anno env hctx hnrm t t' k e hl hk hok hop hh h hs

/-- `_balance_and` on any operator: each reading of the truism survives -/
theorem C25_step_signed_and (t : Tru) (a b : BV) (hl : t.lhs = .bin .and a b) (hok : TruOK anno env t)
    (hconv : ∃ p, convBV anno t.lhs [] = .ok p) (hs : symBV (balAnd t a b).lhs = true) :
    TruOK anno env (balAnd t a b) ∧ (balAnd t a b).op = t.op ∧ (t.holds env → (balAnd t a b).holds env) ∧
      (t.holdsU env → (balAnd t a b).holdsU env) :=
  balAnd_s anno env hctx hnrm t a b hl hok hconv hs

/-- `_balance_extract` on a signed ordering: unchanged, or the scaling branch — each reading of the truism survives -/
theorem C25_step_signed_extract (t t' : Tru) (hi lo : Nat) (e : BV) (hl : t.lhs = .extract hi lo e) (hok : TruOK anno env t)
    (hop : sOrd t.op) (hconv : ∃ p, convBV anno t.lhs [] = .ok p)
    (h : balExtract anno t hi lo e = .ok t') (hs : symBV t'.lhs = true) :
    t' = t ∨ (TruOK anno env t' ∧ t'.op = t.op ∧ (t.holds env → t'.holds env) ∧ (t.holdsU env → t'.holdsU env)) :=
  balExtract_s anno env hctx hnrm t t' hi lo e hl hok hop hconv h hs

/-- `_balance_lshift` on a signed ordering: unchanged, or a shift by 0 removed — each reading of the truism survives -/
theorem C25_step_signed_shl (t t' : Tru) (e amt : BV) (hl : t.lhs = .bin .shl e amt) (hok : TruOK anno env t)
    (hop : sOrd t.op) (hconv : ∃ p, convBV anno t.lhs [] = .ok p)
    (h : balShl anno t e amt = .ok t') (hs : symBV t'.lhs = true) :
    t' = t ∨ (TruOK anno env t' ∧ t'.op = t.op ∧ (t.holds env → t'.holds env) ∧ (t.holdsU env → t'.holdsU env)) :=
  balShl_s anno env hctx hnrm t t' e amt hl hok hop hconv h hs

/-- **per-step soundness, signed orderings** (every arm other than `+` / `-`, every width, also the degenerate
`ZeroExt(0, ·)` / `SignExt(0, ·)`): a truism that holds in its signed or in its unsigned reading is turned into one that holds
in one of the two; the unsigned reading is kept by every arm; the signed reading is kept by every arm that does not drop
extension bits -/
theorem C25_step_holds_signed (ta t' : Tru) (hok : TruOK anno env ta) (hconv : ∃ p, convBV anno ta.lhs [] = .ok p)
    (hop : sOrd ta.op) (hnm : isModLhs ta.lhs = false) (hh : ta.holds env ∨ ta.holdsU env)
    (h : balStep anno ta = .ok t') (hs : symBV t'.lhs = true) :
    TruOK anno env t' ∧ t'.op = ta.op ∧ (t'.holds env ∨ t'.holdsU env) ∧ (ta.holdsU env → t'.holdsU env) ∧
      (isWidthLhs ta.lhs = false → ta.holds env → t'.holds env) :=
  balStep_s anno env hctx hnrm ta t' hok hconv hop hnm hh h hs

/-- **the loop `_balance` on a signed ordering** when no constant is moved across `+` / `-`: a truism that holds (signed
reading, or the unsigned reading left by an earlier arm) ends as one that holds in the reading that survives -/
theorem C25_balance_holds_signed (t : Tru) (out : BalOut) (hok : TruOK anno env t) (hop : sOrd t.op)
    (hh : t.holds env ∨ t.holdsU env) (h : balance1 anno t = .ok out) (hs : symBV out.t.lhs = true)
    (hcov : out.usedMod = false) :
    TruOK anno env out.t ∧ out.t.op = t.op ∧ (out.t.holds env ∨ out.t.holdsU env) :=
  balance1_holds_s anno env hctx hnrm t out hok hop hh h hs hcov

/-- the same loop keeps the UNSIGNED reading of a signed truism -/
theorem C25_balance_holds_signed_unsigned_reading (t : Tru) (out : BalOut) (hok : TruOK anno env t) (hop : sOrd t.op)
    (hh : t.holdsU env) (h : balance1 anno t = .ok out) (hs : symBV out.t.lhs = true) (hcov : out.usedMod = false) :
    TruOK anno env out.t ∧ out.t.op = t.op ∧ out.t.holdsU env :=
  balance1_holdsU_s anno env hctx hnrm t out hok hop hh h hs hcov

/-- **balance + handle of a signed truism whose UNSIGNED reading holds** (`processTru`, no constant moved across `+` / `-`,
any other arms on the way): the lone bound recorded for the final expression contains the value -/
theorem C25_process_sound_signed_unsigned_reading (t : Tru) (res : Bounds × BalOut) (hok : TruOK anno env t) (hop : sOrd t.op)
    (hh : t.holdsU env) (h : processTru anno t [] = .ok res) (hcov : res.2.usedMod = false) : Sound env res.1 :=
  processTru_U_lone anno env hctx hnrm t res hok hop hh h hcov

/-- **composite for one signed path through the arms, PARTIAL**: `processTru` (balance + handle) of a signed truism that
holds — in its signed reading, as the truism and its implicit assumption do at the start, or in the unsigned reading — with no
constant moved across `+` / `-` and any of `ZeroExt` / `SignExt` / `Concat` / `__and__` / `Extract` / `__lshift__` on the way:
the final truism holds in one of the two readings, and when that is the UNSIGNED one the lone bound recorded for the final
expression contains the value.  MISSING for the full `C25_balancer_sound_signed_full`: (a) a path that ends in the SIGNED
reading after an arm (`__and__`, `Extract`, shift by 0 only) needs the bound of the partner path on the same expression — the
pair argument of `C25_pair_sound_signed` is proved only for paths without such arms; (b) a path that STOPS at a
`ZeroExt` / `SignExt` / `Concat` node (typically the implicit assumption `ZeroExt(k, e) >=s int_min`, whose high bits are not
zero) leaves a lone bound in the signed reading, sound only if the signed minimum of the abstract value is not negative — a
precision fact about the abstract extension that C24 does not provide. -/
theorem C25_balancer_sound_signed_arms_partial (t : Tru) (res : Bounds × BalOut) (hok : TruOK anno env t) (hop : sOrd t.op)
    (hh : t.holds env ∨ t.holdsU env) (h : processTru anno t [] = .ok res) (hcov : res.2.usedMod = false) :
    (symBV res.2.t.lhs = true → res.2.t.holds env ∨ res.2.t.holdsU env) ∧ (res.2.t.holdsU env → Sound env res.1) :=
  processTru_s_arms anno env hctx hnrm t res hok hop hh h hcov

/-! ### without the hypothesis on the side facing a literal

`hsym` above says: when `b` is a literal, `a` has a symbolic leaf.  The other case (two sides without a symbolic leaf, both of
cardinality 1 from the concrete backend) is handled by the model as well: `_balance` never reaches a symbolic expression and
`_handle` returns at cardinality 1, so nothing is recorded (`doit_nosym_nil`).  Inputs whose other side is neither a literal
nor multi-valued make the model answer `unmodelled`, so `doit … = .ok …` excludes them. -/

omit hctx hnrm in
theorem sound_nil : Sound env [] := by intro e lo hi h; cases h

theorem C25_balancer_sound_nolit (op : CmpOp) (a b : BV) (bs : Bounds) (info : PathInfo)
    (hoa : ExprOK anno env a) (hob : ExprOK anno env b) (hwab : wd a = wd b) (hop : unsOp op = true)
    (h : doit anno (.cmp op a b) = .ok (.sat bs info)) (hcov : CoveredPt op info)
    (hsat : evalB env (.cmp op a b) = some true) : Sound env bs := by
  by_cases hsym : ∀ r w, b = .const r w → symBV a = true
  · exact C25_balancer_sound anno env hctx hnrm op a b bs info hoa hob hwab hop hsym h hcov hsat
  · have : ∃ r w, b = .const r w ∧ symBV a = false := by
      by_contra hc
      apply hsym
      intro r w hb
      by_contra hs
      exact hc ⟨r, w, hb, by simpa using hs⟩
    obtain ⟨r, w, hb, hs⟩ := this
    rw [doit_nosym_nil anno op a b bs info hs (by rw [hb]; rfl) h]
    exact sound_nil env

theorem C25_balancer_sound_pair_nolit (op : CmpOp) (a b : BV) (bs : Bounds) (oT oA : BalOut) (hoa : ExprOK anno env a)
    (hob : ExprOK anno env b) (hwab : wd a = wd b) (hord : uOrd op)
    (hma : ∀ r w, b = .const r w → isModLhs a = true) (hmb : ∀ r w, a = .const r w → isModLhs b = true)
    (h : doit anno (.cmp op a b) = .ok (.sat bs ⟨some oT, some oA⟩))
    (hptT : oT.usedPt = false) (hptA : oA.usedPt = false) (hsame : oT.t.lhs = oA.t.lhs)
    (hsat : evalB env (.cmp op a b) = some true) : Sound env bs := by
  by_cases hsym : ∀ r w, b = .const r w → symBV a = true
  · exact C25_balancer_sound_pair anno env hctx hnrm op a b bs oT oA hoa hob hwab hord hsym hma hmb h hptT hptA hsame hsat
  · have : ∃ r w, b = .const r w ∧ symBV a = false := by
      by_contra hc
      apply hsym
      intro r w hb
      by_contra hs
      exact hc ⟨r, w, hb, by simpa using hs⟩
    obtain ⟨r, w, hb, hs⟩ := this
    rw [doit_nosym_nil anno op a b bs _ hs (by rw [hb]; rfl) h]
    exact sound_nil env

theorem C25_balancer_sound_signed_nolit (op : CmpOp) (a b : BV) (bs : Bounds) (info : PathInfo) (oT oA : BalOut)
    (hoa : ExprOK anno env a) (hob : ExprOK anno env b) (hwab : wd a = wd b) (hord : sOrd op)
    (h : doit anno (.cmp op a b) = .ok (.sat bs info)) (hmain : info.main = some oT) (hassum : info.assum = some oA)
    (hptT : oT.usedPt = false) (hptA : oA.usedPt = false) (hsame : oT.t.lhs = oA.t.lhs)
    (hsat : evalB env (.cmp op a b) = some true) : Sound env bs := by
  by_cases hsym : ∀ r w, b = .const r w → symBV a = true
  · exact C25_balancer_sound_signed anno env hctx hnrm op a b bs info oT oA hoa hob hwab hord hsym h hmain hassum hptT hptA
      hsame hsat
  · have : ∃ r w, b = .const r w ∧ symBV a = false := by
      by_contra hc
      apply hsym
      intro r w hb
      by_contra hs
      exact hc ⟨r, w, hb, by simpa using hs⟩
    obtain ⟨r, w, hb, hs⟩ := this
    rw [doit_nosym_nil anno op a b bs info hs (by rw [hb]; rfl) h]
    exact sound_nil env

end

/-- the step `_balance_zeroext` is NOT meaning-preserving on a signed operator: `ZeroExt(4, x) <s 9` (8 bits) is rewritten to
`x <s 9` at 4 bits (9 is -7 there); `x = 0` satisfies the first and not the second, only the unsigned reading `x <u 9`
survives.  Not a defect of the result: the bound recorded for `x` (`min(7, 7, -8) = -8`, read modulo 16 as 8) is sound, the
real `constraint_to_si` answers `x ∈ [0, 8]` — `C25_handle_sound_signed_unsigned_reading` is the reason. -/
theorem C25_zext_signed_not_meaning_preserving :
    balStep (fun _ => SI.top 4) ⟨.slt, .zext 4 (.free 0 4), 9, 8⟩ = .ok ⟨.slt, .free 0 4, 9, 4⟩ ∧
    concCmp .slt 8 0 9 = true ∧ concCmp .slt 4 0 9 = false ∧ concCmp (uOf .slt) 4 0 9 = true :=
  zext_signed_not_meaning_preserving

/-- the step `_balance_signext` is NOT meaning-preserving on a signed operator either: with `x` annotated `[0, 7]` (4 bits),
`SignExt(4, x) <s 9` (8 bits) is rewritten to `x <s 9` at 4 bits (9 is -7 there); `x = 0` satisfies the first and not the second,
only `x <u 9` survives.  With `y` annotated `[8, 15]`, `SignExt(4, y) >s 0xF3` becomes `y >s 3`; `y = 8` (-8) satisfies the
first, not the second, and `y >u 3`.  Not a defect of the result: the real `constraint_to_si` answers `x ∈ [0, 7]`,
`y ∈ [8, 15]` (the recorded bounds -8, read as 8, and 4) — `C25_handle_sound_signed_unsigned_reading` is the reason. -/
theorem C25_sext_signed_not_meaning_preserving :
    balStep (fun _ => SI.new 4 1 0 7) ⟨.slt, .sext 4 (.var 0 4), 9, 8⟩ = .ok ⟨.slt, .var 0 4, 9, 4⟩ ∧
    concCmp .slt 8 (Conc.sext 4 8 0) 9 = true ∧ concCmp .slt 4 0 9 = false ∧ concCmp (uOf .slt) 4 0 9 = true ∧
    balStep (fun _ => SI.new 4 1 8 15) ⟨.sgt, .sext 4 (.var 0 4), 0xF3, 8⟩ = .ok ⟨.sgt, .var 0 4, 3, 4⟩ ∧
    concCmp .sgt 8 (Conc.sext 4 8 8) 0xF3 = true ∧ concCmp .sgt 4 8 3 = false ∧ concCmp (uOf .sgt) 4 8 3 = true :=
  sext_signed_not_meaning_preserving

/-- the full per-step statement for signed orderings: every arm other than `+` / `-` keeps "the truism holds in its signed or
in its unsigned reading".  PROVED since round 5: `C25_step_holds_signed_full_proved` below (from `C25_step_holds_signed`). -/
def C25_step_holds_signed_full : Prop :=
  ∀ (anno : Nat → SI) (env : Nat → Nat), (∀ i, (anno i).WF ∧ (anno i).mem (env i)) → (∀ i, Nrm (anno i)) →
    ∀ (ta t' : Tru), TruOK anno env ta → (∃ p, convBV anno ta.lhs [] = .ok p) → sOrd ta.op → isModLhs ta.lhs = false →
      (ta.holds env ∨ ta.holdsU env) → balStep anno ta = .ok t' → symBV t'.lhs = true →
      TruOK anno env t' ∧ t'.op = ta.op ∧ (t'.holds env ∨ t'.holdsU env)

theorem C25_step_holds_signed_full_proved : C25_step_holds_signed_full :=
  fun anno env hctx hnrm ta t' hok hconv hop hnm hh h hs =>
    let ⟨h1, h2, h3, _, _⟩ := C25_step_holds_signed anno env hctx hnrm ta t' hok hconv hop hnm hh h hs
    ⟨h1, h2, h3⟩

/-- the full composite for signed orderings (NOT proved; `C25_balancer_sound_signed` is the part where neither path uses an
arm other than `+` / `-` and both end at the same expression): sound whenever no path combines a constant moved across
`+` / `-` with another arm.  Missing beyond the steps above: a lone bound of a truism that still holds only in its SIGNED
reading (e.g. the assumption `ZeroExt(k, e) >=s int_min`, whose path stops at once while the truism goes on to `e`) is
sound only when the recorded lower bound is not negative / the value is known to be negative — for `ZeroExt` that needs the
abstract value of the extension to have a non-negative signed minimum, which C24 (an over-approximation result) does not
give.  Observed on the real code: 211 of the 1749 signed inputs of a quick run are of this kind, none fails. -/
def C25_balancer_sound_signed_full : Prop :=
  ∀ (anno : Nat → SI) (env : Nat → Nat), (∀ i, (anno i).WF ∧ (anno i).mem (env i)) → (∀ i, Nrm (anno i)) →
    ∀ (op : CmpOp) (a b : BV) (bs : Bounds) (info : PathInfo), ExprOK anno env a → ExprOK anno env b → wd a = wd b →
      sOrd op → doit anno (.cmp op a b) = .ok (.sat bs info) →
      (∀ m, info.main = some m → ¬ (m.usedMod = true ∧ m.usedPt = true)) →
      (∀ m, info.assum = some m → ¬ (m.usedMod = true ∧ m.usedPt = true)) →
      (∀ m m', info.main = some m → info.assum = some m' → m.usedMod = m'.usedMod) →
      evalB env (.cmp op a b) = some true → Sound env bs

/-- the full statement for `==` / `!=` (not proved: the abstract equality is only proved sound on aligned operands, C24) -/
def C25_unsat_sound_eqne_full : Prop :=
  ∀ (anno : Nat → SI) (env : Nat → Nat), (∀ i, (anno i).WF ∧ (anno i).mem (env i)) → (∀ i, Nrm (anno i)) →
    ∀ (op : CmpOp) (a b : BV), ExprOK anno env a → ExprOK anno env b → wd a = wd b → (op = .eq ∨ op = .ne) →
      doit anno (.cmp op a b) = .ok .unsat → evalB env (.cmp op a b) ≠ some true

/-- the last step of `_replacements_iter`: `convert(expr) ∩ SI(1, mn, mx)` contains the value when `convert(expr)` does
(C24), is aligned and normal (what the meet needs, C22) and the recorded pair contains it -/
theorem C25_replacement_interval (w : Nat) (lo hi : Option Int) (v : Nat) (hw : 0 < w) (hv : v < 2 ^ w) (hin : InB w lo hi v)
    (s r : SI) (hs : s.WF ∧ s.bits = w) (hmem : s.mem v) (hal : s.Aligned) (hn : Nrm s)
    (h : s.intersection (SI.new w 1 (lo.getD 0) (hi.getD ((2 : Int) ^ w - 1))) = .ok r) : r.mem v := by
  have hb : WFw w (SI.new w 1 (lo.getD 0) (hi.getD ((2 : Int) ^ w - 1))) :=
    ⟨new_WF _ _ _ _ hw (fun h1 => by cases h1), new_bits _ _ _ _⟩
  have hbm : (SI.new w 1 (lo.getD 0) (hi.getD ((2 : Int) ^ w - 1))).mem v := by
    rw [mem_new]
    refine ⟨hv, hin, ?_⟩
    rw [if_neg (by decide)]
    exact Nat.mod_one _
  have hbA : (SI.new w 1 (lo.getD 0) (hi.getD ((2 : Int) ^ w - 1))).Aligned := by
    unfold SI.Aligned
    rw [new_eq]
    split
    · exact Or.inl rfl
    · split <;> exact Or.inr (Nat.mod_one _)
  exact (meet_sound w s _ r hs hb hmem.1 (new_bottom _ _ _ _) hal hbA hn (nrm_new _ _ _ _ hw) h).2 v hmem hbm

/-- the guard of the composite theorem is needed (open finding C25-modular-under-width-change): for
`ZeroExt(4, x) + 3 <= 5` over a plain 4-bit `x` the model — like the real `constraint_to_si` — records the lower bound 253 for
`ZeroExt(4, x)` (the truism goes `+` then `ZeroExt`, its assumption stops after `+`), and `x = 0` satisfies the constraint -/
instance (w : Nat) (lo hi : Option Int) (v : Nat) : Decidable (InB w lo hi v) := by unfold InB; infer_instance

def mixedC : BExp := .cmp .ule (.bin .add (.zext 4 (.free 0 4)) (.const 3 8)) (.const 5 8)
def boundsOf (r : M Res) : Option Bounds := match r with | .ok (.sat bs _) => some bs | _ => none

set_option maxRecDepth 100000 in
theorem C25_mixed_path_cuts_off_model :
    boundsOf (doit (fun _ => SI.top 4) mixedC) = some [(.free 0 4, none, some 2), (.zext 4 (.free 0 4), some 253, none)] ∧
    evalB (fun _ => 0) mixedC = some true ∧ evalBV (fun _ => 0) (.zext 4 (.free 0 4)) = some 0 ∧
    ¬ InB 8 (some 253) none 0 := by
  decide

/-- non-vacuity of the composite theorem: `ZeroExt(4, x) <= 5` is covered and bounds `x` by `[0, 5]` -/
def coveredC : BExp := .cmp .ule (.zext 4 (.free 0 4)) (.const 5 8)
def infoOf (r : M Res) : Option (Bool × Bool) :=
  match r with
  | .ok (.sat _ ⟨some m, some a⟩) => some (m.usedMod, a.usedMod)
  | _ => none

set_option maxRecDepth 100000 in
theorem test_covered_example :
    boundsOf (doit (fun _ => SI.top 4) coveredC) = some [(.free 0 4, some 0, some 5)] ∧
    infoOf (doit (fun _ => SI.top 4) coveredC) = some (false, false) := by
  decide

/-- non-vacuity of the signed composite: `x + 3 <s 5` over a plain 4-bit `x` — the truism records the upper bound 1, its
assumption `x + 3 >=s -8` the lower bound 5, both paths only move the constant, same final expression; the real
`constraint_to_si` answers `[5, 1]` as well -/
def signedC : BExp := .cmp .slt (.bin .add (.free 0 4) (.const 3 4)) (.const 5 4)
def infoPt (r : M Res) : Option (Bool × Bool × Bool) :=
  match r with
  | .ok (.sat _ ⟨some m, some a⟩) => some (m.usedPt, a.usedPt, decide (m.t.lhs = a.t.lhs))
  | _ => none

set_option maxRecDepth 100000 in
example : boundsOf (doit (fun _ => SI.top 4) signedC) = some [(.free 0 4, some 5, some 1)] ∧
    infoPt (doit (fun _ => SI.top 4) signedC) = some (false, false, true) ∧
    evalB (fun _ => 14) signedC = some true ∧ InB 4 (some 5) (some 1) 14 := by
  decide

/-- non-vacuity of the signed unsat theorem: `x <s -8` at 4 bits is reported unsatisfiable -/
def unsatC : BExp := .cmp .slt (.free 0 4) (.const 8 4)
set_option maxRecDepth 100000 in
example : (match doit (fun _ => SI.top 4) unsatC with | .ok .unsat => true | _ => false) = true := by decide

/-- non-vacuity of the signed per-arm / loop theorems: the arms do fire on signed operators.  `(ZeroExt(4, x) & 15) <=s 5`
goes through `__and__` and `ZeroExt` to `x <=s 5` at 4 bits; `(x .. 0#2)[5:2] >s 3` is scaled to `(x .. 0#2) >s 12`;
`x << 0 >=s 3` loses the shift; `SignExt(4, x) <s 9` with `x ∈ [0, 7]` goes to `x <s 9` (9 is -7: only the unsigned reading
holds, e.g. at `x = 0`); none moves a constant across `+` / `-`. -/
example :
    balance1 (fun _ => SI.top 4) ⟨.sle, .bin .and (.zext 4 (.free 0 4)) (.const 15 8), 5, 8⟩ =
      .ok ⟨⟨.sle, .free 0 4, 5, 4⟩, false, true⟩ ∧
    balance1 (fun _ => SI.top 4) ⟨.sgt, .extract 5 2 (.concat (.free 0 4) (.const 0 2)), 3, 4⟩ =
      .ok ⟨⟨.sgt, .concat (.free 0 4) (.const 0 2), 12, 6⟩, false, true⟩ ∧
    balance1 (fun _ => SI.top 4) ⟨.sge, .bin .shl (.free 0 4) (.const 0 4), 3, 4⟩ = .ok ⟨⟨.sge, .free 0 4, 3, 4⟩, false, true⟩ ∧
    balance1 (fun _ => SI.new 4 1 0 7) ⟨.slt, .sext 4 (.var 0 4), 9, 8⟩ = .ok ⟨⟨.slt, .var 0 4, 9, 4⟩, false, true⟩ ∧
    concCmp .slt 8 (Conc.sext 4 8 0) 9 = true ∧ concCmp .slt 4 0 9 = false ∧ concCmp (uOf .slt) 4 0 9 = true := by
  decide

/-- non-vacuity of `C25_balancer_sound_signed_arms_partial` / `C25_process_sound_signed_unsigned_reading`:
`(ZeroExt(4, x) & 15) <s 9` ends at `x <s 9` (4 bits) with the lone upper bound -8, read as `[0, 8]`; `x = 3` satisfies the
truism (unsigned reading at the end: `3 <u 9`) and lies inside -/
def boundsOfP (r : M (Bounds × BalOut)) : Option Bounds := match r with | .ok p => some p.1 | _ => none
set_option maxRecDepth 100000 in
example : boundsOfP (processTru (fun _ => SI.top 4) ⟨.slt, .bin .and (.zext 4 (.free 0 4)) (.const 15 8), 9, 8⟩ []) =
      some [(.free 0 4, none, some (-8))] ∧
    concCmp .slt 8 3 9 = true ∧ concCmp (uOf .slt) 4 3 9 = true ∧ InB 4 none (some (-8)) 3 := by
  decide

end Claripy.Props.C25
