import ClaripyProofs.Lemmas.VSA.Balancer
/-!
# C25 — constraint_to_si never cuts off a satisfying assignment

What is proved (all widths): the arithmetic the balancer relies on, in the shape the design calls for — *pre-images of
wrapped intervals*.  A recorded (lower, upper) pair denotes `W[lo, hi]`; `C25_preimage_add` (rotation) and
`C25_pair_exact` show that the pair produced for `x ± c OP d` from the truism and its implicit assumption is exactly the
set of satisfying `x`; `C25_lone_bound_not_a_preimage` shows that one of the two bounds alone is not a consequence — the
root cause of the remaining open finding (a partner assumption is missing when the addition sits under an
Extract/ZeroExt/Concat/shift/mask/If).  For the arms that drop bits (Extract(k,0,·), left shift) the repaired code keeps
exactly the comparison operators for which the arm is a consequence (`C25_extract_uge`, `C25_extract_ne`, `C25_shl_uge`);
the negations with witnesses show why `==`, `≤`, `<` had to go.  There is no Lean model of the AST rewriting itself: the
end-to-end guarantee comes from the enumerating oracle of the check.
-/
namespace Claripy.Props.C25
open Claripy.VSA

theorem C25_preimage_add (m lo hi x c : Nat) (hlo : lo < m) (hhi : hi < m) (hx : x < m) (hc : c < m) :
    Win m lo hi ((x + c) % m) ↔ Win m ((lo + m - c) % m) ((hi + m - c) % m) x :=
  Win_preimage_add m lo hi x c hlo hhi hx hc

theorem C25_pair_exact (w : Nat) (op : UCmp) (x c d : Nat) (hx : x < 2 ^ w) (hc : c < 2 ^ w) (hd : d < 2 ^ w) :
    match balAddPair w op c d with
    | some (lo, hi) => (ucmpHolds op ((x + c) % 2 ^ w) d ↔ Win (2 ^ w) lo hi x)
    | none => ¬ ucmpHolds op ((x + c) % 2 ^ w) d :=
  balAddPair_exact w op x c d hx hc hd

theorem C25_lone_bound_not_a_preimage :
    ¬ ∀ (x c d : Nat), x < 16 → c < 16 → d < 16 → d ≤ (x + c) % 16 → (d + 16 - c) % 16 ≤ x :=
  lone_bound_not_a_preimage

theorem C25_extract_uge (x k c : Nat) (h : c ≤ x % 2 ^ k) : c ≤ x := extract_uge_pre x k c h
theorem C25_extract_ne (x k c : Nat) (hc : c < 2 ^ k) (h : x % 2 ^ k ≠ c) : x ≠ c := extract_ne_pre x k c hc h
theorem C25_extract_eq_not_pre : ¬ ∀ x : Nat, x < 8 → x % 4 = 2 → x = 2 := extract_eq_not_pre
theorem C25_extract_ule_not_pre : ¬ ∀ x : Nat, x < 32 → x % 16 ≤ 15 → x ≤ 15 := extract_ule_not_pre
theorem C25_shl_uge (m x n c : Nat) (h : c * 2 ^ n ≤ (x * 2 ^ n) % m) : c ≤ x := shl_uge_pre m x n c h
theorem C25_shl_ule_not_pre : ¬ ∀ y : Nat, y < 8 → (y * 2) % 8 ≤ 0 → y ≤ 0 := shl_ule_not_pre
theorem C25_combine_bounds (x l1 u1 l2 u2 : Nat) (h1 : l1 ≤ x ∧ x ≤ u1) (h2 : l2 ≤ x ∧ x ≤ u2) :
    Nat.max l1 l2 ≤ x ∧ x ≤ Nat.min u1 u2 := combine_bounds x l1 u1 l2 u2 h1 h2

/-- non-vacuity of the pair theorem: `x + 1 ≤ 5` at 8 bits is `W[255, 4]` -/
theorem test_pair_example : balAddPair 8 .ule 1 5 = some (255, 4) ∧ Win 256 255 4 255 ∧ Win 256 255 4 3 ∧ ¬ Win 256 255 4 5 := by
  decide

end Claripy.Props.C25
