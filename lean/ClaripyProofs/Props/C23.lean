import ClaripyProofs.Lemmas.VSA.Lift
import ClaripyProofs.Lemmas.VSA.SetQueries
import ClaripyProofs.Lemmas.VSA.Lub
import ClaripyProofs.Lemmas.VSA.AddSub
import Claripy.VSA.Conc
import ClaripyProofs.Lemmas.VSA.ValueSetMeet
import ClaripyProofs.Lemmas.VSA.SetOpsEval
/-!
# C23 — discrete interval sets and region value sets are sound abstractions

The set-level operations of `DiscreteStridedIntervalSet` are `apply_on_each_si` liftings of the interval operations
followed by `normalize` (which may `collapse`).  The theorems below are *generic*: whatever interval operation is
sound on every pair of members (C21) is sound on sets, for every iteration order of the Python sets involved; the
join used by `collapse` enters as the hypothesis `JoinOK` (C22: `pseudo_join` contains both arguments).
For value sets the same holds region by region.
-/
namespace Claripy.Props.C23
open Claripy.VSA

/-- lifting of a binary operation (`__add__`, `__and__`, `__lshift__`, …) -/
theorem C23_lift2 (P : SI → Prop) (hJ : JoinOK P) (op : SI → SI → R SI) (f : Nat → Nat → Nat)
    (a : DSIS) (bs : List SI) (order : List Nat) (v : Val)
    (hop : ∀ s t r x y, s ∈ a.sis → t ∈ bs → s.mem x → t.mem y → op s t = .ok r → r.mem (f x y))
    (hPr : ∀ s t r, s ∈ a.sis → t ∈ bs → op s t = .ok r → P r)
    (h : a.lift2 op bs order = .ok v) (x y : Nat) (hx : a.mem x) (hy : memL bs y) : v.mem (f x y) :=
  lift2_sound P hJ op f a bs order v hop hPr h x y hx hy

/-- lifting of a unary operation (`__neg__`, `__invert__`, `zero_extend`, `sign_extend`, …) -/
theorem C23_lift1 (P : SI → Prop) (hJ : JoinOK P) (op : SI → R SI) (f : Nat → Nat)
    (a : DSIS) (order : List Nat) (v : Val)
    (hop : ∀ s r x, s ∈ a.sis → s.mem x → op s = .ok r → r.mem (f x))
    (hPr : ∀ s r, s ∈ a.sis → op s = .ok r → P r)
    (h : a.lift1 op order = .ok v) (x : Nat) (hx : a.mem x) : v.mem (f x) :=
  lift1_sound P hJ op f a order v hop hPr h x hx

/-- `collapse()` contains every member of the set -/
theorem C23_collapse (P : SI → Prop) (hJ : JoinOK P) (d : DSIS) (r : SI) (hP : ∀ s, s ∈ d.sis → P s)
    (h : d.collapse = .ok r) (x : Nat) (hx : d.mem x) : r.mem x :=
  collapse_sound P hJ d r hP h x hx

/-- `normalize()` (collapse above 256 values, unwrap a singleton set) keeps every member -/
theorem C23_normalize (P : SI → Prop) (hJ : JoinOK P) (d : DSIS) (v : Val) (hP : ∀ s, s ∈ d.sis → P s)
    (h : d.normalize = .ok v) (x : Nat) (hx : d.mem x) : v.mem x :=
  normalize_sound P hJ d v hP h x hx

/-- value sets: an operation with an interval operand is sound in every region separately -/
theorem C23_valueset_per_region (v v' : VS) (op : SI → R SI) (f : Nat → Nat)
    (hop : ∀ s r x, s.mem x → op s = .ok r → r.mem (f x))
    (h : v.mapRegions op = .ok v') (region : String) (x : Nat) (hx : v.memAt region x) : v'.memAt region (f x) :=
  mapRegions_sound v v' op f hop h region x hx

/-- an instance with the per-member theorem already proved: `+` on sets of intervals is sound (given `JoinOK`) -/
theorem C23_dsis_add_sound (hJ : JoinOK (fun s => s.WF)) (a : DSIS) (bs : List SI) (order : List Nat) (v : Val)
    (hwa : ∀ s, s ∈ a.sis → s.WF ∧ s.bits = a.bits) (hwb : ∀ t, t ∈ bs → t.WF ∧ t.bits = a.bits)
    (hPr : ∀ s t, s ∈ a.sis → t ∈ bs → (s.add t).WF)
    (h : a.lift2 (fun s t => pure (s.add t)) bs order = .ok v) (x y : Nat) (hx : a.mem x) (hy : memL bs y) :
    v.mem ((x + y) % 2 ^ a.bits) := by
  refine lift2_sound (fun s => s.WF) hJ (fun s t => pure (s.add t)) (fun x y => (x + y) % 2 ^ a.bits) a bs order v ?_ ?_ h x y hx hy
  · intro s t r x y hs ht hsx hty hr
    have hr' : r = s.add t := by cases hr; rfl
    subst hr'
    have := add_sound s t x y (by rw [(hwa s hs).2, (hwb t ht).2]) (hwa s hs).1 (hwb t ht).1 hsx hty
    rw [(hwa s hs).2] at this
    exact this
  · intro s t r hs ht hr
    have hr' : r = s.add t := by cases hr; rfl
    subst hr'
    exact hPr s t hs ht

/-! ### with the join obligation discharged (C22_pseudo_join_sup) -/

/-- `collapse()` contains every member — unconditionally, for sets of well-formed intervals of one width -/
theorem C23_collapse_sound (w : Nat) (d : DSIS) (r : SI) (hP : ∀ s, s ∈ d.sis → s.WF ∧ s.bits = w)
    (h : d.collapse = .ok r) (x : Nat) (hx : d.mem x) : r.mem x :=
  collapse_sound (WFw w) (joinOK w) d r hP h x hx

/-- `normalize()` keeps every member — unconditionally -/
theorem C23_normalize_sound (w : Nat) (d : DSIS) (v : Val) (hP : ∀ s, s ∈ d.sis → s.WF ∧ s.bits = w)
    (h : d.normalize = .ok v) (x : Nat) (hx : d.mem x) : v.mem x :=
  normalize_sound (WFw w) (joinOK w) d v hP h x hx

/-- `dsis + (dsis | interval)` is sound — unconditionally (add_sound + lifting + join) -/
theorem C23_dsis_add (a : DSIS) (bs : List SI) (order : List Nat) (v : Val)
    (hwa : ∀ s, s ∈ a.sis → s.WF ∧ s.bits = a.bits) (hwb : ∀ t, t ∈ bs → t.WF ∧ t.bits = a.bits)
    (hPr : ∀ s t, s ∈ a.sis → t ∈ bs → (s.add t).WF ∧ (s.add t).bits = a.bits)
    (h : a.lift2 (fun s t => pure (s.add t)) bs order = .ok v) (x y : Nat) (hx : a.mem x) (hy : memL bs y) :
    v.mem ((x + y) % 2 ^ a.bits) := by
  refine lift2_sound (WFw a.bits) (joinOK a.bits) (fun s t => pure (s.add t)) (fun x y => (x + y) % 2 ^ a.bits) a bs order v ?_ ?_ h x y hx hy
  · intro s t r x y hs ht hsx hty hr
    have hr' : r = s.add t := by cases hr; rfl
    subst hr'
    have := add_sound s t x y (by rw [(hwa s hs).2, (hwb t ht).2]) (hwa s hs).1 (hwb t ht).1 hsx hty
    rw [(hwa s hs).2] at this
    exact this
  · intro s t r hs ht hr
    have hr' : r = s.add t := by cases hr; rfl
    subst hr'
    exact hPr s t hs ht

/-- `min()` / `max()` of a discrete set (as repaired: taken over the members) bound every value of every member
interval, wrapping members included -/
theorem C23_dsis_min_max_bound (d : DSIS) (s : SI) (x : Nat) (hs : s ∈ d.sis) (hw : s.WF) (hx : s.mem x) :
    (∀ m, d.minQ false = .ok (some m) → m ≤ x) ∧ (∀ m, d.maxQ false = .ok (some m) → (x : Int) ≤ m) :=
  ⟨fun m h => dsis_min_le d m s x hs hw hx h, fun m h => dsis_le_max d m s x hs hw hx h⟩

/-- non-vacuity: `{ 1[14,2], 1[6,8] }` at 4 bits (a member that wraps around 0) -/
example : let d : DSIS := { bits := 4, sis := [SI.new 4 1 14 2, SI.new 4 1 6 8] }
    d.minQ false = .ok (some 0) ∧ d.maxQ false = .ok (some 15) ∧ (SI.new 4 1 14 2).mem 15 := by decide

/-! ## every operation of `DiscreteStridedIntervalSet`, with the interval theorems of C21/C22 plugged in

`NE w s`: a non-empty well-formed member of width `w`; `NEn`: … in constructor-normal form; `NEa`: … and aligned (the guard of
the interval meet, hence of `*`, `%`, `==`, `!=`, `intersection`; alignment is an invariant of all interval operations except
`widen`, C21/C22 `…_aligned`).  Every theorem holds for every iteration order of the Python sets involved (`order`). -/

/-- the binary liftings `- | ^ & << LShR >> concat` -/
theorem C23_dsis_binops (w : Nat) (a : DSIS) (bs : List SI) (order : List Nat) (v : Val) (x y : Nat) (hx : a.mem x)
    (hy : memL bs y) :
    ((∀ s, s ∈ a.sis → NE w s) → (∀ t, t ∈ bs → NE w t) → a.lift2 (fun s t => pure (s.sub t)) bs order = .ok v →
      v.mem ((x + 2 ^ w - y) % 2 ^ w)) ∧
    ((∀ s, s ∈ a.sis → NE w s) → (∀ t, t ∈ bs → NE w t) → a.lift2 SI.bitwiseOr bs order = .ok v → v.mem (x ||| y)) ∧
    ((∀ s, s ∈ a.sis → NE w s) → (∀ t, t ∈ bs → NE w t) → a.lift2 SI.bitwiseXor bs order = .ok v → v.mem (x ^^^ y)) ∧
    ((∀ s, s ∈ a.sis → NEn w s) → (∀ t, t ∈ bs → NEn w t) → a.lift2 SI.bitwiseAnd bs order = .ok v → v.mem (x &&& y)) ∧
    ((∀ s, s ∈ a.sis → NE w s) → (∀ t, t ∈ bs → t.WF) → a.lift2 SI.lshift bs order = .ok v → v.mem (Conc.shl w x y)) ∧
    ((∀ s, s ∈ a.sis → NE w s) → (∀ t, t ∈ bs → t.WF) → a.lift2 SI.rshiftLogical bs order = .ok v → v.mem (Conc.lshr w x y)) ∧
    ((∀ s, s ∈ a.sis → NEn w s) → (∀ t, t ∈ bs → t.WF) → a.lift2 SI.rshiftArith bs order = .ok v → v.mem (Conc.ashr w x y)) ∧
    (∀ wb, (∀ s, s ∈ a.sis → NE w s) → (∀ t, t ∈ bs → NE wb t) → a.lift2 SI.concat bs order = .ok v →
      v.mem (Conc.concat wb x y)) :=
  ⟨fun ha hb h => dsis_sub w a bs order v ha hb h x y hx hy, fun ha hb h => dsis_or w a bs order v ha hb h x y hx hy,
   fun ha hb h => dsis_xor w a bs order v ha hb h x y hx hy, fun ha hb h => dsis_and w a bs order v ha hb h x y hx hy,
   fun ha hb h => dsis_shl w a bs order v ha hb h x y hx hy, fun ha hb h => dsis_lshr w a bs order v ha hb h x y hx hy,
   fun ha hb h => dsis_ashr w a bs order v ha hb h x y hx hy,
   fun wb ha hb h => dsis_concat w wb a bs order v ha hb h x y hx hy⟩

/-- `*` and `%` on sets — `*` under the alignment guard of the interval operation (members aligned and normal; the unguarded
statement is false already on one-member sets: `C21.mul_unaligned_unsound`), `%` for all members (division by zero exempt) -/
theorem C23_dsis_mul_mod (w : Nat) (a : DSIS) (bs : List SI) (order : List Nat) (v : Val) (x y : Nat) (hx : a.mem x)
    (hy : memL bs y) :
    ((∀ s, s ∈ a.sis → NEa w s) → (∀ t, t ∈ bs → NEa w t) → a.lift2 SI.mul bs order = .ok v → v.mem ((x * y) % 2 ^ w)) ∧
    ((∀ s, s ∈ a.sis → NE w s) → (∀ t, t ∈ bs → NE w t) → a.lift2 SI.mod bs order = .ok v → y ≠ 0 →
      v.mem (x % y)) :=
  ⟨fun ha hb h => dsis_mul w a bs order v ha hb h x y hx hy, fun ha hb h hy0 => dsis_mod w a bs order v ha hb h x y hx hy hy0⟩

/-- the unary liftings `- ~ ZeroExt SignExt` and `extract` -/
theorem C23_dsis_unops (w : Nat) (a : DSIS) (order : List Nat) (v : Val) (x : Nat) (hx : a.mem x) :
    ((∀ s, s ∈ a.sis → NE w s) → a.lift1 (fun s => pure s.neg) order = .ok v → v.mem ((2 ^ w - x) % 2 ^ w)) ∧
    ((∀ s, s ∈ a.sis → NE w s) → a.lift1 SI.bitwiseNot order = .ok v → v.mem (2 ^ w - 1 - x)) ∧
    (∀ nl, w ≤ nl → (∀ s, s ∈ a.sis → NE w s) → a.lift1 (fun s => s.zeroExtend nl) order = .ok v → v.mem x) ∧
    (∀ nl, w ≤ nl → (∀ s, s ∈ a.sis → NEn w s) → a.lift1 (fun s => s.signExtend nl) order = .ok v → v.mem (Conc.sext w nl x)) ∧
    (∀ hi lo, lo ≤ hi → hi < w → (∀ s, s ∈ a.sis → NE w s) → a.extract hi lo order = .ok v → v.mem (Conc.extract hi lo x)) :=
  ⟨fun ha h => dsis_neg w a order v ha h x hx, fun ha h => dsis_not w a order v ha h x hx,
   fun nl hnl ha h => dsis_zext w nl hnl a order v ha h x hx, fun nl hnl ha h => dsis_sext w nl hnl a order v ha h x hx,
   fun hi lo hlo hhi ha h => dsis_extract w hi lo hlo hhi a order v ha h x hx⟩

/-- the eight orderings of a set against a set or an interval (both operands are collapsed first) -/
theorem C23_dsis_orderings (w : Nat) (hw : 0 < w) (op : CmpOp) (a : DSIS) (b : Val) (br : BoolRes)
    (h : a.cmp (fun ca cb => applyCmp op { si := ca } { si := cb }) b = .ok br) (x y : Nat) (hx : a.mem x) (hy : b.mem y) :
    ((op = .ult ∨ op = .ule ∨ op = .ugt ∨ op = .uge) → Vok w (WFw w) (.ds a) → Vok w (WFw w) b →
      br.has (concCmp op w x y) = true) ∧
    ((op = .slt ∨ op = .sle ∨ op = .sgt ∨ op = .sge) → Vok w (fun s => WFw w s ∧ Nrm s) (.ds a) →
      Vok w (fun s => WFw w s ∧ Nrm s) b → br.has (concCmp op w x y) = true) :=
  ⟨fun hop ha hb => dsis_ucmp w hw op hop a b br ha hb h x y hx hy,
   fun hop ha hb => dsis_scmp w hw op hop a b br ha hb h x y hx hy⟩

/-- `==` / `!=` of a set — members aligned and normal (`collapse()` keeps both); unguarded it inherits `C21.eq_unaligned_unsound` -/
theorem C23_dsis_eq (w : Nat) (hw : 0 < w) (a : DSIS) (b : Val) (br : BoolRes)
    (ha : Vok w (fun s => WFw w s ∧ Nrm s ∧ s.Aligned) (.ds a)) (hb : Vok w (fun s => WFw w s ∧ Nrm s ∧ s.Aligned) b)
    (h : a.cmp SI.eq b = .ok br) (x y : Nat) (hx : a.mem x) (hy : b.mem y) :
    br.has (decide (x = y)) = true ∧ br.not.has (decide (x ≠ y)) = true :=
  dsis_eq w hw a b br ha hb h x y hx hy

/-- the reflected operations `o - set`, `o // set`, `o % set` (`o + set`, `o * set`, `o & set` … are the lifted operation itself) -/
theorem C23_dsis_reflected (w : Nat) (hw : 0 < w) (a : DSIS) (o : SI) (hab : a.bits = w) (ho : NE w o)
    (x y : Nat) (hx : a.mem x) (hy : o.mem y) :
    (∀ o1 o2 v, (∀ s, s ∈ a.sis → NE w s) → a.rsub o o1 o2 = .ok v → v.mem ((y + 2 ^ w - x) % 2 ^ w)) ∧
    (∀ order r, (∀ s, s ∈ a.sis → WFw w s) → a.rudiv o order = .ok r → x ≠ 0 → r.mem (y / x)) ∧
    (∀ r, (∀ s, s ∈ a.sis → WFw w s) → a.rmod o = .ok r → x ≠ 0 → r.mem (y % x)) :=
  ⟨fun o1 o2 v ha h => dsis_rsub w hw a o o1 o2 v hab ha ho h x y hx hy,
   fun order r ha h hx0 => dsis_rudiv w hw a o order r hab ha ho h x y hx hy hx0,
   fun r ha h hx0 => dsis_rmod w hw a o r hab ha ho h x y hx hy hx0⟩

/-- `eval(n)` draws members only, and all of them once `n` covers every member interval -/
theorem C23_dsis_eval (d : DSIS) (n : Nat) (l : List Int) (hd : ∀ s, s ∈ d.sis → s.WF ∧ s.bottom = false)
    (h : d.evalCandidates n = .ok l) :
    (∀ v, v ∈ l → ∃ x : Nat, v = (x : Int) ∧ d.mem x) ∧
    ((∀ s, s ∈ d.sis → s.members.length ≤ n) → ∀ x, d.mem x → (x : Int) ∈ l) :=
  dsis_eval d n l hd h

/-- `eval(n)` as written (`DSIS.eval`: the early exit of the loop, the Python set of integers, the cut to `n`): the list that is
returned holds members of the set only, and at most `n` values — for every recorded iteration order of the integer set -/
theorem C23_dsis_eval_list (d : DSIS) (n : Nat) (order : List Nat) (l : List Int)
    (hd : ∀ s, s ∈ d.sis → s.WF ∧ s.bottom = false) (h : d.eval n order = .ok l) :
    (∀ v, v ∈ l → ∃ x : Nat, v = (x : Int) ∧ d.mem x) ∧ l.length ≤ n :=
  dsis_eval_list d n order l hd h

/-- non-vacuity: `{ 2[1,5], {6} }.eval(4)` with the integer set iterated as 6, 1, 3, 5; `eval(2)` stops after the first member -/
example : let d : DSIS := { bits := 3, sis := [SI.new 3 2 1 5, SI.new 3 0 6 6] }
    d.eval 4 [3, 0, 1, 2] = .ok [6, 1, 3, 5] ∧ d.eval 2 [1, 0] = .ok [3, 1] := by decide

/-- `union` of a set with an interval and with a set contains the members of both -/
theorem C23_dsis_union (w : Nat) (a : DSIS) (hab : a.bits = w) (ha : ∀ m, m ∈ a.sis → NE w m) :
    (∀ s order v, WFw w s → a.unionSI s order = .ok v → ∀ x, (a.mem x ∨ s.mem x) → v.mem x) ∧
    (∀ b orders v, (∀ m, m ∈ b.sis → WFw w m) → a.unionDS b orders = .ok v → ∀ x, (a.mem x ∨ b.mem x) → v.mem x) :=
  ⟨fun s order v hs h => (dsis_unionSI w a s order v hab ha hs h).2,
   fun b orders v hb h => dsis_unionDS w a b orders v hab ha hb h⟩

/-- `intersection` of a set with an interval and with a set contains every common member — members aligned and normal (the
guard of the interval meet; unguarded it inherits `C22.meet_unaligned_unsound`) -/
theorem C23_dsis_intersection (w : Nat) (hw : 0 < w) (a : DSIS) (hab : a.bits = w) (ha : ∀ m, m ∈ a.sis → NEa w m) :
    (∀ s order v, NEa w s → a.meetSI s order = .ok v → ∀ x, a.mem x → s.mem x → v.mem x) ∧
    (∀ b orders order v, (∀ m, m ∈ b.sis → NEa w m) → a.meetDS b orders order = .ok v → ∀ x, a.mem x → b.mem x → v.mem x) :=
  ⟨fun s order v hs h => (dsis_meetSI w hw a s order v hab ha hs h).2,
   fun b orders order v hb h => dsis_meetDS w hw a b orders order v hab ha hb h⟩

/-- `set // set`: the lifting of `udiv` (every per-pair call has its own recorded set order); division by zero exempt -/
theorem C23_dsis_udiv (w : Nat) (a : DSIS) (bs : List SI) (orders : List (List Nat)) (order : List Nat) (v : Val)
    (ha : ∀ s, s ∈ a.sis → NE w s) (hb : ∀ t, t ∈ bs → NE w t)
    (h : a.udivSet bs orders order = .ok v) (x y : Nat) (hx : a.mem x) (hy : memL bs y) (hy0 : y ≠ 0) : v.mem (x / y) :=
  dsis_udiv w a bs orders order v ha hb h x y hx hy hy0

/-- `valueset + interval`, `- interval`, `% interval` are sound region by region -/
theorem C23_valueset_arith (w : Nat) (v v' : VS) (b : SI) (hv : ∀ p, p ∈ v.regions → NE w p.2) (hb : NE w b) (region : String)
    (x y : Nat) (hx : v.memAt region x) (hy : b.mem y) :
    (v.mapRegions (fun s => pure (s.add b)) = .ok v' → v'.memAt region ((x + y) % 2 ^ w)) ∧
    (v.mapRegions (fun s => pure (s.sub b)) = .ok v' → v'.memAt region ((x + 2 ^ w - y) % 2 ^ w)) ∧
    (v.mapRegions (fun s => s.mod b) = .ok v' → y ≠ 0 → v'.memAt region (x % y)) :=
  vs_arith w v v' b hv hb region x y hx hy

/-- full statement for `widen` of a set (`self.collapse().widen(b)`) -/
def C23_dsis_widen_full : Prop :=
  ∀ (w : Nat) (a : DSIS) (b : Val) (r : SI), Vok w (NE w) (.ds a) → Vok w (NE w) b → a.widen b = .ok r →
    ∀ x, (a.mem x ∨ b.mem x) → r.mem x

/-- it inherits the unsound interval `widen` (C22 findings): `{ {1} }.widen({0}) = {1}` at 1 bit -/
theorem dsis_widen_unsound : ¬ C23_dsis_widen_full := by
  intro h
  have := h 1 { bits := 1, sis := [SI.new 1 0 1 1] } (.si (SI.new 1 0 0 0)) (SI.new 1 0 1 1)
    ⟨rfl, fun t ht => by rw [List.mem_singleton] at ht; rw [ht]; exact ⟨by decide, by decide, by decide⟩⟩
    ⟨by decide, by decide, by decide⟩ (by decide) 0 (Or.inr (show (SI.new 1 0 0 0).mem 0 by decide))
  exact absurd this (by decide)

/-! ## value sets -/

/-- `union` of a value set with an interval / a value set, and `intersection` with an interval, region by region -/
theorem C23_valueset_union_meet (w : Nat) (v : VS) (region : String) (x : Nat) :
    (∀ b v', (∀ p, p ∈ v.regions → WFw w p.2) → WFw w b → v.unionSI b = .ok v' →
      (v.memAt region x ∨ ((∃ p, p ∈ v.regions ∧ p.1 = region) ∧ b.mem x)) → v'.memAt region x) ∧
    (∀ b r, (∀ q, q ∈ v.regions → WFw w q.2) → (∀ q, q ∈ b.regions → WFw w q.2) → v.unionVS b = .ok r →
      (v.memAt region x ∨ b.memAt region x) → r.memAt region x) ∧
    (∀ b v', (∀ p, p ∈ v.regions → NEa w p.2) → NEa w b → v.meetSI b = .ok v' → v.memAt region x → b.mem x →
      v'.memAt region x) :=
  ⟨fun b v' hv hb h hx => vs_unionSI w v v' b hv hb h region x hx,
   fun b r hv hb h hx => vs_unionVS w v b r hv hb h region x hx,
   fun b v' hv hb h hx hbx => vs_meetSI w v v' b hv hb h region x hx hbx⟩

/-- the intersection of two value sets keeps, region by region, every offset both operands hold (aligned normal intervals;
the keys of a dict are distinct; regions of `self` that the operand does not hold are kept by the code — an
over-approximation) -/
def C23_valueset_meetVS_full : Prop :=
  ∀ (w : Nat) (v b r : VS), (∀ p, p ∈ v.regions → NEa w p.2) → (∀ p, p ∈ b.regions → NEa w p.2) →
    (b.regions.map (·.1)).Nodup → v.meetVS b = .ok r →
    ∀ region x, v.memAt region x → b.memAt region x → r.memAt region x

theorem C23_valueset_meetVS : C23_valueset_meetVS_full :=
  fun w v b r hv hb hnd h region x hx hbx => vs_meetVS w v b r hv hb hnd h region x hx hbx

/-- non-vacuity: a set with a wrapping member, joined with / intersected by an interval; a value-set union -/
example : let a : DSIS := { bits := 4, sis := [SI.new 4 1 14 2, SI.new 4 2 6 8] }
    (∀ m, m ∈ a.sis → NEa 4 m) ∧ a.unionSI (SI.new 4 0 11 11) [0, 1, 2] = .ok (.ds { bits := 4, sis := [SI.new 4 1 14 2, SI.new 4 2 6 8, SI.new 4 0 11 11] }) ∧
    (∃ v, a.meetSI (SI.new 4 3 0 15) [0, 1] = .ok v ∧ v.mem 0 ∧ v.mem 6) := by
  refine ⟨?_, by decide, ⟨_, rfl, ?_, ?_⟩⟩
  · intro m hm
    simp only [List.mem_cons, List.mem_nil_iff, or_false] at hm
    rcases hm with h | h <;> subst h <;>
      exact ⟨⟨by decide, by decide, by decide⟩, nrm_new _ _ _ _ (by decide), by decide⟩
  · exact ⟨_, List.mem_cons_self, by decide⟩
  · exact ⟨_, List.mem_cons_of_mem _ List.mem_cons_self, by decide⟩

/-- non-vacuity / bounded sanity fact: `{ {1}, 2[0,2] } + {1}` at 2 bits is `{ {2}, 2[1,3] }` -/
theorem test_lift_example :
    (DSIS.lift2 (fun s t => pure (s.add t)) { bits := 2, sis := [SI.new 2 0 1 1, SI.new 2 2 0 2] } [SI.new 2 0 1 1] [0, 1])
      = .ok (.ds { bits := 2, sis := [SI.new 2 0 2 2, SI.new 2 2 1 3] }) := by decide

end Claripy.Props.C23
