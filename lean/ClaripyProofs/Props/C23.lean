import ClaripyProofs.Lemmas.VSA.Lift
import ClaripyProofs.Lemmas.VSA.SetQueries
import ClaripyProofs.Lemmas.VSA.Lub
import ClaripyProofs.Lemmas.VSA.AddSub
import Claripy.VSA.Conc
/-!
# C23 — discrete interval sets and region value sets are sound abstractions

The set-level operations of `DiscreteStridedIntervalSet` are `apply_on_each_si` liftings of the interval operations
followed by `normalize` (which may `collapse`).  The theorems below are *generic*: whatever interval operation is
sound on every pair of members (C21) is sound on sets, for every iteration order of the Python sets involved; the
join used by `collapse` enters as the hypothesis `JoinOK` (C22: `pseudo_join` contains both arguments).
For value sets the same holds region by region.
-/
namespace Claripy.Props.C23
open Claripy.VSA

/-- lifting of a binary operation (`__add__`, `__and__`, `__lshift__`, …) -/
theorem C23_lift2 (P : SI → Prop) (hJ : JoinOK P) (op : SI → SI → R SI) (f : Nat → Nat → Nat)
    (a : DSIS) (bs : List SI) (order : List Nat) (v : Val)
    (hop : ∀ s t r x y, s ∈ a.sis → t ∈ bs → s.mem x → t.mem y → op s t = .ok r → r.mem (f x y))
    (hPr : ∀ s t r, s ∈ a.sis → t ∈ bs → op s t = .ok r → P r)
    (h : a.lift2 op bs order = .ok v) (x y : Nat) (hx : a.mem x) (hy : memL bs y) : v.mem (f x y) :=
  lift2_sound P hJ op f a bs order v hop hPr h x y hx hy

/-- lifting of a unary operation (`__neg__`, `__invert__`, `zero_extend`, `sign_extend`, …) -/
theorem C23_lift1 (P : SI → Prop) (hJ : JoinOK P) (op : SI → R SI) (f : Nat → Nat)
    (a : DSIS) (order : List Nat) (v : Val)
    (hop : ∀ s r x, s ∈ a.sis → s.mem x → op s = .ok r → r.mem (f x))
    (hPr : ∀ s r, s ∈ a.sis → op s = .ok r → P r)
    (h : a.lift1 op order = .ok v) (x : Nat) (hx : a.mem x) : v.mem (f x) :=
  lift1_sound P hJ op f a order v hop hPr h x hx

/-- `collapse()` contains every member of the set -/
theorem C23_collapse (P : SI → Prop) (hJ : JoinOK P) (d : DSIS) (r : SI) (hP : ∀ s, s ∈ d.sis → P s)
    (h : d.collapse = .ok r) (x : Nat) (hx : d.mem x) : r.mem x :=
  collapse_sound P hJ d r hP h x hx

/-- `normalize()` (collapse above 256 values, unwrap a singleton set) keeps every member -/
theorem C23_normalize (P : SI → Prop) (hJ : JoinOK P) (d : DSIS) (v : Val) (hP : ∀ s, s ∈ d.sis → P s)
    (h : d.normalize = .ok v) (x : Nat) (hx : d.mem x) : v.mem x :=
  normalize_sound P hJ d v hP h x hx

/-- value sets: an operation with an interval operand is sound in every region separately -/
theorem C23_valueset_per_region (v v' : VS) (op : SI → R SI) (f : Nat → Nat)
    (hop : ∀ s r x, s.mem x → op s = .ok r → r.mem (f x))
    (h : v.mapRegions op = .ok v') (region : String) (x : Nat) (hx : v.memAt region x) : v'.memAt region (f x) :=
  mapRegions_sound v v' op f hop h region x hx

/-- an instance with the per-member theorem already proved: `+` on sets of intervals is sound (given `JoinOK`) -/
theorem C23_dsis_add_sound (hJ : JoinOK (fun s => s.WF)) (a : DSIS) (bs : List SI) (order : List Nat) (v : Val)
    (hwa : ∀ s, s ∈ a.sis → s.WF ∧ s.bits = a.bits) (hwb : ∀ t, t ∈ bs → t.WF ∧ t.bits = a.bits)
    (hPr : ∀ s t, s ∈ a.sis → t ∈ bs → (s.add t).WF)
    (h : a.lift2 (fun s t => pure (s.add t)) bs order = .ok v) (x y : Nat) (hx : a.mem x) (hy : memL bs y) :
    v.mem ((x + y) % 2 ^ a.bits) := by
  refine lift2_sound (fun s => s.WF) hJ (fun s t => pure (s.add t)) (fun x y => (x + y) % 2 ^ a.bits) a bs order v ?_ ?_ h x y hx hy
  · intro s t r x y hs ht hsx hty hr
    have hr' : r = s.add t := by cases hr; rfl
    subst hr'
    have := add_sound s t x y (by rw [(hwa s hs).2, (hwb t ht).2]) (hwa s hs).1 (hwb t ht).1 hsx hty
    rw [(hwa s hs).2] at this
    exact this
  · intro s t r hs ht hr
    have hr' : r = s.add t := by cases hr; rfl
    subst hr'
    exact hPr s t hs ht

/-! ### with the join obligation discharged (C22_pseudo_join_sup) -/

/-- `collapse()` contains every member — unconditionally, for sets of well-formed intervals of one width -/
theorem C23_collapse_sound (w : Nat) (d : DSIS) (r : SI) (hP : ∀ s, s ∈ d.sis → s.WF ∧ s.bits = w)
    (h : d.collapse = .ok r) (x : Nat) (hx : d.mem x) : r.mem x :=
  collapse_sound (WFw w) (joinOK w) d r hP h x hx

/-- `normalize()` keeps every member — unconditionally -/
theorem C23_normalize_sound (w : Nat) (d : DSIS) (v : Val) (hP : ∀ s, s ∈ d.sis → s.WF ∧ s.bits = w)
    (h : d.normalize = .ok v) (x : Nat) (hx : d.mem x) : v.mem x :=
  normalize_sound (WFw w) (joinOK w) d v hP h x hx

/-- `dsis + (dsis | interval)` is sound — unconditionally (add_sound + lifting + join) -/
theorem C23_dsis_add (a : DSIS) (bs : List SI) (order : List Nat) (v : Val)
    (hwa : ∀ s, s ∈ a.sis → s.WF ∧ s.bits = a.bits) (hwb : ∀ t, t ∈ bs → t.WF ∧ t.bits = a.bits)
    (hPr : ∀ s t, s ∈ a.sis → t ∈ bs → (s.add t).WF ∧ (s.add t).bits = a.bits)
    (h : a.lift2 (fun s t => pure (s.add t)) bs order = .ok v) (x y : Nat) (hx : a.mem x) (hy : memL bs y) :
    v.mem ((x + y) % 2 ^ a.bits) := by
  refine lift2_sound (WFw a.bits) (joinOK a.bits) (fun s t => pure (s.add t)) (fun x y => (x + y) % 2 ^ a.bits) a bs order v ?_ ?_ h x y hx hy
  · intro s t r x y hs ht hsx hty hr
    have hr' : r = s.add t := by cases hr; rfl
    subst hr'
    have := add_sound s t x y (by rw [(hwa s hs).2, (hwb t ht).2]) (hwa s hs).1 (hwb t ht).1 hsx hty
    rw [(hwa s hs).2] at this
    exact this
  · intro s t r hs ht hr
    have hr' : r = s.add t := by cases hr; rfl
    subst hr'
    exact hPr s t hs ht

/-- `min()` / `max()` of a discrete set (as repaired: taken over the members) bound every value of every member
interval, wrapping members included -/
theorem C23_dsis_min_max_bound (d : DSIS) (s : SI) (x : Nat) (hs : s ∈ d.sis) (hw : s.WF) (hx : s.mem x) :
    (∀ m, d.minQ false = .ok (some m) → m ≤ x) ∧ (∀ m, d.maxQ false = .ok (some m) → (x : Int) ≤ m) :=
  ⟨fun m h => dsis_min_le d m s x hs hw hx h, fun m h => dsis_le_max d m s x hs hw hx h⟩

/-- non-vacuity: `{ 1[14,2], 1[6,8] }` at 4 bits (a member that wraps around 0) -/
example : let d : DSIS := { bits := 4, sis := [SI.new 4 1 14 2, SI.new 4 1 6 8] }
    d.minQ false = .ok (some 0) ∧ d.maxQ false = .ok (some 15) ∧ (SI.new 4 1 14 2).mem 15 := by decide

/-- non-vacuity / bounded sanity fact: `{ {1}, 2[0,2] } + {1}` at 2 bits is `{ {2}, 2[1,3] }` -/
theorem test_lift_example :
    (DSIS.lift2 (fun s t => pure (s.add t)) { bits := 2, sis := [SI.new 2 0 1 1, SI.new 2 2 0 2] } [SI.new 2 0 1 1] [0, 1])
      = .ok (.ds { bits := 2, sis := [SI.new 2 0 2 2, SI.new 2 2 1 3] }) := by decide

end Claripy.Props.C23
