import ClaripyProofs.Lemmas.AST.RulesSound3
import ClaripyProofs.Lemmas.AST.FoldSound
import ClaripyProofs.Lemmas.AST.ACNormSoundB
import ClaripyProofs.Lemmas.AST.BitsSound
import ClaripyProofs.Lemmas.AST.CmpSound
import ClaripyProofs.Lemmas.AST.AndEqNeSound
import ClaripyProofs.Lemmas.AST.MinMaxSound
import ClaripyProofs.Lemmas.AST.Built
import Claripy.AST.RuleTies
/-!
# C01 — bit-vector and Boolean expressions mean exactly what the written operations say

What is proved here, for EVERY width, constant, sub-expression and assignment (no bound):

* `C01_rules_sound` — each of the 75 rewrite schemas of `Claripy.AST.R.all` (transcribed from
  claripy/simplifications.py and ast/bool.py:If; the correspondence check ties them to the code) replaces
  a well-typed node by a tree with the same SMT-LIB value.
* the bridge lemmas `Claripy.BV.*_spec` — the Python-int formulas of backend_concrete/bv.py used for eager
  folding compute Lean's `BitVec` (= SMT-LIB) operations.
* `C01_rewrite_step_sound`, `C01_congruence` — a rewrite may be applied at any position of a tree, and
  again to its own result ("again after any further operations"): denotation is a congruence.

`C01_full` is the complete statement for the whole constructor; the part not proved is named in
`C01_partial_scope` (DESIGN.md section 4/C01): simplifiers outside the table.
-/
namespace Claripy.Props.C01
open Claripy.AST

/-- Every schema of the rule table is sound (see `Claripy.AST.Sound`). -/
theorem C01_rules_sound : ∀ s ∈ R.all, Sound s := all_sound

/-! ### tables regenerated from claripy/simplifications.py on every run (`Claripy/Gen/SimpTables.lean`) -/

/-- the complement pairs are sound: `Not(a(x, y))` and `b(x, y)` have the same value, for all operands and assignments -/
theorem notPairs_sound : ∀ ab ∈ notPairs, ∀ (env : Env) (x y : Expr),
    eval env (.app .not [.app ab.1 [x, y]]) ≠ .err → eval env (.app ab.2 [x, y]) = eval env (.app .not [.app ab.1 [x, y]]) := by
  intro ab hab env x y hwt
  simp only [notPairs, List.mem_cons, List.mem_nil_iff, or_false] at hab
  rcases hab with h | h | h | h | h | h | h | h | h | h <;> subst h
  · exact not_eq_sound { x := x, y := y } env rfl hwt
  · exact not_ne_sound { x := x, y := y } env rfl hwt
  · exact not_slt_sound { x := x, y := y } env rfl hwt
  · exact not_sle_sound { x := x, y := y } env rfl hwt
  · exact not_sgt_sound { x := x, y := y } env rfl hwt
  · exact not_sge_sound { x := x, y := y } env rfl hwt
  · exact not_ult_sound { x := x, y := y } env rfl hwt
  · exact not_ule_sound { x := x, y := y } env rfl hwt
  · exact not_ugt_sound { x := x, y := y } env rfl hwt
  · exact not_uge_sound { x := x, y := y } env rfl hwt

/-- **every entry of the code's `boolean_not_simplifier` chain is a proven rewrite**: either `Not(Not(c)) ⇒ c`
(`N.not_not`) or one of the complement pairs of `notPairs_sound`.  The table is what the translator reads from the
source now; an entry the proofs do not cover makes this theorem fail. -/
theorem C01_not_table_proven : Claripy.Gen.SimpTables.notTable.all notEntryOK = true := by decide

/-- every operation the code lets `Extract` distribute over is one of the three for which that is proved
(`T5.extract_and/or/xor`, any number of operands) -/
theorem C01_extract_distributable_proven :
    Claripy.Gen.SimpTables.extractDistributable.all (fun s => (bitwiseOfPy s).isSome) = true := by decide

/-- every operation the code flattens is one whose flattening the AC certificate checks decide -/
theorem C01_flattenable_modelled :
    Claripy.Gen.SimpTables.flattenable.all (fun s => flattenModelled.contains s) = true := by decide

/-- no operation has a construction-time simplifier the model does not know of -/
theorem C01_simplifier_ops_modelled :
    Claripy.Gen.SimpTables.simplifierOps.all (fun s => simplifierOpsModelled.contains s) = true := by decide

/-- values produced by the denotation are canonical bit-vectors of positive width -/
theorem C01_eval_canonical (env : Env) (e : Expr) : (eval env e).WF := eval_wf env e

/-- Denotation is a congruence: a node depends on its arguments only through their values.  So replacing
any argument (at any depth, by induction) by an expression with the same value preserves the value. -/
theorem C01_congruence (env : Env) (op : Op) (as bs : List Expr)
    (h : evalList env as = evalList env bs) : eval env (.app op as) = eval env (.app op bs) := by
  simp [eval, h]

/-- One construction step: the node the caller wrote, `op(args)`, is replaced by the right-hand side of a
matching schema whose own constructor calls may again have been rewritten into anything of equal value
(`e'`): the result denotes what was written. -/
theorem C01_rewrite_step_sound (env : Env) (s : Schema) (hs : s ∈ R.all) (p : P) (e' : Expr)
    (hside : s.side p = true) (hwt : eval env (s.lhs p) ≠ .err)
    (hrec : eval env e' = eval env (s.rhs p)) : eval env e' = eval env (s.lhs p) := by
  rw [hrec]; exact all_sound s hs p env hside hwt

/-- **Eager folding computes the denotation**: whenever the folding model returns a value for a well-typed constant
node, that value is the SMT-LIB value of the node — at every width, for all constants, for EVERY operator of the fragment
(`Proven` is constantly true since the bridge lemmas for n-ary `Concat` and for `Reverse` — generic loop and the unrolled
16/32/64-bit formulas — were proved). -/
theorem C01_fold_sound (op : Op) (hp : Proven op = true) (vs : List CVal) (hwt : Claripy.Props.C04.WT op vs)
    (hvs : ∀ v ∈ vs, v.Canon) (c : CVal) (h : foldOp op vs = .ok c) : applyOp op (vs.map CVal.toVal) = c.toVal :=
  foldOp_sound op hp vs hwt hvs c h

/-- the same without the (now trivial) side condition -/
theorem C01_fold_sound_all (op : Op) (vs : List CVal) (hwt : Claripy.Props.C04.WT op vs)
    (hvs : ∀ v ∈ vs, v.Canon) (c : CVal) (h : foldOp op vs = .ok c) : applyOp op (vs.map CVal.toVal) = c.toVal :=
  foldOp_sound op (by cases op <;> rfl) vs hwt hvs c h

/-- Rewrites of the associative-commutative n-ary nodes (`__add__ __mul__ __and__ __or__ __xor__`: flattening of nested
nodes, any reordering, merging of literals, cancelling equal `__xor__` operands, dropping repeated `__and__`/`__or__`
operands — what `_flatten_simplifier` and its filters do): a rewrite accepted by the executable certificate check
`acEquiv` preserves the value of a well-typed node.  Every width, every number of operands, every nesting depth.
The correspondence check runs `acEquiv` on each such rewrite the real constructor performs. -/
theorem C01_ac_rewrite_sound (k : ACK) (w : Nat) (lhs rhs : Expr) (h : acEquiv k w lhs rhs = true) (env : Env) (n : Nat)
    (hl : eval env lhs = .bv w n) : eval env rhs = eval env lhs := acEquiv_sound k w lhs rhs h env n hl

/-- the same with the width the node reports (what the driver passes) -/
theorem C01_ac_rewrite_sound_width (k : ACK) (w : Nat) (lhs rhs : Expr) (hw : lhs.width = some w)
    (h : acEquiv k w lhs rhs = true) (env : Env) (w' n : Nat) (hl : eval env lhs = .bv w' n) :
    eval env rhs = eval env lhs := by
  have := Claripy.Props.C05.eval_width env lhs w' n hl
  rw [hw] at this
  cases this
  exact acEquiv_sound k w lhs rhs h env n hl

/-- Boolean `And` / `Or` nodes (boolean_and_simplifier / boolean_or_simplifier): flattening, dropping identity literals,
an absorbing literal deciding the node, dropping repeated operands, reordering — a rewrite accepted by `bcEquiv` preserves
the Boolean a well-typed node denotes.  Every number of operands and nesting depth. -/
theorem C01_bool_ac_rewrite_sound (k : BK) (lhs rhs : Expr) (h : bcEquiv k lhs rhs = true) (env : Env) (b : Bool)
    (hl : eval env lhs = .bool b) : eval env rhs = eval env lhs := bcEquiv_sound k lhs rhs h env b hl

example : bcEquiv .and (.app .and [.app .and [.bools "p", .boolv true], .app .and [.bools "q", .bools "p"]])
    (.app .and [.bools "p", .bools "q"]) = true := by decide
example : bcEquiv .or (.app .or [.bools "p", .boolv true, .bools "q"]) (.boolv true) = true := by decide
example : bcEquiv .and (.app .and [.bools "p", .bools "q"]) (.bools "p") = false := by decide

/-- Bit-rearranging rewrites (`Concat`, `Extract`, `ZeroExt`, `SignExt` over literals and arbitrary other terms: extract of
concat, extract of extract, concat of adjacent extracts, extract of an extension, …): a rewrite accepted by the bit-level
normal-form check `bitsEquiv` preserves the value of a well-typed expression.  Every width, every assignment. -/
theorem C01_bits_rewrite_sound (lhs rhs : Expr) (h : bitsEquiv lhs rhs = true) (env : Env) (w n : Nat)
    (hl : eval env lhs = .bv w n) : eval env rhs = eval env lhs := bitsEquiv_sound lhs rhs h env w n hl

example : bitsEquiv (.app (.extract 11 4) [.app .concat [.bvs "x" 8, .bvs "y" 8]])
    (.app .concat [.app (.extract 3 0) [.bvs "x" 8], .app (.extract 7 4) [.bvs "y" 8]]) = true := by decide
example : bitsEquiv (.app (.extract 7 0) [.app (.zeroExt 8) [.bvs "x" 8]]) (.bvs "x" 8) = true := by decide
example : bitsEquiv (.app (.extract 7 0) [.app .concat [.bvs "x" 8, .bvs "y" 8]]) (.bvs "x" 8) = false := by decide

/-- Comparison simplifiers on bit-vector (dis)equalities (masks, zero extensions, literal bit mismatches: `(x & 1) == 1 ⇒
x[0:0] == 1`, `ZeroExt(2, x) != c ⇒ x != c'`, `Concat(0, x) == c ⇒ false`): a rewrite accepted by the per-bit normal-form check
`cmpEquiv` preserves the truth value of a well-typed comparison.  Every width, every assignment. -/
theorem C01_cmp_rewrite_sound (lhs rhs : Expr) (h : cmpEquiv lhs rhs = true) (env : Env) (v : Bool)
    (hl : eval env lhs = .bool v) : eval env rhs = eval env lhs := cmpEquiv_sound lhs rhs h env v hl

example : cmpEquiv (.app .eq [.app .band [.bvs "x" 2, .bvv 1 2], .bvv 1 2]) (.app .eq [.app (.extract 0 0) [.bvs "x" 2], .bvv 1 1]) = true := by
  decide
example : cmpEquiv (.app .ne [.app .band [.bvs "x" 4, .bvv 3 4], .bvv 6 4]) (.boolv true) = true := by decide
example : cmpEquiv (.app .eq [.bvs "x" 4, .bvv 6 4]) (.app .eq [.bvs "x" 4, .bvv 7 4]) = false := by decide

/-- `And` of equalities / disequalities of ONE expression with literals (the tail of boolean_and_simplifier:
`x == 1 && x != 2 ⇒ x == 1`, `x == 1 && x == 3 ⇒ false`, `x == 1 && x != 1 ⇒ false`): a collapse accepted by `andEqNeAuto`
preserves the truth value of a well-typed conjunction, for every number of conjuncts and every width. -/
theorem C01_and_eq_ne_sound (lhs rhs : Expr) (h : andEqNeAuto lhs rhs = true) (env : Env) (v : Bool)
    (hl : eval env lhs = .bool v) : eval env rhs = eval env lhs := andEqNeAuto_sound lhs rhs h env v hl

example : andEqNeAuto (.app .and [.app .eq [.bvs "x" 8, .bvv 1 8], .app .ne [.bvs "x" 8, .bvv 2 8], .app .ne [.bvv 3 8, .bvs "x" 8]])
    (.app .eq [.bvs "x" 8, .bvv 1 8]) = true := by decide
example : andEqNeAuto (.app .and [.app .eq [.bvs "x" 8, .bvv 1 8], .app .eq [.bvs "x" 8, .bvv 3 8]]) (.boolv false) = true := by decide
example : andEqNeAuto (.app .and [.app .eq [.bvs "x" 8, .bvv 1 8], .app .ne [.bvs "x" 8, .bvv 2 8]]) (.boolv false) = false := by decide

/-- The branch-free signed min/max idiom (`bitwise_xor_simplifier_minmax`): `q ^ ((((((q - r) ^ q) & (q ^ r)) ^ (q - r)) >> (bits-1))
& (q ^ r))` is `If(q <=s r, r, q)`, and the mirrored form is the minimum — for every width, with the operands of every `^` and `&`
in either order.  A rewrite accepted by `minmaxEquiv` preserves the value of a well-typed idiom. -/
theorem C01_minmax_rewrite_sound (lhs rhs : Expr) (h : minmaxEquiv lhs rhs = true) (env : Env) (w n : Nat)
    (hl : eval env lhs = .bv w n) : eval env rhs = eval env lhs := minmaxEquiv_sound lhs rhs h env w n hl

/-- the two identities on `BitVec w` behind it -/
theorem C01_max_idiom {w : Nat} (x y : BitVec w) (hw : 0 < w) :
    x ^^^ ((BitVec.sshiftRight' ((((x - y) ^^^ x) &&& (x ^^^ y)) ^^^ (x - y)) (BitVec.ofNat w (w - 1))) &&& (x ^^^ y)) =
      if x.sle y then y else x := max_idiom x y hw
theorem C01_min_idiom {w : Nat} (x y : BitVec w) (hw : 0 < w) :
    x ^^^ ((BitVec.sshiftRight' ((((y - x) ^^^ y) &&& (x ^^^ y)) ^^^ (y - x)) (BitVec.ofNat w (w - 1))) &&& (x ^^^ y)) =
      if x.sle y then x else y := min_idiom x y hw

example : minmaxEquiv (maxCanon (.bvs "q" 8) (.bvs "r" 8) 8) (.app .ite [.app .sle [.bvs "q" 8, .bvs "r" 8], .bvs "r" 8, .bvs "q" 8]) = true := by
  decide
example : minmaxEquiv (maxCanon (.bvs "q" 8) (.bvs "r" 8) 8) (.app .ite [.app .sle [.bvs "q" 8, .bvs "r" 8], .bvs "q" 8, .bvs "r" 8]) = false := by
  decide

/-- the check is not vacuous: it accepts `(a ^ b) ^ (b ^ a) ⇒ 0` and `(a + 3) + (5 + b) ⇒ a + b + 8`, and rejects `a + b ⇒ a + c` -/
example : acEquiv .bxor 8 (.app .bxor [.app .bxor [.bvs "a" 8, .bvs "b" 8], .app .bxor [.bvs "b" 8, .bvs "a" 8]]) (.bvv 0 8) = true := by
  decide
example : acEquiv .add 8 (.app .add [.app .add [.bvs "a" 8, .bvv 3 8], .app .add [.bvv 5 8, .bvs "b" 8]])
    (.app .add [.bvs "a" 8, .bvs "b" 8, .bvv 8 8]) = true := by decide
example : acEquiv .add 8 (.app .add [.bvs "a" 8, .bvs "b" 8]) (.app .add [.bvs "a" 8, .bvs "c" 8]) = false := by decide

/-- One justified step at the root of a node whose operands are already built (`Claripy.AST.Direct`: keep the node, fold it,
rewrite it by a schema, or rewrite it in a way a certificate check accepts) preserves the value of a well-typed node. -/
theorem C01_direct_sound {t r : Expr} (h : Direct t r) (env : Env) (hwt : eval env t ≠ .err) : eval env r = eval env t :=
  Direct_sound h env hwt

/-- **C01, the constructor as a whole.**  `Built t r`: `r` is obtained from the written tree `t` bottom-up, every node being
kept, folded, or rewritten by a justified step, and the tree a rewrite writes down being itself built by the constructors —
re-entrantly, to any depth, any number of times ("again after any further operations").  Whatever is built this way denotes
what was written, under every assignment.  The correspondence check establishes, for every node construction of every
generated tree, that the real constructor's result is explained by such a step (the ~1% it cannot explain are counted in the
evidence). -/
theorem C01_built_sound (env : Env) {t r : Expr} (h : Built t r) (hwt : eval env t ≠ .err) : eval env r = eval env t :=
  Built_sound env h hwt

/-- The complete property for an arbitrary constructor function: `build` returns only what `Built` allows.  For such a
constructor the property is `C01_built_sound`; that the real constructor is one is what the correspondence samples. -/
def C01_full (build : Expr → Option Expr) : Prop :=
  ∀ (t e : Expr) (env : Env), build t = some e → eval env t ≠ .err → eval env e = eval env t

theorem C01_full_of_built (build : Expr → Option Expr) (h : ∀ t e, build t = some e → Built t e) : C01_full build :=
  fun t e env hb hwt => Built_sound env (h t e hb) hwt

/-- non-vacuity: `(x + 0#8) ^ (x + 0#8)`… a two-level derivation: the inner node is rewritten by a schema, the outer by another -/
example : Built (.app .bxor [.app .sub [.bvs "x" 8, .bvv 0 8], .bvs "x" 8]) (.bvv 0 8) := by
  refine .node .bxor _ [.bvs "x" 8, .bvs "x" 8] (.bvv 0 8) _ ?_ ?_ (.refl _)
  · refine .cons _ _ _ _ ?_ (.cons _ _ _ _ (.refl _) .nil)
    exact .node .sub _ [.bvs "x" 8, .bvv 0 8] (.bvs "x" 8) _ (.cons _ _ _ _ (.refl _) (.cons _ _ _ _ (.refl _) .nil))
      (Direct.schema R.sub_zero { x := .bvs "x" 8, w := 8 } (by simp [R.all, R.base]) rfl) (.refl _)
  · exact Direct.schema R.xor_self { x := .bvs "x" 8, w := 8 } (by simp [R.all, R.widthy]) (by decide)

/-- Non-vacuity: the nested-shift schema applies to a concrete well-typed node, and its side condition is
exactly what rules out the wrap-around that the unrepaired code got wrong. -/
example : R.shl_shl.side { x := .bvs "x" 8, c1 := 3, c2 := 2, w := 8 } = true := by decide
example : R.shl_shl.side { x := .bvs "x" 8, c1 := 255, c2 := 1, w := 8 } = false := by decide

/-- The unguarded nested-shift rewrite (the code before the `fix:` commit) is NOT sound: witness
`(x << 255) << 1` on 8 bits at `x = 1` (value 0) against `x << ((255 + 1) mod 256) = x` (value 1). -/
theorem C01_shl_shl_unguarded_unsound :
    ¬ Sound { R.shl_shl with side := fun _ => true } := by
  intro h
  have := h { x := .bvs "x" 8, c1 := 255, c2 := 1, w := 8 } { bv := fun _ => 1, bool := fun _ => false } rfl
    (by decide)
  revert this
  decide

end Claripy.Props.C01
