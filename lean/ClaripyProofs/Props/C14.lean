import ClaripyProofs.Lemmas.Solver.World
import ClaripyProofs.Lemmas.Solver.L1
/-!
# C14 — branches of a solver are isolated from each other

World model (Claripy/Solver/Stack.lean): a list of frontend records and a heap of Z3 solver objects; `branch`
copies the record field by field as the `_copy` chain of the class does (sharing the Z3 object reference, both
sides finalized).  Frontends interact only through the heap.
-/
namespace Claripy.Props.C14
open Claripy.Solver

/-- Whatever call is made on frontend `i` (adds, queries, simplify, downsize, branch), the record of every other
frontend — constraints, cached models, exhausted flags, cached satness, `_to_add`, … — is exactly what it was. -/
theorem C14_records_isolated (E : Env) (cls : SolverClass) (w : World) (i : Nat) (op : Op) (j : Nat)
    (hj : j ≠ i) (hlt : j < w.fes.length) :
    (step E cls w i op).2.fes[j]? = w.fes[j]? :=
  step_other_frontends E cls w i op j hj hlt

/-- The L1 algorithms leave every other Z3 object alone and restore the frames of the one they use — also when the
backend gives up — so a solver object shared by finalized branches looks the same to all of them after any query. -/
theorem C14_batch_eval_balanced {E : Env} (hE : OracleExact E) {hook : PModel → M Unit} {A : List ZCon}
    {P : Frontend → Prop} (hh : HookOk hook A P) (r : Nat) (exprs : List Exp) (n : Nat) (extra : List ZCon) (s : St)
    (hr : r < s.objs.length) (hne : (objAt s r).frames ≠ []) (hA : ∀ c ∈ A, c ∈ (objAt s r).asserted) :
    let s' := (z3BatchEval E r exprs n extra hook s).2
    (objAt s' r).frames = (objAt s r).frames ∧ ∀ i, i ≠ r → s'.objs[i]? = s.objs[i]? := by
  have h := z3BatchEval_spec hE hh r exprs n extra s hr hne hA
  rcases hx : z3BatchEval E r exprs n extra hook s with ⟨res, s'⟩
  rw [hx] at h
  cases res with
  | error e => exact ⟨h.2.2, h.2.1.other⟩
  | ok ts => exact ⟨h.2.2.2.2.2, h.2.2.2.2.1.other⟩

end Claripy.Props.C14
