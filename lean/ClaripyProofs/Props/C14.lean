import ClaripyProofs.Lemmas.Solver.World
import ClaripyProofs.Lemmas.Solver.L1
import ClaripyProofs.Lemmas.Solver.CachelessHistory
/-!
# C14 — branches of a solver are isolated from each other

World model (Claripy/Solver/Stack.lean): a list of frontend records and a heap of Z3 solver objects; `branch`
copies the record field by field as the `_copy` chain of the class does (sharing the Z3 object reference, both
sides finalized).  Frontends interact only through the heap.
-/
namespace Claripy.Props.C14
open Claripy.Solver

/-- Whatever call is made on frontend `i` (adds, queries, simplify, downsize, branch), the record of every other
frontend — constraints, cached models, exhausted flags, cached satness, `_to_add`, … — is exactly what it was. -/
theorem C14_records_isolated (E : Env) (cls : SolverClass) (w : World) (i : Nat) (op : Op) (j : Nat)
    (hj : j ≠ i) (hlt : j < w.fes.length) :
    (step E cls w i op).2.fes[j]? = w.fes[j]? :=
  step_other_frontends E cls w i op j hj hlt

/-- The L1 algorithms leave every other Z3 object alone and restore the frames of the one they use — also when the
backend gives up — so a solver object shared by finalized branches looks the same to all of them after any query. -/
theorem C14_batch_eval_balanced {E : Env} (hE : OracleExact E) {hook : PModel → M Unit} {A : List ZCon}
    {P : Frontend → Prop} (hh : HookOk hook A P) (r : Nat) (exprs : List Exp) (n : Nat) (extra : List ZCon) (s : St)
    (hr : r < s.objs.length) (hne : (objAt s r).frames ≠ []) (hA : ∀ c ∈ A, c ∈ (objAt s r).asserted) :
    let s' := (z3BatchEval E r exprs n extra hook s).2
    (objAt s' r).frames = (objAt s r).frames ∧ ∀ i, i ≠ r → s'.objs[i]? = s.objs[i]? := by
  have h := z3BatchEval_spec hE hh r exprs n extra s hr hne hA
  rcases hx : z3BatchEval E r exprs n extra hook s with ⟨res, s'⟩
  rw [hx] at h
  cases res with
  | error e => exact ⟨h.2.2, h.2.1.other⟩
  | ok ts => exact ⟨h.2.2.2.2.2, h.2.2.2.2.1.other⟩

/-! ### SolverCacheless: branch isolation for whole histories -/

/-- **Branches are isolated.** On a tree of branched `SolverCacheless` solvers (the copies made by `branch` refer to the
parent's Z3 object), after ANY interleaving of add / queries / simplify / downsize / branch on any of them, every answer of
every solver is one the property statement allows for THAT solver's own constraints — what it inherited at `branch` plus what
was added to it; nothing added to a sibling, parent or child afterwards shows. -/
theorem C14_cacheless_tree_isolated {E : Env} {R : Con → Prop} (hR : Reg R E) (hE : OracleExact E)
    (hS : SimpOn R E) (hT : CheapSound E) (hist : List (Nat × Op)) (hok : HistOk R 1 hist) :
    ∀ x ∈ runHist E .SolverCacheless (World.init false false) [[]] hist,
      x.2.2 ≠ .err .giveUp → Judge x.1 x.2.1 x.2.2 :=
  cl_hist hR hE hS hT hist _ _ (tinv_init R) hok

/-- the heap discipline behind it: a Z3 object that two frontends refer to is referred to by finalized frontends only (a
finalized frontend with pending constraints clones before asserting), and every frontend's object asserts, with what is
pending, exactly that frontend's constraints -/
theorem C14_shared_objects_finalized {R : Con → Prop} {Us : List (List Con)} {w : World} (hw : TInv R Us w)
    (i j r : Nat) (hi : i < w.fes.length) (hj : j < w.fes.length) (hij : i ≠ j)
    (hri : (w.fes.getD i {}).solver = some r) (hrj : (w.fes.getD j {}).solver = some r) :
    (w.fes.getD i {}).finalized = true ∧ (w.fes.getD j {}).finalized = true :=
  ⟨hw.share i j r hi hj hij hri hrj, hw.share j i r hj hi (Ne.symm hij) hrj hri⟩

/-- every call keeps the discipline -/
theorem C14_step_keeps_discipline {E : Env} {R : Con → Prop} (hR : Reg R E) (hE : OracleExact E) (hS : SimpOn R E)
    (hT : CheapSound E) (w : World) (Us : List (List Con)) (hw : TInv R Us w) (i : Nat) (hi : i < w.fes.length)
    (op : Op) (hop : InScope R op) : TInv R (usersAll Us i op) (step E .SolverCacheless w i op).2 :=
  (cl_step hR hE hS hT w Us hw i hi op hop).2

/-- a query on one frontend leaves the assertion frames of every Z3 object alone that another frontend may refer to -/
theorem C14_query_leaves_foreign_frames {s s' : St} (h : QStep s s') (i : Nat) (hi : i < s.objs.length)
    (hp : s.fe.solver = some i → s.fe.finalized = true) : (objAt s' i).frames = (objAt s i).frames :=
  h.foreign i hi hp

end Claripy.Props.C14
