import ClaripyProofs.Lemmas.Solver.World
import ClaripyProofs.Lemmas.Solver.L1
import ClaripyProofs.Lemmas.Solver.CachelessHistory
import ClaripyProofs.Lemmas.Solver.SolverReach
/-!
# C14 — branches of a solver are isolated from each other

World model (Claripy/Solver/Stack.lean): a list of frontend records and a heap of Z3 solver objects; `branch`
copies the record field by field as the `_copy` chain of the class does (sharing the Z3 object reference, both
sides finalized).  Frontends interact only through the heap.
-/
namespace Claripy.Props.C14
open Claripy.Solver

/-- Whatever call is made on frontend `i` (adds, queries, simplify, downsize, branch), the record of every other
frontend — constraints, cached models, exhausted flags, cached satness, `_to_add`, … — is exactly what it was. -/
theorem C14_records_isolated (E : Env) (cls : SolverClass) (w : World) (i : Nat) (op : Op) (j : Nat)
    (hj : j ≠ i) (hlt : j < w.fes.length) :
    (step E cls w i op).2.fes[j]? = w.fes[j]? :=
  step_other_frontends E cls w i op j hj hlt

/-- The L1 algorithms leave every other Z3 object alone and restore the frames of the one they use — also when the
backend gives up — so a solver object shared by finalized branches looks the same to all of them after any query. -/
theorem C14_batch_eval_balanced {E : Env} (hE : OracleExact E) {hook : PModel → M Unit} {A : List ZCon}
    {P : Frontend → Prop} (hh : HookOk hook A P) (r : Nat) (exprs : List Exp) (n : Nat) (extra : List ZCon) (s : St)
    (hr : r < s.objs.length) (hne : (objAt s r).frames ≠ []) (hA : ∀ c ∈ A, c ∈ (objAt s r).asserted) :
    let s' := (z3BatchEval E r exprs n extra hook s).2
    (objAt s' r).frames = (objAt s r).frames ∧ ∀ i, i ≠ r → s'.objs[i]? = s.objs[i]? := by
  have h := z3BatchEval_spec hE hh r exprs n extra s hr hne hA
  rcases hx : z3BatchEval E r exprs n extra hook s with ⟨res, s'⟩
  rw [hx] at h
  cases res with
  | error e => exact ⟨h.2.2, h.2.1.other⟩
  | ok ts => exact ⟨h.2.2.2.2.2, h.2.2.2.2.1.other⟩

/-! ### SolverCacheless: branch isolation for whole histories -/

/-- **Branches are isolated.** On a tree of branched `SolverCacheless` solvers (the copies made by `branch` refer to the
parent's Z3 object), after ANY interleaving of add / queries / simplify / downsize / branch on any of them, every answer of
every solver is one the property statement allows for THAT solver's own constraints — what it inherited at `branch` plus what
was added to it; nothing added to a sibling, parent or child afterwards shows. -/
theorem C14_cacheless_tree_isolated {E : Env} {R : Con → Prop} (hR : Reg R E) (hE : OracleExact E)
    (hS : SimpOn R E) (hT : CheapSound E) (hist : List (Nat × Op)) (hok : HistOk R 1 hist) :
    ∀ x ∈ runHist E .SolverCacheless (World.init false false) [[]] hist,
      x.2.2 ≠ .err .giveUp → Judge x.1 x.2.1 x.2.2 :=
  cl_hist hR hE hS hT hist _ _ (tinv_init R) hok

/-- the heap discipline behind it: a Z3 object that two frontends refer to is referred to by finalized frontends only (a
finalized frontend with pending constraints clones before asserting), and every frontend's object asserts, with what is
pending, exactly that frontend's constraints -/
theorem C14_shared_objects_finalized {R : Con → Prop} {Us : List (List Con)} {w : World} (hw : TInv R Us w)
    (i j r : Nat) (hi : i < w.fes.length) (hj : j < w.fes.length) (hij : i ≠ j)
    (hri : (w.fes.getD i {}).solver = some r) (hrj : (w.fes.getD j {}).solver = some r) :
    (w.fes.getD i {}).finalized = true ∧ (w.fes.getD j {}).finalized = true :=
  ⟨hw.share i j r hi hj hij hri hrj, hw.share j i r hj hi (Ne.symm hij) hrj hri⟩

/-- every call keeps the discipline -/
theorem C14_step_keeps_discipline {E : Env} {R : Con → Prop} (hR : Reg R E) (hE : OracleExact E) (hS : SimpOn R E)
    (hT : CheapSound E) (w : World) (Us : List (List Con)) (hw : TInv R Us w) (i : Nat) (hi : i < w.fes.length)
    (op : Op) (hop : InScope R op) : TInv R (usersAll Us i op) (step E .SolverCacheless w i op).2 :=
  (cl_step hR hE hS hT w Us hw i hi op hop).2

/-- a query on one frontend leaves the assertion frames of every Z3 object alone that another frontend may refer to -/
theorem C14_query_leaves_foreign_frames {s s' : St} (h : QStep s s') (i : Nat) (hi : i < s.objs.length)
    (hp : s.fe.solver = some i → s.fe.finalized = true) : (objAt s' i).frames = (objAt s i).frames :=
  h.foreign i hi hp

/-! ### the caching class `Solver`: branch isolation for whole histories

The copy `branch` makes of a `Solver` inherits, besides the constraint list and the reference to the Z3 object, every cache of
its parent: the cached models, the five exhausted tables, the cached satisfiability verdict, the deduplication hashes.  What
keeps the branches apart is the world invariant `TInvS` of `C11_solver_refines`: each frontend satisfies `SI = BInv ∧ MCInv ∧
SCInv` for ITS OWN user's constraints, and a Z3 object two frontends refer to is referred to by finalized frontends only. -/

variable {E : Env} {R : Con → Prop} {RE : Exp → Prop}

/-- **Branches of a caching `Solver` are isolated.** On a tree of branched `Solver`s (tracked or not), after ANY interleaving of
add / satisfiable / eval / batch_eval / min / max / solution / is_true / is_false / simplify / downsize / branch / pickle round
trips on any of them, every answer of every solver is one the property statement allows for THAT solver's own constraints —
what it inherited at `branch` plus what was added to it; nothing added to (or cached by) a sibling, parent or child afterwards
shows. -/
theorem C14_solver_tree_isolated (H : SolverHyps R RE E) (track : Bool) (hist : List (Nat × Op))
    (hok : HistOkS R RE 1 hist) :
    ∀ x ∈ runHist E .Solver (World.init track false) [[]] hist, x.2.2 ≠ .err .giveUp → Judge x.1 x.2.1 x.2.2 :=
  sol_hist H hist _ _ (tinvS_init R RE E track) hok

/-- the same statement as a frame rule, from ANY world of the tree (`TInvS`): a call `op` on solver `i`
  (1) leaves the record of every other solver `j` exactly as it was,
  (2) leaves the constraint list solver `j` is judged by exactly as it was, and
  (3) whatever is done afterwards (any history `rest` in scope, on any of the solvers), every answer of every solver is allowed
      for that solver's own constraints, or is an honest give-up. -/
theorem C14_solver_op_isolated (H : SolverHyps R RE E) (w : World) (Us : List (List Con)) (hw : TInvS R RE E Us w)
    (i : Nat) (hi : i < w.fes.length) (op : Op) (hop : InScopeS R RE op) :
    (∀ j, j ≠ i → j < w.fes.length → (step E .Solver w i op).2.fes[j]? = w.fes[j]?) ∧
    (∀ j, j ≠ i → j < w.fes.length → (usersAll Us i op).getD j [] = Us.getD j []) ∧
    ∀ rest, HistOkS R RE (nAfter w.fes.length op) rest →
      ∀ x ∈ runHist E .Solver (step E .Solver w i op).2 (usersAll Us i op) rest, JudgeOrGiveUp E x.1 x.2.1 x.2.2 := by
  refine ⟨fun j hj hlt => step_other_frontends E .Solver w i op j hj hlt,
    fun j hj hlt => usersAll_other Us i op j hj (by rw [hw.len]; exact hlt), fun rest hrest => ?_⟩
  refine sol_hist_giveup H rest _ _ (sol_step H w Us hw i hi op hop).2 ?_
  rw [sol_step_length H w Us hw i hi op hop]
  exact hrest

/-- … in particular the very next question to another solver `j` of the tree — whatever `op` did to solver `i`: added
constraints, filled or invalidated caches, simplified, replaced or dropped its Z3 object, gave up — is answered for the
constraints `j` had before `op` -/
theorem C14_solver_sibling_unaffected (H : SolverHyps R RE E) (w : World) (Us : List (List Con))
    (hw : TInvS R RE E Us w) (i : Nat) (hi : i < w.fes.length) (op : Op) (hop : InScopeS R RE op)
    (j : Nat) (hj : j < w.fes.length) (hji : j ≠ i) (q : Op) (hq : InScopeS R RE q) :
    JudgeOrGiveUp E (usersAfter (Us.getD j []) q) q (step E .Solver (step E .Solver w i op).2 j q).1 := by
  have h1 := sol_step H w Us hw i hi op hop
  have hl := sol_step_length H w Us hw i hi op hop
  have hj' : j < (step E .Solver w i op).2.fes.length := by
    rw [hl]; cases op <;> simp only [nAfter] <;> omega
  have h2 := (sol_step H _ _ h1.2 j hj' q hq).1
  rwa [usersAll_other Us i op j hji (by rw [hw.len]; exact hj)] at h2

/-- from a fresh solver: after any history `h1`, any call `op` on solver `i` and any further history `h2`, every answer given
during `h2` (by `i`, by its branches, by any other solver of the tree) is allowed for the constraints of the solver asked -/
theorem C14_solver_later_answers (H : SolverHyps R RE E) (track : Bool) (h1 : List (Nat × Op)) (i : Nat) (op : Op)
    (h2 : List (Nat × Op)) (hok : HistOkS R RE 1 (h1 ++ (i, op) :: h2)) :
    ∀ x ∈ runHist E .Solver (worldAfter E .Solver (World.init track false) (h1 ++ [(i, op)]))
        (usersAfterHist [[]] (h1 ++ [(i, op)])) h2, JudgeOrGiveUp E x.1 x.2.1 x.2.2 := by
  have hok' : HistOkS R RE 1 ((h1 ++ [(i, op)]) ++ h2) := by simpa using hok
  obtain ⟨hA, hB⟩ := histOkS_append.mp hok'
  obtain ⟨hw, hlen⟩ := sol_reach H (h1 ++ [(i, op)]) _ _ (tinvS_init R RE E track) hA
  refine sol_hist_giveup H h2 _ _ hw ?_
  rw [hlen]
  exact hB

/-- the heap discipline behind it, for the caching class: a Z3 object two frontends refer to is referred to by finalized
frontends only (so neither asserts into it: a finalized frontend with pending constraints takes a clone, or a fresh object when
it tracks) -/
theorem C14_solver_shared_objects_finalized {Us : List (List Con)} {w : World} (hw : TInvS R RE E Us w)
    (i j r : Nat) (hi : i < w.fes.length) (hj : j < w.fes.length) (hij : i ≠ j)
    (hri : (w.fes.getD i {}).solver = some r) (hrj : (w.fes.getD j {}).solver = some r) :
    (w.fes.getD i {}).finalized = true ∧ (w.fes.getD j {}).finalized = true :=
  ⟨hw.share i j r hi hj hij hri hrj, hw.share j i r hj hi (Ne.symm hij) hrj hri⟩

/-- every call keeps the discipline and every frontend's own invariant (caches included) -/
theorem C14_solver_step_keeps_discipline (H : SolverHyps R RE E) (w : World) (Us : List (List Con))
    (hw : TInvS R RE E Us w) (i : Nat) (hi : i < w.fes.length) (op : Op) (hop : InScopeS R RE op) :
    TInvS R RE E (usersAll Us i op) (step E .Solver w i op).2 :=
  (sol_step H w Us hw i hi op hop).2

/-- non-vacuity: the hypotheses hold in the consistent environment of C11 (`cHyps`), for a history that constrains, caches an
optimum, branches, enumerates in the child, adds on the child, asks the parent again, pickles, … -/
example : ∀ x ∈ runHist cEnv .Solver (World.init false false) [[]] cHist,
    x.2.2 ≠ .err .giveUp → Judge x.1 x.2.1 x.2.2 :=
  C14_solver_tree_isolated cHyps false cHist cHist_ok

/-- non-vacuity of the frame rule: after the first five calls of that history (two solvers alive: 0 and its branch 1), an `add`
on the branch, then a question to the parent -/
example : JudgeOrGiveUp cEnv (usersAfter ((usersAfterHist [[]] (cHist.take 5)).getD 0 []) (.eval cExp 10 [])) (.eval cExp 10 [])
    (step cEnv .Solver (step cEnv .Solver (worldAfter cEnv .Solver (World.init false false) (cHist.take 5)) 1 (.add [cCon])).2 0
      (.eval cExp 10 [])).1 := by
  have hok : HistOkS cR cRE 1 (cHist.take 5 ++ cHist.drop 5) := by rw [List.take_append_drop]; exact cHist_ok
  obtain ⟨hw, hlen⟩ := sol_reach cHyps (cHist.take 5) _ _ (tinvS_init cR cRE cEnv false) (histOkS_append.mp hok).1
  have h2 : (worldAfter cEnv .Solver (World.init false false) (cHist.take 5)).fes.length = 2 := hlen
  exact C14_solver_sibling_unaffected cHyps _ _ hw 1 (by omega) (.add [cCon])
    (by intro c hc; simp only [List.mem_singleton] at hc; subst hc; exact Or.inr (Or.inl rfl)) 0 (by omega) (by omega)
    (.eval cExp 10 []) ⟨rfl, by omega, by simp⟩

end Claripy.Props.C14
