import Claripy.VSA.Conc
import ClaripyProofs.Lemmas.VSA.AddSub
import ClaripyProofs.Lemmas.VSA.Cmp
import ClaripyProofs.Lemmas.VSA.NotExt
import ClaripyProofs.Lemmas.VSA.ShiftSound
import ClaripyProofs.Lemmas.VSA.Signed
import ClaripyProofs.Lemmas.VSA.Extract
import ClaripyProofs.Lemmas.VSA.SextSound
import ClaripyProofs.Lemmas.VSA.AndXor
import ClaripyProofs.Lemmas.VSA.ConcatSound
import ClaripyProofs.Lemmas.VSA.AshrSound
import ClaripyProofs.Lemmas.VSA.MeetFinal
import ClaripyProofs.Lemmas.VSA.MulTop
import ClaripyProofs.Lemmas.VSA.ModSound
import ClaripyProofs.Lemmas.VSA.AlignedConcat
import ClaripyProofs.Lemmas.VSA.ModFull4
/-!
# C21 — strided-interval transfer functions are sound

Shape of every statement: `mem x a → mem y b → op♯ a b = ok r → mem (op x y) r`, for ALL widths, with the decidable
well-formedness predicate `SI.WF` (what `normalize` establishes) as hypothesis.  Where the statement is false on
the code, its negation is proved with a concrete witness (replayed on the real code by the check) and the
guarded version is kept.  `test_…` facts are bounded and not counted as theorems.
-/
namespace Claripy.Props.C21
open Claripy.VSA

/-- soundness of a binary transfer function under a guard on the operands -/
def SoundBin (conc : Nat → Nat → Nat → Nat) (op : SI → SI → R SI) (guard : SI → SI → Prop) : Prop :=
  ∀ (a b r : SI) (x y : Nat), a.WF → b.WF → a.bits = b.bits → guard a b → a.mem x → b.mem y →
    op a b = .ok r → r.mem (conc a.bits x y)

def noGuard : SI → SI → Prop := fun _ _ => True
def bothAligned : SI → SI → Prop := fun a b => a.Aligned ∧ b.Aligned

/-! ## add -/

/-- `add` is sound for all well-formed operands of all widths (no alignment needed). -/
theorem C21_add_sound : SoundBin Conc.add (fun a b => pure (a.add b)) noGuard := by
  intro a b r x y ha hb hbits _ hx hy hr
  have : r = a.add b := by cases hr; rfl
  subst this
  exact add_sound a b x y hbits ha hb hx hy

/-- non-vacuity: a wrapping, strided instance of the hypotheses -/
example : (SI.new 8 3 250 4).WF ∧ (SI.new 8 2 1 7).WF ∧ (SI.new 8 3 250 4).mem 0 ∧ (SI.new 8 2 1 7).mem 5 ∧
    ((SI.new 8 3 250 4).add (SI.new 8 2 1 7)).mem 5 := by decide

/-- closure of `add` -/
theorem C21_add_closed (a b : SI) (ha : a.WF) (hb : b.WF) (hbits : a.bits = b.bits) :
    (a.add b).WF ∧ (a.add b).bits = a.bits := add_WF a b ha hb hbits

/-! ## sub, neg -/

/-- `sub` is sound for all well-formed operands (also when the subtrahend's upper bound is not a member: since the
repair the result is anchored at its last member) -/
theorem C21_sub_sound : SoundBin Conc.sub (fun a b => pure (a.sub b)) noGuard := by
  intro a b r x y ha hb hbits _ hx hy hr
  have : r = a.sub b := by cases hr; rfl
  subst this
  have hyl : y < 2 ^ a.bits := by rw [hbits]; exact hy.2.1
  have := sub_sound a b x y hbits ha hb hx hy
  unfold Conc.sub
  rw [Nat.mod_eq_of_lt hyl]
  have e : x + (2 ^ a.bits - y) = x + 2 ^ a.bits - y := by omega
  rw [e]; exact this

theorem C21_sub_closed (a b : SI) (ha : a.WF) (hb : b.WF) (hbits : a.bits = b.bits) :
    (a.sub b).WF ∧ (a.sub b).bits = a.bits := sub_WF a b ha hb hbits

/-- `neg()` and (since the repair) unary minus are sound and closed -/
theorem C21_neg_sound (a : SI) (x : Nat) (ha : a.WF) (hx : a.mem x) :
    (a.neg.WF ∧ a.neg.bits = a.bits) ∧ a.neg.mem (Conc.neg a.bits x) := by
  refine ⟨neg_WF a ha, ?_⟩
  unfold Conc.neg
  rw [Nat.mod_eq_of_lt hx.2.1]
  exact neg_sound a x ha hx

/-- non-vacuity: an unaligned, wrapping subtrahend -/
example : (SI.new 4 3 1 9).WF ∧ ({ bits := 4, stride := 5, lb := 14, ub := 6 } : SI).WF ∧ (SI.new 4 3 1 9).mem 7 ∧
    ({ bits := 4, stride := 5, lb := 14, ub := 6 } : SI).mem 3 ∧
    ((SI.new 4 3 1 9).sub { bits := 4, stride := 5, lb := 14, ub := 6 }).mem 4 := by decide

/-! ## bitwise not, zero extension, unsigned orderings -/

/-- `bitwise_not` is sound and closed -/
theorem C21_not_sound (a r : SI) (ha : a.WF) (hnb : a.bottom = false) (h : a.bitwiseNot = .ok r) :
    (r.WF ∧ r.bits = a.bits) ∧ ∀ x, a.mem x → r.mem (Conc.not a.bits x) := by
  obtain ⟨h1, h2⟩ := not_sound a r ha hnb h
  refine ⟨h1, ?_⟩
  intro x hx
  unfold Conc.not
  rw [Nat.mod_eq_of_lt hx.2.1]
  exact h2 x hx

/-- `zero_extend` is sound and closed (wrapping operands included since the repair) -/
theorem C21_zext_sound (a r : SI) (nl : Nat) (ha : a.WF) (hnb : a.bottom = false) (hnl : a.bits ≤ nl)
    (h : a.zeroExtend nl = .ok r) : (r.WF ∧ r.bits = nl) ∧ ∀ x, a.mem x → r.mem (Conc.zext a.bits nl x) :=
  zext_sound a r nl ha hnb hnl h

/-- `ULT`, `ULE`, `UGT`, `UGE`: the BoolResult admits every truth value that occurs -/
theorem C21_ucmp_sound (op : CmpOp) (hop : op = .ult ∨ op = .ule ∨ op = .ugt ∨ op = .uge) (a b : AV) (br : BoolRes)
    (ha : a.si.WF) (hb : b.si.WF) (h : applyCmp op a b = .ok br) (x y : Nat) (hx : a.si.mem x) (hy : b.si.mem y) :
    br.has (concCmp op a.si.bits x y) = true :=
  ucmp_sound op hop a b br ha hb h x y hx hy

/-- `SLT`, `SLE`, `SGT`, `SGE`: the BoolResult admits every truth value that occurs.  The operands are in the form the
constructor returns (`renorm` is the identity on them: a full circle is written `[0, 2^w - 1]`), which is the only form
Python can hold; `new_renorm` shows every constructed interval has it. -/
theorem C21_scmp_sound (op : CmpOp) (hop : op = .slt ∨ op = .sle ∨ op = .sgt ∨ op = .sge) (a b : AV) (br : BoolRes)
    (ha : a.si.WF) (hb : b.si.WF) (hbits : a.si.bits = b.si.bits) (hna : a.si.renorm = a.si) (hnb : b.si.renorm = b.si)
    (h : applyCmp op a b = .ok br) (x y : Nat) (hx : a.si.mem x) (hy : b.si.mem y) :
    br.has (concCmp op a.si.bits x y) = true :=
  scmp_sound op hop a b br ha hb hbits hna hnb h x y hx hy

/-- non-vacuity: an interval that straddles both poles against one in the negative half -/
example : (SI.new 4 3 6 1).WF ∧ (SI.new 4 3 6 1).renorm = SI.new 4 3 6 1 ∧ (SI.new 4 3 6 1).mem 12 ∧ (SI.new 4 2 9 13).mem 11 ∧
    (SI.new 4 3 6 1).signedBounds = .ok [(6, 6), (-7, 1)] ∧
    (SI.new 4 3 6 1).SLT (SI.new 4 2 9 13) = .ok .m := by decide

/-- non-vacuity: a wrapping interval with a stride that does not divide 2^w -/
example : (SI.new 3 3 6 4).WF ∧ (SI.new 3 3 6 4).mem 1 ∧ (SI.new 3 3 6 4).bitwiseNot = .ok (SI.new 3 3 3 1) ∧
    (SI.new 3 3 3 1).mem 6 ∧ (SI.new 3 3 6 4).zeroExtend 5 = .ok (SI.new 5 1 1 6) := by decide

/-! ## unsigned division, logical right shift, left shift (interval shift amounts) -/

/-- `udiv` is sound and closed for every iteration order of its set of partial results (division by zero excluded on the
concrete side: SMT-LIB gives all-ones there and claripy raises) -/
theorem C21_udiv_sound (a b r : SI) (order : List Nat) (ha : a.WF) (hb : b.WF) (hbits : a.bits = b.bits)
    (hab : a.bottom = false) (hbb : b.bottom = false) (h : a.udiv b order = .ok r) :
    (r.WF ∧ r.bits = a.bits) ∧ ∀ x y, a.mem x → b.mem y → y ≠ 0 → r.mem (Conc.udiv a.bits x y) :=
  udiv_sound a b r order ha hb hbits hab hbb h

/-- `rshift_logical` with an interval shift amount (any width of the amount, wrapping amounts included) -/
theorem C21_lshr_sound (a amt r : SI) (ha : a.WF) (hab : a.bottom = false) (hamt : amt.WF) (h : a.rshiftLogical amt = .ok r) :
    (r.WF ∧ r.bits = a.bits) ∧ ∀ x y, a.mem x → amt.mem y → r.mem (Conc.lshr a.bits x y) :=
  lshr_sound a amt r ha hab hamt h

/-- `lshift` with an interval shift amount -/
theorem C21_shl_sound (a amt r : SI) (ha : a.WF) (hab : a.bottom = false) (hamt : amt.WF) (h : a.lshift amt = .ok r) :
    (r.WF ∧ r.bits = a.bits) ∧ ∀ x y, a.mem x → amt.mem y → r.mem (Conc.shl a.bits x y) :=
  shl_sound a amt r ha hab hamt h

/-- `cast_low(tok)`: the low `tok` bits of every member (all six branches of the code) -/
theorem C21_cast_low_sound (a r : SI) (tok : Nat) (ha : a.WF) (ht : 0 < tok) (h : a.castLow tok = .ok r) :
    (r.WF ∧ r.bits = tok) ∧ ∀ x, a.mem x → r.mem (x % 2 ^ tok) :=
  castLow_sound a r tok ha ht h

/-- `extract(high, low)` = logical right shift by `low`, then `cast_low` -/
theorem C21_extract_sound (a r : SI) (hi lo : Nat) (ha : a.WF) (hab : a.bottom = false) (hlo : lo ≤ hi) (hhi : hi < a.bits)
    (h : a.extract hi lo = .ok r) :
    (r.WF ∧ r.bits = hi + 1 - lo) ∧ ∀ x, a.mem x → r.mem (Conc.extract hi lo x) :=
  extract_sound a r hi lo ha hab hlo hhi h

/-- `sign_extend` (all three routes: zero extension when every member is non-negative, shifted copy when every member is
negative, north-pole split otherwise); operand in the form the constructor returns -/
theorem C21_sext_sound (a r : SI) (nl : Nat) (ha : a.WF) (hab : a.bottom = false) (hn : a.renorm = a) (hnl : a.bits ≤ nl)
    (h : a.signExtend nl = .ok r) :
    (r.WF ∧ r.bits = nl) ∧ ∀ x, a.mem x → r.mem (Conc.sext a.bits nl x) :=
  sext_sound a r nl ha hab hn hnl h

/-- non-vacuity: an interval with members of both signs (the split route), and one with negative members only -/
example : (SI.new 3 3 6 4).mem 1 ∧ (SI.new 3 3 6 4).mem 6 ∧ (∃ r, (SI.new 3 3 6 4).signExtend 5 = .ok r ∧ r.mem 1 ∧ r.mem 30) ∧
    (∃ r, (SI.new 3 1 5 6).signExtend 5 = .ok r ∧ r.mem 29 ∧ ¬ r.mem 5) := by
  refine ⟨by decide, by decide, ⟨_, rfl, by decide, by decide⟩, ⟨_, rfl, by decide, by decide⟩⟩

/-- non-vacuity: bits 2..1 of a wrapping interval with an odd stride -/
example : (SI.new 4 3 13 3).mem 13 ∧ (∃ r, (SI.new 4 3 13 3).extract 2 1 = .ok r ∧ r.mem 2 ∧ r.bits = 2) := by
  refine ⟨by decide, _, rfl, by decide, by decide⟩

/-- non-vacuity: a wrapping strided operand shifted by the amounts {1, 2}; a wrapping dividend -/
example : (SI.new 4 3 13 3).WF ∧ (SI.new 4 1 1 2).WF ∧ (SI.new 4 3 13 3).mem 0 ∧ (SI.new 4 1 1 2).mem 2 ∧
    (∃ r, (SI.new 4 3 13 3).rshiftLogical (SI.new 4 1 1 2) = .ok r ∧ r.mem 3) ∧
    (∃ r, (SI.new 4 3 13 3).lshift (SI.new 4 1 1 2) = .ok r ∧ r.mem 4) ∧
    (∃ r, (SI.new 4 3 13 3).udiv (SI.new 4 1 1 2) [0, 1] = .ok r ∧ r.mem 6) := by
  refine ⟨by decide, by decide, by decide, by decide, ⟨_, rfl, by decide⟩, ⟨_, rfl, by decide⟩, ⟨_, rfl, by decide⟩⟩

/-! ## bitwise or / and / xor (Warren's `min_or`/`max_or` on the part above the common trailing zeros of the strides) -/

/-- `bitwise_or` is sound and closed: wrapping, strided and unaligned operands included -/
theorem C21_or_sound (a b r : SI) (ha : a.WF) (hb : b.WF) (hbits : a.bits = b.bits) (hab : a.bottom = false)
    (hbb : b.bottom = false) (h : a.bitwiseOr b = .ok r) :
    (r.WF ∧ r.bits = a.bits) ∧ ∀ x y, a.mem x → b.mem y → r.mem (Conc.or a.bits x y) :=
  or_sound a b r ha hb hbits hab hbb h

/-- Warren's bounds as the code computes them: `min_or ≤ x | y ≤ max_or` over the box `a ≤ x ≤ b`, `c ≤ y ≤ d` -/
theorem C21_warren_bounds (a b c d w x y : Nat) (hax : a ≤ x) (hxb : x ≤ b) (hcy : c ≤ y) (hyd : y ≤ d)
    (hb : b < 2 ^ w) (hd : d < 2 ^ w) : minOr a b c d w ≤ x ||| y ∧ x ||| y ≤ maxOr a b c d w :=
  ⟨minOr_le a b c d w x y hax hxb hcy hyd hb hd, le_maxOr a b c d w x y hax hxb hcy hyd hb hd⟩

/-- `bitwise_and` (sign-bit shortcut, then De Morgan through `bitwise_or`) is sound and closed; operands in the form the
constructor returns (the shortcut splits at the north pole) -/
theorem C21_and_sound (a b r : SI) (ha : a.WF) (hb : b.WF) (hbits : a.bits = b.bits) (hab : a.bottom = false)
    (hbb : b.bottom = false) (hna : a.renorm = a) (hnb : b.renorm = b) (h : a.bitwiseAnd b = .ok r) :
    (r.WF ∧ r.bits = a.bits) ∧ ∀ x y, a.mem x → b.mem y → r.mem (Conc.and a.bits x y) :=
  let g := and_sound a b r ha hb hbits hab hbb hna hnb h
  ⟨g.1.1, g.2⟩

/-- `bitwise_xor` = `(x & ~y) | (~x & y)` through `bitwise_or`/`bitwise_not` is sound and closed -/
theorem C21_xor_sound (a b r : SI) (ha : a.WF) (hb : b.WF) (hbits : a.bits = b.bits) (hab : a.bottom = false)
    (hbb : b.bottom = false) (h : a.bitwiseXor b = .ok r) :
    (r.WF ∧ r.bits = a.bits) ∧ ∀ x y, a.mem x → b.mem y → r.mem (Conc.xor a.bits x y) :=
  let g := xor_sound a b r ha hb hbits hab hbb h
  ⟨g.1.1, g.2⟩

/-- non-vacuity: a wrapping operand with an odd stride against a strided one; the sign-bit shortcut of `and` -/
example : (SI.new 4 3 13 3).WF ∧ (SI.new 4 2 1 7).WF ∧ (SI.new 4 3 13 3).mem 0 ∧ (SI.new 4 2 1 7).mem 5 ∧
    (∃ r, (SI.new 4 3 13 3).bitwiseOr (SI.new 4 2 1 7) = .ok r ∧ r.mem 5 ∧ r.mem (3 ||| 7)) ∧
    (∃ r, (SI.new 4 3 13 3).bitwiseAnd (SI.new 4 2 1 7) = .ok r ∧ r.mem (3 &&& 7)) ∧
    (∃ r, (SI.new 4 3 13 3).bitwiseXor (SI.new 4 2 1 7) = .ok r ∧ r.mem (13 ^^^ 3)) ∧
    (∃ r, (SI.new 4 0 8 8).bitwiseAnd (SI.new 4 3 13 3) = .ok r ∧ r.mem 8 ∧ r.mem 0) := by
  refine ⟨by decide, by decide, by decide, by decide, ⟨_, rfl, by decide, by decide⟩, ⟨_, rfl, by decide⟩,
    ⟨_, rfl, by decide⟩, ⟨_, rfl, by decide, by decide⟩⟩

/-! ## concat (widen, `_lshift`, zero-extend, then `bitwise_or` — or plain addition when the high part is one value) -/

/-- `concat` is sound and closed; wrapping operands on either side included.  The integer shortcut adds the bounds of
the zero-extended low operand to the shifted high value without reducing them: `zeroExtend_bounds` shows they stay below
`2^b.bits`, so the sums stay below `2^(a.bits + b.bits)`. -/
theorem C21_concat_sound (a b r : SI) (ha : a.WF) (hb : b.WF) (hab : a.bottom = false) (hbb : b.bottom = false)
    (h : a.concat b = .ok r) :
    (r.WF ∧ r.bits = a.bits + b.bits) ∧ ∀ x y, a.mem x → b.mem y → r.mem (Conc.concat b.bits x y) :=
  let g := concat_sound a b r ha hb hab hbb h
  ⟨g.1.1, g.2⟩

/-- non-vacuity: a wrapping high operand, a wrapping low operand below a single high value -/
example : (SI.new 3 3 6 4).WF ∧ (SI.new 2 1 3 1).WF ∧ (SI.new 3 3 6 4).mem 1 ∧ (SI.new 2 1 3 1).mem 0 ∧
    (∃ r, (SI.new 3 3 6 4).concat (SI.new 2 1 3 1) = .ok r ∧ r.mem (Conc.concat 2 1 0) ∧ r.bits = 5) ∧
    (∃ r, (SI.new 3 0 5 5).concat (SI.new 2 1 3 1) = .ok r ∧ r.mem (Conc.concat 2 5 3) ∧ r.mem 20 ∧ ¬ r.mem 24) := by
  refine ⟨by decide, by decide, by decide, by decide, ⟨_, rfl, by decide, by decide⟩, ⟨_, rfl, by decide, by decide, by decide⟩⟩

/-! ## arithmetic right shift (`_psplit`, then the logical shift plus the sign mask in the upper half) -/

/-- `rshift_arithmetic` with an interval shift amount is sound and closed; operand in the form the constructor returns
(the split at the north pole needs it) -/
theorem C21_ashr_sound (a amt r : SI) (ha : a.WF) (hab : a.bottom = false) (hna : a.renorm = a) (hamt : amt.WF)
    (h : a.rshiftArith amt = .ok r) :
    (r.WF ∧ r.bits = a.bits) ∧ ∀ x y, a.mem x → amt.mem y → r.mem (Conc.ashr a.bits x y) :=
  ashr_sound a amt r ha hab hna hamt h

/-- non-vacuity: an operand straddling both poles, shifted by the amounts {1, 2} -/
example : (SI.new 4 3 6 1).WF ∧ (SI.new 4 3 6 1).renorm = SI.new 4 3 6 1 ∧ (SI.new 4 3 6 1).mem 12 ∧ (SI.new 4 1 1 2).mem 2 ∧
    Conc.ashr 4 12 2 = 15 ∧ (∃ r, (SI.new 4 3 6 1).rshiftArith (SI.new 4 1 1 2) = .ok r ∧ r.mem 15 ∧ r.mem 3) := by
  refine ⟨by decide, by decide, by decide, by decide, by decide, ⟨_, rfl, by decide, by decide⟩⟩

/-! ## eq / ne — through the meet; sound on aligned operands, false without the guard (finding C21-eq-unaligned) -/

/-- full statement: the verdict of `eq` admits the truth value of `x = y` for all members -/
def C21_eq_full : Prop :=
  ∀ (a b : SI) (br : BoolRes) (x y : Nat), a.WF → b.WF → a.bits = b.bits → a.mem x → b.mem y → a.eq b = .ok br →
    br.has (decide (x = y)) = true

/-- `2[2,3]` and `3[2,0]` both are `{2}` at 2 bits, `eq` answers False (the meet loses the common member) -/
theorem eq_unaligned_unsound : ¬ C21_eq_full := by
  intro h
  have := h { bits := 2, stride := 2, lb := 2, ub := 3 } { bits := 2, stride := 3, lb := 2, ub := 0 } .f 2 2
    (by decide) (by decide) (by decide) (by decide) (by decide) (by decide)
  exact absurd this (by decide)

/-- **`eq` is sound on aligned operands** (in the form the constructor returns): the verdict admits the truth value of
`x = y` for all members `x`, `y`; `ne` is its complement -/
theorem C21_eq_sound (a b : SI) (br : BoolRes) (x y : Nat) (ha : a.WF) (hb : b.WF) (hbits : a.bits = b.bits)
    (hal : a.Aligned ∧ b.Aligned) (hna : a.renorm = a) (hnb : b.renorm = b) (hx : a.mem x) (hy : b.mem y)
    (h : a.eq b = .ok br) : br.has (decide (x = y)) = true ∧ br.not.has (decide (x ≠ y)) = true := by
  have key : br.has (decide (x = y)) = true := by
    unfold SI.eq at h
    by_cases hint : (a.isInteger && b.isInteger) = true
    · rw [if_pos hint] at h
      have hi : a.lb = a.ub ∧ b.lb = b.ub := by simpa [SI.isInteger] using hint
      have ex := mem_integer a x ha hi.1 hx
      have ey := mem_integer b y hb hi.2 hy
      have := pure_ok' h
      subst this
      by_cases hl : a.lb = b.lb
      · have : x = y := by omega
        simp [hl, this, BoolRes.has, BoolRes.hasTrue]
      · have : x ≠ y := by omega
        simp [hl, this, BoolRes.has, BoolRes.hasFalse]
    · rw [if_neg hint] at h
      obtain ⟨m, hm, h⟩ := bind_ok' h
      have := pure_ok' h
      subst this
      by_cases hbot : m.bottom = true
      · rw [if_pos hbot]
        have : x ≠ y := by
          intro hxy
          subst hxy
          have := (meet_sound a.bits a b m ⟨ha, rfl⟩ ⟨hb, hbits.symm⟩ hx.1 hy.1 hal.1 hal.2 hna hnb hm).2 x hx hy
          rw [this.1] at hbot; cases hbot
        simp [this, BoolRes.has, BoolRes.hasFalse]
      · rw [if_neg hbot]; exact has_of_m _
  refine ⟨key, ?_⟩
  have := brNot_has br _ key
  simpa using this

/-- non-vacuity: overlapping aligned operands (Maybe), disjoint residues (False) -/
example : (SI.new 4 3 11 4).eq (SI.new 4 2 4 12) = .ok .m ∧ (SI.new 4 2 1 7).eq (SI.new 4 2 4 12) = .ok .f ∧
    (SI.new 4 3 11 4).Aligned ∧ (SI.new 4 2 4 12).Aligned := by decide

/-! ## sdiv — false on the code (floor instead of truncation), finding C21-sdiv-floor -/

/-- full statement: `sdiv` is sound w.r.t. SMT-LIB `bvsdiv` for every iteration order of its result set -/
def C21_sdiv_full : Prop :=
  ∀ order, SoundBin Conc.sdiv (fun a b => a.sdiv b order) (fun _ b => ¬ b.mem 0)

/-- `1 /s -2 = 0` at 2 bits, but `sdiv {1} {2} = {3}` (floor division). -/
theorem sdiv_unsound : ¬ C21_sdiv_full := by
  intro h
  have := h [0] (SI.new 2 0 1 1) (SI.new 2 0 2 2) (SI.new 2 0 3 3) 1 2
    (by decide) (by decide) (by decide) (by decide) (by decide) (by decide) (by decide)
  exact absurd this (by decide)

/-! ## mul — false for operands whose upper bound is not a member, finding C21-mul-unaligned -/

def C21_mul_full : Prop := SoundBin Conc.mul SI.mul noGuard

/-- `2 * 0 = 0`, but `mul {2} 2[0,1]` is empty (`2[0,1]` is `{0}`; its upper bound 1 is not a member). -/
theorem mul_unaligned_unsound : ¬ C21_mul_full := by
  intro h
  have := h (SI.new 2 0 2 2) { bits := 2, stride := 2, lb := 0, ub := 1 } (SI.empty 2) 2 0
    (by decide) (by decide) (by decide) trivial (by decide) (by decide) (by decide)
  exact absurd this (by decide)

/-- aligned operands in the form the constructor returns -/
def alignedNormal : SI → SI → Prop := fun a b => a.Aligned ∧ b.Aligned ∧ a.renorm = a ∧ b.renorm = b

/-- **`mul` is sound on aligned operands** for every width: per pair of pieces of `_psplit` the unsigned and the signed
partial product are aligned intervals that contain the product (`umul_piece`, `smul_piece`), so their meet does
(`multiMeet_sound`); the partial results are joined (`lub_sup`) -/
theorem C21_mul_aligned : SoundBin Conc.mul SI.mul alignedNormal := by
  intro a b r x y ha hb hbits hg hx hy h
  obtain ⟨hA, hB, nA, nB⟩ := hg
  exact (mul_sound a.bits a b r ⟨ha, rfl⟩ ⟨hb, hbits.symm⟩ hx.1 hy.1 hA hB nA nB h).2 x y hx hy

/-- closure of `mul` on such operands -/
theorem C21_mul_closed (a b r : SI) (ha : a.WF) (hb : b.WF) (hbits : a.bits = b.bits) (hab : a.bottom = false)
    (hbb : b.bottom = false) (hg : alignedNormal a b) (h : a.mul b = .ok r) : r.WF ∧ r.bits = a.bits :=
  (mul_sound a.bits a b r ⟨ha, rfl⟩ ⟨hb, hbits.symm⟩ hab hbb hg.1 hg.2.1 hg.2.2.1 hg.2.2.2 h).1

/-- non-vacuity: operands of both signs, one wrapping -/
example : alignedNormal (SI.new 4 3 13 6) (SI.new 4 2 1 7) ∧ (SI.new 4 3 13 6).mem 3 ∧ (SI.new 4 2 1 7).mem 5 ∧
    (∃ r, (SI.new 4 3 13 6).mul (SI.new 4 2 1 7) = .ok r ∧ r.mem (Conc.mul 4 3 5) ∧ r.mem (Conc.mul 4 13 7)) := by
  refine ⟨by unfold alignedNormal; decide, by decide, by decide, ⟨_, rfl, by decide, by decide⟩⟩

/-! ## mod (unsigned remainder) — through `udiv` of the pieces, `mul` and `sub`; any divisor -/

/-- full statement: `__mod__` is sound for all well-formed operands (division by zero exempt: claripy raises there) -/
def C21_mod_full : Prop :=
  ∀ (a b r : SI) (x y : Nat), a.WF → b.WF → a.bits = b.bits → a.mem x → b.mem y → y ≠ 0 → a.mod b = .ok r →
    r.mem (Conc.urem a.bits x y)

/-- **`__mod__` is sound and closed for EVERY divisor**, aligned or not (`Lemmas/VSA/ModFull{1,2,3,4}.lean`).  Per pair of
non-wrapping pieces either the quotients are one value `k` and the remainder is `p - k*t` (`mul` on `{k}` and the divisor's
piece), or the remainder is below the divisor's upper bound.  For an aligned piece `t` the general `mul_sound` applies; for an
unaligned one: `k·t.ub ≤ p.lb` (no overflow) and a non-zero member below `t.ub` force `k < 2^(w-1)`, the unsigned and the signed
partial product of `{k}` with a piece `t'` of `t` are then the SAME interval `(k·stride)[k·lb, k·ub]` (`umul_single_eq`,
`smul_single_eq`), and the meet of a non-wrapping interval with itself keeps every member whether it is aligned or not
(`multiMeet_self`, through `meet_call`: `_is_surrounded` branch, first common member = lower bound); all partial results are well
formed whatever the alignment (`multiMeet_WF`, `umul_single_WF`, `smul_single_WF`). -/
theorem C21_mod_sound (a b r : SI) (ha : a.WF) (hb : b.WF) (hbits : a.bits = b.bits) (hab : a.bottom = false)
    (hbb : b.bottom = false) (h : a.mod b = .ok r) :
    (r.WF ∧ r.bits = a.bits) ∧ ∀ x y, a.mem x → b.mem y → y ≠ 0 → r.mem (Conc.urem a.bits x y) :=
  let g := mod_sound_full a.bits a b r ⟨ha, rfl⟩ ⟨hb, hbits.symm⟩ hab hbb h
  ⟨g.1.1, g.2⟩

/-- the full statement holds -/
theorem C21_mod_full_holds : C21_mod_full := by
  intro a b r x y ha hb hbits hx hy hy0 h
  exact (C21_mod_sound a b r ha hb hbits hx.1 hy.1 h).2 x y hx hy hy0

/-- (the earlier partial result: divisor aligned — now a special case of `C21_mod_sound`) -/
theorem C21_mod_sound_partial (a b r : SI) (ha : a.WF) (hb : b.WF) (hbits : a.bits = b.bits) (hab : a.bottom = false)
    (hbb : b.bottom = false) (_hal : b.Aligned) (h : a.mod b = .ok r) :
    (r.WF ∧ r.bits = a.bits) ∧ ∀ x y, a.mem x → b.mem y → y ≠ 0 → r.mem (Conc.urem a.bits x y) :=
  C21_mod_sound a b r ha hb hbits hab hbb h

/-- non-vacuity: an UNALIGNED divisor `3[2,7]` (= {2, 5}) at 4 bits -/
example : ¬ ({ bits := 4, stride := 3, lb := 2, ub := 7 } : SI).Aligned ∧ (SI.new 4 3 13 6).mem 3 ∧
    ({ bits := 4, stride := 3, lb := 2, ub := 7 } : SI).mem 5 ∧
    (∃ r, (SI.new 4 3 13 6).mod { bits := 4, stride := 3, lb := 2, ub := 7 } = .ok r ∧ r.mem (Conc.urem 4 3 5) ∧
      r.mem (Conc.urem 4 13 2)) := by
  refine ⟨by decide, by decide, by decide, ⟨_, rfl, by decide, by decide⟩⟩

/-- non-vacuity: a wrapping dividend, a divisor interval -/
example : (SI.new 4 3 13 6).mem 3 ∧ (SI.new 4 2 3 7).mem 5 ∧ (SI.new 4 2 3 7).Aligned ∧
    (∃ r, (SI.new 4 3 13 6).mod (SI.new 4 2 3 7) = .ok r ∧ r.mem (Conc.urem 4 3 5) ∧ r.mem (Conc.urem 4 13 7)) := by
  refine ⟨by decide, by decide, by decide, ⟨_, rfl, by decide, by decide⟩⟩

/-! ## alignment (the upper bound is a member) is preserved by every transfer function

`mul`, `eq`/`ne` and `mod` are sound on ALIGNED operands only.  The theorems below show that alignment is an invariant of the
whole operation set of the backend: the result of every operation on aligned, non-empty, well-formed operands (in
constructor-normal form where the operation splits at the north pole) is aligned; `neg`, `not`, `and`, `xor`, `udiv` return
aligned intervals whatever the operands are, `sub` and `mod` only need the left operand aligned.  Technique: a non-empty interval
is aligned iff its upper bound is a member (`aligned_of_mem_ub`), and the upper bound of a result is the image of members of
the operands, so alignment of the result is the SOUNDNESS theorem at one point; joins of pieces by `lub_aligned`.  On the real
code: exhaustive at widths ≤ 3, sampled at 4–5 — the only operation of the class that breaks alignment is `widen` (C22). -/

theorem C21_add_aligned (a b : SI) (ha : a.WF) (hb : b.WF) (hbits : a.bits = b.bits) (hab : a.bottom = false)
    (hbb : b.bottom = false) (ala : a.Aligned) (alb : b.Aligned) : (a.add b).Aligned :=
  add_aligned a b ha hb hbits hab hbb ala alb

/-- the subtrahend need not be aligned -/
theorem C21_sub_aligned (a b : SI) (ha : a.WF) (hb : b.WF) (hbits : a.bits = b.bits) (hab : a.bottom = false)
    (hbb : b.bottom = false) (ala : a.Aligned) : (a.sub b).Aligned :=
  sub_aligned a b ha hb hbits hab hbb ala

/-- `neg` and `bitwise_not` return aligned intervals whatever the operand -/
theorem C21_neg_not_aligned (a : SI) (ha : a.WF) (hab : a.bottom = false) :
    a.neg.Aligned ∧ ∀ r, a.bitwiseNot = .ok r → r.Aligned :=
  ⟨neg_aligned a ha hab, fun r h => not_aligned a r ha hab h⟩

theorem C21_or_aligned (a b r : SI) (ha : a.WF) (hb : b.WF) (hbits : a.bits = b.bits) (hab : a.bottom = false)
    (hbb : b.bottom = false) (ala : a.Aligned) (alb : b.Aligned) (h : a.bitwiseOr b = .ok r) : r.Aligned :=
  or_aligned a b r ha hb hbits hab hbb ala alb h

/-- `bitwise_and`, `bitwise_xor` return aligned intervals whatever the operands -/
theorem C21_and_xor_aligned (a b r : SI) (ha : a.WF) (hb : b.WF) (hbits : a.bits = b.bits) (hab : a.bottom = false)
    (hbb : b.bottom = false) : (a.bitwiseAnd b = .ok r → r.Aligned) ∧ (a.bitwiseXor b = .ok r → r.Aligned) :=
  ⟨and_aligned a b r ha hb hbits hab hbb, xor_aligned a b r ha hb hbits hab hbb⟩

theorem C21_mul_result_aligned (a b r : SI) (ha : a.WF) (hb : b.WF) (hbits : a.bits = b.bits) (hab : a.bottom = false)
    (hbb : b.bottom = false) (hg : alignedNormal a b) (h : a.mul b = .ok r) : r.Aligned :=
  mul_aligned a.bits a b r ⟨ha, rfl⟩ ⟨hb, hbits.symm⟩ hab hbb hg.1 hg.2.1 hg.2.2.1 hg.2.2.2 h

/-- `udiv` returns an aligned interval whatever the operands and the iteration order of its result set -/
theorem C21_udiv_aligned (a b r : SI) (order : List Nat) (ha : a.WF) (hb : b.WF) (hbits : a.bits = b.bits)
    (hab : a.bottom = false) (hbb : b.bottom = false) (h : a.udiv b order = .ok r) : r.Aligned :=
  udiv_aligned a b r order ha hb hbits hab hbb h

theorem C21_mod_aligned (a b r : SI) (ha : a.WF) (hb : b.WF) (hbits : a.bits = b.bits) (hab : a.bottom = false)
    (hbb : b.bottom = false) (ala : a.Aligned) (alb : b.Aligned) (h : a.mod b = .ok r) : r.Aligned :=
  mod_aligned a.bits a b r ⟨ha, rfl⟩ ⟨hb, hbits.symm⟩ hab hbb ala alb h

/-- the three shifts by interval amounts (the amount may be anything) -/
theorem C21_shift_aligned (a amt r : SI) (ha : a.WF) (hab : a.bottom = false) (ala : a.Aligned) :
    (a.lshift amt = .ok r → r.Aligned) ∧ (a.rshiftLogical amt = .ok r → r.Aligned) ∧
    (a.renorm = a → a.rshiftArith amt = .ok r → r.Aligned) :=
  ⟨shl_aligned a amt r ha hab ala, lshr_aligned a amt r ha hab ala, fun hn => ashr_aligned a amt r ha hab hn ala⟩

theorem C21_cast_low_aligned (a r : SI) (tok : Nat) (ha : a.WF) (hab : a.bottom = false) (ht : 0 < tok) (ala : a.Aligned)
    (h : a.castLow tok = .ok r) : r.Aligned := castLow_aligned a r tok ha hab ht ala h

theorem C21_extract_aligned (a r : SI) (hi lo : Nat) (ha : a.WF) (hab : a.bottom = false) (hlo : lo ≤ hi) (hhi : hi < a.bits)
    (ala : a.Aligned) (h : a.extract hi lo = .ok r) : r.Aligned := extract_aligned a r hi lo ha hab hlo hhi ala h

theorem C21_ext_aligned (a r : SI) (nl : Nat) (ha : a.WF) (hab : a.bottom = false) (hnl : a.bits ≤ nl) (ala : a.Aligned) :
    (a.zeroExtend nl = .ok r → r.Aligned) ∧ (a.renorm = a → a.signExtend nl = .ok r → r.Aligned) :=
  ⟨zext_aligned a r nl ha hab hnl ala, fun hn => sext_aligned a r nl ha hab hn hnl ala⟩

theorem C21_concat_aligned (a b r : SI) (ha : a.WF) (hb : b.WF) (hab : a.bottom = false) (hbb : b.bottom = false)
    (ala : a.Aligned) (alb : b.Aligned) (h : a.concat b = .ok r) : r.Aligned :=
  concat_aligned a b r ha hb hab hbb ala alb h

/-- non-vacuity: aligned wrapping operands with odd strides; results computed by the model -/
example : (SI.new 4 3 13 6).Aligned ∧ (SI.new 4 5 1 11).Aligned ∧ ((SI.new 4 3 13 6).add (SI.new 4 5 1 11)).Aligned ∧
    (∃ r, (SI.new 4 3 13 6).bitwiseOr (SI.new 4 5 1 11) = .ok r ∧ r.Aligned) ∧
    (∃ r, (SI.new 4 3 13 6).mul (SI.new 4 5 1 11) = .ok r ∧ r.Aligned) ∧
    (∃ r, (SI.new 4 3 13 6).concat (SI.new 4 5 1 11) = .ok r ∧ r.Aligned) ∧
    (∃ r, (SI.new 4 3 13 6).signExtend 6 = .ok r ∧ r.Aligned) := by
  refine ⟨by decide, by decide, by decide, ⟨_, rfl, by decide⟩, ⟨_, rfl, by decide⟩, ⟨_, rfl, by decide⟩, ⟨_, rfl, by decide⟩⟩

/-- an UNALIGNED operand is re-aligned by `~`, `&`, `^`: `2[0,5]` at 3 bits is `{0,2,4}` -/
example : let u : SI := { bits := 3, stride := 2, lb := 0, ub := 5 }
    ¬ u.Aligned ∧ (∃ r, u.bitwiseNot = .ok r ∧ r.Aligned) ∧ (∃ r, u.bitwiseAnd (SI.new 3 0 6 6) = .ok r ∧ r.Aligned) := by
  refine ⟨by decide, ⟨_, rfl, by decide⟩, ⟨_, rfl, by decide⟩⟩

/-! ## bounded tests (not theorems) -/

theorem test_add_example : (SI.new 8 1 3 9).add (SI.new 8 2 0 6) = SI.new 8 1 3 15 := by decide

end Claripy.Props.C21
