import Claripy.VSA.Shift
/-! # C21 — strided-interval transfer functions are sound (theorems are added below as they are proved) -/
namespace Claripy.Props.C21
open Claripy.VSA

/-- bounded sanity fact (a test, not a theorem): the model's `add` on one pair -/
theorem test_add_example : (SI.new 8 1 3 9).add (SI.new 8 2 0 6) = SI.new 8 1 3 15 := by decide

end Claripy.Props.C21
