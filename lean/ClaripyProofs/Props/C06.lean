import Claripy.AST.Hashcons
/-!
# C06 — structurally equal expressions are one object; different ones never merge

* `C06_int_roundtrip` — the variable-length integer encoding of `_arg_serialize` is injective (decodable) for EVERY
  Python int, so integer arguments (values, widths, Extract bounds, …) never collide by themselves;
* `C06_table_*` — for any history of constructions and garbage-collection events (weak entries may vanish at any
  time), the table maps every key to a node with that key; a construction returns a node with the key of the one
  built — the live one if there is one (`C06_same_object`); hence, whenever the key function does not collide on the
  two nodes involved, the node returned IS the node built (`C06_never_merges`);
* `C06_pyhash_collision_*` — Python's `hash()` on integers, which is what identifies an annotation object in the key,
  DOES collide systematically: the negation of collision-freedom for annotation classes that hash integer fields
  with `hash()` (witnesses −1/−2 and x / x + 2^61 − 1).  The built-in annotation classes were repaired (`fix:` commit);
  user classes remain a recorded finding.
-/
namespace Claripy.Props.C06
open Claripy.Hashcons

/-! ### integers -/

theorem length_natBytes (len n : Nat) : (natBytes len n).length = len := by
  induction len generalizing n with
  | zero => rfl
  | succ k ih => simp [natBytes, ih]

theorem natOfBytes_natBytes (len n : Nat) : natOfBytes (natBytes len n) = n % 256 ^ len := by
  induction len generalizing n with
  | zero => simp [natBytes, natOfBytes, Nat.mod_one]
  | succ k ih =>
    simp only [natBytes, natOfBytes, ih]
    rw [Nat.pow_succ, Nat.mul_comm (256 ^ k) 256, Nat.mod_mul, Nat.add_comm]

theorem lt_two_pow_bitLength (n : Nat) : n < 2 ^ bitLength n := by
  unfold bitLength
  split
  · subst_vars; simp
  · exact Nat.lt_log2_self

theorem two_abs_lt (n : Int) : 2 * n.natAbs < 256 ^ intLen n := by
  have h1 := lt_two_pow_bitLength n.natAbs
  have h2 : bitLength n.natAbs + 1 ≤ 8 * intLen n := by unfold intLen; omega
  have h3 : (256 : Nat) ^ intLen n = 2 ^ (8 * intLen n) := by
    have : (256 : Nat) = 2 ^ 8 := by decide
    rw [this, ← Nat.pow_mul]
  rw [h3]
  calc 2 * n.natAbs < 2 * 2 ^ bitLength n.natAbs := by omega
    _ = 2 ^ (bitLength n.natAbs + 1) := by rw [Nat.pow_succ]; omega
    _ ≤ 2 ^ (8 * intLen n) := Nat.pow_le_pow_right (by decide) h2

/-- **C06 (integers)**: decoding the bytes `_arg_serialize` produces for an int gives the int back — for every int. -/
theorem C06_int_roundtrip (n : Int) : decodeInt (intBytes n) = n := by
  have hlt := two_abs_lt n
  unfold decodeInt intBytes
  simp only [length_natBytes, natOfBytes_natBytes]
  generalize hM : 256 ^ intLen n = M at hlt
  have hMpos : 0 < M := by rw [← hM]; exact Nat.pow_pos (by decide)
  have hMi : ((256 : Int) ^ intLen n) = (M : Int) := by rw [← hM]; simp
  rw [hMi]
  by_cases hn : 0 ≤ n
  · have e1 : n % (M : Int) = n := Int.emod_eq_of_lt hn (by omega)
    rw [e1]
    have e2 : n.toNat % M = n.toNat := Nat.mod_eq_of_lt (by omega)
    rw [e2]
    have : 2 * n.toNat < M := by omega
    simp only [this, if_true]
    omega
  · have e1 : n % (M : Int) = n + M := by
      have h0 : (n + (M : Int)) % (M : Int) = n % (M : Int) := Int.add_emod_right ..
      rw [← h0]
      exact Int.emod_eq_of_lt (by omega) (by omega)
    rw [e1]
    have e2 : (n + (M : Int)).toNat % M = (n + (M : Int)).toNat := Nat.mod_eq_of_lt (by omega)
    rw [e2]
    have : ¬ 2 * (n + (M : Int)).toNat < M := by omega
    simp only [this, if_false]
    omega

theorem C06_intBytes_injective (a b : Int) (h : intBytes a = intBytes b) : a = b := by
  rw [← C06_int_roundtrip a, ← C06_int_roundtrip b, h]

/-- **an integer argument never looks like `None`, `True` or `False`** (their one-byte images are 0x0f, 0x1f, 0x2e): 0 is
the single byte 0x00 and every other integer takes at least two bytes — which is why `(bit_length + 15) // 8` and not the
minimal width is the right length (`BVV(15, n)` versus the empty interval `BVV(None, n)`) -/
theorem C06_int_not_sentinel (n : Int) : argBytes (.int n) ≠ argBytes .none ∧ argBytes (.int n) ≠ argBytes .true ∧
    argBytes (.int n) ≠ argBytes .false := by
  simp only [argBytes]
  by_cases h0 : n = 0
  · subst h0
    refine ⟨?_, ?_, ?_⟩ <;> decide
  · have hlen : 2 ≤ (intBytes n).length := by
      simp only [intBytes, length_natBytes, intLen, bitLength]
      have : n.natAbs ≠ 0 := by omega
      simp only [this, if_false]
      omega
    refine ⟨?_, ?_, ?_⟩ <;> intro h <;> rw [h] at hlen <;> simp at hlen

/-! ### floats -/

theorem natBytes8_injective (a b : Nat) (ha : a < 18446744073709551616) (hb : b < 18446744073709551616)
    (h : natBytes 8 a = natBytes 8 b) : a = b := by
  have h1 := natOfBytes_natBytes 8 a
  have h2 := natOfBytes_natBytes 8 b
  rw [h] at h1
  have : a % 256 ^ 8 = b % 256 ^ 8 := by rw [← h1, ← h2]
  have e : (256 : Nat) ^ 8 = 18446744073709551616 := by decide
  rw [e] at this
  omega

theorem floatBytes_cases (x : Nat) (hn : isNaNBits x = false) :
    (x = 9218868437227405312 ∧ floatBytes x = [105, 110, 102]) ∨
    (x = 18442240474082181120 ∧ floatBytes x = [45, 105, 110, 102]) ∨
    (x = 9223372036854775808 ∧ floatBytes x = [45, 48, 46, 48]) ∨
    (floatBytes x = natBytes 8 x) := by
  unfold floatBytes
  rw [hn]
  simp only [Bool.false_eq_true, if_false]
  by_cases h1 : x = 9218868437227405312
  · exact Or.inl ⟨h1, by simp [h1]⟩
  · by_cases h2 : x = 18442240474082181120
    · exact Or.inr (Or.inl ⟨h2, by simp [h2]⟩)
    · by_cases h3 : x = 9223372036854775808
      · exact Or.inr (Or.inr (Or.inl ⟨h3, by simp [h3]⟩))
      · exact Or.inr (Or.inr (Or.inr (by simp [h1, h2, h3])))

/-- **C06 (float arguments)**: two doubles that are not NaN serialise to the same bytes only if they are the same double
(bit for bit: `0.0` and `-0.0`, and values one unit in the last place apart, stay apart).  All NaNs serialise alike. -/
theorem C06_floatBytes_injective (a b : Nat) (ha : a < 18446744073709551616) (hb : b < 18446744073709551616)
    (na : isNaNBits a = false) (nb : isNaNBits b = false) (h : floatBytes a = floatBytes b) : a = b := by
  have la := length_natBytes 8 a
  have lb := length_natBytes 8 b
  rcases floatBytes_cases a na with ⟨ea, fa⟩ | ⟨ea, fa⟩ | ⟨ea, fa⟩ | fa <;>
  rcases floatBytes_cases b nb with ⟨eb, fb⟩ | ⟨eb, fb⟩ | ⟨eb, fb⟩ | fb <;>
  rw [fa, fb] at h <;>
  first
    | omega
    | (simp at h)
    | (rw [← h] at lb; simp at lb)
    | (rw [h] at la; simp at la)
    | exact natBytes8_injective a b ha hb h

example : floatBytes 4596373779694328218 ≠ floatBytes 4596373779694328219 := by decide   -- 0.3 and 0.30000000000000004…

/-! ### Python's integer hash collides -/

theorem C06_pyhash_collision_neg1_neg2 : pyHashInt (-1) = pyHashInt (-2) ∧ (-1 : Int) ≠ -2 := by decide

theorem C06_pyhash_collision_modulus (x : Nat) : pyHashInt ((x : Int) + (pyModulus : Nat)) = pyHashInt (x : Int) := by
  unfold pyHashInt
  have h1 : ¬ ((x : Int) + (pyModulus : Nat) < 0) := by omega
  have h2 : ¬ ((x : Int) < 0) := by omega
  have e : ((x : Int) + (pyModulus : Nat)).natAbs = x + pyModulus := by omega
  simp only [h1, h2, if_false, e, Int.natAbs_natCast, Nat.add_mod_right]

/-! ### the weak table -/

variable {κ ν : Type} [DecidableEq κ]

def KeyOK (key : ν → κ) (t : Table κ ν) : Prop := ∀ e ∈ t.entries, key e.2 = e.1

theorem get_some_key (key : ν → κ) (t : Table κ ν) (hk : KeyOK key t) (k : κ) (m : ν) (h : t.get k = some m) :
    key m = k := by
  unfold Table.get at h
  cases hf : t.entries.find? (fun e => e.1 = k) with
  | none => simp [hf] at h
  | some e =>
    simp [hf] at h
    subst h
    have hmem := List.mem_of_find?_eq_some hf
    have hp := List.find?_some hf
    simp at hp
    rw [hk e hmem]; exact hp

theorem construct_keyOK (key : ν → κ) (t : Table κ ν) (hk : KeyOK key t) (n : ν) : KeyOK key (construct key t n).2 := by
  unfold construct
  cases h : t.get (key n) with
  | some m => simpa using hk
  | none =>
    intro e he
    simp at he
    rcases he with rfl | he
    · rfl
    · exact hk e he

theorem collect_keyOK (key : ν → κ) (t : Table κ ν) (hk : KeyOK key t) (k : κ) : KeyOK key (collect t k) := by
  intro e he
  simp [collect] at he
  exact hk e he.1

theorem run_keyOK (key : ν → κ) (t : Table κ ν) (hk : KeyOK key t) (evs : List (Ev κ ν)) : KeyOK key (run key t evs) := by
  induction evs generalizing t with
  | nil => exact hk
  | cons ev rest ih =>
    cases ev with
    | build n => exact ih _ (construct_keyOK key t hk n)
    | collect k => exact ih _ (collect_keyOK key t hk k)

/-- **C06 (table)**: after ANY history of constructions and collections starting from the empty table, constructing `n`
returns a node with the key of `n`. -/
theorem C06_table_key (key : ν → κ) (evs : List (Ev κ ν)) (n : ν) :
    key (construct key (run key ⟨[]⟩ evs) n).1 = key n := by
  have hk : KeyOK key (run key (⟨[]⟩ : Table κ ν) evs) := run_keyOK key ⟨[]⟩ (by intro e he; simp at he) evs
  unfold construct
  cases h : (run key (⟨[]⟩ : Table κ ν) evs).get (key n) with
  | some m => exact get_some_key key _ hk (key n) m h
  | none => rfl

/-- **C06 (never merges)**: if the key function does not collide on the node built and the node returned, the node
returned is the node built — whatever happened before. -/
theorem C06_never_merges (key : ν → κ) (evs : List (Ev κ ν)) (n : ν)
    (hinj : ∀ m, key m = key n → m = n) : (construct key (run key ⟨[]⟩ evs) n).1 = n :=
  hinj _ (C06_table_key key evs n)

/-- **C06 (same object)**: constructing twice in a row (no collection in between) returns the same table entry,
and the table does not grow: a structurally identical live node is reused. -/
theorem C06_same_object (key : ν → κ) (t : Table κ ν) (n : ν) :
    let r1 := construct key t n
    construct key r1.2 n = (r1.1, r1.2) := by
  simp only
  unfold construct
  cases h : t.get (key n) with
  | some m => simp [h]
  | none => simp [Table.get]

/-- The converse really fails when keys collide: with a key that identifies two different nodes, the second
construction returns the FIRST node (this is the conflation the property forbids). -/
theorem C06_collision_merges :
    (construct (fun n : Int => pyHashInt n) (construct (fun n : Int => pyHashInt n) ⟨[]⟩ (-1)).2 (-2)).1 = -1 := by
  decide

end Claripy.Props.C06
