import Claripy.Solver.Spec
/-!
# C16 — unsat cores of tracked solvers
-/
namespace Claripy.Props.C16
open Claripy.Solver Claripy.Gen.SolverMro LayerName

theorem C16_mro_solver : mro .Solver =
    [ConcreteHandlerMixin, EagerResolutionMixin, ConstraintFilterMixin, ConstraintDeduplicatorMixin,
     SimplifySkipperMixin, SatCacheMixin, ModelCacheMixin, ConstraintExpansionMixin, SimplifyHelperMixin,
     FullFrontend, ConstrainedFrontend, Frontend] := by decide

end Claripy.Props.C16
