import ClaripyProofs.Lemmas.Solver.Core
/-!
# C16 — unsat cores of tracked solvers

Proved (Z3-object level, every oracle): after `check(assumptions)` answered `unsat`, `BackendZ3._unsat_core` returns
only names of constraints asserted on that solver object (so the frontend maps them back to constraints the user
added), and the constraints they name are unsatisfiable together with the unnamed assertions and the assumptions
whenever the core Z3 reported is one (`CoreOk`, validated by the brute-force judge on every recorded core).
The frontend layers above (`FullFrontend.unsat_core`, `SatCacheMixin` caching the core) are covered by the trace
correspondence and the brute-force judge, see design_notes/C16.md.
-/
namespace Claripy.Props.C16
open Claripy.Solver Claripy.Gen.SolverMro LayerName

theorem C16_mro_solver : mro .Solver =
    [ConcreteHandlerMixin, EagerResolutionMixin, ConstraintFilterMixin, ConstraintDeduplicatorMixin,
     SimplifySkipperMixin, SatCacheMixin, ModelCacheMixin, ConstraintExpansionMixin, SimplifyHelperMixin,
     FullFrontend, ConstrainedFrontend, Frontend] := by decide

/-- the names `_unsat_core` returns: exactly the names of asserted constraints that Z3 put in its core -/
theorem C16_core_ids (o : Z3Obj) (i : Nat) :
    i ∈ coreIds o ↔ (∃ c ∈ o.asserted, c.tag = .con i) ∧ i ∈ o.lastCore := mem_coreIds o i

/-- `check` then `_unsat_core` -/
theorem C16_core_after_check (E : Env) (r : Nat) (asm : List ZCon) (s : St) (hr : r < s.objs.length) :
    match z3Check E r asm s with
    | (.ok none, s1) =>
        ∃ core, E.oracle { asserted := (objAt s r).asserted, assumptions := asm } s.tick = .unsat core ∧
          (objAt s1 r).frames = (objAt s r).frames ∧
          ∃ ids, z3UnsatCore r s1 = (.ok ids, s1) ∧
            (∀ i ∈ ids, ∃ c ∈ (objAt s r).asserted, c.tag = .con i) ∧
            (CoreOk { asserted := (objAt s r).asserted, assumptions := asm } core →
              ∀ a, ¬ (SatBy (namedBy (objAt s r).asserted ids) a ∧
                      SatBy ((objAt s r).asserted.filter fun c => !c.isNamed) a ∧ SatBy asm a))
    | _ => True :=
  z3UnsatCore_after_check E r asm s hr

end Claripy.Props.C16
